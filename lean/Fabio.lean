-- Root of the library: every model, property and facts module (built by setup.sh; the checks rebuild
-- only what they need).
import Fabio.Basic
import Fabio.Audit
import Fabio.Driver.Proto
import Fabio.Driver.C20
import Fabio.Model.C20
import Fabio.Props.C20
import Fabio.Props.C20Facts
