-- Library root. The checks and setup.sh build modules explicitly (Props/*, Driver/*), so this only names
-- the shared base.
import Fabio.Basic
import Fabio.Audit
import Fabio.Driver.Proto
