import Fabio.Driver.Proto
import Fabio.Driver.C20
open Fabio.Driver
def allStreams : List (String × Handler) := Fabio.Driver.C20.streams
def main : IO Unit := run allStreams
