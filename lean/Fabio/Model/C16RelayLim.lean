import Fabio.Model.C16Relay
import Fabio.Model.C16Serve
/-!
C16, round 4 — the relay with the message limits `newGrpcProxy` and `newConnection` install (core Lean only).

`Model/C16Serve.lean: outcome` states as an assumption what a caller ends up with when a message exceeds
`proxy.grpcmaxrxmsgsize` / `proxy.grpcmaxtxmsgsize`.  Here the limits sit where grpc-go enforces them, at three
micro-steps of the relay of `Model/C16Relay.lean`:

* `forwardServerToClient`'s `src.RecvMsg` on the caller's stream (listener option `grpc.MaxRecvMsgSize(rx)`): the
  server transport answers the call itself with `ResourceExhausted` (`serverStream.RecvMsg` writes the status of a
  non-EOF error before it returns), the forwarder ends with an error, the handler's later `Internal` goes nowhere;
* `forwardClientToServer`'s `src.RecvMsg` on the backend's stream (`grpc.MaxCallRecvMsgSize(rx)` on the pooled
  connection): the client stream ends with the RPC error `ResourceExhausted`, which the handler returns like any
  backend status (trailers: none);
* `forwardClientToServer`'s `dst.SendMsg` on the caller's stream (`grpc.MaxSendMsgSize(tx)`): the server transport
  writes `ResourceExhausted` itself.

A message is a hex string; its size is the number of encoded bytes.
-/
namespace Fabio.Model.C16.RelayLim
open Fabio.Model.C16.Spec (SMD)
open Fabio.Model.C16.Relay Fabio.Model.C16.Serve

def size (m : Msg) : Nat := m.length / 2

/-- the status grpc-go answers with when a message is over a limit -/
def exhausted : Status := { code := codeResourceExhausted, message := "grpc: received message larger than max" }

def stepL (l : Limits) (s : St) (e : Ev) : St :=
  match e with
  | .s2cStep =>
    match s.s2c, s.qA with
    | .recv, m :: r =>
      if s.dFin.isNone && !l.reqOK (size m) then
        { s with qA := r, s2c := .failed, dFin := some ([], exhausted) }
      else step s e
    | _, _ => step s e
  | .c2sStep =>
    match s.c2s, s.qC with
    | .recv, m :: r =>
      if decide (size m ≤ l.rx) then step s e else { s with qC := r, c2s := .done [] exhausted }
    | .send m, _ =>
      if decide (size m ≤ l.tx) then step s e
      else if s.dFin.isNone then { s with c2s := .done [] exhausted, dFin := some ([], exhausted) }
      else { s with c2s := .done [] exhausted }
    | _, _ => step s e
  | _ => step s e

def runL (l : Limits) (s : St) (es : List Ev) : St := es.foldl (stepL l) s

/-- every message the two ends send in `es` is within the limits (`Limits.allOK` on the event list) -/
def within (l : Limits) (es : List Ev) : Bool :=
  es.all fun e =>
    match e with
    | .callerSend m => l.reqOK (size m)
    | .backendSend m => l.repOK (size m)
    | _ => true

end Fabio.Model.C16.RelayLim
