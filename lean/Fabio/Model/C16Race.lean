import Fabio.Model.C16
/-!
C16, round 4 — **any number** of callers racing for one key (core Lean only).

`Model/C16.lean: Race` interleaves two threads and `Props/C16.lean: race_outcomes` evaluates all 64 schedules.
Here the same micro-steps (`Race.tstep`: read under `RLock` / dial / `Set` under `Lock`) run in `N` threads, `N`
arbitrary, under an arbitrary schedule (a list of thread indices of any length; an index that names no thread,
or a thread that has finished, is a stutter step), starting from an arbitrary pool.
-/
namespace Fabio.Model.C16.RaceN
open Fabio.Model.Route (Str)
open Fabio.Model.C16 Fabio.Model.C16.Race

structure NState where
  pool : Pool := []
  next : Nat := 0
  /-- connections closed by `Set` -/
  closed : List Nat := []
  ts : List TState := []
deriving DecidableEq, Repr

/-- thread `i` performs its next micro-step -/
def step (fixed : Bool) (k : Str) (s : NState) (i : Nat) : NState :=
  match s.ts[i]? with
  | none => s
  | some t =>
    let r := tstep fixed k s.pool s.next s.closed t
    { pool := r.1, next := r.2.1, closed := r.2.2.1, ts := s.ts.set i r.2.2.2 }

def run (fixed : Bool) (k : Str) (s : NState) (sched : List Nat) : NState := sched.foldl (step fixed k) s

/-- `n` callers about to call `Get` on a pool `p` whose dial counter stands at `next` -/
def start (p : Pool) (next n : Nat) : NState := { pool := p, next := next, ts := List.replicate n .start }

/-- connections dialled since `next0` that are open, in no pool and in nobody's hands -/
def orphans (next0 : Nat) (s : NState) : List Nat :=
  (List.range s.next).filter fun i =>
    decide (next0 ≤ i) && !(s.pool.any fun kc => kc.2.id == i) && !s.closed.contains i
      && !s.ts.contains (.dialled i)

def allDone (s : NState) : Bool := s.ts.all isDone

end Fabio.Model.C16.RaceN
