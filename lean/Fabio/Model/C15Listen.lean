import Fabio.Model.C15
/-!
C15 — `parseListen` / `parseListeners` (`config/load.go`): what a listener entry of `proxy.addr` / `ui.addr`
becomes, and which entries `load` rejects.  "An accepted configuration can be run" needs, for listeners, that
the protocol stored in `Listen.Proto` is one `main.startServers` has a case for (its `default` branch is
`exit.Fatal("Invalid protocol")`).

`parseListen` ranges over a Go map, i.e. in an unspecified order.  The model is order-free: an entry is rejected
when *any* key fails its check (which error is reported first is not modelled), and for an accepted entry every
field is a function of the map: `Proto` is the value of `proto` if present, else `https` when there is a `cs`
key, else `http` (the `if l.Proto == "" { l.Proto = "https" }` under `cs` and the later `proto` assignment give
the same result in either order).  `Addr` when both the positional address and `addr=` are given used to depend
on that order (defect D15-3, the entry is now rejected: `addrKeys`, `LErr.twoAddrs`).

External: `go-sockaddr` templates (`addrOf`), `time.ParseDuration`, `parseTLSVersion`, `parseTLSCiphers`
(`fieldOK key value`) are parameters; the driver instantiates them with oracles computed by the Go side.
-/
namespace Fabio.Model.C15
open Fabio

/-- the protocol names `parseListen` accepts (tied to the source by `C15Facts.listen_protos_model`) -/
def acceptedProtos : List Str :=
  ["tcp".toList, "tcp+sni".toList, "tcp-dynamic".toList, "http".toList, "https".toList, "grpc".toList,
   "grpcs".toList, "https+tcp+sni".toList, "prometheus".toList]

/-- protocols that may carry a certificate source -/
def csProtos : List Str :=
  ["https".toList, "tcp".toList, "tcp-dynamic".toList, "grpcs".toList, "prometheus".toList, "https+tcp+sni".toList]

structure ListenEnv where
  /-- `gs.Parse` (go-sockaddr template): `none` = error -/
  addrOf : Str → Option Str
  /-- durations (`rt wt it pxytimeout refresh`), `tlsmin`/`tlsmax`, `tlsciphers`: the value parses -/
  fieldOK : Str → Str → Bool
  /-- names defined by `proxy.cs` -/
  csNames : List Str

structure LListen where
  addr : Str
  proto : Str
  cs : Str
deriving Repr, DecidableEq

inductive LErr where
  | field (key : Str)        -- a key's own check failed
  | needAddr
  | twoAddrs                 -- positional address and `addr=` in one entry (D15-3 repair)
  | csNeedsTLSProto
  | protoNeedsCs
deriving Repr, DecidableEq

def checkedKeys : List Str :=
  ["rt".toList, "wt".toList, "it".toList, "pxytimeout".toList, "refresh".toList, "tlsmin".toList,
   "tlsmax".toList, "tlsciphers".toList]

/-- one `case` of the `switch k` in `parseListen`: does this key/value make the function return an error? -/
def keyBad (E : ListenEnv) (k v : Str) : Bool :=
  if k = [] ∨ k = "addr".toList then (E.addrOf v).isNone
  else if k = "proto".toList then !acceptedProtos.contains v
  else if k = "cs".toList then !E.csNames.contains v
  else if checkedKeys.contains k then !E.fieldOK k v
  else false

/-- the address keys present (before the repair of D15-3 the real code kept, of two, whichever the map iteration
visited last) -/
def addrKeys (cfg : Map) : List Str := (cfg.filter (fun kv => kv.1 = [] ∨ kv.1 = "addr".toList)).map (·.1)

/-- `l.Proto` after the loop and the `if l.Proto == "" { l.Proto = "http" }` that follows it -/
def protoOf (cfg : Map) : Str :=
  match cfg.get "proto".toList with
  | some v => v
  | none => if (cfg.get "cs".toList).isSome then "https".toList else "http".toList

/-- `csName` -/
def csOf (cfg : Map) : Str := (cfg.get "cs".toList).getD []

/-- `l.Addr` -/
def addrOfCfg (E : ListenEnv) (cfg : Map) : Str :=
  match (match cfg.get [] with | some a => some a | none => cfg.get "addr".toList) with
  | some a => (E.addrOf a).getD []
  | none => []

def parseListenM (E : ListenEnv) (cfg : Map) : Except LErr LListen :=
  if (addrKeys cfg).length > 1 then .error .twoAddrs else
  match cfg.find? (fun kv => keyBad E kv.1 kv.2) with
  | some kv => .error (.field kv.1)
  | none =>
    if addrOfCfg E cfg = [] then .error .needAddr
    else if csOf cfg ≠ [] ∧ !csProtos.contains (protoOf cfg) then .error .csNeedsTLSProto
    else if csOf cfg = [] ∧ (protoOf cfg = "https".toList ∨ protoOf cfg = "grpcs".toList) then .error .protoNeedsCs
    else .ok { addr := addrOfCfg E cfg, proto := protoOf cfg, cs := csOf cfg }

/-- `parseListeners`: every map of the kvslice, the first rejected one rejects the option -/
def parseListenersM (E : ListenEnv) : List Map → Except LErr (List LListen)
  | [] => .ok []
  | m :: ms =>
    match parseListenM E m with
    | .error e => .error e
    | .ok l =>
      match parseListenersM E ms with
      | .error e => .error e
      | .ok ls => .ok (l :: ls)

/-! ### the listener rules inside `load` -/

/-- what the external parsers answer (everything of `ListenEnv` except the certificate-source names, which
`load` computes from `proxy.cs`) -/
structure ListenExt where
  addrOf : Str → Option Str
  fieldOK : Str → Str → Bool

/-- `cs[src.Name] = src` in `parseCertSources`: the names defined by `proxy.cs` -/
def csNamesOf (unq : Str → Option Str) (raw : Str) : List Str :=
  match parseKVSlice unq raw with
  | .ok (.ok ms) => ms.filterMap (fun m => m.get "cs".toList)
  | _ => []

def listenEnvOf (unq : Str → Option Str) (X : ListenExt) (vals : List Resolved) : ListenEnv :=
  { addrOf := X.addrOf, fieldOK := X.fieldOK, csNames := csNamesOf unq (rawOf vals "proxy.cs".toList) }

/-- `cfg.UI.Listen` (`none`: `ui.addr` is empty, the zero `Listen` stays) and `cfg.Listen`, as `load` computes
them from the resolved values; the kvslice texts have been parsed once already by `validate` (a text that does
not parse never gets here), `ui.addr` must hold exactly one entry. -/
def listenersOf (unq : Str → Option Str) (X : ListenExt) (vals : List Resolved) :
    Except LErr (List LListen × Option LListen) :=
  let E := listenEnvOf unq X vals
  let uiRaw := rawOf vals "ui.addr".toList
  let ui : Except LErr (Option LListen) :=
    if uiRaw = [] then .ok none
    else match parseKVSlice unq uiRaw with
      | .ok (.ok [m]) => (parseListenM E m).map some
      | _ => .error .needAddr
  match ui with
  | .error e => .error e
  | .ok u =>
    match parseKVSlice unq (rawOf vals "proxy.addr".toList) with
    | .ok (.ok ms) =>
      match parseListenersM E ms with
      | .error e => .error e
      | .ok ls => .ok (ls, u)
    | _ => .error .needAddr

/-- the listener rules as part of `validate`'s parameter `extra`: a listener `parseListen` rejects makes `load`
return an error; everything `load` checks beyond that stays the abstract `rest` -/
def listenExtra (unq : Str → Option Str) (X : ListenExt) (rest : List Resolved → Option Err) :
    List Resolved → Option Err :=
  fun vals =>
    match listenersOf unq X vals with
    | .error _ => some (.other "listener".toList)
    | .ok _ => rest vals

/-- what `main.startServers` does with a listener: `none` = the `default:` branch (`exit.Fatal`) -/
def startable (handled : List Str) (l : LListen) : Bool := handled.contains l.proto

end Fabio.Model.C15
