/-!
# C18 — shutdown bookkeeping (core Lean only; linked into the model driver)

Time is a natural number of ticks (the correspondence uses milliseconds). A piece of in-flight work has the
tick at which it would end by itself, or `none` = never (an endless gRPC stream, a TCP tunnel nobody closes).

What the code does (`/repo/proxy/serve.go`, `proxy/tcp/server.go`, `proxy/grpc_handler.go`,
`proxy/inetaf_tcpproxy.go`), restated as per-type contracts:

* `proxy.Shutdown(wait)` at tick `t0` copies the registry, installs an empty one, starts one goroutine per
  server with `context.WithTimeout(Background, wait)` (deadline `t0 + wait`), and returns after `wg.Wait()`,
  i.e. at the maximum of the servers' return ticks (whatever order the map iteration produced).
* `http.Server.Shutdown(ctx)` (net/http, trusted): closes the listeners first, returns when every connection
  is idle or when `ctx` ends, whichever is first; it does **not** close the connections that are still active.
* `tcp.Server.Shutdown(ctx)`: `closeListeners()`, then `<-ctx.Done()` unconditionally (also with no open
  connection), then `closeConns()`.
* `gRPCServer.Shutdown(ctx)`: as shipped, `GracefulStop()` (grpc-go, trusted: closes the listeners, returns
  when the last stream has ended) and `ctx` is ignored (`GrpcContract.ignoresDeadline`, D22); repaired,
  `GracefulStop()` raced against `ctx.Done()` followed by `Stop()` (`GrpcContract.stopsAtDeadline`).
* `InetAfTCPProxyServer.Shutdown(ctx)` (proto `https+tcp+sni`): closes the outer listener, then shuts its
  children (a `tcp.Server` and an `http.Server`) down concurrently with the same `ctx` and waits for all.
-/
namespace Fabio.Model.C18

/-- A point in time: `some n` = tick `n`, `none` = never. -/
abbrev Time := Option Nat

/-- `a ≤ b` with `none` as ∞. -/
def tle : Time → Time → Bool
  | _, none => true
  | none, some _ => false
  | some a, some b => decide (a ≤ b)

def tmax : Time → Time → Time
  | some a, some b => some (max a b)
  | _, _ => none

def tmin : Time → Time → Time
  | some a, some b => some (min a b)
  | some a, none => some a
  | none, b => b

/-- The accept loop / connection handling of one listener. `tcp` covers `tcp.Proxy`, `tcp.SNIProxy` and
`tcp.DynamicProxy`: all three are handlers of the same `tcp.Server`. -/
inductive Kind where
  | http | tcp | grpc
deriving DecidableEq, Repr, BEq

/-- What `gRPCServer.Shutdown` does with its context. -/
inductive GrpcContract where
  | ignoresDeadline   -- `s.server.GracefulStop()` only (the code as shipped, D22)
  | stopsAtDeadline   -- GracefulStop raced against ctx.Done(), then Stop() (repaired)
deriving DecidableEq, Repr, BEq

/-- One listener with the work that is in flight on it when shutdown begins (natural end ticks).
`hijacked` = websocket sessions on an http listener: `proxy/ws_handler.go` hijacks the connection, after which
`http.Server` no longer knows it — its `Shutdown` neither waits for it nor closes it. -/
structure Leaf where
  kind : Kind
  work : List Time
  hijacked : List Time := []
deriving Repr, BEq

/-- everything in flight through a listener -/
def Leaf.allWork (l : Leaf) : List Time := l.work ++ l.hijacked

/-- A registered server: one listener, or the `https+tcp+sni` composite whose children share one outer
listener. -/
inductive Server where
  | single (l : Leaf)
  | multi (children : List Leaf)
deriving Repr, BEq

def Server.leaves : Server → List Leaf
  | .single l => [l]
  | .multi cs => cs

/-- The tick at which the last piece of work has ended (never earlier than `t0`). -/
def drain (t0 : Nat) : List Time → Time
  | [] => some t0
  | w :: ws => tmax w (drain t0 ws)

/-- Return tick of one listener's `Shutdown(ctx)` called at `t0` with deadline `t0 + wait`. -/
def leafReturn (g : GrpcContract) (t0 wait : Nat) (l : Leaf) : Time :=
  match l.kind with
  | .http => tmin (drain t0 l.work) (some (t0 + wait))
  | .tcp => some (t0 + wait)
  | .grpc =>
    match g with
    | .ignoresDeadline => drain t0 l.work
    | .stopsAtDeadline => tmin (drain t0 l.work) (some (t0 + wait))

/-- Maximum of a list of return ticks, never earlier than `t0` (a WaitGroup over no goroutine returns at once). -/
def maxReturn (t0 : Nat) : List Time → Time
  | [] => some t0
  | r :: rs => tmax r (maxReturn t0 rs)

def serverReturn (g : GrpcContract) (t0 wait : Nat) (s : Server) : Time :=
  match s with
  | .single l => leafReturn g t0 wait l
  | .multi cs => maxReturn t0 (cs.map (leafReturn g t0 wait))

/-- `proxy.Shutdown(wait)` at `t0` over the servers in the order the map iteration happened to yield. -/
def shutdownReturn (g : GrpcContract) (t0 wait : Nat) (srvs : List Server) : Time :=
  maxReturn t0 (srvs.map (serverReturn g t0 wait))

/-! ### Websocket sessions

A websocket session runs on a hijacked connection. No server of the registry knows it, so the fan-out above does not
wait for it. As shipped `proxy.Shutdown` did nothing about them (`WsContract.notWaitedFor`, D31); repaired, it counts
the open sessions (`proxy/ws_sessions.go`) and waits for them in one more goroutine of the same WaitGroup, with the
same timeout (`WsContract.waitedFor`). Sessions still open at the deadline are left alone, like active HTTP
connections. -/

inductive WsContract where
  | notWaitedFor
  | waitedFor
deriving DecidableEq, Repr, BEq

/-- every hijacked session of the process (the counter is package-wide, not per listener) -/
def allHijacked (srvs : List Server) : List Time :=
  srvs.flatMap (fun s => s.leaves.flatMap (·.hijacked))

/-- return tick of the goroutine that waits for the websocket sessions -/
def wsReturn (w : WsContract) (t0 wait : Nat) (hj : List Time) : Time :=
  match w with
  | .notWaitedFor => some t0
  | .waitedFor => tmin (drain t0 hj) (some (t0 + wait))

/-- `proxy.Shutdown(wait)` at `t0` as a whole: the servers' fan-out and the wait for the websocket sessions, one
WaitGroup. -/
def shutdownAll (w : WsContract) (g : GrpcContract) (t0 wait : Nat) (srvs : List Server) : Time :=
  tmax (shutdownReturn g t0 wait srvs) (wsReturn w t0 wait (allHijacked srvs))

/-- What happens to one piece of in-flight work. `open` = neither finished nor cut by the time its server's
`Shutdown` has returned (net/http leaves active connections alone; they die with the process). -/
inductive Fate where
  | completed | cut | stillOpen
deriving DecidableEq, Repr, BEq

def fate (g : GrpcContract) (t0 wait : Nat) (k : Kind) (e : Time) : Fate :=
  if tle e (some (t0 + wait)) then .completed
  else match k with
    | .http => .stillOpen
    | .tcp => .cut
    | .grpc =>
      match g with
      | .stopsAtDeadline => .cut
      | .ignoresDeadline => match e with
        | none => .stillOpen
        | some _ => .completed

/-- Every listener type closes its listening socket(s) before it waits for anything: the tick is `t0`. -/
def listenersClosedAt (t0 : Nat) (_ : Server) : Nat := t0

/-- A server accepts a new connection at tick `t` iff its listeners have not been closed yet. -/
def accepts (closedAt : Option Nat) (t : Nat) : Bool :=
  match closedAt with
  | none => true
  | some c => decide (t < c)

/-! ## The registry and the whole `Shutdown` call -/

abbrev Registry := List (String × Server)

structure ShutdownResult where
  /-- the package-level registry after the call -/
  registry : Registry
  /-- per server of the old registry: tick at which it stopped accepting -/
  closed : List (String × Nat)
  /-- per server: tick at which its `Shutdown(ctx)` returned -/
  returns : List (String × Time)
  /-- tick at which `proxy.Shutdown` returned -/
  ret : Time
deriving Repr

def shutdown (g : GrpcContract) (t0 wait : Nat) (reg : Registry) : ShutdownResult :=
  { registry := []
    closed := reg.map (fun p => (p.1, listenersClosedAt t0 p.2))
    returns := reg.map (fun p => (p.1, serverReturn g t0 wait p.2))
    ret := shutdownReturn g t0 wait (reg.map (·.2)) }

/-! ## Starting listeners (`proxy.ListenTCP` + `serve`)

Every `ListenAndServe*` binds its address with one `net.ListenTCP` call — a busy address is an error handed back to
the caller (main.go: `exit.Fatal`), there is no retry and no wait — and then `serve()` inserts the server into the
registry under `mu` before it serves. A *start* is summarised by the tick at which that insert happens. -/

inductive StartResult where
  | registered | bindError
deriving DecidableEq, Repr

/-- one `ListenAndServe*` call against the registry -/
def listenAndServe (busy : Bool) (addr : String) (srv : Server) (reg : Registry) : Registry × StartResult :=
  if busy then (reg, .bindError) else (reg ++ [(addr, srv)], .registered)

structure Start where
  addr : String
  srv : Server
  /-- tick of the registry insert; `none` = the bind failed, the server never existed -/
  registersAt : Option Nat
deriving Repr

/-- the snapshot `proxy.Shutdown` takes when it gets the lock at `t0`: the starts that had registered by then -/
def snapshot (t0 : Nat) (starts : List Start) : Registry :=
  starts.filterMap (fun s => match s.registersAt with
    | some r => if r ≤ t0 then some (s.addr, s.srv) else none
    | none => none)

/-- does the listener of a start accept a connection at tick `t`, given one `proxy.Shutdown` at `t0`?
Registered by `t0`: from its registration until `t0`. Registered later: from then on, for ever — it went into the
fresh registry, which nothing shuts down. Bind failed: never. -/
def startAccepts (t0 : Nat) (s : Start) (t : Nat) : Bool :=
  match s.registersAt with
  | none => false
  | some r => if r ≤ t0 then decide (r ≤ t ∧ t < t0) else decide (r ≤ t)

/-! ## main.go's starters as starts

Who calls `ListenAndServe*` in the process: `startServers` once per configured listener at start-up, and the
`tcp-dynamic` refresher on every wake-up, for every port of the table nobody listens on. A wake-up is atomic in the
model (test of `shuttingDown`, free-port probe and registration at one tick — the residual race of 4001ac4 is the
stated gap). `flagAt` = tick at which the exit handler sets `shuttingDown`; `proxy.Shutdown` takes its snapshot at
`t0 ≥ flagAt` (deregistration and the grace period lie between). -/

/-- the starts one refresher wake-up at tick `tick` makes: a tcp listener on every port in `ports` (the ports of the
table that were free at that moment); none once the flag is set, if the refresher looks at it -/
def wakeUpStarts (stopsOnShutdown : Bool) (flagAt tick : Nat) (ports : List String) : List Start :=
  if stopsOnShutdown && decide (flagAt ≤ tick) then []
  else ports.map (fun p => { addr := p, srv := .single { kind := .tcp, work := [] }, registersAt := some tick })

/-- all wake-ups: `(tick, free ports at that tick)` -/
def refresherStarts (stopsOnShutdown : Bool) (flagAt : Nat) (wakeUps : List (Nat × List String)) : List Start :=
  wakeUps.flatMap (fun w => wakeUpStarts stopsOnShutdown flagAt w.1 w.2)

/-- the listeners `startServers` brings up: each registers at its own tick, or never (bind error ⇒ `exit.Fatal`) -/
def startupStarts (cfg : List (String × Server × Option Nat)) : List Start :=
  cfg.map (fun c => { addr := c.1, srv := c.2.1, registersAt := c.2.2 })

/-! ## The registry lock

`proxy.Shutdown` starts with `mu.Lock()`. Its first effect — the snapshot, after which listeners get closed —
happens when it *gets* the lock, not when it is called. Everybody else who takes `mu` (`serve`, `Close`,
`CloseProxy`, called by the tcp-dynamic refresher when the route of a dynamic port disappears) is assumed to
hold it for O(1) bookkeeping only (map read/insert/delete, the non-blocking `srv.Close()`, a log line), i.e.
for zero ticks: `heldUntil ≤ called`. The assumption is tied to the source by the regenerated list of calls made
between `mu.Lock()` and `mu.Unlock()` in each of these functions (`C18Facts.registry_lock_only_bookkeeping`). -/

/-- Tick at which a `proxy.Shutdown` called at `called` gets the registry lock, when somebody holds it until
`heldUntil`. -/
def lockAcquired (called heldUntil : Nat) : Nat := max called heldUntil

/-- `proxy.Shutdown(wait)` *called* at tick `called` while the lock is held until `heldUntil`. -/
def shutdownCalled (g : GrpcContract) (called heldUntil wait : Nat) (srvs : List Server) : Time :=
  shutdownReturn g (lockAcquired called heldUntil) wait srvs

/-- `proxy.CloseProxy(addr)`: `srv.Close()` (listeners and connections closed at once) and the entry deleted. -/
def closeProxy (addr : String) (reg : Registry) : Registry := reg.filter (fun p => p.1 != addr)

/-! ## The process around it: exit handler and the `tcp-dynamic` refresher (main.go)

`main.go`'s exit handler sets `shuttingDown`, deregisters, sleeps the grace period and calls
`proxy.Shutdown`. The `tcp-dynamic` refresher goroutine wakes every `refresh`, and for every port of the
routing table that it can bind it starts a fresh `ListenAndServeTCP`, which registers itself in whatever
registry is current. As shipped the refresher never looks at `shuttingDown` (D30). -/

structure Proc where
  registry : Registry
  shuttingDown : Bool
deriving Repr

/-- One wake-up of the refresher. `ports` = the tcp ports of the routing table; a port is free iff no
registered server listens on it. `stopsOnShutdown` = the repaired refresher returns once `shuttingDown` is set. -/
def refresherTick (stopsOnShutdown : Bool) (ports : List String) (p : Proc) : Proc :=
  if stopsOnShutdown && p.shuttingDown then p
  else
    { p with registry :=
        ports.foldl (fun reg port =>
          if reg.any (fun q => q.1 == port) then reg
          else reg ++ [(port, Server.single { kind := .tcp, work := [] })]) p.registry }

/-- The exit handler (grace sleep elided: nothing in the model happens during it). -/
def exitHandler (g : GrpcContract) (t0 wait : Nat) (p : Proc) : Proc × ShutdownResult :=
  let r := shutdown g t0 wait p.registry
  ({ registry := r.registry, shuttingDown := true }, r)

def refresherTicks (stopsOnShutdown : Bool) (ports : List String) : Nat → Proc → Proc
  | 0, p => p
  | n + 1, p => refresherTicks stopsOnShutdown ports n (refresherTick stopsOnShutdown ports p)

/-! ## The process: signal → exit handler → exit

`main.go`: the exit handler (run by package `exit`, see `Model/C18Exit.lean`) sets `shuttingDown`, deregisters, sleeps
the grace period and calls `proxy.Shutdown(wait)`; `main` returns from `exit.Wait()` when the handler has returned, and
the process ends. Whatever is still open then is cut by the operating system. -/

/-- tick at which the process ends: the handler starts at `s`, `proxy.Shutdown` at `s + grace` -/
def processExit (w : WsContract) (g : GrpcContract) (s grace wait : Nat) (srvs : List Server) : Time :=
  shutdownAll w g (s + grace) wait srvs

/-- fate of a piece of work seen from outside the process -/
def processFate (exit : Time) (e : Time) : Fate :=
  if tle e exit then .completed else .cut

/-! ## Classes observed by the correspondence -/

/-- Duration class of `proxy.Shutdown` relative to the wait: `early` (strictly before the deadline),
`deadline` (at the deadline; measured: within the slack), `over` (later, or never). -/
inductive DurClass where
  | early | deadline | over
deriving DecidableEq, Repr, BEq

def durClass (t0 wait : Nat) (ret : Time) : DurClass :=
  match ret with
  | none => .over
  | some r => if r < t0 + wait then .early else if r ≤ t0 + wait then .deadline else .over

end Fabio.Model.C18
