import Fabio.Model.C12
/-!
C12, round 3 — the glue around the gate:

* how `Route.addTarget` turns the options of a route command (`allow=`, `deny=`, `auth=`, `redirect=`) into the
  fields of a `Target` the proxies read (`strconv.Atoi` and the 3xx range check of `redirect=` included);
* the proxies over a route with **several targets**: the lookup hands out one target, *that* target's rules and
  scheme judge the request, and the only upstream a connection is attempted to is the upstream of that target —
  whether the attempt succeeds or not (`Result.dialFailed`);
* the **first requests for a freshly built target arriving together**: request threads as micro-steps on the
  shared rule map, schedules as lists of actions.

Core Lean only. Everything is total; there is nothing here that can panic.
-/
namespace Fabio.Model.C12

/-! ## `addTarget`: options → target -/

def isDigit (c : Char) : Bool := '0' ≤ c && c ≤ '9'

def digitsVal (ds : List Char) : Nat := ds.foldl (fun a c => a * 10 + (c.toNat - 48)) 0

/-- `strconv.Atoi` as far as its result is used by `addTarget`: an optional sign followed by at least one decimal
digit and nothing else (no blanks, no `_`, no base prefix). Values outside `int` make Go return a range error; the
model returns the number, and the caller's range check `300 ≤ n ≤ 399` discards both alike. -/
def goAtoi (s : List Char) : Option Int :=
  let (neg, ds) := match s with
    | '+' :: r => (false, r)
    | '-' :: r => (true, r)
    | r => (false, r)
  if ds.isEmpty || !ds.all isDigit then none
  else some (if neg then -(digitsVal ds : Int) else (digitsVal ds : Int))

/-- `Target.RedirectCode` after `addTarget`: the value of `redirect=` when it is a number in 300…399, else 0
(`opts["redirect"] == ""`, not numeric, or out of range — the latter two are only logged). -/
def redirectCode (opt : List Char) : Nat :=
  match goAtoi opt with
  | some n => if 300 ≤ n ∧ n ≤ 399 then n.toNat else 0
  | none => 0

/-- the options of a route command that concern the gate -/
structure Opts where
  allow : List Char := []
  deny : List Char := []
  auth : List Char := []
  redirect : List Char := []

/-- What the proxies read off a `*route.Target`. `up` names the upstream its URL points to. -/
structure TargetM where
  rules : Rules
  scheme : List Char
  redirect : Nat
  up : Nat
deriving Repr

/-- `Route.addTarget(service, url, …, opts)`: the rule map is processed here, once, before the target becomes
reachable through the table (an error is only logged: the map is then `Rules.denyAll`). -/
def addTarget (P : Parsers) (o : Opts) (up : Nat) : TargetM :=
  { rules := (processAccessRules P o.allow o.deny).1, scheme := o.auth, redirect := redirectCode o.redirect, up := up }

/-! ## The proxies over a table with several targets -/

inductive Proto where
  | http | tcp | sni | dyn
deriving DecidableEq, Repr

/-- What became of a request / connection. `served u` and `dialFailed u`: a connection to upstream `u` was
attempted and succeeded resp. was refused (HTTP answers 502, the TCP proxies close). -/
inductive Result where
  | noRoute | forbidden | unauthorized
  | redirected (code : Nat)
  | served (up : Nat)
  | dialFailed (up : Nat)
deriving DecidableEq, Repr

/-- the upstream a connection attempt was made to, if any -/
def Result.attempted : Result → Option Nat
  | .served u => some u
  | .dialFailed u => some u
  | _ => none

/-- The lookups a proxy performs for one request, `lk k` being what the `k`-th call of its `Lookup` function
returns (with the round-robin picker: another target each time). All proxies ask once; `tcp-dynamic` asks a second
time (for the port alone) when the first answer is nil. Nothing is looked up after the gate. -/
def lookupPhase : Proto → (Nat → Option TargetM) → Option TargetM
  | .dyn, lk => match lk 0 with
    | some t => some t
    | none => lk 1
  | _, lk => lk 0

/-- `Proxy.ServeTCP`, `SNIProxy.ServeTCP`, `DynamicProxy.ServeTCP` after the lookup: gate, then the dial to the
address of the target that passed the gate. -/
def serveTCP (p : Proto) (lk : Nat → Option TargetM) (alive : Nat → Bool) (peer : TCPPeer) : Result :=
  match lookupPhase p lk with
  | none => .noRoute
  | some t =>
    if accessDeniedTCP t.rules peer then .forbidden
    else if alive t.up then .served t.up else .dialFailed t.up

/-- `HTTPProxy.ServeHTTP`: lookup, access rules, authentication (`authOK t` = `t.Authorized(r, w, schemes)`), the
route's own redirect answer, then the reverse proxy towards the target's URL. -/
def serveHTTP (P : Parsers) (lk : Nat → Option TargetM) (alive : Nat → Bool) (remote : List Char)
    (xff : List (List Char)) (authOK : TargetM → Bool) : Result :=
  match lk 0 with
  | none => .noRoute
  | some t =>
    if accessDeniedHTTP P t.rules remote xff then .forbidden
    else if !authOK t then .unauthorized
    else if t.redirect != 0 then .redirected t.redirect
    else if alive t.up then .served t.up else .dialFailed t.up

/-- The view of a `Result` the four-step gate model (`runGate`) has: the reply class and whether the statement that
contacts the upstream was reached. -/
def Result.toGate : Result → Reply × Bool
  | .noRoute => (.noRoute, false)
  | .forbidden => (.forbidden, false)
  | .unauthorized => (.unauthorized, false)
  | .redirected _ => (.redirected, false)
  | .served _ => (.served, true)
  | .dialFailed _ => (.served, true)

/-! ## First requests arriving together

The rule map of a target is shared by all request goroutines. A request thread performs two reads of it: the test
`len(t.accessRules) == 0` and the evaluation. A schedule is a list of actions; `write` is a store into the map by
whoever (the real code has none after `addTarget` — that is the regenerated fact `request_path_reads_only`). -/

structure Reader where
  /-- 0: about to test for "no rules"; 1: about to evaluate; 2: finished -/
  pc : Nat := 0
  result : Option Bool := none
deriving DecidableEq, Repr

inductive Action where
  | read (tid : Nat)
  | write (r : Rules)

def stepReader (cell : Rules) (peer : TCPPeer) (rd : Reader) : Reader :=
  match rd.pc with
  | 0 => if cell.isEmpty then { pc := 2, result := some false } else { pc := 1, result := none }
  | 1 => { pc := 2, result := some (match peer with | .notTCP => true | .addr ip => denyByIP cell ip) }
  | _ => rd

def stepAt (cell : Rules) (peer : TCPPeer) : List Reader → Nat → List Reader
  | [], _ => []
  | rd :: rs, 0 => stepReader cell peer rd :: rs
  | rd :: rs, n+1 => rd :: stepAt cell peer rs n

/-- run a schedule from a state (rule map, request threads) -/
def runSched (peer : TCPPeer) : Rules × List Reader → List Action → Rules × List Reader
  | st, [] => st
  | (cell, rs), .read tid :: as => runSched peer (cell, stepAt cell peer rs tid) as
  | (_, rs), .write r :: as => runSched peer (r, rs) as

def Action.isRead : Action → Bool
  | .read _ => true
  | .write _ => false

end Fabio.Model.C12
