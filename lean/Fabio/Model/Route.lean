import Fabio.Basic
/-!
Shared model of fabio's routing table (`route/table.go`, `route/route.go`, `route/routes.go`,
`route/route_def.go`): route definitions, targets, routes, the table as an association list keyed by
(lower-cased) host, and the three commands `addRoute` / `delRoute` / `weighRoute`, plus the weight
normalisation of `weighTargets` over ℚ (the ring is modelled in `Model/C04*.lean`).

Conventions (DESIGN.md §5):
* Go strings are `List Char` (`Str`).
* Go maps are association lists with unique keys; where Go iterates a map the result is shown not to depend
  on the order (theorems in `Props/C05.lean`).
* External calls are parameters, collected in `Env`: `normURL` is `url.Parse(dst)` followed by
  `URL.String()` (`none` = parse error), `globOK` is "`glob.Compile(path)` succeeds".
* Weights are exact rationals (`Rat`); the Go code computes with float64 — the correspondence bounds the gap.
* The model describes the tree *with the repairs of D04* (del/weight lower-case the host like add does).
-/
namespace Fabio.Model.Route

abbrev Str := List Char

/-- External functions the table code calls (parameters of the model, part of the trusted base). -/
structure Env where
  /-- `url.Parse(dst)` then `.String()`; `none` when `url.Parse` fails. -/
  normURL : Str → Option Str
  /-- does `glob.Compile(s)` succeed (route paths; since the repair of D03 also the host of a new host) -/
  globOK : Str → Bool

inductive Cmd where
  | add | del | weight
  | other (s : Str)
deriving DecidableEq, Repr

/-- `route.RouteDef`. `opts` is a Go map: association list with unique keys. -/
structure RouteDef where
  cmd : Cmd
  service : Str := []
  src : Str := []
  dst : Str := []
  weight : Rat := 0
  tags : List Str := []
  opts : List (Str × Str) := []
deriving DecidableEq, Repr

/-- `route.Target`, restricted to the fields that determine routing; the option-derived fields
(`StripPath`, `Host`, `RedirectCode`, access rules …) are functions of `opts`. -/
structure Target where
  service : Str
  tags : List Str
  opts : List (Str × Str)
  /-- `t.URL.String()` -/
  url : Str
  fixedWeight : Rat
  /-- effective weight computed by `weighTargets` -/
  weight : Rat := 0
deriving DecidableEq, Repr

structure Route where
  host : Str
  path : Str
  targets : List Target
deriving DecidableEq, Repr

/-- `route.Table`: host ↦ routes. -/
abbrev Table := List (Str × List Route)

inductive Err where
  | invalidPrefix      -- "route: prefix must not be empty"
  | invalidTarget      -- "route: target must not be empty"
  | badURL             -- "route: invalid target. …"
  | badGlob            -- glob.Compile error
  | noMatch            -- "route: no target match"
  | invalidCommand     -- "route: invalid command: …"
deriving DecidableEq, Repr

/-! ### small string helpers -/

def hasPrefix (s p : Str) : Bool := p.isPrefixOf s

/-- `strings.SplitN(prefix, "/", 2)` folded into `hostpath`. -/
def hostpath (pfx : Str) : Str × Str :=
  if hasPrefix pfx [':'] then (pfx, [])
  else
    match indexOf '/' pfx with
    | none => (pfx, ['/'])
    | some i => (pfx.take i, '/' :: pfx.drop (i+1))

/-- `contains(src, dst)`: every element of `dst` occurs in `src`. -/
def containsAll (src dst : List Str) : Bool := dst.all (fun d => src.contains d)

/-! ### weights over ℚ (`Route.weighTargets`, without the ring) -/

def nFixed (ts : List Target) : Nat := (ts.filter (fun t => decide (0 < t.fixedWeight))).length
def sumFixed (ts : List Target) : Rat := (ts.filter (fun t => decide (0 < t.fixedWeight))).foldl (fun a t => a + t.fixedWeight) 0

/-- Effective weights exactly as `weighTargets` assigns them (over ℚ). -/
def weigh (ts : List Target) : List Target :=
  let n := ts.length
  let nf := nFixed ts
  if nf = 0 then
    ts.map (fun t => { t with weight := 1 / (n : Rat) })
  else
    let sf := sumFixed ts
    let scale : Rat := if 1 < sf ∨ (nf = n ∧ sf < 1) then 1 / sf else 1
    let dyn0 : Rat := (1 - sf) / ((n - nf : Nat) : Rat)
    let dyn : Rat := if dyn0 < 0 then 0 else dyn0
    ts.map (fun t => if 0 < t.fixedWeight then { t with weight := t.fixedWeight * scale } else { t with weight := dyn })

/-! ### table access -/

def Table.get (t : Table) (host : Str) : List Route := (t.lookup host).getD []
def Table.has (t : Table) (host : Str) : Bool := (t.lookup host).isSome

def Table.set (t : Table) (host : Str) (rs : List Route) : Table :=
  if t.any (fun kv => kv.1 == host) then t.map (fun kv => if kv.1 == host then (host, rs) else kv)
  else t ++ [(host, rs)]

/-- `Routes.find` -/
def findRoute (rs : List Route) (path : Str) : Option Route := rs.find? (fun r => r.path == path)

/-- `Table.route(host, path)` -/
def Table.route (t : Table) (host path : Str) : Option Route := findRoute (t.get host) path

/-! ### `Route.addTarget` -/

/-- `addTarget`: clamp a negative fixed weight to 0, de-duplicate on (service, URL string, fixed weight,
tags) — options are *not* part of the key —, append, re-weigh. -/
def Route.addTarget (r : Route) (service url : Str) (fw : Rat) (tags : List Str) (opts : List (Str × Str)) : Route :=
  let fw := if fw < 0 then 0 else fw
  if r.targets.any (fun t => t.service == service && t.url == url && t.fixedWeight == fw && t.tags == tags) then r
  else { r with targets := weigh (r.targets ++ [{ service, tags, opts, url, fixedWeight := fw }]) }

/-- `Route.filter(skip)` -/
def Route.filter (r : Route) (skip : Target → Bool) : Route :=
  { r with targets := weigh (r.targets.filter (fun t => !skip t)) }

def matchesWeight (service : Str) (tags : List Str) (t : Target) : Bool :=
  (service.isEmpty || t.service == service) && (tags.isEmpty || containsAll t.tags tags)

/-- `Route.setWeight`: the share `w` is spread evenly over the `n` matching targets; returns the count. -/
def Route.setWeight (r : Route) (service : Str) (w : Rat) (tags : List Str) : Route × Nat :=
  let n := (r.targets.filter (matchesWeight service tags)).length
  if n = 0 then (r, 0) else
  let each : Rat := w / (n : Rat)
  let ts := r.targets.map (fun t => if matchesWeight service tags t then { t with fixedWeight := each } else t)
  ({ r with targets := weigh ts }, n)

/-! ### the three commands -/

def replaceRoute (rs : List Route) (r : Route) : List Route :=
  rs.map (fun x => if x.path == r.path then r else x)

/-- `Table.addRoute` -/
def addRoute (env : Env) (t : Table) (d : RouteDef) : Except Err Table :=
  let (host0, path) := hostpath d.src
  let host := lowerL host0
  if d.src.isEmpty then .error .invalidPrefix else
  if d.dst.isEmpty then .error .invalidTarget else
  match env.normURL d.dst with
  | none => .error .badURL
  | some url =>
    if !t.has host then
      -- repair of D03: the host pattern of a new host is compiled too (error class shared with the path)
      if !env.globOK host then .error .badGlob else
      if !env.globOK path then .error .badGlob else
      .ok (t.set host [({ host, path, targets := [] } : Route).addTarget d.service url d.weight d.tags d.opts])
    else
      match findRoute (t.get host) path with
      | none =>
        if !env.globOK path then .error .badGlob else
        .ok (t.set host (t.get host ++ [({ host, path, targets := [] } : Route).addTarget d.service url d.weight d.tags d.opts]))
      | some r =>
        .ok (t.set host (replaceRoute (t.get host) (r.addTarget d.service url d.weight d.tags d.opts)))

/-- `Table.weighRoute` (host lower-cased: D04 repaired). -/
def weighRoute (t : Table) (d : RouteDef) : Except Err Table :=
  let (host0, path) := hostpath d.src
  let host := lowerL host0
  if d.src.isEmpty then .error .invalidPrefix else
  match t.route host path with
  | none => .error .noMatch
  | some r =>
    let (r', n) := r.setWeight d.service d.weight d.tags
    if n = 0 then .error .noMatch else .ok (t.set host (replaceRoute (t.get host) r'))

/-- remove routes without targets, then hosts without routes -/
def prune (t : Table) : Table :=
  (t.map (fun kv => (kv.1, kv.2.filter (fun r => !r.targets.isEmpty)))).filter (fun kv => !kv.2.isEmpty)

def mapRoutes (t : Table) (f : Route → Route) : Table := t.map (fun kv => (kv.1, kv.2.map f))

/-- `Table.delRoute` (host lower-cased: D04 repaired). -/
def delRoute (env : Env) (t : Table) (d : RouteDef) : Except Err Table :=
  if !d.tags.isEmpty then
    .ok (prune (mapRoutes t (fun r => r.filter (fun tg => (d.service.isEmpty || tg.service == d.service) && containsAll tg.tags d.tags))))
  else if d.src.isEmpty && d.dst.isEmpty then
    .ok (prune (mapRoutes t (fun r => r.filter (fun tg => tg.service == d.service))))
  else if d.dst.isEmpty then
    let (host0, path) := hostpath d.src
    let host := lowerL host0
    match t.route host path with
    | none => .ok t
    | some r => .ok (prune (t.set host (replaceRoute (t.get host) (r.filter (fun tg => tg.service == d.service)))))
  else
    match env.normURL d.dst with
    | none => .error .badURL
    | some url =>
      let (host0, path) := hostpath d.src
      let host := lowerL host0
      match t.route host path with
      | none => .ok t
      | some r => .ok (prune (t.set host (replaceRoute (t.get host) (r.filter (fun tg => tg.service == d.service && tg.url == url)))))

def applyDef (env : Env) (t : Table) (d : RouteDef) : Except Err Table :=
  match d.cmd with
  | .add => addRoute env t d
  | .del => delRoute env t d
  | .weight => weighRoute t d
  | .other _ => .error .invalidCommand

/-! ### final sort: `sort.Sort(Routes)` with `Less(i,j) = pathLt rt[j].Path rt[i].Path` (descending by path).
Paths are unique within a host (`addRoute` only appends a route when `find(path) == nil`), so the unstable
Go sort has exactly one possible result: the descending order. -/

def strLt : Str → Str → Bool
  | [], [] => false
  | [], _ :: _ => true
  | _ :: _, [] => false
  | a :: as, b :: bs => if a.toNat < b.toNat then true else if b.toNat < a.toNat then false else strLt as bs

/-- the order behind `Routes.Less` after the repair of D06 (fix: "order routes case-insensitively …"):
`Less(i,j)` = `pathLt rt[j].Path rt[i].Path` — the lower-cased paths are compared first, paths that differ
only in case keep the case-sensitive order. (`lowerL` is ASCII lower-casing, Go uses `strings.ToLower`.) -/
def pathLt (a b : Str) : Bool :=
  if lowerL a != lowerL b then strLt (lowerL a) (lowerL b) else strLt a b

def insertDesc (r : Route) : List Route → List Route
  | [] => [r]
  | x :: xs => if pathLt x.path r.path then r :: x :: xs else x :: insertDesc r xs

def sortRoutes (rs : List Route) : List Route := rs.foldr insertDesc []

/-- `NewTable` after parsing / `NewTableCustom`: apply every definition in order, abort on the first
error, sort each host's routes. -/
def buildFrom (env : Env) (t0 : Table) (defs : List RouteDef) : Except Err Table :=
  match defs.foldlM (applyDef env) t0 with
  | .error e => .error e
  | .ok t => .ok (t.map (fun kv => (kv.1, sortRoutes kv.2)))

def newTable (env : Env) (defs : List RouteDef) : Except Err Table := buildFrom env [] defs

end Fabio.Model.Route
