import Fabio.Model.C14
import Fabio.Model.C05Glue
/-!
C14, round 4 — the consumer of the generated text: one iteration of the `default:` arm of `watchBackend`
(`main.go`), statement by statement, with fabio's two readers of the command language plugged in
(`route.ParseAliases` = `Model.C05Glue.parseAliases`, `route.NewTable` = `Model.Parse.loadTable`). Core Lean only
(linked into the driver: stream `c14.watch`).

```
select { case svccfg = <-svc: case mancfg = <-man: }
tableBuffer = svccfg + "\n" + mancfg
if nextTable = tableBuffer.String(); nextTable == lastTable { continue }
aliases, err := route.ParseAliases(nextTable)          -- error: logged, aliases stays nil; NO exit
registry.Default.Register(aliases)
t, err := route.NewTable(tableBuffer)
if err != nil { continue }                              -- the old table keeps serving
route.SetTable(t); lastTable = nextTable
once.Do(func() { close(first) })                        -- main() waits for `first` before it starts the listeners
```

The property's second sentence ends here: a route update "is not prevented or delayed" when the iteration that
receives the text of the current catalog reaches `route.SetTable` with the table of that text.
-/
namespace Fabio.Model.C14Watch
open Fabio Fabio.Model.Route Fabio.Model.Parse Fabio.Model.C05Glue

/-- the locals of `watchBackend` that survive an iteration, the active table (`route.SetTable`) and the
arguments of `registry.Default.Register`, oldest first -/
structure WState where
  svccfg : Str := []
  mancfg : Str := []
  lastTable : Str := []
  table : Table := []
  registered : List (List Str) := []
  /-- `first` has been closed: `main` goes on to start the listeners (fabio serves) -/
  started : Bool := false
deriving Repr

inductive WEv where
  /-- `case svccfg = <-svc` -/
  | svc (text : Str)
  /-- `case mancfg = <-man` -/
  | man (text : Str)
deriving DecidableEq, Repr

def receive (s : WState) : WEv → WState
  | .svc t => { s with svccfg := t }
  | .man t => { s with mancfg := t }

/-- `svccfg + "\n" + mancfg` -/
def nextText (s : WState) : Str := s.svccfg ++ '\n' :: s.mancfg

/-- the argument of `registry.Default.Register`: an error of `ParseAliases` is logged and `aliases` stays nil -/
def registerArg (pf : ParseFloat) (text : Str) : List Str :=
  match parseAliases pf text with
  | .ok names => names
  | .error _ => []

/-- one iteration of the loop -/
def step (env : Env) (pf : ParseFloat) (s : WState) (e : WEv) : WState :=
  let s1 := receive s e
  let next := nextText s1
  if next == s1.lastTable then s1 else
  let s2 := { s1 with registered := s1.registered ++ [registerArg pf next] }
  match loadTable env pf next with
  | .error _ => s2
  | .ok t => { s2 with table := t, lastTable := next, started := true }

def run (env : Env) (pf : ParseFloat) (s : WState) (es : List WEv) : WState := es.foldl (step env pf) s

/-- the state after each event of a list -/
def trace (env : Env) (pf : ParseFloat) : WState → List WEv → List WState
  | _, [] => []
  | s, e :: es => let s' := step env pf s e; s' :: trace env pf s' es

/-- the state `watchBackend` starts in -/
def init : WState := {}

/-- consecutive equal elements collapsed (how the harness records `Register` calls) -/
def collapse {α} [BEq α] : List α → List α
  | [] => []
  | [x] => [x]
  | x :: y :: rest => if x == y then collapse (y :: rest) else x :: collapse (y :: rest)

end Fabio.Model.C14Watch
