import Fabio.Model.C13
/-!
C13 — `url.Parse` of a redirect template (`route/table.go` `addRoute`: `targetURL, err := url.Parse(d.Dst)`),
core Lean only. Until round 4 the parsed record of the template (`Target.URL`) was taken from the real code;
now the text of the template is parsed by this model and the record compared with `net/url`'s on every case of
`c13.build` (and `Props/C13Parse.lean` states what the documented template texts parse to).

Stated in full for absolute templates `scheme://authority[/path][?query][#fragment]` without user info: the
scheme scan (`getScheme`), lower-casing of the scheme, the query cut, the authority up to the first `/`,
`parseHost` (bracketed IP literal without zone, optional numeric port, host escapes: only `%25` and non-ASCII
bytes may be percent-encoded, no byte that host mode would escape), `setPath`, the fragment's escape check.
Everything else (`*`, scheme-less references, opaque `scheme:rest`, user info, IPv6 zones) is `outside`: such
targets are not redirect templates of any documented form, the harness flags them (`odd`) and nothing is
claimed about them.
-/
namespace Fabio.Model.C13

inductive Parsed where
  /-- `url.Parse` fails: `addRoute` rejects the route command -/
  | error
  /-- a shape this model does not state (it may parse or fail) -/
  | outside
  | ok (u : URL)
deriving DecidableEq, Repr

def isLetter (c : UInt8) : Bool := (97 ≤ c && c ≤ 122) || (65 ≤ c && c ≤ 90)
/-- the bytes `getScheme` keeps scanning over -/
def schemeByte (c : UInt8) : Bool := isLetter c || isDigit c || c == 43 || c == 45 || c == 46

/-- `net/url.getScheme`: `some (scheme, rest)`; `none` is the error "missing protocol scheme". A text that
starts with a digit, `+`, `-`, `.` or whose scan ends before a `:` has no scheme. -/
def getScheme (s : Str) : Option (Str × Str) :=
  let pre := s.takeWhile schemeByte
  match s.drop pre.length with
  | 58 :: r =>
    match pre with
    | [] => none
    | c :: _ => if isLetter c then some (pre, r) else some ([], s)
  | _ => some ([], s)

/-- `stringContainsCTLByte` -/
def hasCTL (s : Str) : Bool := s.any (fun c => c < 32 || c == 127)

/-- `validOptionalPort` -/
def validOptionalPort : Str → Bool
  | [] => true
  | c :: r => c == 58 && r.all isDigit

/-- the checks of `unescape(s, encodeHost)`: a `%` needs two hex digits and, when the first is below 8, must be
`%25`; an ASCII byte must be one host mode does not escape -/
def hostBytesOK : Str → Bool
  | [] => true
  | 37 :: h1 :: h2 :: rest => ishex h1 && ishex h2 && (unhex h1 ≥ 8 || (h1 == 50 && h2 == 53)) && hostBytesOK rest
  | [37] => false
  | [37, _] => false
  | c :: rest => !(c < 128 && shouldEscape c .host) && hostBytesOK rest

/-- `unescape(host, encodeHost)` -/
def unescapeHost (h : Str) : Option Str := if hostBytesOK h then unescape h else none

def lastIndexOfB (c : UInt8) (s : Str) : Option Nat :=
  let r := s.reverse
  if r.contains c then some (s.length - 1 - (r.takeWhile (· != c)).length) else none

/-- `net/url.parseHost` (`none`: error) for hosts without an IPv6 zone -/
def parseHost (h : Str) : Option Str :=
  if h.head? == some 91 then
    match lastIndexOfB 93 h with
    | none => none
    | some i => if validOptionalPort (h.drop (i + 1)) then unescapeHost h else none
  else match lastIndexOfB 58 h with
    | none => unescapeHost h
    | some i => if validOptionalPort (h.drop i) then unescapeHost h else none

/-- `url.Parse(text)` restricted to the fields `BuildRedirectURL` reads -/
def parseTemplate (text : Str) : Parsed :=
  let (u, frag, _) := cut 35 text
  if hasCTL u then .error
  else if u == [42] then .outside
  else match getScheme u with
  | none => .error
  | some (scheme, rest0) =>
    if scheme.isEmpty then .outside else
    let (rest, query, _) := cut 63 rest0
    let fragOK := (unescape frag).isSome
    match rest with
    | [] => if fragOK then .ok { scheme := scheme.map lowerByte, rawQuery := query } else .error
    | 47 :: 47 :: ar =>
      let auth := ar.takeWhile (· != 47)
      let p := ar.drop auth.length
      if auth.contains 64 then .outside
      else if auth.head? == some 91 && contains [37, 50, 53] auth then .outside
      else match parseHost auth with
        | none => .error
        | some host =>
          match setPath p with
          | none => .error
          | some (path, raw) =>
            if fragOK then .ok { scheme := scheme.map lowerByte, host := host, path := path, rawPath := raw, rawQuery := query }
            else .error
    | 47 :: p =>
      -- `scheme:/path`: no authority (`OmitHost`)
      match setPath (47 :: p) with
      | none => .error
      | some (path, raw) => if fragOK then .ok { scheme := scheme.map lowerByte, path := path, rawPath := raw, rawQuery := query } else .error
    | _ => .outside

end Fabio.Model.C13
