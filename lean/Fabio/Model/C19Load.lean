import Fabio.Model.C19
/-!
C19 — from what the operator wrote to the configuration cell: the part of `config.Load` that produces the five
transport options (core Lean only).

* `parseDuration`  — Go's `time.ParseDuration` (`[-+]?([0-9]*(\.[0-9]*)?[a-z]+)+`, units ns us µs μs ms s m h,
                     overflow = error). The fraction is computed exactly (`⌊f·unit/scale⌋`); Go computes it in
                     float64, which is the same number whenever `unit/scale` is an integer or the result is
                     below one (all fractions of up to 9 digits for s/m/h, 6 for ms, 3 for us, any for ns).
* `parseInt`       — `strconv.ParseInt(s, 0, 64)` for decimal spellings (`[+-]?[0-9]+`, out of range = the
                     nearest bound, as `flag`'s `intValue.Set` stores it); other bases and `_` are outside the model.
* `splitArgs`      — `flag.FlagSet.Parse` for flags that all take a value: `-name value`, `-name=value`, `--name…`;
                     the first non-flag argument or `--` ends the flags.
* `Sources`, `rawValue` — `config.FlagSet.ParseFlags`: command line, else environment (`FABIO_` prefix first, then
                     no prefix; names compared in upper case, `.` → `_`), else properties file, else default;
                     within one source the last entry wins.
* `load`           — the five options: a value that does not parse is stored as zero when it comes from the
                     environment or the properties file (`flag.Value.Set` stores the zero result and
                     `ParseFlags` ignores the error); on the command line `flag.ExitOnError` ends the process
                     (`none`: no transport is ever built).
* `Cfg.defaults`   — `config/default.go` (pinned by the regenerated fact `defaults_are_model`).

Nothing after `ParseFlags` touches the five options (regenerated fact `load_does_not_rewrite_the_five_options`),
whatever else is configured — listeners with their own read/write timeouts, flush intervals, registry timeouts.
-/
namespace Fabio.Model.C19

/-- `defaultConfig.Proxy` as far as the five options go: dial 30 s, no response-header timeout, no keep-alive,
idle 15 s, 10000 idle connections per host. -/
def Cfg.defaults : Cfg := ⟨30000000000, 0, 0, 15000000000, 10000⟩

/-! ### `time.ParseDuration` -/

def isDigit (c : Char) : Bool := '0' ≤ c && c ≤ '9'

/-- `1 << 63` -/
def two63 : Nat := 9223372036854775808

/-- `unitMap` of package time. -/
def unitOf (u : List Char) : Option Nat :=
  if u = "ns".toList then some 1
  else if u = "us".toList then some 1000
  else if u = "µs".toList then some 1000      -- U+00B5
  else if u = "μs".toList then some 1000      -- U+03BC
  else if u = "ms".toList then some 1000000
  else if u = "s".toList then some 1000000000
  else if u = "m".toList then some 60000000000
  else if u = "h".toList then some 3600000000000
  else none

/-- `leadingInt`: the digits at the front as a number (`none` = overflow beyond `1<<63`), the rest, and whether
anything was consumed. -/
def leadingInt : List Char → Nat → Bool → Option (Nat × List Char × Bool)
  | [], v, any => some (v, [], any)
  | c :: cs, v, any =>
    if isDigit c then
      let v' := v * 10 + (c.toNat - '0'.toNat)
      if v > two63 / 10 ∨ v' > two63 then none else leadingInt cs v' true
    else some (v, c :: cs, any)

/-- `leadingFraction`: digits after the point as `f / scale`; once `f` would overflow the further digits are
dropped (as in Go). -/
def leadingFraction : List Char → Nat → Nat → Bool → Bool → (Nat × Nat × List Char × Bool)
  | [], f, scale, _, any => (f, scale, [], any)
  | c :: cs, f, scale, over, any =>
    if isDigit c then
      if over then leadingFraction cs f scale true true
      else if f > (two63 - 1) / 10 then leadingFraction cs f scale true true
      else
        let y := f * 10 + (c.toNat - '0'.toNat)
        if y > two63 then leadingFraction cs f scale true true
        else leadingFraction cs y (scale * 10) false true
    else (f, scale, c :: cs, any)

/-- the unit: everything up to the next `.` or digit -/
def takeUnit : List Char → List Char × List Char
  | [] => ([], [])
  | c :: cs => if c = '.' ∨ isDigit c then ([], c :: cs) else
      let (u, r) := takeUnit cs
      (c :: u, r)

theorem takeUnit_length (s : List Char) : (takeUnit s).2.length ≤ s.length := by
  induction s with
  | nil => simp [takeUnit]
  | cons c cs ih =>
    unfold takeUnit
    split
    · simp
    · simp only [List.length_cons]; omega

/-- The loop of `ParseDuration` over the `<number><unit>` groups; `fuel` bounds the number of groups by the
length of the string (every group consumes at least its unit). -/
def parseGroups : Nat → List Char → Nat → Option Nat
  | _, [], d => some d
  | 0, _ :: _, _ => none
  | fuel + 1, c :: cs, d =>
    if ¬ (c = '.' ∨ isDigit c) then none else
    match leadingInt (c :: cs) 0 false with
    | none => none
    | some (v, s₁, pre) =>
      let (f, scale, s₂, post) : Nat × Nat × List Char × Bool :=
        match s₁ with
        | '.' :: r => leadingFraction r 0 1 false false
        | _ => (0, 1, s₁, false)
      if ¬ pre ∧ ¬ post then none else
      let (u, s₃) := takeUnit s₂
      if u = [] then none else
      match unitOf u with
      | none => none
      | some unit =>
        if v > two63 / unit then none else
        let v₁ := v * unit
        let v₂ := if f > 0 then v₁ + f * unit / scale else v₁
        if v₂ > two63 then none else
        let d' := d + v₂
        if d' > two63 then none else parseGroups fuel s₃ d'

/-- `time.ParseDuration`: nanoseconds, or `none` for "invalid duration". -/
def parseDuration (s : String) : Option Int :=
  let cs := s.toList
  if cs = [] then none else
  let (neg, body) : Bool × List Char :=
    match cs with
    | '-' :: r => (true, r)
    | '+' :: r => (false, r)
    | _ => (false, cs)
  if body = ['0'] then some 0
  else if body = [] then none
  else match parseGroups body.length body 0 with
    | none => none
    | some d =>
      if neg then some (-(Int.ofNat d))
      else if d > two63 - 1 then none else some (Int.ofNat d)

/-! ### `strconv.ParseInt(s, 0, 64)`, decimal spellings -/

def digitsValue : List Char → Nat → Option Nat
  | [], v => some v
  | c :: cs, v => if isDigit c then digitsValue cs (v * 10 + (c.toNat - '0'.toNat)) else none

/-- Result as `intValue.Set` leaves it in the variable: syntax error → 0, out of range → the nearest bound.
(A leading `0` followed by more digits is octal in base 0: outside the model, reported as `none`.) -/
def parseInt (s : String) : Option Int :=
  let cs := s.toList
  let (neg, body) : Bool × List Char :=
    match cs with
    | '-' :: r => (true, r)
    | '+' :: r => (false, r)
    | _ => (false, cs)
  match body with
  | [] => some 0
  | '0' :: _ :: _ => none
  | _ =>
    match digitsValue body 0 with
    | none => some 0
    | some v =>
      if neg then (if v > two63 then some (-(Int.ofNat two63)) else some (-(Int.ofNat v)))
      else if v > two63 - 1 then some (Int.ofNat (two63 - 1)) else some (Int.ofNat v)

/-! ### Command line, environment, properties -/

/-- `flag.FlagSet.Parse` for value-taking flags: `(name, value)` pairs in order. `none`: a flag without a value
(the process would exit). The first argument is the flag of the `-name value` form that still waits for its value. -/
def splitArgsAux : Option String → List String → Option (List (String × String))
  | some _, [] => none
  | some n, v :: rest => (splitArgsAux none rest).map (fun t => (n, v) :: t)
  | none, [] => some []
  | none, a :: rest =>
    match a.toList with
    | '-' :: r =>
      let r := match r with | '-' :: r' => r' | _ => r
      if r = [] then some []   -- "-" is a non-flag argument, "--" ends the flags
      else
        let name := String.ofList (r.takeWhile (· ≠ '='))
        match r.dropWhile (· ≠ '=') with
        | _ :: v => (splitArgsAux none rest).map (fun t => (name, String.ofList v) :: t)
        | [] => splitArgsAux (some name) rest
    | _ => some []

def splitArgs (args : List String) : Option (List (String × String)) := splitArgsAux none args

/-- One `NAME=value` entry of the environment: split at the first `=`, name in upper case; entries without `=`
are ignored. -/
def envEntry (e : String) : Option (String × String) :=
  let cs := e.toList
  match cs.dropWhile (· ≠ '=') with
  | [] => none
  | _ :: v => some (String.ofList ((cs.takeWhile (· ≠ '=')).map Char.toUpper), String.ofList v)

/-- `strings.ToUpper(pfx + strings.Replace(name, ".", "_", -1))` -/
def envName (pfx name : String) : String :=
  String.ofList ((pfx.toList ++ name.toList.map (fun c => if c = '.' then '_' else c)).map Char.toUpper)

structure Sources where
  cmdline : List (String × String)   -- after `splitArgs`
  env : List (String × String)       -- after `envEntry`
  props : List (String × String)     -- the properties file, key → value
deriving Repr

/-- last entry for a key -/
def lookupLast (kvs : List (String × String)) (k : String) : Option String := kvs.reverse.lookup k

inductive Origin where
  | cmdline | env | props
deriving DecidableEq, Repr

/-- `ParseFlags`: which text the flag `name` is set from, and where it came from. -/
def rawValue (src : Sources) (name : String) : Option (Origin × String) :=
  match lookupLast src.cmdline name with
  | some v => some (.cmdline, v)
  | none =>
    match lookupLast src.env (envName "FABIO_" name) with
    | some v => some (.env, v)
    | none =>
      match lookupLast src.env (envName "" name) with
      | some v => some (.env, v)
      | none => (lookupLast src.props name).map (fun v => (.props, v))

/-- One flag through `flag.Value.Set`: `none` = the process exits (a command-line value that does not parse). -/
def flagValue (parse : String → Option Int) (src : Sources) (name : String) (dflt : Int) : Option Int :=
  match rawValue src name with
  | none => some dflt
  | some (.cmdline, v) => parse v
  | some (_, v) => some ((parse v).getD 0)

/-- The five options as `config.Load` leaves them in `cfg.Proxy`. -/
def load (src : Sources) : Option Cfg := do
  let dial ← flagValue parseDuration src "proxy.dialtimeout" Cfg.defaults.dialTimeout
  let rht ← flagValue parseDuration src "proxy.responseheadertimeout" Cfg.defaults.responseHeaderTimeout
  let ka ← flagValue parseDuration src "proxy.keepalivetimeout" Cfg.defaults.keepAliveTimeout
  let idle ← flagValue parseDuration src "proxy.idleconntimeout" Cfg.defaults.idleConnTimeout
  let mc ← flagValue parseInt src "proxy.maxconn" Cfg.defaults.maxConn
  pure ⟨dial, rht, ka, idle, mc⟩

end Fabio.Model.C19
