import Fabio.Model.C08
/-!
C08 — model of `HTTPProxy.ServeHTTP` (`proxy/http_proxy.go`) around the forwarding headers: the exits that come
before `addHeaders` (no route, redirect route), the error exit of `addHeaders`, the `host=` override, the response
headers, **the choice of the forwarding handler** (raw websocket tunnel / `httputil.ReverseProxy` with the SSE or
the global flush interval) and what that handler sends to the upstream under the names of this property.

The handler choice matters for the property's first sentence: `httputil.ReverseProxy` appends the peer to
X-Forwarded-For itself, the websocket tunnel (`newWSHandler`: `r.Write(out)`) sends the header map as it is, so
on that path the peer is in X-Forwarded-For only if `addHeaders` took *its* websocket branch. Both sites read
`strings.EqualFold(r.Header.Get("Upgrade"), "websocket")` — `ServeHTTP` after `addHeaders` has run, `addHeaders`
after its first two statements; `Props/C08Serve.lean` proves that the two decisions coincide (when no configured
header is called `Upgrade`) and with it the sentence for every request.
-/
namespace Fabio.Model.C08

def acceptName : Str := "Accept".toList
def eventStream : Str := "text/event-stream".toList

/-- What `p.Lookup(r)` returned, as far as this property is concerned (`*route.Target`). -/
structure Route where
  hostOpt : Str := []            -- t.Host        (route option host=)
  strip : Str := []              -- t.StripPath   (route option strip=)
  targetHost : Str := []         -- t.URL.Host
  redirectCode : Nat := 0        -- t.RedirectCode
  hasRedirectURL : Bool := false -- t.RedirectURL != nil
deriving Repr

/-- The `switch` that picks the forwarding handler. -/
inductive HandlerKind where
  | tunnel   -- newWSHandler: hijack, dial, `r.Write(out)`
  | sse      -- newHTTPProxy(targetURL, tr, p.Config.FlushInterval)
  | proxy    -- newHTTPProxy(targetURL, tr, p.Config.GlobalFlushInterval)
deriving Repr, DecidableEq

/-- `upgrade, accept := r.Header.Get("Upgrade"), r.Header.Get("Accept")`;
`case strings.EqualFold(upgrade, "websocket")` / `case accept == "text/event-stream"` / `default`. -/
def chooseHandler (h : Headers) : HandlerKind :=
  if isWebsocket h then .tunnel
  else if get1 acceptName h == eventStream then .sse
  else .proxy

/-- The request headers the chosen handler sends to the upstream, as far as the names of this property go:
the tunnel writes the header map as it is; both `httputil.ReverseProxy` handlers run `reverseProxy`
(client-declared hop-by-hop headers removed, then the peer appended to X-Forwarded-For — assumption). -/
def handlerSends (k : HandlerKind) (ip : Str) (h : Headers) : Headers :=
  match k with
  | .tunnel => h
  | .sse | .proxy => reverseProxy ip h

/-- Does the response the client reads come out of fabio's `ResponseWriter` (so that the headers put into
`w.Header()` are sent)? Not on the tunnel: the handshake response is the upstream's bytes relayed over the
hijacked connection. -/
def responseWrittenByFabio (k : HandlerKind) : Bool :=
  match k with
  | .tunnel => false
  | _ => true

inductive Served where
  /-- `t == nil`: status page, nothing forwarded, no header of this property added. -/
  | noRoute
  /-- `t.RedirectCode != 0 && t.RedirectURL != nil`: `http.Redirect`, nothing forwarded. -/
  | redirect (code : Nat)
  /-- `addHeaders` failed: 500 "cannot parse <RemoteAddr>", nothing forwarded. -/
  | badPeer
  /-- forwarded by handler `kind`: `host` and `sent` are the Host and the headers the upstream receives,
  `resp` what `addResponseHeaders` put into the response header map. -/
  | forward (kind : HandlerKind) (host : Str) (sent : Headers) (resp : Headers)
deriving Repr

/-- `HTTPProxy.ServeHTTP`, the statements that touch the headers of this property, in source order:
request-id → lookup → (redirect exit) → `addHeaders` → (error exit) → Host override → `addResponseHeaders` →
handler choice → `h.ServeHTTP`. -/
def serveHTTP (cfg : Cfg) (uuid : Str) (route : Option Route) (r : Req) : Served :=
  match route with
  | none => .noRoute
  | some t =>
    if t.redirectCode != 0 && t.hasRedirectURL then .redirect t.redirectCode
    else
      match splitHostPort r.remoteAddr with
      | none => .badPeer
      | some (ip, _) =>
        let h0 := if cfg.requestID.isEmpty then r.headers else set cfg.requestID uuid r.headers
        let h := addHeadersIP cfg t.strip { r with headers := h0 } ip
        let k := chooseHandler h
        .forward k (overrideHost t.hostOpt t.targetHost r.host) (handlerSends k ip h)
          (addResponseHeaders cfg r.tls.isSome [])

/-- The Strict-Transport-Security values the client reads in the response. -/
def clientSTS (o : Served) : List Str :=
  match o with
  | .forward k _ _ resp => if responseWrittenByFabio k then ((entries stsName resp).flatMap (·.2)) else []
  | _ => []

/-! ### informational responses of the upstream (repo `3162882`)

`httputil.ReverseProxy` relays every 1xx response of the upstream (103 Early Hints, …) with the response header
map as it stands — fabio's Strict-Transport-Security included — and then **clears the map**. Before the repair
the final response therefore went out without the headers `ServeHTTP` had added (found by the C07 builder,
reproduced by `c08.proxy` / `c08.main`, class `upstream-1xx`). `responseWriter` now remembers what was in the map
before the handler ran and puts back what is missing when the final header is written. -/

/-- the response header map after `n` informational responses were relayed -/
def afterInformational (n : Nat) (w : Headers) : Headers := if n = 0 then w else []

/-- `responseWriter.restoreHeaders`: every remembered header that is no longer in the map is put back -/
def restoreHeaders (keep w : Headers) : Headers := w ++ keep.filter (fun e => (vals e.1 w).isNone)

/-- what `ServeHTTP` added to the response, as it is when the final response header is written -/
def finalResponseHeaders (n1xx : Nat) (resp : Headers) : Headers := restoreHeaders resp (afterInformational n1xx resp)

/-- The Strict-Transport-Security values the client reads in the final response when the upstream sent `n1xx`
informational responses first. -/
def clientSTSAfter (n1xx : Nat) (o : Served) : List Str :=
  match o with
  | .forward k _ _ resp =>
    if responseWrittenByFabio k then ((entries stsName (finalResponseHeaders n1xx resp)).flatMap (·.2)) else []
  | _ => []

end Fabio.Model.C08
