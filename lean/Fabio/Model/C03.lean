import Fabio.Model.Route
/-!
C03 — request routing (`route/table.go`: `normalizeHost`, `matchingHosts`, `matchingHostNoGlob`,
`sortHostsReverseHostPort`, `ReverseHostPort`, `Lookup`, `LookupHost`, `lookup`; `route/matcher.go`;
`route/routes.go` `Less`).

Built on the shared table model (`Model/Route.lean`): a `Table` is an association list host key ↦ routes.
Go iterates the table map in `matchingHosts`; the model iterates the association list, and
`Props/C03.lean` shows the result does not depend on that order whenever it matters (the sort makes the
host list a function of the key set).

External behaviour taken as parameters (trusted base): `globMatch pattern s` is
`glob.Compile(pattern)` (gobwas/glob, no separators) followed by `Match(s)`, `false` when the pattern does
not compile or when `Match` panics (`route.globMatch` recovers: fix 749f459 of C02); `globFrag` below is the executable model of it for the fragment literal / `*` / `?`.
`pick` is the configured picker, `skip` the redirect self-skip of `Lookup` (owned by C13).
Case folding is ASCII (`lowerL`); `net.SplitHostPort`/`JoinHostPort` are modelled in full.

The model describes the tree *with the repairs of D03, D05, D06, D06b, of the lossy key rewriting in
`sortHostsReverseHostPort`, and of the two round-4 repairs of the host order (port compared after the host
part; `*` below every other character)* (fix commits listed in checks/C03.findings.json).
-/
namespace Fabio.Model.C03
open Fabio Fabio.Model.Route

/-! ### host normalisation -/

def hasSuffix (s suf : Str) : Bool := suf.isSuffixOf s

def port80 : Str := [':', '8', '0']
def port443 : Str := [':', '4', '4', '3']

/-- `normalizeHostNoLower`: strip `:80` from a plain request, `:443` from a TLS request. -/
def normalizeHostNoLower (host : Str) (tls : Bool) : Str :=
  if !tls && hasSuffix host port80 then host.take (host.length - 3)
  else if tls && hasSuffix host port443 then host.take (host.length - 4)
  else host

/-- `normalizeHost` -/
def normalizeHost (host : Str) (tls : Bool) : Str := lowerL (normalizeHostNoLower host tls)

/-! ### gobwas/glob, fragment literal / `*` / `?` (no separators: `*` matches any run) -/

/-- does `f` accept some suffix of `s` -/
def anySuffix (f : Str → Bool) : Str → Bool
  | [] => f []
  | d :: s => f (d :: s) || anySuffix f s

/-- `glob.MustCompile(p).Match(s)` for patterns inside the fragment (`inFragment p`). -/
def globFrag : Str → Str → Bool
  | [], s => s.isEmpty
  | c :: p, s =>
    if c == '*' then anySuffix (globFrag p) s
    else match s with
      | [] => false
      | d :: s' => (c == '?' || c == d) && globFrag p s'

/-- gobwas/glob v0.2.3 deviates from the textbook meaning in two classes (found by the `c03.glob` stream, see
design/C03.md): the lone pattern `?` also matches the empty string, and `L₁*…*L₂` with non-empty literal
`L₁`, `L₂` is compiled to a prefix-and-suffix test without a length check, so `a*ab` matches `ab` and
`/*/bar` matches `/bar`. -/
def gobwasQuirk (p s : Str) : Bool :=
  (p == ['?'] && s.isEmpty) ||
  (let l1 := p.takeWhile (· != '*')
   let rest := p.dropWhile (· != '*')
   let l2 := rest.dropWhile (· == '*')
   !l1.isEmpty && !rest.isEmpty && !l2.isEmpty && !l1.contains '?' && !l2.contains '?' && !l2.contains '*'
     && l1.isPrefixOf s && l2.isSuffixOf s)

/-- what the library computes on the fragment -/
def globLib (p s : Str) : Bool := globFrag p s || gobwasQuirk p s

/-- patterns whose meaning `globFrag` states: no class, alternation or escape (and no NUL, which ends
gobwas' lexer). -/
def inFragment (p : Str) : Bool := p.all (fun c => !(c == '[' || c == '{' || c == '\\' || c.toNat == 0))

/-! ### `net.SplitHostPort`, `net.JoinHostPort`, `ReverseHostPort` -/

/-- `net.SplitHostPort`; `none` = error. -/
def splitHostPort (s : Str) : Option (Str × Str) :=
  match lastIndexOf ':' s with
  | none => none
  | some i =>
    if s.head? == some '[' then
      match indexOf ']' s with
      | none => none
      | some e =>
        if e + 1 == s.length then none
        else if e + 1 == i then
          if (s.drop 1).contains '[' then none
          else if (s.drop (e + 1)).contains ']' then none
          else some ((s.take e).drop 1, s.drop (i + 1))
        else none
    else
      if (s.take i).contains ':' then none
      else if s.contains '[' then none
      else if s.contains ']' then none
      else some (s.take i, s.drop (i + 1))

def joinHostPort (h p : Str) : Str :=
  if h.contains ':' then ['['] ++ h ++ [']', ':'] ++ p else h ++ [':'] ++ p

/-- the part of a key that `reverseHostPort` reverses: the host of `net.SplitHostPort`, the whole string when
there is no port (on an error of `SplitHostPort` both results are empty) -/
def hostPart (s : Str) : Str :=
  let hp := (splitHostPort s).getD ([], [])
  if hp.1.isEmpty then s else hp.1

def portPart (s : Str) : Str := ((splitHostPort s).getD ([], [])).2

/-- the unexported `reverseHostPort`: (host part reversed rune-wise, port) -/
def revParts (s : Str) : Str × Str := ((hostPart s).reverse, portPart s)

/-- `ReverseHostPort`: the host part reversed rune-wise, the port kept. -/
def reverseHostPort (s : Str) : Str :=
  if (portPart s).isEmpty then (hostPart s).reverse else joinHostPort (hostPart s).reverse (portPart s)

/-! ### the host order -/

/-- lexicographic order by a rank of the characters; a proper prefix goes first -/
def ltBy (k : Char → Nat) : Str → Str → Bool
  | [], [] => false
  | [], _ :: _ => true
  | _ :: _, [] => false
  | a :: as, b :: bs => if k a < k b then true else if k b < k a then false else ltBy k as bs

/-- rank of a character in `lessSpecificHost`: `*` stands below every other character (injective) -/
def starRank (c : Char) : Nat := if c == '*' then 0 else c.toNat + 1

/-- `lessSpecificHost a b` on two reversed host names (the Go loop compares bytes; on valid UTF-8 the first
differing byte orders two strings like the first differing rune, and `*` is a rune of its own) -/
def lessSpecificHost (a b : Str) : Bool := ltBy starRank a b

/-- the comparison of `sortHostsReverseHostPort` (`sort.Slice` less function): `a` goes strictly before `b`
when its reversed host part is more specific (`lessSpecificHost` the other way round); for equal host parts
the greater port first; ties (distinct keys with one host part and port, e.g. `foo.com` and `foo.com:`) by
the key itself. A strict total order on keys, so every correct sort gives the same list. -/
def hostBefore (a b : Str) : Bool :=
  if (revParts a).1 != (revParts b).1 then lessSpecificHost (revParts b).1 (revParts a).1
  else if (revParts a).2 != (revParts b).2 then strLt (revParts b).2 (revParts a).2
  else strLt b a

def insHost (x : Str) : List Str → List Str
  | [] => [x]
  | y :: ys => if hostBefore x y then x :: y :: ys else y :: insHost x ys

def sortByRev (xs : List Str) : List Str := xs.foldr insHost []

/-- `isHostPattern`: the empty key (host-less routes) or a key with a glob metacharacter of gobwas/glob
(`host == "" || strings.ContainsAny(host, "*?[{\\")`) -/
def isGlobPat (k : Str) : Bool :=
  k.isEmpty || k.any (fun c => c == '*' || c == '?' || c == '[' || c == '{' || c == '\\')

/-- `sortHostsReverseHostPort`: the hosts ordered by `hostBefore` (the keys themselves
are kept: repair of the lossy double reversal); then (repair of D06b) host names without glob
metacharacters go before the patterns, order otherwise kept. -/
def sortHosts (hs : List Str) : List Str :=
  if hs.length < 2 then hs else
  let s := sortByRev hs
  s.filter (fun k => !isGlobPat k) ++ s.filter isGlobPat

def keys (t : Table) : List Str := t.map (·.1)

/-- `Table.matchingHosts`. A pattern that does not compile matches nothing (repair of D03). -/
def matchingHosts (globMatch : Str → Str → Bool) (t : Table) (host : Str) (tls : Bool) : List Str :=
  sortHosts ((keys t).filter (fun pat => globMatch (normalizeHost pat tls) (normalizeHost host tls)))

/-- `Table.matchingHostNoGlob` (request host normalised like the pattern: repair of D05). -/
def matchingHostNoGlob (t : Table) (host : Str) (tls : Bool) : List Str :=
  sortHosts (((keys t).filter (fun pat => normalizeHost pat tls == normalizeHost host tls)).map lowerL)

/-! ### path matchers (`route/matcher.go`) -/

inductive MatcherKind where
  | pfx | iprefix | glob
deriving DecidableEq, Repr

/-- `matcher(uri, route)` as a function of the route's path; `pathGlob pattern uri` is the route's compiled
glob. -/
def pathMatch (pathGlob : Str → Str → Bool) : MatcherKind → Str → Str → Bool
  | .pfx, uri, p => p.isPrefixOf uri
  | .iprefix, uri, p => (lowerL p).isPrefixOf (lowerL uri)
  | .glob, uri, p => pathGlob p uri

/-! ### the order of a host's routes (`Routes.Less`, repair of D06): longer path first, ties by descending
string order. Go's `len` counts bytes. -/

def byteLen (s : Str) : Nat := (s.map Char.utf8Size).foldl (· + ·) 0

/-! ### `lookup`, `Lookup`, `LookupHost` -/

/-- the loop of `Table.lookup` over one host's routes: the first route whose path matches decides; a
route without targets ends the search for this host. -/
def lookupRoutes (m : Str → Str → Bool) (pick : Route → Target) (path : Str) : List Route → Option (Route × Target)
  | [] => none
  | r :: rs =>
    if m path r.path then
      match r.targets with
      | [] => none
      | [x] => some (r, x)
      | _ => some (r, pick r)
    else lookupRoutes m pick path rs

/-- `Table.lookup(host, path, …)` -/
def lookup (m : Str → Str → Bool) (pick : Route → Target) (t : Table) (host path : Str) : Option (Route × Target) :=
  lookupRoutes m pick path (t.get (lowerL host))

/-- the loop of `Lookup` over the host list: `last` is the value the variable `target` holds when the loop
ends without a `break`. Since the C13 repair b42ae83 a skipped self-redirect is dropped (`target = nil`
before `continue`), so `last` stays `none`: a skip on the last host ends with "no route". The result names
the host key that was looked up. -/
def lookupHosts (look : Str → Option (Route × Target)) (skip : Target → Bool) :
    List Str → Option (Str × Route × Target) → Option (Str × Route × Target)
  | [], last => last
  | h :: hs, _ =>
    match look h with
    | none => lookupHosts look skip hs none
    | some (r, tg) => if skip tg then lookupHosts look skip hs none else some (h, r, tg)

structure Cfg where
  /-- compiled host glob: `globMatch pattern host` -/
  globMatch : Str → Str → Bool
  /-- the configured matcher as a function `uri → route path → Bool` -/
  pathMatch : Str → Str → Bool
  pick : Route → Target
  /-- redirect self-skip (C13) for the request at hand -/
  skip : Target → Bool := fun _ => false
  globDisabled : Bool := false

structure Req where
  host : Str
  tls : Bool
  path : Str
deriving Repr

def hostList (cfg : Cfg) (t : Table) (req : Req) : List Str :=
  (if cfg.globDisabled then matchingHostNoGlob t req.host req.tls
   else matchingHosts cfg.globMatch t req.host req.tls) ++ [[]]

/-- `Table.Lookup` -/
def Lookup (cfg : Cfg) (t : Table) (req : Req) : Option (Str × Route × Target) :=
  lookupHosts (fun h => lookup cfg.pathMatch cfg.pick t h req.path) cfg.skip (hostList cfg t req) none

/-- `Table.LookupHost`: exact (lower-cased) host key, prefix matcher on "/". -/
def LookupHost (pick : Route → Target) (t : Table) (host : Str) : Option (Route × Target) :=
  lookup (fun uri p => p.isPrefixOf uri) pick t host ['/']

end Fabio.Model.C03
