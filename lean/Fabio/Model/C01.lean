import Fabio.Basic
import Fabio.Model.Parse
/-!
Model for property C01 — "Routing table holds exactly the healthy, tagged service instances".

Code under test (`/repo`):
* `registry/consul/passing.go`   : `passingServices`, `isServiceCheck`, `hasStatus`
* `registry/consul/service.go`   : `checksWithTagPrefix`, `ServiceMonitor.Watch`, `makeConfig`, `serviceConfig`
* `main.go`                      : `watchBackend` (second `switch` arm)

Conventions (DESIGN.md §5): Go strings are `List Char`; the nested loop of `passingServices` with its early
`continue CHECKS` is a fold with a sticky `skip` flag; Go maps are handled through their key function (the
instance join is parameterised by the key function so that the key of the code before the repair of D01 and
the repaired key are both expressible); `route.NewTable` is the parameter `build : Str → Option T`.
Everything here is core Lean and executable (linked into the driver).
-/
namespace Fabio.Model.C01

abbrev Str := List Char

/-- the fields of `api.HealthCheck` the code reads -/
structure Check where
  node : Str
  checkID : Str
  serviceID : Str
  serviceName : Str := []
  status : Str
  tags : List Str := []
deriving DecidableEq, Repr

def serf : Str := "serfHealth".toList
def nodeMaint : Str := "_node_maintenance".toList
/-- `passing.go` compares with `"_service_maintenance:"` (with the colon) -/
def svcMaintPfx : Str := "_service_maintenance:".toList
/-- `checksWithTagPrefix` in `service.go` tests the prefix `"_service_maintenance"` (no colon) -/
def svcMaintNoColon : Str := "_service_maintenance".toList
def critical : Str := "critical".toList

/-- `isServiceCheck` -/
def isServiceCheck (c : Check) : Bool :=
  c.serviceID != [] && c.checkID != serf && c.checkID != nodeMaint && !(svcMaintPfx.isPrefixOf c.checkID)

/-- `hasStatus` -/
def hasStatus (c : Check) (st : List Str) : Bool := st.contains c.status

/-- loop state of the inner loop: the two counters and "`continue CHECKS` was taken" -/
structure Acc where
  total : Nat := 0
  passing : Nat := 0
  skip : Bool := false
deriving DecidableEq, Repr

/-- one iteration of the inner `for _, c := range checks` loop for the outer element `svc` -/
def inner (svc : Check) (st : List Str) (a : Acc) (c : Check) : Acc :=
  if a.skip then a else
  if svc.node == c.node then
    let a1 : Acc := if svc.serviceID == c.serviceID then
        { a with total := a.total + 1, passing := if hasStatus c st then a.passing + 1 else a.passing }
      else a
    if c.checkID == serf && c.status == critical then { a1 with skip := true }
    else if c.checkID == nodeMaint then { a1 with skip := true }
    else if c.checkID == svcMaintPfx ++ svc.serviceID && c.status == critical then { a1 with skip := true }
    else a1
  else a

/-- the body of the outer loop: is `svc` appended to the result -/
def keep (checks : List Check) (st : List Str) (strict : Bool) (svc : Check) : Bool :=
  if !isServiceCheck svc then false else
  let a := checks.foldl (inner svc st) {}
  if a.skip then false
  else if a.passing == 0 then false
  else if strict && a.total != a.passing then false
  else true

/-- `passingServices(checks, status, strict)`: the outer loop appends `svc` in input order. -/
def passingServices (checks : List Check) (st : List Str) (strict : Bool) : List Check :=
  checks.filter (keep checks st strict)

/-! ### The English rule -/

/-- "healthy under the configured rule" for the instance `(node, id)`, read off the statement of C01 (and
DESIGN.md C01 "I"): some check of that node+service has an accepted status; in strict mode all of them do;
the node's agent is alive (no critical `serfHealth` on the node); the node is not in maintenance (no
`_node_maintenance` check on the node — any status, as coded); the service is not in maintenance (no critical
`_service_maintenance:<id>` check on the node). -/
def HealthyAt (cs : List Check) (st : List Str) (strict : Bool) (node id : Str) : Prop :=
  (∃ c ∈ cs, c.node = node ∧ c.serviceID = id ∧ c.status ∈ st) ∧
  (strict = true → ∀ c ∈ cs, c.node = node → c.serviceID = id → c.status ∈ st) ∧
  (∀ c ∈ cs, c.node = node → ¬ (c.checkID = serf ∧ c.status = critical)) ∧
  (∀ c ∈ cs, c.node = node → c.checkID ≠ nodeMaint) ∧
  (∀ c ∈ cs, c.node = node → ¬ (c.checkID = svcMaintPfx ++ id ∧ c.status = critical))

instance (cs : List Check) (st : List Str) (strict : Bool) (node id : Str) :
    Decidable (HealthyAt cs st strict node id) := by
  delta HealthyAt
  refine @instDecidableAnd _ _ ?_ (@instDecidableAnd _ _ ?_ (@instDecidableAnd _ _ ?_ (@instDecidableAnd _ _ ?_ ?_)))
  all_goals infer_instance

/-! ### `checksWithTagPrefix` -/

/-- the first `if` of the loop body: serf / node maintenance / service maintenance checks are always kept -/
def isNodeOrMaint (c : Check) : Bool :=
  c.checkID == serf || c.checkID == nodeMaint || svcMaintNoColon.isPrefixOf c.checkID

/-- one of the check's service tags, after `strings.TrimSpace` (as `routecmd.build` reads a tag), has the prefix.
Before the repair of D27 the tag was tested as it stands: an instance whose only routing tag has white space in front
of the prefix lost all its checks here although `routecmd.build` would have emitted its route. -/
def hasTagPrefix (pfx : Str) (c : Check) : Bool := c.tags.any (fun t => pfx.isPrefixOf (Fabio.Model.Parse.trimSpace t))

/-- the test of the code before the repair of D27 (the tag as it stands) -/
def hasTagPrefixRaw (pfx : Str) (c : Check) : Bool := c.tags.any (fun t => pfx.isPrefixOf t)

/-- `checksWithTagPrefix(prefix, checks)`: each check is appended at most once (`continue` / `break`). -/
def checksWithTagPrefix (pfx : Str) (cs : List Check) : List Check :=
  cs.filter (fun c => isNodeOrMaint c || hasTagPrefix pfx c)

/-! ### The instance join of `makeConfig` / `serviceConfig` -/

/-- the fields of `api.CatalogService` the code reads -/
structure Instance where
  node : Str
  serviceID : Str
  serviceName : Str
  address : Str := []
  serviceAddress : Str := []
  port : Nat := 0
  tags : List Str := []
deriving DecidableEq, Repr

/-- The join key of the code before the repair of D01: `fmt.Sprintf("%s.%s", check.Node, check.ServiceID)`
in `makeConfig` and `svc.Node+"."+svc.ServiceID` in `serviceConfig`. -/
def keyDot (node id : Str) : Str := node ++ '.' :: id

/-- The repaired join key: the pair (a Go struct key `instanceID{node, serviceID}`). -/
def keyPair (node id : Str) : Str × Str := (node, id)

/-- `makeConfig`'s map `m[name]`: the set of keys of the passing checks of service `name`. -/
def passingKeys {κ : Type} (key : Str → Str → κ) (name : Str) (passing : List Check) : List κ :=
  (passing.filter (fun c => c.serviceName == name)).map (fun c => key c.node c.serviceID)

/-- `serviceConfig`'s loop: the catalog entries of `name` whose key is in the passing set, in catalog
order. `serviceConfig` returns nothing for `name == ""` or an empty passing set. -/
def joined {κ : Type} [BEq κ] (key : Str → Str → κ) (passing : List Check) (catalog : Str → List Instance)
    (name : Str) : List Instance :=
  if name.isEmpty then [] else
  (catalog name).filter (fun i => (passingKeys key name passing).contains (key i.node i.serviceID))

/-- distinct service names of the passing checks (the keys of `m`), first-occurrence order; Go iterates the
map in an unspecified order, the final sort makes the result independent of it. -/
def serviceNames (passing : List Check) : List Str :=
  passing.foldl (fun acc c => if acc.contains c.serviceName then acc else acc ++ [c.serviceName]) []

/-- byte-wise string order (`sort.StringSlice.Less`); the generators keep command text ASCII -/
def strLt : Str → Str → Bool
  | [], [] => false
  | [], _ :: _ => true
  | _ :: _, [] => false
  | a :: as, b :: bs => if a.toNat < b.toNat then true else if b.toNat < a.toNat then false else strLt as bs

def insertDesc (s : Str) : List Str → List Str
  | [] => [s]
  | x :: xs => if strLt x s then s :: x :: xs else x :: insertDesc s xs

/-- `sort.Sort(sort.Reverse(sort.StringSlice(config)))`: strings are totally ordered and equal strings are
indistinguishable, so the unstable sort has one possible result. -/
def sortDesc (l : List Str) : List Str := l.foldr insertDesc []

/-- `makeConfig`: the commands of every joined instance of every service name, sorted in reverse order.
`cmds` is `routecmd.build` (owned by C14), a parameter here. The text is these lines joined by "\n". -/
def makeConfigLines {κ : Type} [BEq κ] (key : Str → Str → κ) (cmds : Instance → List Str)
    (passing : List Check) (catalog : Str → List Instance) : List Str :=
  sortDesc ((serviceNames passing).flatMap (fun name => (joined key passing catalog name).flatMap cmds))

def joinLines : List Str → Str
  | [] => []
  | [l] => l
  | l :: ls => l ++ '\n' :: joinLines ls

/-- what `Watch` sends for one health-state answer: filter → passing → makeConfig -/
def watchOnce {κ : Type} [BEq κ] (key : Str → Str → κ) (cmds : Instance → List Str) (pfx : Str)
    (st : List Str) (strict : Bool) (checks : List Check) (catalog : Str → List Instance) : List Str :=
  makeConfigLines key cmds (passingServices (checksWithTagPrefix pfx checks) st strict) catalog

/-! ### failing catalog lookups

`serviceConfig` returns `nil` when `Catalog().Service(name, …)` fails: that service contributes nothing to this
round's text (and `ServiceMonitor` keeps no state between rounds — pinned by a fact). `fails name` says whether the
lookup of `name` fails in this round; it is arbitrary. -/

def joinedF {κ : Type} [BEq κ] (fails : Str → Bool) (key : Str → Str → κ) (passing : List Check)
    (catalog : Str → List Instance) (name : Str) : List Instance :=
  if fails name then [] else joined key passing catalog name

def makeConfigLinesF {κ : Type} [BEq κ] (fails : Str → Bool) (key : Str → Str → κ) (cmds : Instance → List Str)
    (passing : List Check) (catalog : Str → List Instance) : List Str :=
  sortDesc ((serviceNames passing).flatMap (fun name => (joinedF fails key passing catalog name).flatMap cmds))

/-- what `Watch` sends for one health-state answer when some catalog lookups fail -/
def watchOnceF {κ : Type} [BEq κ] (fails : Str → Bool) (key : Str → Str → κ) (cmds : Instance → List Str)
    (pfx : Str) (st : List Str) (strict : Bool) (checks : List Check) (catalog : Str → List Instance) : List Str :=
  makeConfigLinesF fails key cmds (passingServices (checksWithTagPrefix pfx checks) st strict) catalog

/-! ### `watchBackend` as a step machine -/

/-- the locals of `watchBackend` that survive an iteration, plus the active table (`route.table`) -/
structure State (T : Type) where
  svccfg : Str := []
  mancfg : Str := []
  lastTable : Str := []
  active : T

inductive Event where
  | svc (text : Str)   -- `case svccfg = <-svc`
  | man (text : Str)   -- `case mancfg = <-man`
deriving DecidableEq, Repr

/-- `svccfg + "\n" + mancfg` (the `tableBuffer` writes: service text first) -/
def concatCfg (svc man : Str) : Str := svc ++ '\n' :: man

def receive {T} (s : State T) : Event → State T
  | .svc t => { s with svccfg := t }
  | .man t => { s with mancfg := t }

/-- One iteration of the `for { select … }` loop. The second component is the table handed to
`route.SetTable` in this iteration, if any. `build` is `route.NewTable` (`none` = error). -/
def stepOut {T} (build : Str → Option T) (s : State T) (e : Event) : State T × Option T :=
  let s1 := receive s e
  let next := concatCfg s1.svccfg s1.mancfg
  if next == s1.lastTable then (s1, none)            -- `continue`: unchanged text
  else match build next with
    | none => (s1, none)                              -- NewTable error: `continue`, old table keeps serving
    | some t => ({ s1 with lastTable := next, active := t }, some t)   -- SetTable, then lastTable = nextTable

def step {T} (build : Str → Option T) (s : State T) (e : Event) : State T := (stepOut build s e).1

def run {T} (build : Str → Option T) (s : State T) (es : List Event) : State T := es.foldl (step build) s

/-- the text of the last `svc` event of a history (`none`: no such event) -/
def lastSvc (es : List Event) : Option Str :=
  es.foldl (fun acc e => match e with | .svc t => some t | .man _ => acc) none

/-- the text of the last `man` event of a history -/
def lastMan (es : List Event) : Option Str :=
  es.foldl (fun acc e => match e with | .man t => some t | .svc _ => acc) none

/-- the state `watchBackend` starts in: empty locals, the table `route.init` stored -/
def init {T} (t0 : T) : State T := { active := t0 }

end Fabio.Model.C01
