import Fabio.Model.C07
import Fabio.Model.C17
/-!
C07 — the property's sentences as decidable predicates over what was *observed* (the request the upstream
recorded, the response the client read).  Written as brute-force references, independent of the model's
`targetURL`/`escapedPath`: the driver evaluates them on the implementation's own output (`spec`).
-/
namespace Fabio.Model.C07Spec
open Fabio.Model.C07

/-- split a request-target at the first `?` -/
def splitQuery (uri : Bytes) : Bytes × Option Bytes :=
  match uri.span (· ≠ QMARK) with
  | (p, []) => (p, none)
  | (p, _ :: q) => (p, some q)

/-- every way of cutting `s` in two -/
def splits (s : Bytes) : List (Bytes × Bytes) :=
  (List.range (s.length + 1)).map fun k => (s.take k, s.drop k)

/-- what is left of the client's escaped path when the piece that decodes to `strip` is cut off its front -/
def escapedRemainder (strip client : Bytes) : Option Bytes :=
  ((splits client).find? fun ab => unescape ab.1 = some strip).map (·.2)

def slashed (d w : Bytes) : Bytes × Bytes :=
  match d with
  | 47 :: _ => (d, w)
  | _ => (47 :: d, 47 :: w)

/-- "the path rewritten only by the route's strip and prepend options (keeping the client's percent-encoding and
always leaving an absolute path)": the decoded path the upstream must see and the bytes it must see on the
wire, from the client's bytes (the option's own escaped form is Go's canonical encoding of it).
`none`: the client's request-target does not decode. -/
def expectedPath (strip prepend client : Bytes) : Option (Bytes × Bytes) := do
  let p ← unescape client
  let (d, w) ←
    if strip ≠ [] ∧ strip.isPrefixOf p = true then do
      let rem ← escapedRemainder strip client
      pure (slashed (p.drop strip.length) rem)
    else pure (p, client)
  if prepend ≠ [] then pure (slashed (prepend ++ d) (({ path := prepend } : URL).escapedPath ++ w)) else pure (d, w)

/-- "always leaving an absolute path": `/` is put in front of a path that does not begin with one -/
def ensureAbs (p : Bytes) : Bytes := if startsWithSlash p then p else SLASH :: p

/-- "the route's own query merged in front" -/
def expectedQuery (tq rq : Bytes) : Bytes :=
  tq ++ (if tq ≠ [] ∧ rq ≠ [] then [AMP] else []) ++ rq

/-- "the Host header replaced only when the route asks for it" -/
def expectedHost (hostOpt targetHost clientHost : String) : String :=
  if hostOpt = "" then clientHost else if hostOpt = "dst" then targetHost else hostOpt

/-- the path sentence on an observed request-target path `upath`: it is absolute, it decodes to the rewritten
path, and its bytes are the expected wire form `w`.  Only where `w` is not absolute (the escaped remainder
begins with an encoded slash and nothing is prepended: no absolute wire form keeps both the client's encoding
and the decoded path, see design/C07.md) the bytes are left open. -/
def pathOK (strip prepend client upath : Bytes) : Bool :=
  match expectedPath strip prepend client with
  | none => false
  | some (d, w) =>
    startsWithSlash upath = startsWithSlash client &&
    unescape upath = some d &&
    (if startsWithSlash w = startsWithSlash client then upath = w else true)

/-! ### header multisets -/

def count (l : List (String × String)) (x : String × String) : Nat := (l.filter (· = x)).length

def sameMultiset (a b : List (String × String)) : Bool :=
  (a ++ b).all fun x => count a x = count b x

/-- the end-to-end part of a header list for the comparison the property asks for: hop-by-hop headers (the
fixed set and whatever `Connection` lists), the forwarding headers of C08 and the framing headers are not
part of it. -/
def endToEnd (listed : List String) (l : List (String × String)) : List (String × String) :=
  l.filter fun kv => !(hopNames ++ forwardingNames ++ framingNames ++ listed).contains kv.1

/-! ### what a piece of an escaped path stands for -/

/-- the number of bytes a piece of an escaped path stands for, counted the way `escapedLen` counts: a `%` stands for
one byte together with the (up to) two bytes behind it. The reference for the cut that goes with a strip option
(`Lemmas.C07.dropEscaped_count`: the model satisfies it, for every byte string; `Props/C07Xlate.lean xescapedLen_count`: so does the Go function as translated). -/
def decodedCount : Bytes → Nat
  | [] => 0
  | c :: s => if c = PCT then 1 + decodedCount (s.drop 2) else 1 + decodedCount s
termination_by s => s.length
decreasing_by all_goals simp_wf <;> omega

/-! ### "the client accepts gzip"

The second sentence lets fabio change the bytes of a reply in one way only: the gzip coding of C17, and that only
for a client that accepts it.  What "accepts" means is read off the client's `Accept-Encoding` value the way
RFC 9110 §12.5.3 words it — NOT the way `acceptsGzip` walks the list: an element naming `gzip` (any case) with a
weight other than zero makes it acceptable; if `gzip` is named only with weight zero it is refused, whatever else
the list says; if it is not named at all, a `*` element with a weight other than zero makes it acceptable.  A weight
is zero when the element's first `q` parameter is one of the literals the RFC's `qvalue` grammar has for zero.
The lexical primitives (`splitOn`, `cut`, `trim`) are C17's; the decision is not. -/

open Fabio.Model.C17 (splitOn cut trim) in
/-- the value of the first parameter named `q`/`Q` -/
def qParam : List (List Char) → Option (List Char)
  | [] => none
  | p :: ps =>
    let name := trim (cut '=' p).1
    if name == ['q'] || name == ['Q'] then some (trim (cut '=' p).2) else qParam ps

/-- `qvalue = "0" [ "." 0*3("0") ]` -/
def rfcZero (v : List Char) : Bool :=
  v == ['0'] || v == ['0', '.'] || v == ['0', '.', '0'] || v == ['0', '.', '0', '0'] || v == ['0', '.', '0', '0', '0']

/-- the element carries weight zero: "not acceptable" -/
def refused (e : List Char) : Bool :=
  match qParam (C17.splitOn ';' (C17.cut ';' e).2) with
  | some v => rfcZero v
  | none => false

/-- the element names this content coding (codings are case-insensitive) -/
def namesCoding (c : List Char) (e : List Char) : Bool := (C17.trim (C17.cut ';' e).1).map Fabio.lowerChar == c

def acceptableL (es : List (List Char)) : Bool :=
  let named := es.filter (namesCoding "gzip".toList)
  if named.isEmpty then (es.filter (namesCoding "*".toList)).any (fun e => !refused e)
  else named.any (fun e => !refused e)

/-- may a reply to a client that sent this `Accept-Encoding` value be gzip-coded by the proxy? -/
def gzipAcceptable (acceptEncoding : String) : Bool := acceptableL (C17.splitOn ',' acceptEncoding.toList)

end Fabio.Model.C07Spec
