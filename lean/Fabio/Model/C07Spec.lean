import Fabio.Model.C07
/-!
C07 — the property's sentences as decidable predicates over what was *observed* (the request the upstream
recorded, the response the client read).  Written as brute-force references, independent of the model's
`targetURL`/`escapedPath`: the driver evaluates them on the implementation's own output (`spec`).
-/
namespace Fabio.Model.C07Spec
open Fabio.Model.C07

/-- split a request-target at the first `?` -/
def splitQuery (uri : Bytes) : Bytes × Option Bytes :=
  match uri.span (· ≠ QMARK) with
  | (p, []) => (p, none)
  | (p, _ :: q) => (p, some q)

/-- every way of cutting `s` in two -/
def splits (s : Bytes) : List (Bytes × Bytes) :=
  (List.range (s.length + 1)).map fun k => (s.take k, s.drop k)

/-- what is left of the client's escaped path when the piece that decodes to `strip` is cut off its front -/
def escapedRemainder (strip client : Bytes) : Option Bytes :=
  ((splits client).find? fun ab => unescape ab.1 = some strip).map (·.2)

def slashed (d w : Bytes) : Bytes × Bytes :=
  match d with
  | 47 :: _ => (d, w)
  | _ => (47 :: d, 47 :: w)

/-- "the path rewritten only by the route's strip and prepend options (keeping the client's percent-encoding and
always leaving an absolute path)": the decoded path the upstream must see and the bytes it must see on the
wire, from the client's bytes (the option's own escaped form is Go's canonical encoding of it).
`none`: the client's request-target does not decode. -/
def expectedPath (strip prepend client : Bytes) : Option (Bytes × Bytes) := do
  let p ← unescape client
  let (d, w) ←
    if strip ≠ [] ∧ strip.isPrefixOf p = true then do
      let rem ← escapedRemainder strip client
      pure (slashed (p.drop strip.length) rem)
    else pure (p, client)
  if prepend ≠ [] then pure (slashed (prepend ++ d) (({ path := prepend } : URL).escapedPath ++ w)) else pure (d, w)

/-- "always leaving an absolute path": `/` is put in front of a path that does not begin with one -/
def ensureAbs (p : Bytes) : Bytes := if startsWithSlash p then p else SLASH :: p

/-- "the route's own query merged in front" -/
def expectedQuery (tq rq : Bytes) : Bytes :=
  tq ++ (if tq ≠ [] ∧ rq ≠ [] then [AMP] else []) ++ rq

/-- "the Host header replaced only when the route asks for it" -/
def expectedHost (hostOpt targetHost clientHost : String) : String :=
  if hostOpt = "" then clientHost else if hostOpt = "dst" then targetHost else hostOpt

/-- the path sentence on an observed request-target path `upath`: it is absolute, it decodes to the rewritten
path, and its bytes are the expected wire form `w`.  Only where `w` is not absolute (the escaped remainder
begins with an encoded slash and nothing is prepended: no absolute wire form keeps both the client's encoding
and the decoded path, see design/C07.md) the bytes are left open. -/
def pathOK (strip prepend client upath : Bytes) : Bool :=
  match expectedPath strip prepend client with
  | none => false
  | some (d, w) =>
    startsWithSlash upath = startsWithSlash client &&
    unescape upath = some d &&
    (if startsWithSlash w = startsWithSlash client then upath = w else true)

/-! ### header multisets -/

def count (l : List (String × String)) (x : String × String) : Nat := (l.filter (· = x)).length

def sameMultiset (a b : List (String × String)) : Bool :=
  (a ++ b).all fun x => count a x = count b x

/-- the end-to-end part of a header list for the comparison the property asks for: hop-by-hop headers (the
fixed set and whatever `Connection` lists), the forwarding headers of C08 and the framing headers are not
part of it. -/
def endToEnd (listed : List String) (l : List (String × String)) : List (String × String) :=
  l.filter fun kv => !(hopNames ++ forwardingNames ++ framingNames ++ listed).contains kv.1

end Fabio.Model.C07Spec
