import Fabio.Model.C02
import Fabio.Model.C02Loop
import Fabio.Model.Parse
/-!
C02, round 4 — the long-lived `tableBuffer` of `watchBackend` and what `route.NewTable` leaves in it (core Lean).

`Model/C02.lean` hands `build` the concatenated text `svccfg ++ "\n" ++ mancfg`. The real loop hands
`route.NewTable` a `*bytes.Buffer` that lives as long as the process:

```
tableBuffer.Reset()
tableBuffer.WriteString(svccfg); tableBuffer.WriteString("\n"); tableBuffer.WriteString(mancfg)
if nextTable = tableBuffer.String(); nextTable == lastTable { continue }
…
t, err := route.NewTable(tableBuffer)        -- Parse reads the buffer through a bufio.Scanner
```

`Parse` returns at the first syntax error, and the scanner has then taken out of the buffer only the chunks it
has read so far (4096 bytes at first, doubling up to 64 KiB): the REST OF A REJECTED TEXT STAYS IN THE BUFFER. Two
independent authors of seeded changes (m4, m10) attacked exactly this state. It is modelled here:

1. `Buf` — `bytes.Buffer` as far as the loop uses it: the unread bytes; `Reset`, `WriteString`, `String`.
2. `NT` — `route.NewTable(buf)` as the loop sees it: the result is a function of the buffer's content, and SOME
   tail of the content is left unread (`rest`). Nothing is assumed about `rest` in the theorems about the real
   loop (`Props/C02Buf.lean`): they hold whatever the scanner leaves behind.
3. `stepB` — one iteration with the buffer as part of the state, in two variants: as written (`reset := true`) and
   without the `Reset` and with the buffer filled after the skip test (`reset := false`: the shape of m10).
4. `Scan` — `bufio.Scanner.Scan` with `ScanLines` on a `bytes.Buffer`, statement by statement on positions
   (buffer capacity, `start`, `end`, bytes taken from the source, EOF seen): `consumed` is the number of bytes
   `Parse` has taken out of the buffer when it returns, `leftAfterParse` what `tableBuffer.Len()` is afterwards.
   Compared with the real `bytes.Buffer` after the real `route.NewTable` on every case of stream `c02.buffer`.
-/
namespace Fabio.Model.C02Buf
open Fabio Fabio.Model.C02 Fabio.Model.Parse Fabio.Model.Route

/-! ## 1. `bytes.Buffer` as the loop uses it -/

/-- the unread part of the buffer -/
abbrev Buf := Text

def Buf.reset (_ : Buf) : Buf := []
def Buf.writeString (b : Buf) (s : Text) : Buf := b ++ s
/-- `String()`: the unread part -/
def Buf.string (b : Buf) : Text := b

/-! ## 2. `route.NewTable` on a buffer -/

/-- `build content` = the table (`none` = error); `rest content` = what is left unread afterwards -/
structure NT (T : Type) where
  build : Text → Option T
  rest : Text → Text

/-- the contract `bytes.Buffer` + `bufio.Scanner` do honour (not needed by the theorems about the real loop; it
makes the counterexample about the loop without `Reset` an honest one): what is left is a tail of what was there -/
def NT.RestIsSuffix {T} (nt : NT T) : Prop := ∀ s, ∃ p, s = p ++ nt.rest s

/-! ## 3. the loop with its buffer -/

structure WBB (T : Type) where
  wb : WB T
  /-- unread content of `tableBuffer` between two iterations -/
  buf : Buf

def WBB.init {T} (t0 : T) (junk : Buf) : WBB T := { wb := WB.init t0, buf := junk }

/-- One iteration. `reset = true`: the loop as written. `reset = false`: no `Reset`, `nextTable` computed as a
string, the buffer filled only for texts that are parsed ("NewTable reads the buffer until it is empty"). -/
def stepB {T} (reset : Bool) (nt : NT T) (st : WBB T) (e : Ev) : WBB T :=
  let st1 := st.wb.recv e
  if reset then
    let b := (((st.buf.reset).writeString st1.svccfg).writeString ['\n']).writeString st1.mancfg
    let next := b.string
    if next = st1.lastTable then { wb := st1, buf := b }
    else match nt.build b.string with
      | none => { wb := st1, buf := nt.rest b.string }
      | some t => { wb := { st1 with active := t, lastTable := next }, buf := nt.rest b.string }
  else
    let next := st1.svccfg ++ ['\n'] ++ st1.mancfg
    if next = st1.lastTable then { wb := st1, buf := st.buf }
    else
      let b := st.buf.writeString next
      match nt.build b.string with
      | none => { wb := st1, buf := nt.rest b.string }
      | some t => { wb := { st1 with active := t, lastTable := next }, buf := nt.rest b.string }

def runB {T} (reset : Bool) (nt : NT T) (st : WBB T) (es : List Ev) : WBB T := es.foldl (stepB reset nt) st

/-! ## 4. `bufio.Scanner` (`ScanLines`) reading a `bytes.Buffer` -/

/-- the two constants of `bufio`: `startBufSize` and `MaxScanTokenSize` (a parameter so that the examples can
show a left-over tail on a text of a few bytes; the real values are `goCfg`) -/
structure ScanCfg where
  startBuf : Nat
  maxTok : Nat
deriving Repr, DecidableEq

def goCfg : ScanCfg := { startBuf := 4096, maxTok := maxToken }

/-- the source as the scanner sees it: one flag per byte, `true` = `'\n'` -/
def nlFlags (text : Str) : Array Bool :=
  text.foldl (fun a c => if c == '\n' then a.push true else (List.replicate c.utf8Size false).foldl Array.push a) #[]

/-- first position in `[i, hi)` holding a newline (`bytes.IndexByte(data, '\n')`); `fuel ≥ hi - i` -/
def findNL (data : Array Bool) (hi : Nat) : Nat → Nat → Option Nat
  | 0, _ => none
  | fuel+1, i => if i < hi then (if data[i]? == some true then some i else findNL data hi fuel (i+1)) else none

structure Scan where
  /-- `len(s.buf)` -/
  cap : Nat := 0
  start : Nat := 0
  end_ : Nat := 0
  /-- bytes read out of the `bytes.Buffer` so far -/
  off : Nat := 0
  /-- `s.err == io.EOF` -/
  eof : Bool := false
  /-- `s.err == ErrTooLong` -/
  tooLong : Bool := false
deriving Repr, DecidableEq

/-- bytes held in the scanner's buffer: `s.buf[s.start:s.end]` -/
def Scan.held (s : Scan) : Nat := s.end_ - s.start
/-- position in the source of `s.buf[s.start]` -/
def Scan.base (s : Scan) : Nat := s.off - s.held

/-- `if s.end > s.start || s.err != nil { advance, token, err := s.split(s.buf[s.start:s.end], s.err != nil) … }` with
`ScanLines`: position, length, advance of the token, if there is one -/
def Scan.token (data : Array Bool) (s : Scan) : Option (Nat × Nat × Nat) :=
  if s.held > 0 || s.eof then
    match findNL data s.off (s.held + 1) s.base with
    | some i => some (s.base, i - s.base, i + 1 - s.base)
    | none => if s.eof && s.held > 0 then some (s.base, s.held, s.held) else none
  else none

/-- "First, shift data to beginning of buffer if there's lots of empty space or space is needed." -/
def Scan.shift (s : Scan) : Scan :=
  if s.start > 0 && (s.end_ == s.cap || s.start > s.cap / 2) then { s with end_ := s.held, start := 0 } else s

/-- "Is the buffer full?" … and already as large as a token may be: `ErrTooLong` -/
def Scan.full (cfg : ScanCfg) (s : Scan) : Bool := s.end_ == s.cap && s.cap ≥ cfg.maxTok

/-- "If so, resize." -/
def Scan.grow (cfg : ScanCfg) (s : Scan) : Scan :=
  if s.end_ == s.cap then
    { s with cap := (if s.cap == 0 then cfg.startBuf else min (s.cap * 2) cfg.maxTok), end_ := s.end_ - s.start, start := 0 }
  else s

/-- `s.r.Read(s.buf[s.end:len(s.buf)])` on a `bytes.Buffer`: an empty buffer answers `0, io.EOF`, otherwise `copy` of
what fits -/
def Scan.read (data : Array Bool) (s : Scan) : Scan :=
  if data.size - s.off == 0 then { s with eof := true }
  else { s with end_ := s.end_ + min (s.cap - s.end_) (data.size - s.off), off := s.off + min (s.cap - s.end_) (data.size - s.off) }

/-- One call of `Scan()`: `some (pos, len)` = a token (absolute position in the source, length without the
newline), `none` = `false`. `fuel` bounds the inner `for` (every round either returns or reads ≥ 1 byte or sets EOF). -/
def Scan.next (cfg : ScanCfg) (data : Array Bool) : Nat → Scan → Option (Nat × Nat) × Scan
  | 0, s => (none, s)
  | fuel+1, s =>
    match s.token data with
    | some (p, l, adv) => (some (p, l), { s with start := s.start + adv })
    | none =>
      if s.eof then (none, { s with start := 0, end_ := 0 }) else
      if s.shift.full cfg then (none, { s.shift with tooLong := true }) else
      Scan.next cfg data fuel ((s.shift.grow cfg).read data)

/-- The scanner loop of `Parse`: tokens are taken until `stop` says "syntax error in this line" (1-based line
number) or `Scan` returns false; the result is the final scanner state and the number of tokens taken. -/
def scanLoop (cfg : ScanCfg) (data : Array Bool) (stop : Nat → Bool) : Nat → Nat → Scan → Scan × Nat
  | 0, i, s => (s, i)
  | fuel+1, i, s =>
    match Scan.next cfg data (data.size + 40) s with
    | (none, s') => (s', i)
    | (some _, s') => if stop (i+1) then (s', i+1) else scanLoop cfg data stop fuel (i+1) s'

/-- bytes taken out of the buffer by `Parse` when it stops at line `stopLine` (`none`: never stops by itself) -/
def consumed (cfg : ScanCfg) (text : Str) (stopLine : Option Nat) : Nat :=
  let data := nlFlags text
  (scanLoop cfg data (fun i => stopLine == some i) (data.size + 2) 0 {}).1.off

/-- the line whose syntax error makes Go's `Parse` return: the first line the LINE parser rejects. (A NaN or ±Inf
weight is accepted by Go's line parser — the table code refuses it after the whole text has been read — so it
does not stop the scanner.) Lines from the first over-long one on are never delivered. -/
def stopLineAux (pf : ParseFloat) : Nat → List Str → Option Nat
  | _, [] => none
  | i, raw :: rest =>
    if maxToken ≤ byteLen raw then none else
    match parseLine pf (dropCR raw) with
    | .error (.syn _) => some i
    | _ => stopLineAux pf (i+1) rest

def stopLine (pf : ParseFloat) (text : Str) : Option Nat := stopLineAux pf 1 (rawLines text)

/-- `tableBuffer.Len()` after `route.NewTable(tableBuffer)` on a buffer holding `text` -/
def leftAfterParse (pf : ParseFloat) (text : Str) : Nat := byteLen text - consumed goCfg text (stopLine pf text)

/-! ## 5. the iteration with its glue AND its buffer -/
open Fabio.Model.C02Loop

/-- the calls of the loop body (as `C02Loop.Glue`) with `route.NewTable` working on the buffer: its outcome and what
it leaves unread -/
structure GlueB (T : Type) where
  aliases : Text → Outcome (List Str)
  register : List Str → Outcome Unit
  newTable : Text → Outcome (Option T)
  rest : Text → Text
  log : T → Text → Text → Outcome Unit

/-- forget the buffer -/
def GlueB.toGlue {T} (g : GlueB T) : Glue T :=
  { aliases := g.aliases, register := g.register, build := g.newTable, log := g.log }

/-- One iteration of the `default:` loop of `watchBackend` with everything `Model/C02.lean` abstracted from: the
buffer is reset and filled, `nextTable` is its content, `ParseAliases`/`Register`/`NewTable(tableBuffer)`/`SetTable`/
`logRoutes` in program order, each call able to panic, `NewTable` leaving `g.rest` of the buffer's content unread. -/
def stepOB {T} (g : GlueB T) (st : WBB T) (e : Ev) : List (Eff T) × Outcome (WBB T) :=
  let st1 := st.wb.recv e
  let b := (((st.buf.reset).writeString st1.svccfg).writeString ['\n']).writeString st1.mancfg
  let next := b.string
  if next = st1.lastTable then ([], .ok { wb := st1, buf := b }) else
  match g.aliases next with
  | .panic w => ([], .panic w)
  | .ok al =>
  match g.register al with
  | .panic w => ([], .panic w)
  | .ok () =>
  match g.newTable b.string with
  | .panic w => ([.register al], .panic w)
  | .ok none => ([.register al], .ok { wb := st1, buf := g.rest b.string })
  | .ok (some t) =>
    match g.log t st1.lastTable next with
    | .panic w => ([.register al, .setTable t], .panic w)
    | .ok () => ([.register al, .setTable t, .logRoutes t st1.lastTable next],
                 .ok { wb := { st1 with active := t, lastTable := next }, buf := g.rest b.string })

def runOB {T} (g : GlueB T) : WBB T → List Ev → List (Eff T) × Outcome (WBB T)
  | st, [] => ([], .ok st)
  | st, e :: es =>
    match stepOB g st e with
    | (effs, .panic w) => (effs, .panic w)
    | (effs, .ok st') => let r := runOB g st' es; (effs ++ r.1, r.2)

/-- the real loop with the Lean models plugged in: `ParseAliases` and `NewTable` modelled, `Register`, `logRoutes` and
what the scanner leaves in the buffer as parameters -/
def realGlueB {T} (pf : ParseFloat) (build : Text → Option T) (rest : Text → Text)
    (register : List Str → Outcome Unit) (log : T → Text → Text → Outcome Unit) : GlueB T :=
  { aliases := fun s => .ok (registerArg pf s), register := register, newTable := fun s => .ok (build s), rest := rest,
    log := log }

end Fabio.Model.C02Buf
