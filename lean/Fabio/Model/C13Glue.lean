import Fabio.Model.C13
/-!
C13 — the glue around the redirect core (round 3), core Lean only.

* `proxy/http_proxy.go` `ServeHTTP` as a decision: what becomes of the target `Lookup` selected — the no-route
  answer, the two gates (`AccessDeniedHTTP`, `Authorized`), the redirect branch, and only then the choice of
  the upstream handler by the request headers (`Upgrade: websocket`, `Accept: text/event-stream`, default).
  The gates themselves are parameters (C12's subject); their *position* relative to the redirect is modelled.
* `registry/consul/routecmd.go` `build`: the option loop that turns the text after a `urlprefix-` tag into the
  destination and the `opts "…"` of a `route add` command — the documented way to configure a redirect from a
  Consul registration (tag `urlprefix-` + `/path redirect=301,https://www.example.com$path`) — and `parseOpts` of
  `route/parse_new.go`, which reads that option text back into the map `addTarget` consults.
-/
namespace Fabio.Model.C13

/-! ### `ServeHTTP` -/

/-- the upstream handler `ServeHTTP` constructs for a target that is proxied -/
inductive Via where
  | websocket | sse | http
deriving DecidableEq, Repr

/-- what `ServeHTTP` does with a request -/
inductive Served where
  | noRoute
  | forbidden                                  -- 403, `t.AccessDeniedHTTP(r)`
  | unauthorized                               -- 401, `!t.Authorized(r, w, …)`
  | redirect (code : Int) (location : Str)     -- `http.Redirect`, then `return`
  | upstream (via : Via)                       -- a handler that contacts the target's URL is run
deriving DecidableEq, Repr

def Served.contactsUpstream : Served → Bool
  | .upstream _ => true
  | _ => false

/-- `strings.EqualFold` on ASCII strings -/
def equalFold (a b : Str) : Bool := a.map lowerByte == b.map lowerByte

/-- `switch { case strings.EqualFold(upgrade, "websocket"): … case accept == "text/event-stream": … default: … }` -/
def chooseVia (upgrade accept : Str) : Via :=
  if equalFold upgrade (lit "websocket") then .websocket
  else if accept == lit "text/event-stream" then .sse
  else .http

/-- `ServeHTTP` from the result of `Lookup` on: `sel` is what `Lookup` returned (`Model.C13.lookup`), `denied` /
`authorized` are the verdicts of the two gates for the selected target, `upgrade` / `accept` the request's
`Upgrade` and `Accept` headers. -/
def serve (sel : Option (RTarget × Option URL)) (denied authorized : Bool) (upgrade accept : Str) : Served :=
  match sel with
  | none => .noRoute
  | some (t, ru) =>
    if denied then .forbidden
    else if !authorized then .unauthorized
    else match ru with
      | some u => if t.code ≠ 0 then .redirect t.code (hexEscapeNonASCII (urlString u)) else .upstream (chooseVia upgrade accept)
      | none => .upstream (chooseVia upgrade accept)

/-- the whole request path: `Lookup`, then `ServeHTTP` -/
def handle (scheme : Str) (req : URL) (cands : List (Option RTarget)) (gate : RTarget → Bool × Bool)
    (upgrade accept : Str) : Served :=
  let sel := lookup scheme req cands
  match sel with
  | none => serve none false true upgrade accept
  | some (t, ru) => serve (some (t, ru)) (gate t).1 (gate t).2 upgrade accept

/-! ### the `urlprefix-` tag options (`routecmd.build`) -/

/-- white space for `strings.Fields` / `strings.TrimSpace` on ASCII text -/
def isSpace (c : UInt8) : Bool := c == 32 || (9 ≤ c && c ≤ 13)

/-- `strings.Fields` (ASCII white space; the generators keep U+0085 / U+00A0 out) -/
def fields (s : Str) : List Str :=
  (s.foldr (fun c (acc : Bool × List Str) =>
      if isSpace c then (false, acc.2)
      else match acc with
        | (true, w :: ws) => (true, (c :: w) :: ws)
        | (_, ws) => (true, [c] :: ws)) (false, [])).2

/-- `strings.Split(s, ",")` -/
def splitComma : Str → List Str
  | [] => [[]]
  | c :: cs => if c == 44 then [] :: splitComma cs else
      match splitComma cs with
      | [] => [[c]]
      | x :: xs => (c :: x) :: xs

/-- what the option loop has collected -/
structure TagCmd where
  dst : Str
  weight : Str := []
  ropts : List Str := []
deriving DecidableEq, Repr

def kRedirect : Str := lit "redirect="
def kWeight : Str := lit "weight="

/-- the `proto=` values the loop consumes, with the scheme they select -/
def protoSchemes : List (Str × Str) :=
  [(lit "proto=tcp", lit "tcp://"), (lit "proto=https", lit "https://"), (lit "proto=grpcs", lit "grpcs://"), (lit "proto=grpc", lit "grpc://")]

/-- one iteration of `for _, o := range strings.Fields(opts) { switch { … } }`; `addr` is `host:port` of the service -/
def tagStep (addr : Str) (a : TagCmd) (o : Str) : TagCmd :=
  match protoSchemes.lookup o with
  | some sch => { a with dst := sch ++ addr }
  | none =>
    if hasPrefix o kWeight then { a with weight := o.drop kWeight.length }
    else if hasPrefix o kRedirect then
      match splitComma (o.drop kRedirect.length) with
      | [code, url] => { a with dst := url, ropts := a.ropts ++ [kRedirect ++ code] }
      | _ => a                                   -- "Invalid syntax for redirect": the option is skipped
    else { a with ropts := a.ropts ++ [o] }

/-- the option loop of `build` on the option text of one tag -/
def tagCmd (addr : Str) (opts : Str) : TagCmd :=
  (fields opts).foldl (tagStep addr) { dst := lit "http://" ++ addr ++ lit "/" }

/-- what a single field contributes to the passed-on options -/
def passedOn (o : Str) : Option Str :=
  match protoSchemes.lookup o with
  | some _ => none
  | none =>
    if hasPrefix o kWeight then none
    else if hasPrefix o kRedirect then
      match splitComma (o.drop kRedirect.length) with
      | [code, _] => some (kRedirect ++ code)
      | _ => none
    else some o

/-- the destination a single field selects, if it selects one -/
def selectsDst (addr : Str) (o : Str) : Option Str :=
  match protoSchemes.lookup o with
  | some sch => some (sch ++ addr)
  | none =>
    if hasPrefix o kWeight then none
    else if hasPrefix o kRedirect then
      match splitComma (o.drop kRedirect.length) with
      | [_, url] => some url
      | _ => none
    else none

/-! `parseOpts` (`route/parse_new.go`): the option text of the command back into a map -/

/-- `strings.SplitN(f, "=", 2)`: key and value (a field without `=` is a key with an empty value) -/
def keyVal (f : Str) : Str × Str :=
  let (k, v, _) := cut 61 f
  (k, v)

/-- the value `m[key]` after `for _, f := range fields { m[k] = v }`: the last field with that key wins; an
absent key reads as the empty string (Go's zero value, which is what `addTarget` tests) -/
def optValue (key : Str) (fs : List Str) : Str :=
  fs.foldl (fun cur f => if (keyVal f).1 == key then (keyVal f).2 else cur) []

/-- the target the route command of a tag configures: destination text and the three options the redirect reads -/
structure TagTarget where
  dst : Str
  strip : Str
  prepend : Str
  code : Int
deriving DecidableEq, Repr

def tagTarget (addr : Str) (opts : Str) : TagTarget :=
  let c := tagCmd addr opts
  { dst := c.dst, strip := optValue (lit "strip") c.ropts, prepend := optValue (lit "prepend") c.ropts,
    code := redirectCode (optValue (lit "redirect") c.ropts) }

/-! ### specification of the tag (independent of the fold `tagCmd`) -/

/-- the last well-formed `redirect=<code>,<url>` field of the option text -/
def lastRedirectField (fs : List Str) : Option (Str × Str) :=
  fs.foldl (fun cur o =>
    if hasPrefix o kRedirect then
      match splitComma (o.drop kRedirect.length) with
      | [code, url] => some (code, url)
      | _ => cur
    else cur) none

/-- the last field `key=value` (not a `proto=…`/`weight=`/`redirect=` field the loop consumes) -/
def plainP (o : Str) : Bool := (protoSchemes.lookup o).isNone && !hasPrefix o kWeight && !hasPrefix o kRedirect

def lastPlainValue (key : Str) (fs : List Str) : Str := optValue key (fs.filter plainP)

/-- What a `urlprefix-` tag with a `redirect=<code>,<url>` option must configure, whatever the order of its
options: the status is the configured code, `strip`/`prepend` are the tag's (the last occurrence each). -/
def tagSpec (optsText : Str) (strip prepend : Str) (code : Int) : Bool :=
  let fs := fields optsText
  -- a bare field `redirect` (no `=`) is an ordinary option named like the redirect code: `parseOpts` lets the last
  -- one win, so it would switch the redirect off again — nothing is specified for such a tag
  if fs.contains (lit "redirect") then true else
  match lastRedirectField fs with
  | none => true
  | some (c, _) =>
    strip == lastPlainValue (lit "strip") fs && prepend == lastPlainValue (lit "prepend") fs &&
    code == configuredCode c

end Fabio.Model.C13
