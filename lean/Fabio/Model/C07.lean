import Fabio.Basic
/-!
C07 — HTTP requests and responses pass through unaltered apart from routing: executable model.

What is modelled (core Lean only; this module is linked into the model driver):

* the part of `net/url` that decides the bytes of the request-target an outgoing request carries:
  `unescape`/`escape`/`shouldEscape` in path mode, `validEncoded`, `URL.setPath` (what the server makes of the
  client's request-target), `URL.EscapedPath`, `URL.RequestURI`.  Paths are byte strings (`List UInt8`), so
  nothing is restricted to ASCII; the functions are validated differentially against net/url (`c07.escape`);
* `proxy/http_proxy.go` `ServeHTTP`: the no-route branch, the construction of `targetURL` from the route
  options (`strip` only under `HasPrefix`, the absolute-path rule after strip and after prepend, the query
  merge, the `host=` override), the escaped form of the path that is rewritten alongside (`rawPath`), the
  handler choice (websocket vs. reverse proxy);
* `proxy/http_handler.go` director: assigns scheme, host, path, raw path, raw query of the outgoing URL and
  nothing else; the websocket branch replaces `r.URL` by the target URL wholesale;
* what `httputil.ReverseProxy`/`http.Transport` do to the header block is *assumed* (`upstreamHeaders`) and
  only exercised by the correspondence (hop-by-hop removal, `Accept-Encoding: gzip`, the User-Agent rule).

The access/auth/redirect gates that sit between the no-route return and the URL construction belong to
C12/C13; the model's `Target` is a target that passed them.  `addHeaders` (forwarding headers) is C08.
-/
namespace Fabio.Model.C07

abbrev Bytes := List UInt8

/-- byte strings travel through JSON as the code points U+0000..U+00FF -/
def ofStr (s : String) : Bytes := s.toList.map (fun c => c.toNat.toUInt8)
def toStr (b : Bytes) : String := String.ofList (b.map (fun c => Char.ofNat c.toNat))

def SLASH : UInt8 := 47
def PCT : UInt8 := 37
def QMARK : UInt8 := 63
def AMP : UInt8 := 38
def STAR : UInt8 := 42

/-! ## net/url, path mode -/

/-- `ishex` -/
def isHex (c : UInt8) : Bool := (48 ≤ c && c ≤ 57) || (97 ≤ c && c ≤ 102) || (65 ≤ c && c ≤ 70)

/-- `unhex` -/
def unhex (c : UInt8) : UInt8 :=
  if 48 ≤ c && c ≤ 57 then c - 48 else if 97 ≤ c && c ≤ 102 then c - 87 else if 65 ≤ c && c ≤ 70 then c - 55 else 0

/-- `"0123456789ABCDEF"[n]` for `n < 16` -/
def upperhex (n : UInt8) : UInt8 := if n < 10 then 48 + n else 55 + n

/-- `unescape(s, encodePath)`: `%XX` triples are decoded, everything else (also `+`) is kept; a `%` that is not
followed by two hex digits is an `EscapeError` (`none`). -/
def unescape : Bytes → Option Bytes
  | [] => some []
  | c :: rest =>
    if c = PCT then
      match rest with
      | a :: b :: rest' =>
        if isHex a && isHex b then (unescape rest').map ((unhex a <<< 4 ||| unhex b) :: ·) else none
      | _ => none
    else (unescape rest).map (c :: ·)

def isAlnum (c : UInt8) : Bool := (97 ≤ c && c ≤ 122) || (65 ≤ c && c ≤ 90) || (48 ≤ c && c ≤ 57)

/-- `shouldEscape(c, encodePath)`: alphanumerics, `-_.~` and `$&+,/:;=@` stay, everything else (also `?`,
`%`, space, bytes ≥ 0x80) is escaped. -/
def shouldEscape (c : UInt8) : Bool :=
  !(isAlnum c || c = 45 || c = 95 || c = 46 || c = 126 ||
    c = 36 || c = 38 || c = 43 || c = 44 || c = 47 || c = 58 || c = 59 || c = 61 || c = 64)

def escByte (c : UInt8) : Bytes := if shouldEscape c then [PCT, upperhex (c >>> 4), upperhex (c &&& 15)] else [c]

/-- `escape(s, encodePath)` -/
def escape : Bytes → Bytes
  | [] => []
  | c :: s => escByte c ++ escape s

/-- one byte of `validEncoded(s, encodePath)`: the sub-delims `!$&'()*+,;=`, `:@`, `[]`, `%` are fine, the
rest is judged by `shouldEscape` -/
def validByte (c : UInt8) : Bool :=
  c = 33 || c = 36 || c = 38 || c = 39 || c = 40 || c = 41 || c = 42 || c = 43 || c = 44 || c = 59 || c = 61 ||
  c = 58 || c = 64 || c = 91 || c = 93 || c = 37 || !shouldEscape c

def validEncoded (s : Bytes) : Bool := s.all validByte

structure URL where
  scheme : String := ""
  host : String := ""
  path : Bytes := []
  rawPath : Bytes := []
  forceQuery : Bool := false
  rawQuery : Bytes := []
deriving Repr, BEq, DecidableEq

/-- `URL.setPath`: `Path` is the decoded form, `RawPath` is kept only when the canonical encoding of `Path`
differs from what was given. `none` = the request-target does not parse (the server answers 400). -/
def setPath (p : Bytes) : Option (Bytes × Bytes) :=
  (unescape p).map fun d => (d, if escape d = p then [] else p)

/-- `URL.EscapedPath` -/
def URL.escapedPath (u : URL) : Bytes :=
  if u.rawPath ≠ [] ∧ validEncoded u.rawPath = true ∧ unescape u.rawPath = some u.path then u.rawPath
  else if u.path = [STAR] then [STAR]
  else escape u.path

/-- `URL.RequestURI` for a URL without `Opaque` -/
def URL.requestURI (u : URL) : Bytes :=
  let p := u.escapedPath
  (if p = [] then [SLASH] else p) ++ (if u.forceQuery || u.rawQuery ≠ [] then QMARK :: u.rawQuery else [])

/-! ## the request and the route target -/

structure Req (β : Type) where
  method : String
  url : URL                        -- as parsed by the server: path, rawPath, rawQuery, forceQuery
  host : String
  headers : List (String × String) -- canonical names, arrival order
  body : β
deriving Repr, BEq, DecidableEq

/-- the route options and the target URL of a `route.Target` that passed the access/auth/redirect gates -/
structure Target where
  strip : Bytes := []
  prepend : Bytes := []
  hostOpt : String := ""
  scheme : String := "http"
  host : String := ""
  rawQuery : Bytes := []
deriving Repr, BEq, DecidableEq

def startsWithSlash : Bytes → Bool
  | c :: _ => c = SLASH
  | [] => false

def hasPrefix (p s : Bytes) : Bool := p.isPrefixOf s

/-- the absolute-path rule: `if !strings.HasPrefix(p, "/") { p = "/" + p }`, applied to the decoded path and —
by the same decision — to the escaped form carried alongside -/
def absolutise (pr : Bytes × Bytes) : Bytes × Bytes :=
  if startsWithSlash pr.1 then pr else (SLASH :: pr.1, SLASH :: pr.2)

/-- `escapedLen`: drop from the escaped path `s` the prefix that unescapes to `n` bytes -/
def dropEscaped : Nat → Bytes → Bytes
  | 0, s => s
  | _+1, [] => []
  | n+1, c :: s => if c = PCT then dropEscaped n (s.drop 2) else dropEscaped n s

/-- strip step on (decoded, escaped) -/
def stripStep (strip : Bytes) (reqPath : Bytes) (pr : Bytes × Bytes) : Bytes × Bytes :=
  if strip ≠ [] ∧ hasPrefix strip reqPath = true then
    absolutise (pr.1.drop strip.length, dropEscaped strip.length pr.2)
  else pr

/-- prepend step on (decoded, escaped); the option's own escaped form is `(&url.URL{Path: p}).EscapedPath()` -/
def prependStep (prepend : Bytes) (pr : Bytes × Bytes) : Bytes × Bytes :=
  if prepend ≠ [] then
    absolutise (prepend ++ pr.1, ({ path := prepend } : URL).escapedPath ++ pr.2)
  else pr

/-- (decoded path, escaped path) after strip and prepend, starting from the request's `Path` and
`EscapedPath()` -/
def rewritePath (t : Target) (u : URL) : Bytes × Bytes :=
  prependStep t.prepend (stripStep t.strip u.path (u.path, u.escapedPath))

/-- the query merge: route query first, `&` only when both are non-empty -/
def mergeQuery (tq rq : Bytes) : Bytes :=
  if tq = [] ∨ rq = [] then tq ++ rq else tq ++ AMP :: rq

/-- `targetURL` as `ServeHTTP` builds it -/
def targetURL (t : Target) (u : URL) : URL :=
  let pr := rewritePath t u
  { scheme := t.scheme, host := t.host, path := pr.1,
    rawPath := if startsWithSlash pr.2 then pr.2 else [],
    rawQuery := mergeQuery t.rawQuery u.rawQuery }

/-- the `host=` option -/
def hostOverride (t : Target) (reqHost : String) : String :=
  if t.hostOpt = "dst" then t.host else if t.hostOpt ≠ "" then t.hostOpt else reqHost

/-- the director: exactly these five fields of the outgoing URL are assigned -/
def director (target : URL) (u : URL) : URL :=
  { u with scheme := target.scheme, host := target.host, path := target.path, rawPath := target.rawPath,
           rawQuery := target.rawQuery }

inductive Via | http | ws
deriving Repr, BEq, DecidableEq

def headerGet (h : List (String × String)) (k : String) : String :=
  match h.find? (·.1 = k) with
  | some kv => kv.2
  | none => ""

/-- `strings.EqualFold(r.Header.Get("Upgrade"), "websocket")` (ASCII folding; header values are ASCII in the
generators, DESIGN.md §5) -/
def chooseHandler (h : List (String × String)) : Via :=
  if lowerL (headerGet h "Upgrade").toList = "websocket".toList then .ws else .http

inductive Result (β : Type) where
  /-- the response is written by fabio itself; no upstream is involved -/
  | noRoute (status : Int) (page : String)
  /-- the request `req` goes to `upstream` through handler `h` -/
  | forward (h : Via) (upstream : String) (req : Req β)
deriving Repr, BEq, DecidableEq

/-- `status := p.Config.NoRouteStatus; if status < 100 || status > 999 { status = http.StatusNotFound }` -/
def noRouteLo : Int := 100
def noRouteHi : Int := 999
def statusNotFound : Int := 404
def noRouteStatus (configured : Int) : Int :=
  if configured < noRouteLo ∨ configured > noRouteHi then statusNotFound else configured

/-- `ServeHTTP` from the lookup result on (the gates of C12/C13 and the header derivation of C08 left out):
`none` = `Lookup` returned nil. -/
def serve {β} (configured : Int) (html : String) (t : Option Target) (r : Req β) : Result β :=
  match t with
  | none => .noRoute (noRouteStatus configured) html
  | some t =>
    let target := targetURL t r.url
    let host := hostOverride t r.host
    match chooseHandler r.headers with
    | .ws => .forward .ws target.host { r with url := target, host := host }
    | .http => .forward .http target.host { r with url := director target r.url, host := host }

/-! ## `responseWriter`: the status/size-capturing wrapper between the handler and the client's `ResponseWriter` -/

/-- the wrapper's state: `code` and `size` as in the Go struct, and — standing for `rw.w` — the calls the wrapped
writer has received so far, in order -/
structure RW where
  code : Int := 0
  size : Nat := 0
  sentHeaders : List Int := []   -- `rw.w.WriteHeader` calls
  sentBytes : Nat := 0           -- bytes handed to `rw.w.Write`
deriving Repr, BEq, DecidableEq

/-- `rw.w.WriteHeader(statusCode); rw.code = statusCode` — every call is passed on, the last code is kept -/
def RW.writeHeader (rw : RW) (statusCode : Int) : RW :=
  { rw with sentHeaders := rw.sentHeaders ++ [statusCode], code := statusCode }

/-- `n, err := rw.w.Write(b); rw.size += n` (the wrapped writer takes all `n` bytes) -/
def RW.write (rw : RW) (n : Nat) : RW :=
  { rw with sentBytes := rw.sentBytes + n, size := rw.size + n }

/-- a handler that announces `codes` one after the other (informational ones first, as `httputil.ReverseProxy`
does for the upstream's 1xx responses, then the final status) -/
def RW.run (codes : List Int) : RW := codes.foldl RW.writeHeader {}

def informational (c : Int) : Bool := 100 ≤ c && c ≤ 199 && c ≠ 101

/-- what `net/http`'s server makes of a sequence of `WriteHeader` calls followed by the body (assumed): the
informational codes in front go out as interim responses, the first other code is the status of the response;
without one the first `Write` implies 200 -/
def clientView : List Int → List Int × Int
  | [] => ([], 200)
  | c :: cs => if informational c then let (i, f) := clientView cs; (c :: i, f) else ([], c)

/-! ## assumed behaviour of the standard library on the header block (exercised, not proved about) -/

def upperAscii (c : Char) : Char := if 'a' ≤ c ∧ c ≤ 'z' then Char.ofNat (c.toNat - 32) else c

/-- `textproto.CanonicalMIMEHeaderKey` for a name made of token characters -/
def canonKey (s : String) : String :=
  let rec go (up : Bool) : List Char → List Char
    | [] => []
    | c :: cs => (if up then upperAscii c else lowerChar c) :: go (c = '-') cs
  String.ofList (go true s.toList)

def hopNames : List String :=
  ["Connection", "Proxy-Connection", "Keep-Alive", "Proxy-Authenticate", "Proxy-Authorization", "Te", "Trailer",
   "Transfer-Encoding", "Upgrade"]

/-- headers derived by fabio from the connection (C08) -/
def forwardingNames : List String :=
  ["Forwarded", "X-Forwarded-For", "X-Forwarded-Host", "X-Forwarded-Port", "X-Forwarded-Proto", "X-Forwarded-Prefix",
   "X-Real-Ip"]

def framingNames : List String := ["Content-Length", "Transfer-Encoding", "Host"]

def trimOWS (s : List Char) : List Char :=
  let f := fun (l : List Char) => l.dropWhile (fun c => c = ' ' ∨ c = '\t')
  (f (f s).reverse).reverse

def splitComma (s : List Char) : List (List Char) :=
  let rec go (cur : List Char) : List Char → List (List Char)
    | [] => [cur.reverse]
    | c :: cs => if c = ',' then cur.reverse :: go [] cs else go (c :: cur) cs
  go [] s

/-- names listed in the `Connection` header(s) -/
def connectionListed (h : List (String × String)) : List String :=
  (h.filter (·.1 = "Connection")).flatMap fun kv =>
    ((splitComma kv.2.toList).map trimOWS).filterMap fun t => if t = [] then none else some (canonKey (String.ofList t))

/-- the end-to-end part of the header block the upstream receives, in arrival order, given the client's
(canonical-name) headers.  HTTP path: Connection-listed and hop-by-hop headers go; a User-Agent is sent only
when the first one is non-empty, and only that one; `Accept-Encoding: gzip` is appended by the transport when
the client named no encoding and no range and the method is not HEAD.  Websocket path: the block is written
as it is (User-Agent by the same rule). -/
def upstreamHeaders (h : Via) (method : String) (hs : List (String × String)) : List (String × String) :=
  let excluded := hopNames ++ forwardingNames ++ framingNames ++ (if h = .http then connectionListed hs else [])
  let ua := headerGet hs "User-Agent"
  let keep := (hs.filter fun kv => !excluded.contains kv.1 && kv.1 ≠ "User-Agent")
  let keep := if ua ≠ "" then keep ++ [("User-Agent", ua)] else keep
  if h = .http ∧ headerGet hs "Accept-Encoding" = "" ∧ headerGet hs "Range" = "" ∧ method ≠ "HEAD"
  then keep ++ [("Accept-Encoding", "gzip")] else keep

end Fabio.Model.C07
