import Fabio.Model.C02
import Fabio.Model.Parse
import Fabio.Model.C03
import Fabio.Model.C04
/-!
C02, phase 2 — the concrete instances of the parameters of `Model/C02.lean` (core Lean only):

* `build`      := `route.NewTable` = `Parse.loadTable` (any error = no table);
* `buildDefs`  := `route.NewTableCustom` on decoded definitions = `Route.newTable`;
* `lookupPure` := `C03.Lookup` whose picker is C04's `rrPicker` / `rndPicker` on the ring of the matched route
  (`C04.ringOf`, the ring `weighTargets` builds), for any placement order of Go's unstable sort, any value of
  the round-robin cursor and any RNG.

The picker of C04 is `Outcome`-valued (ring fill and indexing can panic in the model); C03's `Lookup` takes a
total `Route → Target`. `pickFn` totalises `pickO` with a fallback that `Props/C02Compose.lean` proves
unreachable on every route of every table `loadTable`/`newTable` returns (`pick_defined_on_every_route`).
-/
namespace Fabio.Model.C02Compose
open Fabio Fabio.Model.Route Fabio.Model.Parse Fabio.Model.C02

/-- everything the picker's result depends on besides the route: the strategy, the order `sort.Sort(byN)` left
the slot entries in when the route was weighed, the value of `Route.total` read by `rrPicker`, and the RNG. -/
structure PickEnv where
  rr : Bool
  placement : Route → List (Int × Nat)
  cursor : Route → Nat
  randIntn : Route → Nat → Int

/-- `pick(r)`: the slot of the ring `rrPicker`/`rndPicker` returns (index into `r.Targets`; `none` = nil slot) -/
def pickO (pe : PickEnv) (r : Route) : Outcome (Option Nat) :=
  match C04.ringOf r.targets (pe.placement r) with
  | .panic w => .panic w
  | .ok ring =>
    if pe.rr then (C04.rrPick ring (pe.cursor r)).map (·.1)
    else C04.rndPick ring (pe.randIntn r)

def noTarget : Target := { service := [], tags := [], opts := [], url := [], fixedWeight := 0 }

/-- `pickO` as a total function (what C03's `Lookup` takes); the fallback is unreachable on built tables -/
def pickFn (pe : PickEnv) (r : Route) : Target :=
  match pickO pe r with
  | .ok (some i) => (r.targets[i]?).getD (r.targets.headD noTarget)
  | _ => r.targets.headD noTarget

/-- the lookup configuration: host glob function, path matcher, glob switch from `base`; the redirect
self-skip (owned by C13) as a function of the request -/
structure LookupEnv where
  base : C03.Cfg
  skipOf : C03.Req → Target → Bool
  pe : PickEnv

def LookupEnv.cfg (le : LookupEnv) (req : C03.Req) : C03.Cfg :=
  { le.base with pick := pickFn le.pe, skip := le.skipOf req }

/-- one lookup on a table snapshot: `route.GetTable().Lookup(req, …)` after the load -/
def lookupPure (le : LookupEnv) (t : Table) (req : C03.Req) : Option (Str × Route × Target) :=
  C03.Lookup (le.cfg req) t req

/-- the reader parameters of the cell machine -/
def lk (le : LookupEnv) (k : C03.Req → Nat) : Lk Table C03.Req (Option (Str × Route × Target)) :=
  { lookupPure := lookupPure le, k := k }

/-- `route.NewTable` -/
def build (env : Env) (pf : ParseFloat) (text : Text) : Option Table := (loadTable env pf text).toOption

/-- `route.NewTableCustom` on a decoded, non-nil definition list -/
def buildDefs (env : Env) (defs : List RouteDef) : Option Table := (newTable env defs).toOption

end Fabio.Model.C02Compose
