import Fabio.Model.Route
import Fabio.Model.C03
/-!
C03 — the specification predicate, written from the English statement and evaluated by the driver on the
*implementation's* table and answer (it does not call the model's `Lookup`, `matchingHosts` or sort).

  "A request is routed only to a target whose route matches it: the route's host pattern matches the request
   host (case-insensitively, default port removed) or the route has no host, and the route's path matches
   under the configured matcher. Among candidates an exact host beats a wildcard host, a longer host suffix
   beats a shorter one, host-less routes are used only when no host-specific route matches, and within a host
   the longest matching path wins; if any candidate exists the request is routed."

Reading (DESIGN.md C03 "I"): a *candidate* is a route with at least one target whose host key is empty or
matches and whose path matches. Host classes: host-less < wildcard (key contains a glob metacharacter)
< exact. With host globbing disabled every non-empty key is compared literally and is "exact". "Longer host
suffix" is decided between two wildcard keys of which the shorter is `*`+S and the longer ends with S
(`longerHostSuffix`). "Longest path" is the byte length of the
route path for the prefix and iprefix matchers; for the glob matcher the notion has no intrinsic meaning
(DESIGN.md C03 "I", fixed before any run) and the specification demands only soundness, completeness and
the host order there.
-/
namespace Fabio.Model.C03Spec
open Fabio Fabio.Model.Route Fabio.Model.C03

/-- host key ↦ [(route path, number of targets)] in table order -/
abbrev Skeleton := List (Str × List (Str × Nat))

structure Case where
  table : Skeleton
  host : Str
  tls : Bool
  path : Str
  kind : MatcherKind
  globDisabled : Bool
  /-- `hostGlob pattern host`: does the compiled pattern match -/
  hostGlob : Str → Str → Bool
  pathGlob : Str → Str → Bool

/-- default port removed (`:80` plain, `:443` TLS), written via the reversed string -/
def stripDefaultPort (h : Str) (tls : Bool) : Str :=
  let r := h.reverse
  if tls then (if ['3', '4', '4', ':'].isPrefixOf r then (r.drop 4).reverse else h)
  else (if ['0', '8', ':'].isPrefixOf r then (r.drop 3).reverse else h)

def norm (c : Case) (h : Str) : Str := lowerL (stripDefaultPort h c.tls)

def hostOK (c : Case) (key : Str) : Bool :=
  key.isEmpty || (if c.globDisabled then norm c key == norm c c.host else c.hostGlob (norm c key) (norm c c.host))

def pathOK (c : Case) (p : Str) : Bool :=
  match c.kind with
  | .pfx => p.isPrefixOf c.path
  | .iprefix => (lowerL p).isPrefixOf (lowerL c.path)
  | .glob => c.pathGlob p c.path

def candidates (c : Case) : List (Str × Str) :=
  c.table.flatMap (fun kv => kv.2.filterMap (fun pn =>
    if pn.2 > 0 && hostOK c kv.1 && pathOK c pn.1 then some (kv.1, pn.1) else none))

def hasMeta (k : Str) : Bool := k.any (fun ch => "*?[{\\".toList.contains ch)

/-- 0 host-less, 1 wildcard, 2 exact -/
def hostClass (c : Case) (k : Str) : Nat :=
  if k.isEmpty then 0 else if c.globDisabled then 2 else if hasMeta k then 1 else 2

/-- `*`+literal ↦ the literal -/
def starSuffix (k : Str) : Option Str :=
  match k with
  | '*' :: s => if hasMeta s then none else some s
  | _ => none

/-- "a longer host suffix beats a shorter one", between two wildcard keys that both match (normalised
forms): the shorter key is `*` ++ S — everything that ends with S — and the longer key ends with S too and is
longer: `*.a.foo.com`, `*.*.foo.com`, `*-eu.foo.com`, `{a,b}.foo.com` against `*.foo.com`; with ports
`*.*.foo.com:8080` against `*.foo.com:8080`. (Until round 3 the reading was narrower — both keys `*`+literal —
and could not see `*.*.foo.com`: an independent author's change and a defect of the unchanged code, the port's
`:` taking part in the comparison of the host names, both lived there.) -/
def longerHostSuffix (a b : Str) : Bool :=
  match b with
  | '*' :: s => decide (a.length > b.length) && s.isSuffixOf a
  | _ => false

inductive Why where
  | hostClass | hostSuffix | pathLength
deriving DecidableEq, Repr

/-- is candidate `a` strictly more specific than candidate `b`, and by which sentence of the statement -/
def moreSpecific (c : Case) (a b : Str × Str) : Option Why :=
  let longerSuffix : Bool :=
    hostClass c a.1 == 1 && hostClass c b.1 == 1 && longerHostSuffix (norm c a.1) (norm c b.1)
  if hostClass c a.1 > hostClass c b.1 then some .hostClass
  else if longerSuffix then some .hostSuffix
  else if c.kind != .glob && a.1 == b.1 && byteLen a.2 > byteLen b.2 then some .pathLength
  else none

inductive Judgement where
  | ok
  | panicked
  /-- the answer is not a candidate: host does not match / path does not match / route has no target / not in the table -/
  | unsound
  /-- no answer although a candidate exists -/
  | notRouted (cand : Str × Str)
  | lessSpecific (better : Str × Str) (why : Why)
deriving Repr

/-- `ans` = (route host, route path) of the returned target, `none` = no route. -/
def judge (c : Case) (ans : Option (Str × Str)) : Judgement :=
  let cs := candidates c
  match ans with
  | none => match cs with
    | [] => .ok
    | x :: _ => .notRouted x
  | some a =>
    if !cs.contains a then .unsound else
    match cs.findSome? (fun b => (moreSpecific c b a).map (fun w => (b, w))) with
    | some (b, w) => .lessSpecific b w
    | none => .ok

end Fabio.Model.C03Spec
