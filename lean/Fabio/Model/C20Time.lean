/-!
The calendar of an instant in UTC, as far as the access log needs it (`$time_rfc3339*`, `$time_common`): the civil
date of a day number (days since 1970-01-01, proleptic Gregorian calendar) and the clock of a second of the day.
Independent of Go's `time`: the driver computes the calendar fields of `End` with these functions from the Unix
second and fails a case (`calendar-mismatch`) when Go's `time` reports others; `Props/C20Time.lean` proves that
`civilFromDays` is the inverse of the day count `daysFromCivil` written from the Gregorian rules.
Core Lean only: this module is linked into the model driver.
-/
namespace Fabio.Model.C20Time

/-- year of the era (0…399) of a day of the era (0…146096) -/
def yoeOfDoe (doe : Int) : Int := (doe - doe / 1460 + doe / 36524 - doe / 146096) / 365

/-- days of an era before its year `yoe` (years from 1 March) -/
def daysBeforeYear (yoe : Int) : Int := 365 * yoe + yoe / 4 - yoe / 100

/-- (month, day of the month) of the day `doy` (0…365) of a year that starts on 1 March; `mp` is the month counted
from March -/
def monthDay (doy : Int) : Int × Int :=
  let mp := (5 * doy + 2) / 153
  (if mp < 10 then mp + 3 else mp - 9, doy - (153 * mp + 2) / 5 + 1)

/-- day of the year (from 1 March) of a month and day: `(153·mp + 2)/5` is the number of days in the `mp` months
March, April, … (31, 30, 31, 30, 31, 31, 30, 31, 30, 31, 31) -/
def doyOf (m d : Int) : Int := (153 * (if m > 2 then m - 3 else m + 9) + 2) / 5 + d - 1

/-- the civil date of day `doe` of era `era` -/
def civilOfDoe (era doe : Int) : Int × Int × Int :=
  let yoe := yoeOfDoe doe
  let md := monthDay (doe - daysBeforeYear yoe)
  (if md.1 ≤ 2 then yoe + era * 400 + 1 else yoe + era * 400, md.1, md.2)

/-- Day number (days since 1970-01-01) → (year, month, day), proleptic Gregorian calendar. Years are counted in eras
of 400 years = 146097 days starting on 1 March of year 0 (so that the leap day is the last day of a year). -/
def civilFromDays (z : Int) : Int × Int × Int :=
  civilOfDoe ((z + 719468) / 146097) (z + 719468 - (z + 719468) / 146097 * 146097)

def isLeap (y : Int) : Bool := y % 4 == 0 && (y % 100 != 0 || y % 400 == 0)

def daysInMonth (y m : Int) : Int :=
  if m = 2 then (if isLeap y then 29 else 28)
  else if m = 4 ∨ m = 6 ∨ m = 9 ∨ m = 11 then 30 else 31

/-- The day number of a civil date by the rules of the calendar: 365 days a year, one more in every 4th year
except every 100th except every 400th. -/
def daysFromCivil (y m d : Int) : Int :=
  let y' := if m ≤ 2 then y - 1 else y
  let era := y' / 400
  let yoe := y' - era * 400
  era * 146097 + (daysBeforeYear yoe + doyOf m d) - 719468

/-- the UTC calendar fields of the instant `sec` seconds + `ns` nanoseconds after 1970-01-01T00:00:00Z:
(year, month, day, hour, minute, second, nanosecond) -/
def utcFields (sec ns : Int) : Int × Int × Int × Int × Int × Int × Int :=
  let sec' := sec + ns / 1000000000
  let ns' := ns % 1000000000
  let days := sec' / 86400
  let sod := sec' % 86400
  let (y, m, d) := civilFromDays days
  (y, m, d, sod / 3600, sod % 3600 / 60, sod % 60, ns')

end Fabio.Model.C20Time
