import Fabio.Model.Route
import Fabio.Model.C03
/-!
C03 — case folding beyond ASCII for the order of a host's routes (`Routes.Less`) and the iprefix matcher.

Both places fold with `strings.ToLower`, which maps every rune with `unicode.ToLower`. The shared table model
(`Model/Route.lean`) folds ASCII only (`lowerL`); this module states the per-host part — order of the routes,
scan, matcher — for an arbitrary rune map `g` (`Props/C03Fold.lean`: the longest-path theorem needs nothing of
`g` but that the order and the matcher use the same one), and gives `lowerRune`, the executable model of
`unicode.ToLower` on the alphabets the stream `c03.ipath` draws from (ASCII, Latin-1, Latin Extended-A up to
U+012F, Greek, Cyrillic, and the three runes whose lower case has another UTF-8 length: U+0130, U+212A,
U+212B). The stream ships `strings.ToLower` of every path it uses and the driver compares.
-/
namespace Fabio.Model.C03Fold
open Fabio Fabio.Model.Route Fabio.Model.C03

/-- `unicode.ToLower` on the modelled alphabets; identity elsewhere -/
def lowerRune (c : Char) : Char :=
  let n := c.toNat
  if 65 ≤ n ∧ n ≤ 90 then Char.ofNat (n + 32)                                -- A-Z
  else if 0xC0 ≤ n ∧ n ≤ 0xDE ∧ n ≠ 0xD7 then Char.ofNat (n + 32)            -- À-Þ without ×
  else if 0x100 ≤ n ∧ n ≤ 0x12F ∧ n % 2 = 0 then Char.ofNat (n + 1)          -- Ā-Į
  else if n = 0x130 then 'i'                                                  -- İ
  else if 0x391 ≤ n ∧ n ≤ 0x3A9 ∧ n ≠ 0x3A2 then Char.ofNat (n + 32)         -- Α-Ω
  else if 0x400 ≤ n ∧ n ≤ 0x40F then Char.ofNat (n + 80)                     -- Ѐ-Џ
  else if 0x410 ≤ n ∧ n ≤ 0x42F then Char.ofNat (n + 32)                     -- А-Я
  else if n = 0x212A then 'k'                                                 -- Kelvin sign
  else if n = 0x212B then Char.ofNat 0xE5                                     -- Angstrom sign
  else c

/-- `strings.ToLower` -/
def lowerU (s : Str) : Str := s.map lowerRune

/-- `Routes.Less(i, j)` = `pathLtBy fold rt[j].Path rt[i].Path`: folded paths first, then the paths -/
def pathLtBy (f : Str → Str) (a b : Str) : Bool := if f a != f b then strLt (f a) (f b) else strLt a b

def insPath (f : Str → Str) (x : Str) : List Str → List Str
  | [] => [x]
  | y :: ys => if pathLtBy f y x then x :: y :: ys else y :: insPath f x ys

/-- the paths of one host in table order: descending by `pathLtBy` (`sort.Sort(Routes)`; the paths of a
host are distinct, `pathLtBy` is total on distinct paths, so every correct sort gives this list) -/
def sortPaths (f : Str → Str) (ps : List Str) : List Str := ps.foldr (insPath f) []

/-- the three matchers with the folding function of `iPrefixMatcher` as a parameter -/
def pathMatchBy (f : Str → Str) (pathGlob : Str → Str → Bool) : MatcherKind → Str → Str → Bool
  | .pfx, uri, p => p.isPrefixOf uri
  | .iprefix, uri, p => (f p).isPrefixOf (f uri)
  | .glob, uri, p => pathGlob p uri

/-- `Table.lookup` over one host's paths: the first path in table order that matches -/
def firstMatch (m : Str → Str → Bool) (uri : Str) (ps : List Str) : Option Str := ps.find? (fun p => m uri p)

end Fabio.Model.C03Fold
