import Fabio.Model.C15
/-!
C15 — the command line *before* tokenisation: `config.parse` (the `-v` / `-cfg` / `-test.` pre-pass of
`config.Load`), `flag.FlagSet.Parse` (`parseOne`: one or two dashes, `-name=value` or `-name value`, boolean
flags, the `--` terminator), and `Load` = pre-pass + properties file + `load`.

A Go string is a `List Char` (one `Char` per rune).  `parse` and `parseOne` index *bytes*, but only compare them
with ASCII characters (`-`, `=`, `'`, `"`); in valid UTF-8 no byte of a multi-byte rune is ASCII, and `len(s) < 2`
is only looked at together with `s[0] == '-'`, so the rune-level reading below is exact.
-/
namespace Fabio.Model.C15
open Fabio

/-! ## 8. `config.parse`: the pre-pass over `os.Args` -/

/-- what the `switch` in the loop of `parse` does with one argument -/
inductive PreClass where
  | version            -- `-v`, `-version`, `--version`
  | cfgNext            -- `-cfg`, `--cfg`: the path is the next argument
  | cfgEq (path : Str) -- `-cfg=…`, `--cfg=…`
  | testFlag           -- `-test.…`
  | other              -- handed on to the flag set
deriving Repr, DecidableEq

def preClass (arg : Str) : PreClass :=
  if arg = "-v".toList ∨ arg = "-version".toList ∨ arg = "--version".toList then .version
  else if arg = "-cfg".toList ∨ arg = "--cfg".toList then .cfgNext
  else if "-cfg=".toList.isPrefixOf arg then .cfgEq (arg.drop 5)
  else if "--cfg=".toList.isPrefixOf arg then .cfgEq (arg.drop 6)
  else if "-test.".toList.isPrefixOf arg then .testFlag
  else .other

/-- `strings.Trim(s, string(c))` -/
def trimCh (c : Char) (s : Str) : Str := ((s.dropWhile (· = c)).reverse.dropWhile (· = c)).reverse

structure Pre where
  /-- arguments handed on to `load` (without the program name) -/
  rest : List Str
  /-- path of the properties file, `[]` when none was given -/
  path : Str
deriving Repr, DecidableEq

inductive PreRes where
  | version
  | invalidConfig         -- `errInvalidConfig`
  | ok (p : Pre)
deriving Repr, DecidableEq

/-- the `for i := 1; i < len(args); i++` loop of `parse`; the first argument is `args[i:]`, `acc` what has been
appended to `cmdline` so far (reversed), `path` the current path.  `args[i+1]` is a checked access. -/
def parseLoop : List Str → List Str → Str → Outcome PreRes
  | [], acc, path => .ok (.ok { rest := acc.reverse, path := path })
  | arg :: more, acc, path =>
    match preClass arg with
    | .version => .ok .version
    | .cfgNext =>
      if more.length = 0 then .ok .invalidConfig           -- `if i >= len(args)-1`
      else match more with
        | p :: more' => parseLoop more' acc p              -- `path = args[i+1]; i++`
        | [] => .panic "index out of range"
    | .cfgEq p =>
      if p = [] then .ok .invalidConfig
      else
        let p' := if p.head? = some '\'' then trimCh '\'' p else if p.head? = some '"' then trimCh '"' p else p
        if p' = [] then .ok .invalidConfig else parseLoop more acc p'
    | .testFlag => parseLoop more acc path
    | .other => parseLoop more (arg :: acc) path

/-- `parse(args)`: panics (deliberately) when there is not even a program name. -/
def parsePre (args : List Str) : Outcome PreRes :=
  match args with
  | [] => .panic "missing exec name"
  | _ :: more => parseLoop more [] []

/-! ## 9. `flag.FlagSet.Parse` -/

inductive ArgClass where
  | nonFlag                                   -- `len(s) < 2 || s[0] != '-'`: parsing stops, the argument stays
  | terminator                                -- `--`
  | bad                                       -- `bad flag syntax`
  | flag (name : Str) (value : Option Str)
deriving Repr, DecidableEq

/-- `for i := 1; i < len(name); i++ { if name[i] == '=' … }`: split at the first `=` that is not the first
character; `seen` is `name[0:i]` reversed. -/
def splitAtEq : Str → Str → Str × Option Str
  | seen, [] => (seen.reverse, none)
  | seen, c :: cs => if c = '=' then (seen.reverse, some cs) else splitAtEq (c :: seen) cs

def classifyName (name : Str) : ArgClass :=
  match name with
  | [] => .bad
  | c :: cs =>
    if c = '-' ∨ c = '=' then .bad
    else
      let r := splitAtEq [c] cs
      .flag r.1 r.2

def classifyArg (s : Str) : ArgClass :=
  match s with
  | [] => .nonFlag
  | [_] => .nonFlag
  | c :: d :: rest =>
    if c ≠ '-' then .nonFlag
    else if d = '-' then (if rest = [] then .terminator else classifyName rest)
    else classifyName (d :: rest)

inductive TokErr where
  | badSyntax (arg : Str)
  | undefined (name : Str)
  | help
  | needsArg (name : Str)
  | invalidValue (name value : Str)
deriving Repr, DecidableEq

structure Tok where
  /-- `(name, value)` in the order `Set` is called -/
  pairs : List (Str × Str)
  /-- `f.Args()` -/
  positional : List Str
deriving Repr, DecidableEq

/-- `Parse`: `formal name` = `some true` for a boolean flag, `some false` for any other registered flag, `none`
when the name is not registered; `accepts name value` = the flag's `Set` returns no error. -/
def tokenise (formal : Str → Option Bool) (accepts : Str → Str → Bool) :
    List Str → List (Str × Str) → Except TokErr Tok
  | [], acc => .ok { pairs := acc.reverse, positional := [] }
  | s :: more, acc =>
    match classifyArg s with
    | .nonFlag => .ok { pairs := acc.reverse, positional := s :: more }
    | .terminator => .ok { pairs := acc.reverse, positional := more }
    | .bad => .error (.badSyntax s)
    | .flag name value =>
      match formal name with
      | none => if name = "help".toList ∨ name = "h".toList then .error .help else .error (.undefined name)
      | some true =>
        let v := value.getD "true".toList
        if accepts name v then tokenise formal accepts more ((name, v) :: acc) else .error (.invalidValue name v)
      | some false =>
        match value with
        | some v =>
          if accepts name v then tokenise formal accepts more ((name, v) :: acc) else .error (.invalidValue name v)
        | none =>
          match more with
          | [] => .error (.needsArg name)
          | v :: more' =>
            if accepts name v then tokenise formal accepts more' ((name, v) :: acc) else .error (.invalidValue name v)

/-! ## 10. `Load` -/

inductive LoadRes where
  | version                       -- `return nil, nil`
  | err (e : Err)
  | exit (code : Nat)             -- `flag.ExitOnError`: 2 for a rejected command line, 0 for `-h`
  | cfg (c : Cfg)
deriving Repr

structure FlagEnv where
  /-- registered flags: `(name, default)` -/
  flags : List (Str × Str)
  formal : Str → Option Bool
  accepts : Str → Str → Bool
  /-- `properties.LoadFile` / `LoadURL` -/
  loadProps : Str → Except Str Map
  unq : Str → Option Str
  atoi : Str → Int
  extra : List Resolved → Option Err

/-- `config.Load(args, environ)` -/
def loadArgv (E : FlagEnv) (args environ : List Str) : Outcome LoadRes :=
  match parsePre args with
  | .panic w => .panic w
  | .ok .version => .ok .version
  | .ok .invalidConfig => .ok (.err (.other "invalid or missing path to config file".toList))
  | .ok (.ok pre) =>
    match (if pre.path = [] then Except.ok none else (E.loadProps pre.path).map some) with
    | .error e => .ok (.err (.other e))
    | .ok props =>
      match tokenise E.formal E.accepts pre.rest [] with
      | .error .help => .ok (.exit 0)
      | .error _ => .ok (.exit 2)
      | .ok tok =>
        match loadModel E.unq E.atoi E.extra E.flags
            { cmd := tok.pairs, environ := environ, prefixes := ["FABIO_".toList, []], props := props } with
        | .panic w => .panic w
        | .ok (.error e) => .ok (.err e)
        | .ok (.ok c) => .ok (.cfg c)

/-! ### Spelling an assignment on the command line -/

inductive Form where
  | eq1      -- `-name=value`
  | eq2      -- `--name=value`
  | split1   -- `-name value`   (not for boolean flags)
  | split2   -- `--name value`
  | bare1    -- `-name`         (boolean flags, value `true`)
  | bare2    -- `--name`
deriving Repr, DecidableEq

def dashes : Form → Str
  | .eq1 | .split1 | .bare1 => ['-']
  | .eq2 | .split2 | .bare2 => ['-', '-']

def spellOne (name value : Str) : Form → List Str
  | .eq1 => [('-' :: name) ++ '=' :: value]
  | .eq2 => [('-' :: '-' :: name) ++ '=' :: value]
  | .split1 => ['-' :: name, value]
  | .split2 => ['-' :: '-' :: name, value]
  | .bare1 => ['-' :: name]
  | .bare2 => ['-' :: '-' :: name]

def spell : List (Str × Str × Form) → List Str
  | [] => []
  | (n, v, f) :: t => spellOne n v f ++ spell t

end Fabio.Model.C15
