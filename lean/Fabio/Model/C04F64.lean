import Fabio.Model.C04Spec
/-!
C04, round 4 — the arithmetic of `weighTargets` and `setWeight` **as coded**, parametrised by the arithmetic
(`Arith`: how an exact result is rounded and when it overflows), and two more specification predicates. Core
Lean only.

* `weighW A fixed` follows `Route.weighTargets` statement by statement: the loop `nFixed++ ; sumFixed +=
  t.FixedWeight ; maxFixed = math.Max(…)` (one rounding per addition, `+Inf` is absorbing), the re-summation
  relative to the largest weight when the sum overflowed (`unit, sumFixed = maxFixed, 0`, `sumFixed +=
  t.FixedWeight / unit`), the bypass `w := 1.0 / float64(len)`, `norm`, `dynamic := (1 - sumFixed) /
  float64(len - nFixed)` with its clamp, and `t.Weight = t.FixedWeight / unit / norm` (two roundings).
* `Arith.exact` (no rounding, no overflow) gives back the ℚ model `Model.Route.weigh` — theorem
  `weighW_exact` in `Props/C04Round4.lean` — and `Arith.f64` (IEEE-754 binary64, round to nearest even,
  overflow at 2¹⁰²⁴, gradual underflow: `roundF64` of `Model/C04Spec.lean`) is what the Go code computes: the
  driver demands that Go's `Weight` values equal `weighW Arith.f64` of Go's own `FixedWeight` values **bit for
  bit** (no tolerance), in every stream.
* `spreadW A w k` is `setWeight`'s `weight / float64(n)`.
-/
namespace Fabio.Model.C04
open Fabio Fabio.Model.Route

structure Arith where
  /-- the representable value an exact result is rounded to -/
  rnd : Rat → Rat
  /-- the (rounded) result is beyond the largest finite value: the operation yields `+Inf` -/
  ovf : Rat → Bool

/-- exact rational arithmetic -/
def Arith.exact : Arith := { rnd := fun q => q, ovf := fun _ => false }

/-- signed version of `roundF64` (which is defined for non-negative arguments) -/
def roundF64S (q : Rat) : Rat := if q < 0 then -(roundF64 (-q)) else roundF64 q

/-- IEEE-754 binary64 -/
def Arith.f64 : Arith := { rnd := roundF64S, ovf := fun r => decide (pow2 1024 ≤ r) }

/-- `sumFixed += t.FixedWeight` over the positive fixed weights; `none` = `+Inf` (stays `+Inf`: every further
summand is positive and finite). -/
def sumLoop (A : Arith) (fx : List Rat) : Option Rat :=
  fx.foldl (fun acc f =>
    match acc with
    | none => none
    | some s => let r := A.rnd (s + f); if A.ovf r then none else some r) (some 0)

/-- `maxFixed = math.Max(maxFixed, t.FixedWeight)` -/
def maxLoop (fx : List Rat) : Rat := fx.foldl (fun m f => if m < f then f else m) 0

/-- the second summation, `sumFixed += t.FixedWeight / unit` (every quotient is at most 1) -/
def relSumLoop (A : Arith) (unit : Rat) (fx : List Rat) : Rat :=
  fx.foldl (fun s f => A.rnd (s + A.rnd (f / unit))) 0

/-- `(unit, sumFixed)` after the summation loop and the re-summation for an overflowed sum -/
def unitSum (A : Arith) (fx : List Rat) : Rat × Rat :=
  match sumLoop A fx with
  | some s => (1, s)
  | none => (maxLoop fx, relSumLoop A (maxLoop fx) fx)

/-- the rest of `weighTargets`, given `(unit, sumFixed)` -/
def weighWith (A : Arith) (ts : List Target) (us : Rat × Rat) : List Target :=
  let n := ts.length
  let nf := nFixed ts
  if nf = 0 then ts.map (fun t => { t with weight := A.rnd (1 / (n : Rat)) })
  else
    let norm : Rat := if 1 < us.2 ∨ (nf = n ∧ us.2 < 1) then us.2 else 1
    let dyn0 : Rat := A.rnd (A.rnd (1 - us.2) / ((n - nf : Nat) : Rat))
    let dyn : Rat := if dyn0 < 0 then 0 else dyn0
    ts.map (fun t => if 0 < t.fixedWeight then { t with weight := A.rnd (A.rnd (t.fixedWeight / us.1) / norm) }
                     else { t with weight := dyn })

/-- `weighTargets` on the targets of a route, in the arithmetic `A`: only `weight` is written. -/
def weighA (A : Arith) (ts : List Target) : List Target :=
  weighWith A ts (unitSum A ((ts.filter (fun t => decide (0 < t.fixedWeight))).map (·.fixedWeight)))

/-- the same on bare requested weights (what the driver evaluates on an observed route) -/
def weighW (A : Arith) (fixed : List Rat) : List Rat :=
  (weighA A (fixed.map (fun f => ({ service := [], tags := [], opts := [], url := [], fixedWeight := f } : Target)))).map (·.weight)

/-- `n := int(float64(maxSlots) * t.Weight); if n == 0 && t.Weight > 0 { n = 1 }` in the arithmetic `A` (the
product is rounded before the truncation) -/
def slotCountA (A : Arith) (w : Rat) : Int :=
  let n := truncZ (A.rnd ((maxSlots : Rat) * w))
  if n = 0 ∧ 0 < w then 1 else n

/-- `r.wTargets` after `weighTargets` in the arithmetic `A`, from the targets as stored (requested weights),
for the placement order `pl`: bypass without fixed weights, else the fill on the slot counts of the weights
computed in `A`. -/
def ringAsCoded (A : Arith) (ts : List Target) (pl : List (Int × Nat)) : Outcome Ring :=
  if nFixed ts = 0 then .ok ((List.range ts.length).map some)
  else fillRing ((weighA A ts).map (fun t => slotCountA A t.weight)) pl

/-- `w := weight / float64(n)` of `setWeight` -/
def spreadW (A : Arith) (w : Rat) (k : Nat) : Rat := A.rnd (w / (k : Rat))

/-- Go's effective weights are exactly the float64 evaluation of `weighTargets` on Go's requested weights. -/
def weightsAgreeF64 (o : RouteObs) : Bool := weighW Arith.f64 o.fixed == o.weight

/-- `spreadHonoured` without tolerance: the requested weight of a target matched by the last `route weight`
command of a trailing block is *exactly* `float64(w) / float64(k)`. -/
def spreadExactF64 (targets : List (Str × List Str × Rat)) (cmds : List WCmd) : Bool :=
  targets.all (fun t =>
    match cmds.reverse.find? (fun c => matchesCmd c t.1 t.2.1) with
    | none => true
    | some c =>
      let k := (targets.filter (fun u => matchesCmd c u.1 u.2.1)).length
      t.2.2 == spreadW Arith.f64 c.w k)

/-! ### the route commands over an arbitrary weighing function

`Model/Route.lean` hard-wires the ℚ function `weigh` and the exact quotient `w / n` into `addTarget`, `filter`,
`setWeight`. Below are the same definitions, word for word, with the weighing function `W` and the spreading
function `S` as parameters. `tableOps weigh (· / ·)` *is* the shared model (`newTableG_exact`, by `rfl`);
`newTableA Arith.f64` is the table the Go code builds, float for float — including the places where float64
identity decides the control flow (`t.FixedWeight == fixedWeight` in the de-duplication of `addTarget`, a share
that underflows to 0 and turns a target dynamic). -/

structure Ops where
  W : List Target → List Target
  S : Rat → Nat → Rat

def addTargetG (O : Ops) (r : Route) (service url : Str) (fw : Rat) (tags : List Str) (opts : List (Str × Str)) : Route :=
  let fw := if fw < 0 then 0 else fw
  if r.targets.any (fun t => t.service == service && t.url == url && t.fixedWeight == fw && t.tags == tags) then r
  else { r with targets := O.W (r.targets ++ [{ service, tags, opts, url, fixedWeight := fw }]) }

def filterG (O : Ops) (r : Route) (skip : Target → Bool) : Route :=
  { r with targets := O.W (r.targets.filter (fun t => !skip t)) }

def setWeightG (O : Ops) (r : Route) (service : Str) (w : Rat) (tags : List Str) : Route × Nat :=
  let n := (r.targets.filter (matchesWeight service tags)).length
  if n = 0 then (r, 0) else
  let each : Rat := O.S w n
  let ts := r.targets.map (fun t => if matchesWeight service tags t then { t with fixedWeight := each } else t)
  ({ r with targets := O.W ts }, n)

def addRouteG (O : Ops) (env : Env) (t : Table) (d : RouteDef) : Except Err Table :=
  let (host0, path) := hostpath d.src
  let host := lowerL host0
  if d.src.isEmpty then .error .invalidPrefix else
  if d.dst.isEmpty then .error .invalidTarget else
  match env.normURL d.dst with
  | none => .error .badURL
  | some url =>
    if !t.has host then
      if !env.globOK host then .error .badGlob else
      if !env.globOK path then .error .badGlob else
      .ok (t.set host [addTargetG O ({ host, path, targets := [] } : Route) d.service url d.weight d.tags d.opts])
    else
      match findRoute (t.get host) path with
      | none =>
        if !env.globOK path then .error .badGlob else
        .ok (t.set host (t.get host ++ [addTargetG O ({ host, path, targets := [] } : Route) d.service url d.weight d.tags d.opts]))
      | some r =>
        .ok (t.set host (replaceRoute (t.get host) (addTargetG O r d.service url d.weight d.tags d.opts)))

def weighRouteG (O : Ops) (t : Table) (d : RouteDef) : Except Err Table :=
  let (host0, path) := hostpath d.src
  let host := lowerL host0
  if d.src.isEmpty then .error .invalidPrefix else
  match t.route host path with
  | none => .error .noMatch
  | some r =>
    let (r', n) := setWeightG O r d.service d.weight d.tags
    if n = 0 then .error .noMatch else .ok (t.set host (replaceRoute (t.get host) r'))

def delRouteG (O : Ops) (env : Env) (t : Table) (d : RouteDef) : Except Err Table :=
  if !d.tags.isEmpty then
    .ok (prune (mapRoutes t (fun r => filterG O r (fun tg => (d.service.isEmpty || tg.service == d.service) && containsAll tg.tags d.tags))))
  else if d.src.isEmpty && d.dst.isEmpty then
    .ok (prune (mapRoutes t (fun r => filterG O r (fun tg => tg.service == d.service))))
  else if d.dst.isEmpty then
    let (host0, path) := hostpath d.src
    let host := lowerL host0
    match t.route host path with
    | none => .ok t
    | some r => .ok (prune (t.set host (replaceRoute (t.get host) (filterG O r (fun tg => tg.service == d.service)))))
  else
    match env.normURL d.dst with
    | none => .error .badURL
    | some url =>
      let (host0, path) := hostpath d.src
      let host := lowerL host0
      match t.route host path with
      | none => .ok t
      | some r => .ok (prune (t.set host (replaceRoute (t.get host) (filterG O r (fun tg => tg.service == d.service && tg.url == url)))))

def applyDefG (O : Ops) (env : Env) (t : Table) (d : RouteDef) : Except Err Table :=
  match d.cmd with
  | .add => addRouteG O env t d
  | .del => delRouteG O env t d
  | .weight => weighRouteG O t d
  | .other _ => .error .invalidCommand

def newTableG (O : Ops) (env : Env) (defs : List RouteDef) : Except Err Table :=
  match defs.foldlM (applyDefG O env) ([] : Table) with
  | .error e => .error e
  | .ok t => .ok (t.map (fun kv => (kv.1, sortRoutes kv.2)))

/-- `applyDefW` (definitions that may carry a non-finite weight) over `Ops` -/
def applyDefWG (O : Ops) (env : Env) (t : Table) (d : RouteDef) (finite : Bool) : Except (Option Err) Table :=
  if finite then
    match applyDefG O env t d with
    | .ok t' => .ok t'
    | .error e => .error (some e)
  else
    match d.cmd with
    | .add =>
      if d.src.isEmpty then .error (some .invalidPrefix)
      else if d.dst.isEmpty then .error (some .invalidTarget)
      else .error none
    | .weight =>
      if d.src.isEmpty then .error (some .invalidPrefix) else .error none
    | .del =>
      match applyDefG O env t { d with weight := 0 } with
      | .ok t' => .ok t'
      | .error e => .error (some e)
    | .other _ => .error (some .invalidCommand)

def newTableWG (O : Ops) (env : Env) (defs : List (RouteDef × Bool)) : Except (Option Err) Table :=
  match defs.foldlM (fun t d => applyDefWG O env t d.1 d.2) ([] : Table) with
  | .error e => .error e
  | .ok t => .ok (t.map (fun kv => (kv.1, sortRoutes kv.2)))

/-- the shared ℚ model as an instance -/
def Ops.rat : Ops := { W := weigh, S := fun w n => w / (n : Rat) }
/-- the route commands in the arithmetic `A` -/
def Ops.of (A : Arith) : Ops := { W := weighA A, S := spreadW A }

def newTableA (A : Arith) := newTableG (Ops.of A)
def newTableWA (A : Arith) := newTableWG (Ops.of A)

/-- `rndPick` with O(1) slot access (the driver's version; equal to the list model: `rndPickA_refines`) -/
def rndPickA (ring : Array (Option Nat)) (randIntn : Nat → Int) : Outcome (Option Nat) :=
  let k := randIntn ring.size
  if k < 0 then .panic "index out of range"
  else
    match ring[k.toNat]? with
    | some s => .ok s
    | none => .panic "index out of range"

/-! ### the random picker under a uniform source

The harness lets the injected `randIntn` enumerate its range once (`asked[0]` lookups, the j-th draw is
`j mod n`), so the pick counts of the sweep are the exact distribution of `rndPicker` for a uniform RNG.
Specification: every draw asked for the same range `A > 0`, there is one pick per value, every pick is a target
of the route, and target `i` has the share of the sweep it has of the ring (`countᵢ / A = ringCountᵢ / N`) —
the clause of `specFailures` on the ring counts then gives `|10⁴·share − 10⁴·w| < 1` up to the ring length. -/
def sweepShareOk (n : Nat) (ring : Array (Option Nat)) (picks asked : Array Nat) : Bool :=
  let A := asked.getD 0 0
  let N := ring.size
  let cnt := picks.foldl (fun acc i => if i < n then acc.modify i (· + 1) else acc) (Array.replicate n 0)
  let want := ringCounts n ring
  decide (0 < A) && asked.all (· == A) && picks.size == A && picks.all (fun i => decide (i < n)) &&
    (List.range n).all (fun i => cnt.getD i 0 * N == want.getD i 0 * A)

end Fabio.Model.C04
