import Fabio.Model.C17
/-!
C17, the glue around the writer machine:

* `serveSeq`: ONE handler value (one `NewGzipHandler` call — what fabio does per request with one configured
  `*regexp.Regexp` for the life of the process) serving any number of responses one after the other; the only thing
  that travels from one response to the next is the pool of recycled writers.
* `configure`: what `config.Load` makes of the option `proxy.gzip.contenttype`.
* `relay`: what `httputil.ReverseProxy` (fabio's `newHTTPProxy`) does with the writer it is given, for a
  response as `http.Transport` hands it over: relayed 1xx responses (header lines added, `WriteHeader(1xx)`, map
  cleared), the final header lines added one by one, `WriteHeader(code)`, the body copied in chunks with a
  `ResponseController.Flush` after each chunk when the flush interval asks for it.
* `proxyServe`: `HTTPProxy.ServeHTTP` from the point where the target is chosen — wrap in `NewGzipHandler` iff an
  expression is configured, hand the (unchanged) request to the reverse proxy.

ReverseProxy, the transport and the upstream are library/peer behaviour: `relay` is their contract as far as
the response writer can tell; the correspondence stream `c17.proxy` drives the real ones.
-/
namespace Fabio.Model.C17

variable {Z : Type}

/-! ### one handler, many responses -/

/-- one request/response exchange: the request, the header map as the writer arrives, the wrapped handler's script. -/
structure Exch where
  head : Bool
  dfl : Bool
  req : Hdr
  h0 : Hdr
  ops : List Op

/-- the responses of one handler value to a sequence of exchanges; the pool is threaded through. -/
def serveSeq (C : Cfg Z) : List Z → List Exch → List (Served Z)
  | _, [] => []
  | pool, e :: es =>
    (serve C e.head e.dfl e.req e.h0 pool e.ops) :: serveSeq C (serve C e.head e.dfl e.req e.h0 pool e.ops).pool es

/-- what the client can tell about a response: compressed or not, status, header map, and the content — the body
itself, or what it decodes to when it is labelled gzip. -/
def Served.view (C : Cfg Z) (s : Served Z) : Bool × Nat × Hdr × Option Bytes :=
  (s.compressed, s.obs.status, s.obs.hdr, if s.compressed then C.comp.decode s.obs.body else some s.obs.body)

/-! ### the option -/

inductive GzipOpt where
  | off       -- `cfg.Proxy.GZIPContentTypes == nil`
  | on        -- compiled expression
  | invalid   -- `Load` fails: "invalid expression for content types"
deriving Repr, DecidableEq

/-- `config.Load`: the empty value leaves compression off, anything else must compile. `compiles` =
`regexp.Compile(value)` succeeds (library). -/
def configure (value : String) (compiles : Bool) : GzipOpt :=
  if value == "" then .off else if compiles then .on else .invalid

/-! ### httputil.ReverseProxy in front of the writer -/

/-- a response as the transport delivers it (hop-by-hop lines already removed). -/
structure UpResp where
  /-- 1xx responses that precede the final one, each with its header lines -/
  info : List (Nat × List (String × String))
  code : Nat
  hdr : List (String × String)
  chunks : List Bytes
  /-- flush after every chunk (negative flush interval, or a streaming response) -/
  flushEach : Bool

def addAll (l : List (String × String)) : List Op := l.map (fun p => Op.add p.1 p.2)

/-- `clear(h)`: every key that can be in the live map is deleted. -/
def delAll (keys : List String) : List Op := keys.map Op.del

/-- one relayed informational response: `copyHeader(h, header); rw.WriteHeader(code); clear(h)`.
`before` = the keys in the live map when the reverse proxy is entered. -/
def relayInfo (before : List String) (i : Nat × List (String × String)) : List Op :=
  addAll i.2 ++ [Op.wh i.1] ++ delAll (before ++ i.2.map (·.1))

def copyBody (flushEach : Bool) : List Bytes → List Op
  | [] => []
  | b :: bs => (if flushEach then [Op.w b, Op.fl] else [Op.w b]) ++ copyBody flushEach bs

/-- the final response: header lines, status, body. -/
def relayFinal (u : UpResp) : List Op := addAll u.hdr ++ Op.wh u.code :: copyBody u.flushEach u.chunks

def relay (before : List String) (u : UpResp) : List Op :=
  (u.info.map (relayInfo before)).flatten ++ relayFinal u

/-! ### HTTPProxy.ServeHTTP, from the chosen target on -/

/-- the reverse proxy on the bare writer: no `Vary` line, nothing of the gzip package involved. -/
def proxyBare (C : Cfg Z) (dfl : Bool) (h0 : Hdr) (ops : List Op) : Obs :=
  (bareRun C dfl (h0, {}) ops).2.obs (bareRun C dfl (h0, {}) ops).1

structure ProxyServed (Z : Type) where
  compressed : Bool
  obs : Obs
  /-- the request header the reverse proxy (hence the upstream) is handed -/
  fwd : Hdr
  pool : List Z

/-- `if p.Config.GZIPContentTypes != nil { h = gzip.NewGzipHandler(h, …) }; h.ServeHTTP(rw, r)`. `gz` = an
expression is configured. The request is handed on as it came. -/
def proxyServe (C : Cfg Z) (gz : Bool) (head dfl : Bool) (req h0 : Hdr) (pool : List Z) (u : UpResp) : ProxyServed Z :=
  if gz then
    let s := serve C head dfl req h0 pool (relay ((hadd h0 hVary hAcceptEncoding).map (·.1)) u)
    { compressed := s.compressed, obs := s.obs, fwd := req, pool := s.pool }
  else
    { compressed := false, obs := proxyBare C dfl h0 (relay (h0.map (·.1)) u), fwd := req, pool := pool }

end Fabio.Model.C17
