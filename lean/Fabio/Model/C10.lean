import Fabio.Basic
/-!
C10 — model of `proxy/tcp/tls_clienthello.go` (`clientHelloBufferSize`, `readServerName`,
`clientHelloMsg.unmarshal`) and of the first part of `SNIProxy.ServeTCP` (`Peek(9)`, `ReadFull` of exactly the
computed size, `data[5:]`), plus an abstract `Hello` with its RFC 5246 / 6066 / 8446 wire encoding.

Wire data is `List UInt8`. Every Go index `d[i]` and slice `d[a:b]` is a *checked* operation: out of range
is `R.panic`, never a default value. (Go checks a slice's upper bound against the capacity; the model checks
it against the length, which is never larger — so a Go panic implies a model panic, and "the model never
panics" is the stronger statement.) `return false` / `return 0, err` is `R.reject site`, the site string
naming the check that failed (it is the branch tag of the correspondence).

`unmarshal` rebinds `data = data[n:]` four times; the model is the composition of the four stretches of
code between those rebindings (`parseHead`, `parseCiphers`, `parseCompression`, `parseExtensions`), each
following the Go statements one by one. The two `for` loops consume at least 4 resp. 3 bytes per iteration;
they are written with an explicit fuel argument (`len+1`), and running out of fuel is itself a *panic*
outcome, so `unmarshal_no_panic` also proves that the fuel always suffices.
-/
namespace Fabio.Model.C10

abbrev Bytes := List UInt8

/-- Three-way result of a stretch of Go code: a value, an early `return false` / `return 0, err`
(with the name of the check that fired), or a run-time panic. -/
inductive R (α : Type) where
  | ok (a : α)
  | reject (site : String)
  | panic (why : String)
deriving Repr, BEq, DecidableEq

namespace R
def bind {α β} (x : R α) (f : α → R β) : R β :=
  match x with
  | .ok a => f a
  | .reject s => .reject s
  | .panic w => .panic w
instance : Monad R where
  pure := .ok
  bind := bind
def isPanic {α} : R α → Bool
  | .panic _ => true
  | _ => false
def isReject {α} : R α → Bool
  | .reject _ => true
  | _ => false
def isOk {α} : R α → Bool
  | .ok _ => true
  | _ => false
end R

/-! ### Constants of the Go code (pinned against the regenerated facts in `Props/C10Facts.lean`) -/

/-- `tlsReader.Peek(9)` / `len(data) < 9`: record header (5) + handshake header (4). -/
abbrev peekLen : Nat := 9
/-- `data[5:]`, the TLS record header length. -/
abbrev recHdrLen : Nat := 5
/-- `data[0] != 0x16` -/
abbrev recTypeHandshake : UInt8 := 0x16
/-- `recordLength > 16384` -/
abbrev maxRecordLen : Nat := 16384
/-- `data[5] != 0x01` -/
abbrev hsTypeClientHello : UInt8 := 0x01
/-- `handshakeLength > recordLength-4` -/
abbrev hsHdrLen : Nat := 4
/-- `len(data) < 42` -/
abbrev minHelloLen : Nat := 42
/-- `m.random = data[6:38]` -/
abbrev randomOff : Nat := 6
/-- `int(data[38])` -/
abbrev sidLenOff : Nat := 38
/-- `data[39 : 39+sessionIdLen]` -/
abbrev sidOff : Nat := 39
/-- `sessionIdLen > 32` -/
abbrev maxSidLen : Nat := 32
/-- `extensionServerName uint16 = 0` -/
abbrev extensionServerName : Nat := 0
/-- `nameType == 0` (host_name) -/
abbrev nameTypeHost : UInt8 := 0

/-! ### Checked byte access -/

/-- `d[i]` -/
def idx (d : Bytes) (i : Nat) : R UInt8 :=
  match d[i]? with
  | some b => .ok b
  | none => .panic "index out of range"

/-- `d[a:b]` -/
def slice (d : Bytes) (a b : Nat) : R Bytes :=
  if a ≤ b ∧ b ≤ d.length then .ok ((d.take b).drop a) else .panic "slice bounds out of range"

/-- `d[a:]` -/
def sliceFrom (d : Bytes) (a : Nat) : R Bytes :=
  if a ≤ d.length then .ok (d.drop a) else .panic "slice bounds out of range"

/-- `d[:b]` -/
def sliceTo (d : Bytes) (b : Nat) : R Bytes :=
  if b ≤ d.length then .ok (d.take b) else .panic "slice bounds out of range"

/-- `int(hi)<<8 | int(lo)` -/
def be16 (hi lo : UInt8) : Nat := (hi.toNat <<< 8) ||| lo.toNat

/-- `int(a)<<16 | int(b)<<8 | int(c)` -/
def be24 (a b c : UInt8) : Nat := (a.toNat <<< 16) ||| (b.toNat <<< 8) ||| c.toNat

/-! ### `clientHelloBufferSize` -/

def clientHelloBufferSize (data : Bytes) : R Nat :=
  if data.length < peekLen then .reject "short" else do
  let t ← idx data 0
  if t != recTypeHandshake then .reject "not-handshake" else do
  let r3 ← idx data 3
  let r4 ← idx data 4
  let recordLength := be16 r3 r4
  if recordLength ≤ 0 ∨ recordLength > maxRecordLen then .reject "record-length" else do
  let h ← idx data 5
  if h != hsTypeClientHello then .reject "not-client-hello" else do
  let h6 ← idx data 6
  let h7 ← idx data 7
  let h8 ← idx data 8
  let handshakeLength := be24 h6 h7 h8
  -- Go ints: `recordLength-4` may be negative
  if handshakeLength ≤ 0 ∨ (handshakeLength : Int) > (recordLength : Int) - (hsHdrLen : Int) then
    .reject "handshake-length"
  else
    .ok (handshakeLength + peekLen)

/-! ### `clientHelloMsg.unmarshal` -/

/-- tls_clienthello.go:107–118: handshake header, version, random, session id. Result: the rebound `data`. -/
def parseHead (data : Bytes) : R Bytes :=
  if data.length < minHelloLen then .reject "len<42" else do
  let v4 ← idx data 4
  let v5 ← idx data 5
  let _vers := be16 v4 v5
  let _random ← slice data randomOff sidLenOff
  let sl ← idx data sidLenOff
  let sessionIdLen := sl.toNat
  if sessionIdLen > maxSidLen ∨ data.length < sidOff + sessionIdLen then .reject "session-id" else do
  let _sessionId ← slice data sidOff (sidOff + sessionIdLen)
  sliceFrom data (sidOff + sessionIdLen)

/-- :119–136: cipher suites (skipped by length; the length must be even). -/
def parseCiphers (data : Bytes) : R Bytes :=
  if data.length < 2 then .reject "cipher-len" else do
  let c0 ← idx data 0
  let c1 ← idx data 1
  let cipherSuiteLen := be16 c0 c1
  if cipherSuiteLen % 2 = 1 ∨ data.length < 2 + cipherSuiteLen then .reject "cipher-suites" else
  sliceFrom data (2 + cipherSuiteLen)

/-- :137–146: compression methods. -/
def parseCompression (data : Bytes) : R Bytes :=
  if data.length < 1 then .reject "compression-len" else do
  let c ← idx data 0
  let compressionMethodsLen := c.toNat
  if data.length < 1 + compressionMethodsLen then .reject "compression-methods" else do
  let _compressionMethods ← slice data 1 (1 + compressionMethodsLen)
  sliceFrom data (1 + compressionMethodsLen)

/-- :193–208, the `for len(d) > 0` loop over the ServerNameList. `some name`: a `host_name` entry was found
(`break`); `none`: the list ran out. -/
def nameLoop : Nat → Bytes → R (Option Bytes)
  | 0, _ => .panic "fuel"
  | fuel+1, d =>
    if d.length = 0 then .ok none else
    if d.length < 3 then .reject "name-entry-header" else do
    let nameType ← idx d 0
    let n1 ← idx d 1
    let n2 ← idx d 2
    let nameLen := be16 n1 n2
    let d ← sliceFrom d 3
    if d.length < nameLen then .reject "name-length" else
    if nameType = nameTypeHost then do
      let nm ← sliceTo d nameLen
      .ok (some nm)
    else do
      let d ← sliceFrom d nameLen
      nameLoop fuel d

/-- :183–208, `case extensionServerName` on `d := data[:length]`; `cur` is the current `m.serverName`. -/
def serverNameExt (d cur : Bytes) : R Bytes :=
  if d.length < 2 then .reject "sni-len" else do
  let a ← idx d 0
  let b ← idx d 1
  let namesLen := be16 a b
  let d ← sliceFrom d 2
  if d.length ≠ namesLen then .reject "sni-list-length" else do
  let r ← nameLoop (d.length + 1) d
  match r with
  | some nm => .ok nm
  | none => .ok cur

/-- :171–302, the `for len(data) != 0` loop over the extensions; `cur` is `m.serverName`. -/
def extLoop : Nat → Bytes → Bytes → R Bytes
  | 0, _, _ => .panic "fuel"
  | fuel+1, data, cur =>
    if data.length = 0 then .ok cur else
    if data.length < 4 then .reject "ext-header" else do
    let e0 ← idx data 0
    let e1 ← idx data 1
    let e2 ← idx data 2
    let e3 ← idx data 3
    let extension := be16 e0 e1
    let length := be16 e2 e3
    let data ← sliceFrom data 4
    if data.length < length then .reject "ext-length" else do
    let cur ← (if extension = extensionServerName then do
                 let d ← sliceTo data length
                 serverNameExt d cur
               else .ok cur)
    let data ← sliceFrom data length
    extLoop fuel data cur

/-- :148–304: optional extension block. -/
def parseExtensions (data : Bytes) : R Bytes :=
  if data.length = 0 then .ok [] else
  if data.length < 2 then .reject "ext-block-len" else do
  let a ← idx data 0
  let b ← idx data 1
  let extensionsLength := be16 a b
  let data ← sliceFrom data 2
  if extensionsLength ≠ data.length then .reject "ext-block-length" else
  extLoop (data.length + 1) data []

/-- `m.unmarshal(data)`: `ok name` = `true` with `m.serverName = name`; `reject` = `false`. -/
def unmarshal (data : Bytes) : R Bytes :=
  parseHead data >>= parseCiphers >>= parseCompression >>= parseExtensions

/-- `readServerName`: `(serverName, ok)`. -/
def readServerName (data : Bytes) : Outcome (Bytes × Bool) :=
  match unmarshal data with
  | .ok nm => .ok (nm, true)
  | .reject _ => .ok ([], false)
  | .panic w => .panic w

/-! ### The start of `SNIProxy.ServeTCP` -/

/-- `stream` is everything the client sends. `Peek(9)` fails when fewer than 9 bytes arrive,
`io.ReadFull(tlsReader, make([]byte, bufferSize))` fails when fewer than `bufferSize` arrive; otherwise the
first `bufferSize` bytes are `data` and the name comes from `readServerName(data[5:])`. -/
def sniRoute (stream : Bytes) : R Bytes :=
  if stream.length < peekLen then .reject "peek" else do
  let tlsHeaders ← sliceTo stream peekLen
  let bufferSize ← clientHelloBufferSize tlsHeaders
  if stream.length < bufferSize then .reject "read-full" else do
  let data ← sliceTo stream bufferSize
  let hs ← sliceFrom data recHdrLen
  unmarshal hs

/-! ### Abstract ClientHello and its wire encoding -/

/-- An extension: `server_name` (RFC 6066 §3) with its ServerNameList as (name_type, name) entries, or any
other extension as an opaque body. -/
inductive Ext where
  | serverName (entries : List (UInt8 × Bytes))
  | other (typ : Nat) (body : Bytes)
deriving Repr, BEq, DecidableEq

structure Hello where
  versHi : UInt8
  versLo : UInt8
  random : Bytes
  sessionId : Bytes
  cipherSuites : List (UInt8 × UInt8)
  compressionMethods : Bytes
  /-- `none`: the hello ends after the compression methods (RFC 5246 allows it) -/
  extensions : Option (List Ext)
deriving Repr, BEq, DecidableEq

def enc16 (n : Nat) : Bytes := [UInt8.ofNat (n / 256), UInt8.ofNat (n % 256)]
def enc24 (n : Nat) : Bytes := [UInt8.ofNat (n / 65536), UInt8.ofNat (n / 256 % 256), UInt8.ofNat (n % 256)]

def encNameEntry (e : UInt8 × Bytes) : Bytes := e.1 :: (enc16 e.2.length ++ e.2)

def encNameList : List (UInt8 × Bytes) → Bytes
  | [] => []
  | e :: es => encNameEntry e ++ encNameList es

def Ext.typ : Ext → Nat
  | .serverName _ => 0
  | .other t _ => t

def Ext.body : Ext → Bytes
  | .serverName es => enc16 (encNameList es).length ++ encNameList es
  | .other _ b => b

def encExt (e : Ext) : Bytes := enc16 e.typ ++ (enc16 e.body.length ++ e.body)

def encExts : List Ext → Bytes
  | [] => []
  | e :: es => encExt e ++ encExts es

def encExtBlock : Option (List Ext) → Bytes
  | none => []
  | some es => enc16 (encExts es).length ++ encExts es

def encCiphers : List (UInt8 × UInt8) → Bytes
  | [] => []
  | c :: cs => c.1 :: c.2 :: encCiphers cs

/-- The part of the body that `parseHead` consumes after the 4-byte handshake header. -/
def encHeadBody (h : Hello) : Bytes :=
  [h.versHi, h.versLo] ++ (h.random ++ (UInt8.ofNat h.sessionId.length :: h.sessionId))

def encCipherBlock (h : Hello) : Bytes :=
  enc16 (encCiphers h.cipherSuites).length ++ encCiphers h.cipherSuites

def encCompressionBlock (h : Hello) : Bytes :=
  UInt8.ofNat h.compressionMethods.length :: h.compressionMethods

def encBody (h : Hello) : Bytes :=
  encHeadBody h ++ (encCipherBlock h ++ (encCompressionBlock h ++ encExtBlock h.extensions))

/-- The ClientHello handshake message: type 1, 24-bit length, body. -/
def encode (h : Hello) : Bytes := 1 :: (enc24 (encBody h).length ++ encBody h)

/-- One TLSPlaintext record of type handshake(22) with the given record-layer version carrying the message. -/
def record (vMaj vMin : UInt8) (h : Hello) : Bytes :=
  0x16 :: vMaj :: vMin :: (enc16 (encode h).length ++ encode h)

/-- First `host_name` entry of a ServerNameList. -/
def hostName : List (UInt8 × Bytes) → Option Bytes
  | [] => none
  | e :: es => if e.1 = 0 then some e.2 else hostName es

/-- What the extension loop leaves in `m.serverName`: every `server_name` extension with a host_name entry
overwrites the current value. -/
def sniFold : List Ext → Bytes → Bytes
  | [], cur => cur
  | .serverName es :: rest, cur => sniFold rest ((hostName es).getD cur)
  | .other _ _ :: rest, cur => sniFold rest cur

/-- The server name of a hello: the host_name of its (unique) `server_name` extension, `""` when absent. -/
def sniOf (h : Hello) : Bytes :=
  match h.extensions with
  | none => []
  | some es =>
    match es.find? (fun e => e.typ == 0) with
    | some (.serverName ns) => (hostName ns).getD []
    | _ => []

/-- A well-formed ServerNameList entry: the name fits its 16-bit length and is non-empty; a host_name has no
trailing dot (RFC 6066 §3; crypto/tls rejects the hello otherwise). -/
def NameEntryOk (e : UInt8 × Bytes) : Prop :=
  0 < e.2.length ∧ e.2.length < 65536 ∧ (e.1 = 0 → e.2.getLast? ≠ some 0x2e)

def ExtOk : Ext → Prop
  | .serverName es =>
      es ≠ [] ∧ (∀ e ∈ es, NameEntryOk e) ∧ (es.map (·.1)).Nodup ∧ (encNameList es).length + 2 < 65536
  | .other t b => t ≠ 0 ∧ t < 65536 ∧ b.length < 65536

/-- The optional extension block: every extension well-formed, extension types pairwise distinct, the whole
block fits its 16-bit length. -/
def ExtsOk : Option (List Ext) → Prop
  | none => True
  | some es => (∀ e ∈ es, ExtOk e) ∧ (es.map Ext.typ).Nodup ∧ (encExts es).length < 65536

/-- Well-formed per RFC 5246 §7.4.1.2 / RFC 6066 §3 / RFC 8446 §4.1.2 (and accepted by crypto/tls):
32-byte random, session id ≤ 32, cipher-suite vector that fits 16 bits, compression methods fit 8 bits,
extension types pairwise distinct, every extension body and the whole block fit 16 bits. -/
structure WellFormed (h : Hello) : Prop where
  random : h.random.length = 32
  sessionId : h.sessionId.length ≤ 32
  ciphers : 2 * h.cipherSuites.length < 65536
  compression : h.compressionMethods.length < 256
  exts : ExtsOk h.extensions

instance : DecidablePred NameEntryOk := fun e => by unfold NameEntryOk; exact inferInstance

instance : DecidablePred ExtOk := fun e => by
  cases e <;> unfold ExtOk <;> exact inferInstance

instance : DecidablePred ExtsOk := fun o => by
  cases o <;> unfold ExtsOk <;> exact inferInstance

instance (h : Hello) : Decidable (WellFormed h) :=
  decidable_of_iff
    (h.random.length = 32 ∧ h.sessionId.length ≤ 32 ∧ 2 * h.cipherSuites.length < 65536 ∧
      h.compressionMethods.length < 256 ∧ ExtsOk h.extensions)
    ⟨fun ⟨a, b, c, d, e⟩ => ⟨a, b, c, d, e⟩, fun w => ⟨w.random, w.sessionId, w.ciphers, w.compression, w.exts⟩⟩

/-- The hello fits one TLS record. -/
def FitsRecord (h : Hello) : Prop := (encode h).length ≤ maxRecordLen

instance (h : Hello) : Decidable (FitsRecord h) := by unfold FitsRecord; exact inferInstance

/-- Offset (in the handshake message) just after the compression methods. -/
def cutAfterCompression (h : Hello) : Nat :=
  4 + (encHeadBody h).length + (encCipherBlock h).length + (encCompressionBlock h).length

end Fabio.Model.C10
