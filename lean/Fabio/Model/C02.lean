import Fabio.Basic
/-!
C02 — table replacement is atomic, keeps the last good table, never crashes: executable model (core Lean).

Three small machines, all generic in the type `T` of tables (the concrete table model is
`Fabio.Model.Route.Table`; `Props/C02.lean` instantiates `build` with `Fabio.Model.Parse.loadTable`):

1. **The cell** (`route/table.go`: `var table atomic.Value`, `GetTable`, `SetTable`).  Shared state = the cell's
   current value plus a *ghost* history `hist` (every value the cell has held, oldest first, the initial value
   at index 0).  Threads are readers and writers; a schedule is a list of thread ids (ids out of range or of
   finished threads are skipped, so every list of naturals is a schedule; same convention as DESIGN.md §5).
   * reader, per request: one atomic `load` (micro-step: copy the cell's value into the thread-local
     snapshot; the ghost index of that value in `hist` is recorded next to it), then `k req` internal
     micro-steps that touch only the snapshot (the lookup walks the table it was handed: `lookupWrites` of C06
     + the race detector establish that nothing shared is written or re-read from the cell), then the answer
     `lookupPure snapshot req`.
   * writer, per `SetTable(t)`: `some t` = one atomic `store`; `none` (= Go `nil`) = nothing
     ("Ignoring nil routing table").
   `atomic.Value.Load`/`Store` being single micro-steps is the trusted semantics of `sync/atomic`.

2. **The `watchBackend` loop** (`main.go`, default branch) as a step machine over events `svc s | man s`,
   parameter `build : Text → Option T` (`route.NewTable`; `none` = error).  `WB.step` is the loop body.
   `WB.stepNoSkip` is the same loop without the `nextTable == lastTable` shortcut, `WB.stepOld…` variants
   are not kept: seeded changes are exercised on the Go side.

3. **The custom backend poll** (`registry/custom/custom.go`): a poll yields `defs ds | null | decodeError |
   httpError`; `newTableCustom` is modelled twice — as found (`newTableCustomOld`: dereferences the nil list
   ⇒ panic, D27) and repaired (`newTableCustom`: error) — and `route.SetTable(t)` is called unconditionally,
   relying on `setTable` ignoring `nil`.
-/
namespace Fabio.Model.C02
open Fabio

/-! ## 1. the atomic cell, readers and writers -/

section cell
variable {T Req Ans : Type}

/-- shared state: the `atomic.Value` and the ghost history of its contents (oldest first) -/
structure Cell (T : Type) where
  val : T
  hist : List T

/-- `table.Store(make(Table))` in `init()` -/
def Cell.init (t0 : T) : Cell T := { val := t0, hist := [t0] }

/-- `table.Load()`: the value and (ghost) its index in the history -/
def Cell.load (c : Cell T) : T × Nat := (c.val, c.hist.length - 1)

/-- `table.Store(t)` -/
def Cell.store (c : Cell T) (t : T) : Cell T := { val := t, hist := c.hist ++ [t] }

/-- `route.SetTable(t)`: `nil` is ignored -/
def Cell.setTable (c : Cell T) : Option T → Cell T
  | none => c
  | some t => c.store t

/-- a lookup in flight: request, snapshot, ghost index of the snapshot, internal steps left -/
structure InFlight (T Req : Type) where
  req : Req
  snap : T
  idx : Nat
  left : Nat
deriving DecidableEq, Repr

/-- a completed lookup: request, ghost index of the table it was answered from, answer -/
structure Result (Req Ans : Type) where
  req : Req
  idx : Nat
  ans : Ans
deriving DecidableEq, Repr

inductive Thread (T Req Ans : Type) where
  /-- requests still to serve, the lookup in flight, completed lookups (oldest first) -/
  | reader (todo : List Req) (cur : Option (InFlight T Req)) (done : List (Result Req Ans))
  /-- `SetTable` calls still to make -/
  | writer (todo : List (Option T))

/-- the parameters of the reader: the pure lookup and the number of internal micro-steps of a lookup -/
structure Lk (T Req Ans : Type) where
  lookupPure : T → Req → Ans
  k : Req → Nat

/-- one micro-step of one thread -/
def Thread.step (lk : Lk T Req Ans) (c : Cell T) : Thread T Req Ans → Cell T × Thread T Req Ans
  | .reader (r :: todo) none done =>
      (c, .reader todo (some { req := r, snap := c.load.1, idx := c.load.2, left := lk.k r }) done)
  | .reader todo (some f) done =>
      match f.left with
      | n+1 => (c, .reader todo (some { f with left := n }) done)
      | 0 => (c, .reader todo none (done ++ [{ req := f.req, idx := f.idx, ans := lk.lookupPure f.snap f.req }]))
  | .reader [] none done => (c, .reader [] none done)
  | .writer (t :: todo) => (c.setTable t, .writer todo)
  | .writer [] => (c, .writer [])

def Thread.finished : Thread T Req Ans → Bool
  | .reader [] none _ => true
  | .writer [] => true
  | _ => false

structure Sys (T Req Ans : Type) where
  cell : Cell T
  threads : List (Thread T Req Ans)

/-- thread `i` performs its next micro-step (nothing happens when there is no such thread) -/
def Sys.stepAt (lk : Lk T Req Ans) (s : Sys T Req Ans) (i : Nat) : Sys T Req Ans :=
  match s.threads[i]? with
  | none => s
  | some th => { cell := (th.step lk s.cell).1, threads := s.threads.set i (th.step lk s.cell).2 }

/-- run a schedule -/
def Sys.run (lk : Lk T Req Ans) : List Nat → Sys T Req Ans → Sys T Req Ans
  | [], s => s
  | i :: sch, s => Sys.run lk sch (s.stepAt lk i)

/-- a thread that has not started -/
def Thread.fresh : Thread T Req Ans → Bool
  | .reader _ none [] => true
  | .writer _ => true
  | _ => false

/-- the tables a thread will pass to `SetTable` -/
def Thread.stores : Thread T Req Ans → List T
  | .reader .. => []
  | .writer todo => todo.filterMap id

def Thread.results : Thread T Req Ans → List (Result Req Ans)
  | .reader _ _ done => done
  | .writer _ => []

/-- the initial system: the cell holds `t0`, no thread has run -/
def Sys.start (t0 : T) (ths : List (Thread T Req Ans)) : Sys T Req Ans := { cell := Cell.init t0, threads := ths }

/-- the round-robin schedule that runs everything to completion (used by the examples and the driver) -/
def roundRobin (nThreads rounds : Nat) : List Nat := (List.range rounds).flatMap (fun _ => List.range nThreads)

end cell

/-! ## 2. the `watchBackend` loop -/

abbrev Text := List Char

inductive Ev where
  | svc (s : Text)
  | man (s : Text)
deriving DecidableEq, Repr

/-- the local variables of `watchBackend` plus the active table -/
structure WB (T : Type) where
  svccfg : Text := []
  mancfg : Text := []
  lastTable : Text := []
  active : T

/-- state before the first event: empty strings; `route.init()` stored the empty table -/
def WB.init {T} (t0 : T) : WB T := { active := t0 }

def WB.recv {T} (st : WB T) : Ev → WB T
  | .svc s => { st with svccfg := s }
  | .man s => { st with mancfg := s }

/-- `tableBuffer`: `svccfg + "\n" + mancfg` ("manual config overrides service config - order matters") -/
def WB.nextText {T} (st : WB T) : Text := st.svccfg ++ ['\n'] ++ st.mancfg

/-- one iteration of the loop: receive, concatenate, skip when unchanged, build, `continue` on error,
otherwise `SetTable(t)` and `lastTable = nextTable` -/
def WB.step {T} (build : Text → Option T) (st : WB T) (e : Ev) : WB T :=
  let st1 := st.recv e
  let next := st1.nextText
  if next = st1.lastTable then st1
  else match build next with
    | none => st1
    | some t => { st1 with active := t, lastTable := next }

/-- the loop without the `nextTable == lastTable` shortcut (reference for `unchanged_text_skipped_is_harmless`) -/
def WB.stepNoSkip {T} (build : Text → Option T) (st : WB T) (e : Ev) : WB T :=
  let st1 := st.recv e
  let next := st1.nextText
  match build next with
  | none => st1
  | some t => { st1 with active := t, lastTable := next }

def WB.run {T} (build : Text → Option T) (st : WB T) (es : List Ev) : WB T := es.foldl (WB.step build) st
def WB.runNoSkip {T} (build : Text → Option T) (st : WB T) (es : List Ev) : WB T := es.foldl (WB.stepNoSkip build) st

/-- the active table after each event -/
def WB.trace {T} (build : Text → Option T) : WB T → List Ev → List T
  | _, [] => []
  | st, e :: es => (WB.step build st e).active :: WB.trace build (WB.step build st e) es

/-- the table one iteration passes to `route.SetTable`, if it gets that far -/
def WB.installed {T} (build : Text → Option T) (st : WB T) (e : Ev) : Option T :=
  if (st.recv e).nextText = (st.recv e).lastTable then none else build (st.recv e).nextText

/-- the tables the loop passes to `route.SetTable` over a history, in order: the `SetTable` calls of the writer
goroutine (used to connect this machine with the cell machine in `Props/C02Compose.lean`) -/
def WB.installs {T} (build : Text → Option T) : WB T → List Ev → List T
  | _, [] => []
  | st, e :: es => (WB.installed build st e).toList ++ WB.installs build (WB.step build st e) es

/-- the concatenated configuration text after each event (independent of `build`) -/
def textsFrom (svc man : Text) : List Ev → List Text
  | [] => []
  | .svc s :: es => (s ++ ['\n'] ++ man) :: textsFrom s man es
  | .man s :: es => (svc ++ ['\n'] ++ s) :: textsFrom svc s es

def texts (es : List Ev) : List Text := textsFrom [] [] es

/-- the specification of the history: the table of the last text that built, `t0` when none did -/
def lastGood {T} (build : Text → Option T) (t0 : T) (ts : List Text) : T :=
  (ts.reverse.findSome? build).getD t0

/-- `lastGood` after each event -/
def lastGoodTrace {T} (build : Text → Option T) (t0 : T) (ts : List Text) : List T :=
  (List.range ts.length).map (fun i => lastGood build t0 (ts.take (i+1)))

/-! ## 3. the custom backend poll -/

/-- what one poll of the custom backend produced. `D` = decoded definition list. -/
inductive Poll (D : Type) where
  /-- HTTP error or non-200 answer: status string, `continue` -/
  | httpError
  /-- `decoder.Decode(&Routes)` failed: status string, `continue` -/
  | decodeError
  /-- the JSON document `null`: `Decode` succeeds and leaves the `*[]RouteDef` nil -/
  | null
  /-- a JSON array -/
  | defs (ds : D)

/-- `NewTableCustom` as found: `for _, d := range *defs` on a nil pointer panics (D27) -/
def newTableCustomOld {T D} (buildDefs : D → Option T) : Option D → Outcome (Option T)
  | none => .panic "invalid memory address or nil pointer dereference"
  | some ds => .ok (buildDefs ds)

/-- `NewTableCustom` repaired: a nil definition list is an error (`nil, err`) -/
def newTableCustom {T D} (buildDefs : D → Option T) : Option D → Outcome (Option T)
  | none => .ok none
  | some ds => .ok (buildDefs ds)

/-- `route.SetTable(t)` on the active table: `nil` is ignored -/
def setTable {T} (active : T) : Option T → T
  | none => active
  | some t => t

/-- one poll of `customRoutes`; `ntc` = the `NewTableCustom` in force. `NewTableCustom`'s error is reported
on the channel, then `route.SetTable(t)` is called *unconditionally* with the (nil) table. -/
def customStep {T D} (ntc : Option D → Outcome (Option T)) (active : T) : Poll D → Outcome T
  | .httpError => .ok active
  | .decodeError => .ok active
  | .null => (ntc none).map (setTable active)
  | .defs ds => (ntc (some ds)).map (setTable active)

/-- a sequence of polls; a panic ends the process -/
def customRun {T D} (ntc : Option D → Outcome (Option T)) : T → List (Poll D) → Outcome T
  | a, [] => .ok a
  | a, p :: ps =>
    match customStep ntc a p with
    | .panic w => .panic w
    | .ok a' => customRun ntc a' ps

/-- active table after each poll; `none` from the poll that panicked on -/
def customTrace {T D} (ntc : Option D → Outcome (Option T)) : T → List (Poll D) → List (Option T)
  | _, [] => []
  | a, p :: ps =>
    match customStep ntc a p with
    | .panic _ => (p :: ps).map (fun _ => none)
    | .ok a' => some a' :: customTrace ntc a' ps

end Fabio.Model.C02
