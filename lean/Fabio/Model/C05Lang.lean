import Fabio.Model.Route
import Fabio.Model.Parse
/-!
C05, round 4 — the command language as a *writer*: the text of a route command (the documented syntax
`route add <svc> <src> <dst>[ weight <w>][ tags "<t1>,<t2>,..."][ opts "k=v k=v ..."]`,
`route del <svc>[ <src>[ <dst>]]`, `route del <svc> tags "…"`, `route del tags "…"`,
`route weight <svc> <src> weight <w>[ tags "…"]`, `route weight <src> weight <w> tags "…"` — `route.Commands` in
`route/parse_new.go`), single spaces, one command per line. It is what a configuration source writes (the
harness's `rt.Def.Line` is this function in Go) and what `Table.String()` writes for `route add`.

With it the two entry points of the table code can be compared inside the model: `NewTable` on the text of a
command list versus `NewTableCustom` on the list itself (`Props/C05.lean`, `commands_as_text`). Core Lean only.
-/
namespace Fabio.Model.C05Lang
open Fabio Fabio.Model.Route Fabio.Model.Parse

/-- ` tags "<t1>,<t2>,..."`, nothing for an empty list -/
def tagsPart (ts : List Str) : Str :=
  if ts.isEmpty then [] else " tags \"".toList ++ join [','] ts ++ ['"']

/-- ` opts "k=v k=v ..."`, nothing for an empty map -/
def optsPart (o : List (Str × Str)) : Str :=
  if o.isEmpty then [] else " opts \"".toList ++ join [' '] (o.map renderOpt) ++ ['"']

/-- ` weight <w>`, nothing when no weight is written -/
def weightPart (w : Str) : Str := if w.isEmpty then [] else " weight ".toList ++ w

/-- the text of one command; `w` is the decimal text of its weight (`[]` = none written) -/
def printDef (w : Str) (d : RouteDef) : Str :=
  match d.cmd with
  | .add =>
    "route add ".toList ++ (d.service ++ ' ' :: (d.src ++ ' ' :: (d.dst ++ (weightPart w ++ (tagsPart d.tags ++ optsPart d.opts)))))
  | .del =>
    if d.tags.isEmpty then
      "route del ".toList ++ (d.service ++
        (if d.src.isEmpty then [] else ' ' :: (d.src ++ (if d.dst.isEmpty then [] else ' ' :: d.dst))))
    else if d.service.isEmpty then "route del".toList ++ tagsPart d.tags
    else "route del ".toList ++ (d.service ++ tagsPart d.tags)
  | .weight =>
    if d.service.isEmpty then "route weight ".toList ++ (d.src ++ (" weight ".toList ++ (w ++ tagsPart d.tags)))
    else "route weight ".toList ++ (d.service ++ ' ' :: (d.src ++ (" weight ".toList ++ (w ++ tagsPart d.tags))))
  | .other s => s

/-- a command list as configuration text: one command per line -/
def scriptText (cs : List (Str × RouteDef)) : Str := join ['\n'] (cs.map (fun x => printDef x.1 x.2))

end Fabio.Model.C05Lang
