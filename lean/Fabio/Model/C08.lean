import Fabio.Basic
/-!
C08 — model of the forwarding-header code of the HTTP proxy
(`proxy/http_headers.go`: `addHeaders`, `addResponseHeaders`, `scheme`, `localPort`; the part of
`HTTPProxy.ServeHTTP` in `proxy/http_proxy.go` that orders request-id, `addHeaders` and the `host=` override).

Go's `http.Header` is a `map[string][]string` whose keys are canonical MIME header names
(`textproto.CanonicalMIMEHeaderKey`): the HTTP server canonicalises every name it reads and `Get/Set/Add/Del`
canonicalise their argument.  The model is an association list `key ↦ values`; every operation works on *all*
entries of a key (`put` removes every older entry before it inserts), so no uniqueness invariant has to be
carried around and `entries k h` — everything the upstream would receive under name `k` — is what the
theorems talk about.  A `nil` value slice (only reachable by direct map assignment, never from the wire) is
modelled by the empty value list.
-/
namespace Fabio.Model.C08

abbrev Str := List Char
abbrev Headers := List (Str × List Str)

/-! ## header map -/

/-- All entries stored under key `k` (what would be written to the wire under that name). -/
def entries (k : Str) (h : Headers) : Headers := h.filter (fun e => e.1 == k)

/-- `h[k]` of a Go map: the value slice of the first entry. -/
def vals (k : Str) : Headers → Option (List Str)
  | [] => none
  | (k', vs) :: t => if k' == k then some vs else vals k t

/-- `delete(h, k)`. -/
def del (k : Str) (h : Headers) : Headers := h.filter (fun e => !(e.1 == k))

/-- `h[k] = vs`. -/
def put (k : Str) (vs : List Str) (h : Headers) : Headers := (k, vs) :: del k h

/-- `Header.Get` for an already canonical key: first value or `""`. -/
def get1 (k : Str) (h : Headers) : Str :=
  match vals k h with
  | some (v :: _) => v
  | _ => []

/-- `Header.Add` for an already canonical key. -/
def addc (k : Str) (v : Str) (h : Headers) : Headers :=
  match vals k h with
  | some vs => put k (vs ++ [v]) h
  | none => h ++ [(k, [v])]

/-! ## canonical header names (`net/textproto`) -/

/-- `validHeaderFieldByte`: RFC 7230 token characters. -/
def isTokenChar (c : Char) : Bool :=
  let n := c.toNat
  (48 ≤ n && n ≤ 57) || (65 ≤ n && n ≤ 90) || (97 ≤ n && n ≤ 122) ||
  "!#$%&'*+-.^_`|~".toList.contains c

def upperChar (c : Char) : Char := if 'a' ≤ c ∧ c ≤ 'z' then Char.ofNat (c.toNat - 32) else c

/-- The canonicalisation loop: upper-case the first letter and every letter after a `-`, lower-case the rest. -/
def canonGo : Bool → Str → Str
  | _, [] => []
  | up, c :: cs => (if up then upperChar c else lowerChar c) :: canonGo (c == '-') cs

/-- `textproto.CanonicalMIMEHeaderKey`: a name containing a byte that is not a token character (space
included) is returned unchanged. -/
def canonicalKey (s : Str) : Str := if s.all isTokenChar then canonGo true s else s

/-- `Header.Get(name)`. -/
def get (name : Str) (h : Headers) : Str := get1 (canonicalKey name) h
/-- `Header.Set(name, v)`. -/
def set (name v : Str) (h : Headers) : Headers := put (canonicalKey name) [v] h
/-- `Header.Add(name, v)`. -/
def add (name v : Str) (h : Headers) : Headers := addc (canonicalKey name) v h
/-- `Header.Del(name)`. -/
def delete (name : Str) (h : Headers) : Headers := del (canonicalKey name) h

/-- The header map the HTTP server hands to the handler for the header lines the client sent, in order:
every line is `Add`ed under its canonical name (`none` as value = direct assignment of a nil slice, used
only by the unit stream to reach the "omit" branch). -/
def ofWire (l : List (Str × Option Str)) : Headers :=
  l.foldl (fun h (e : Str × Option Str) =>
    match e.2 with
    | some v => add e.1 v h
    | none => put (canonicalKey e.1) [] h) []

/-! ## the literals of the Go code (pinned against the source by `Props/C08Facts.lean`) -/

def xForwardedFor : Str := "X-Forwarded-For".toList
def xRealIp : Str := "X-Real-Ip".toList
def xForwardedProto : Str := "X-Forwarded-Proto".toList
def xForwardedPort : Str := "X-Forwarded-Port".toList
def xForwardedHost : Str := "X-Forwarded-Host".toList
def xForwardedPrefix : Str := "X-Forwarded-Prefix".toList
def forwarded : Str := "Forwarded".toList
def upgrade : Str := "Upgrade".toList
def stsName : Str := "Strict-Transport-Security".toList
def websocket : Str := "websocket".toList

/-! ## request, configuration -/

structure TLS where
  version : Nat
  cipher : Nat
deriving Repr, DecidableEq

structure Req where
  headers : Headers
  host : Str            -- r.Host
  remoteAddr : Str      -- r.RemoteAddr
  tls : Option TLS      -- r.TLS
  proto : Str           -- r.Proto
deriving Repr

structure Cfg where
  clientIPHeader : Str := []
  tlsHeader : Str := []
  tlsHeaderValue : Str := []
  localIP : Str := []
  stsMaxAge : Int := 0
  stsSubdomains : Bool := false
  stsPreload : Bool := false
  requestID : Str := []
deriving Repr

/-! ## `net.SplitHostPort` (modelled, not verified; exercised by the unit stream) -/

def splitHostPort (hp : Str) : Option (Str × Str) :=
  match lastIndexOf ':' hp with
  | none => none                                              -- missing port
  | some i =>
    match hp with
    | '[' :: _ =>
      match indexOf ']' hp with
      | none => none                                          -- missing ']'
      | some e =>
        if e + 1 == hp.length then none                       -- missing port
        else if e + 1 == i then
          if (hp.drop 1).contains '[' then none               -- unexpected '['
          else if (hp.drop (e + 1)).contains ']' then none    -- unexpected ']'
          else some ((hp.take e).drop 1, hp.drop (i + 1))
        else none                                             -- too many colons / missing port
    | _ =>
      if (hp.take i).contains ':' then none                   -- too many colons
      else if hp.contains '[' then none
      else if hp.contains ']' then none
      else some (hp.take i, hp.drop (i + 1))

/-! ## `scheme`, `localPort` -/

/-- `strings.SplitAfterN(s, pat, 2)[1]` when `pat` occurs in `s`: the text after its first occurrence. -/
def afterSub (pat : Str) : Str → Option Str
  | [] => if pat.isEmpty then some [] else none
  | c :: cs => if pat.isPrefixOf (c :: cs) then some ((c :: cs).drop pat.length) else afterSub pat cs

/-- Upgrade detection as used by `ServeHTTP`, `addHeaders` and `scheme` (after the repair of D12b all three
sites compare case-insensitively; pinned by `C08Facts.websocket_compare_*`). -/
def isWebsocket (h : Headers) : Bool := lowerL (get1 upgrade h) == websocket

/-- The four-way switch at the end of `scheme`: protocol of the client's actual connection. -/
def connScheme (ws tls : Bool) : Str :=
  match ws, tls with
  | true, true => "wss".toList
  | true, false => "ws".toList
  | false, true => "https".toList
  | false, false => "http".toList

def scheme (h : Headers) (tls : Bool) : Str :=
  let xfp := get1 xForwardedProto h
  let fwd := get1 forwarded h
  if !xfp.isEmpty && fwd.isEmpty then xfp
  else
    match (if !fwd.isEmpty && xfp.isEmpty then afterSub "proto=".toList fwd else none) with
    | some rest => rest.takeWhile (fun c => !(c == ';'))
    | none => connScheme (isWebsocket h) tls

/-- `localPort(r)` for a non-nil request: skip an IPv6 literal (everything before the last `]`), then the
text after the first colon when that colon is neither the first nor the last character of what is left,
otherwise 443/80 by TLS. -/
def localPort (host : Str) (tls : Bool) : Str :=
  let h := match lastIndexOf ']' host with
    | some n => host.drop n
    | none => host
  match indexOf ':' h with
  | some n => if 0 < n && n + 1 < h.length then h.drop (n + 1)
              else if tls then "443".toList else "80".toList
  | none => if tls then "443".toList else "80".toList

/-! ## `addHeaders` -/

def joinCS : List Str → Str
  | [] => []
  | [x] => x
  | x :: y :: t => x ++ ", ".toList ++ joinCS (y :: t)

/-- The X-Forwarded-For block (identical in `addHeaders`' websocket branch and in
`httputil.ReverseProxy.ServeHTTP`): keep the prior chain, append the peer; a nil slice means "omit". -/
def xffAppend (ip : Str) (h : Headers) : Headers :=
  match vals xForwardedFor h with
  | some [] => h
  | some (p :: ps) => put xForwardedFor [joinCS (p :: ps) ++ ", ".toList ++ ip] h
  | none => put xForwardedFor [ip] h

def setIf (c : Bool) (k v : Str) (h : Headers) : Headers := if c then put k [v] h else h

def hexDigit (n : Nat) : Char := "0123456789abcdef".toList.getD n '0'
/-- `uint16base16`. -/
def hex4 (n : Nat) : Str :=
  "0x".toList ++ [hexDigit (n / 4096 % 16), hexDigit (n / 256 % 16), hexDigit (n / 16 % 16), hexDigit (n % 16)]

/-- `tlsver[v]`, falling back to `uint16base16(v)`. -/
def tlsverName (v : Nat) : Str :=
  if v == 0x0300 then "ssl30".toList
  else if v == 0x0301 then "tls10".toList
  else if v == 0x0302 then "tls11".toList
  else if v == 0x0303 then "tls12".toList
  else hex4 v

/-- Everything `addHeaders` appends to the `Forwarded` value after `for=…; proto=…` (or after the client's
own value): `by`, `httpproto`, `tlsver`, `tlscipher`. -/
def forwardedTail (cfg : Cfg) (proto : Str) (tls : Option TLS) : Str :=
  (if cfg.localIP.isEmpty then [] else "; by=".toList ++ cfg.localIP) ++
  (if proto.isEmpty then [] else "; httpproto=".toList ++ lowerL proto) ++
  (match tls with
   | some t => (if t.version > 0 then "; tlsver=".toList ++ tlsverName t.version else []) ++
               (if t.cipher != 0 then "; tlscipher=".toList ++ hex4 t.cipher else [])
   | none => [])

def xfpOf (proto : Str) : Str :=
  if proto == "ws".toList then "http".toList
  else if proto == "wss".toList then "https".toList
  else proto

/-- The client-IP step: `cfg.ClientIPHeader` is compared with the two literals as written (case-sensitive). -/
def clientIPApplies (cfg : Cfg) : Bool :=
  !cfg.clientIPHeader.isEmpty && cfg.clientIPHeader != xForwardedFor && cfg.clientIPHeader != xRealIp

/-- `if cfg.ClientIPHeader != "" && … { r.Header.Set(cfg.ClientIPHeader, remoteIP) }` -/
def stepClientIP (cfg : Cfg) (ip : Str) (h : Headers) : Headers :=
  setIf (clientIPApplies cfg) (canonicalKey cfg.clientIPHeader) ip h

/-- `if r.Header.Get("X-Real-Ip") == "" { r.Header.Set("X-Real-Ip", remoteIP) }` -/
def stepRealIp (ip : Str) (h : Headers) : Headers := setIf (get1 xRealIp h).isEmpty xRealIp ip h

/-- the websocket block: `ws := …; if ws { … X-Forwarded-For … }` -/
def stepWS (ip : Str) (h : Headers) : Headers := if isWebsocket h then xffAppend ip h else h

/-- `proto := scheme(r)` … `r.Header.Set("Forwarded", fwd)`: X-Forwarded-Proto, -Port, -Host, -Prefix, Forwarded. -/
def stepForward (cfg : Cfg) (strip : Str) (r : Req) (ip : Str) (h3 : Headers) : Headers :=
  let tls := r.tls.isSome
  let proto := scheme h3 tls
  let h4 := setIf (get1 xForwardedProto h3).isEmpty xForwardedProto (xfpOf proto) h3
  let h5 := setIf (get1 xForwardedPort h4).isEmpty xForwardedPort (localPort r.host tls) h4
  let h6 := setIf ((get1 xForwardedHost h5).isEmpty && !r.host.isEmpty) xForwardedHost r.host h5
  let h7 := setIf (!strip.isEmpty) xForwardedPrefix strip h6
  let fwd0 := get1 forwarded h7
  let fwd := (if fwd0.isEmpty then "for=".toList ++ ip ++ "; proto=".toList ++ proto else fwd0) ++
             forwardedTail cfg r.proto r.tls
  put forwarded [fwd] h7

/-- `if cfg.TLSHeader != "" { if r.TLS != nil { Set } else { Del } }` -/
def stepTLS (cfg : Cfg) (tls : Bool) (h : Headers) : Headers :=
  if cfg.tlsHeader.isEmpty then h
  else if tls then put (canonicalKey cfg.tlsHeader) [cfg.tlsHeaderValue] h
  else del (canonicalKey cfg.tlsHeader) h

/-! ### the `Connection` header (tokens, `protectManagedHeaders`) -/

def connection : Str := "Connection".toList

def isBlank (c : Char) : Bool := c == ' ' || c == '\t'
def trimBlanks (s : Str) : Str := ((s.dropWhile isBlank).reverse.dropWhile isBlank).reverse

/-- `strings.Split(s, ",")` -/
def splitComma : Str → List Str
  | [] => [[]]
  | c :: cs =>
    match splitComma cs with
    | [] => [[c]]      -- unreachable: splitComma never returns []
    | t :: ts => if c == ',' then [] :: t :: ts else (c :: t) :: ts

/-- `strings.Join(toks, ",")` -/
def joinComma : List Str → Str
  | [] => []
  | [x] => x
  | x :: y :: t => x ++ ',' :: joinComma (y :: t)

/-- The header a `Connection` token names, as `httputil.ReverseProxy` and `protectManagedHeaders` both read
it: `http.CanonicalHeaderKey(textproto.TrimString(tok))`. -/
def tokenKey (tok : Str) : Str := canonicalKey (trimBlanks tok)

/-- The canonical names of the headers `addHeaders` maintains: the `managedHeaders` list plus the configured
client-IP, TLS and request-id header names. -/
def managedKeys (cfg : Cfg) : List Str :=
  [forwarded, xForwardedFor, xForwardedHost, xForwardedPort, xForwardedPrefix, xForwardedProto, xRealIp] ++
  ([cfg.clientIPHeader, cfg.tlsHeader, cfg.requestID].filter (fun n => !n.isEmpty)).map canonicalKey

/-- One `Connection` value with the tokens naming a managed header removed (`none`: nothing is left). -/
def keepTokens (cfg : Cfg) (v : Str) : Option Str :=
  let toks := (splitComma v).filter (fun t => !(managedKeys cfg).contains (tokenKey t))
  if toks.isEmpty then none else some (joinComma toks)

/-- `protectManagedHeaders(r, cfg)` (repair of D12d): the client's `Connection` header no longer names a
header fabio maintains; every other token is kept as written; the header goes when nothing is left. -/
def stepConnection (cfg : Cfg) (h : Headers) : Headers :=
  match vals connection h with
  | none => h
  | some conn =>
    let keep := conn.filterMap (keepTokens cfg)
    if keep.isEmpty then del connection h else put connection keep h

/-- `addHeaders` up to and including the TLS header. -/
def addHeadersCore (cfg : Cfg) (strip : Str) (r : Req) (ip : Str) : Headers :=
  stepTLS cfg r.tls.isSome
    (stepForward cfg strip r ip (stepWS ip (stepRealIp ip (stepClientIP cfg ip r.headers))))

/-- `addHeaders(r, cfg, stripPath)` given the already split peer address, statement by statement. -/
def addHeadersIP (cfg : Cfg) (strip : Str) (r : Req) (ip : Str) : Headers :=
  stepConnection cfg (addHeadersCore cfg strip r ip)

/-- `addHeaders`: `none` is the error return ("cannot parse <RemoteAddr>"). -/
def addHeaders (cfg : Cfg) (strip : Str) (r : Req) : Option Headers :=
  match splitHostPort r.remoteAddr with
  | none => none
  | some (ip, _) => some (addHeadersIP cfg strip r ip)

/-! ## `addResponseHeaders` -/

/-- `int32(n)` of a Go `int`. -/
def wrap32 (n : Int) : Int :=
  let m := n % 4294967296
  if m ≥ 2147483648 then m - 4294967296 else m

/-- `maxAge := cfg.STSHeader.MaxAge; if maxAge > math.MaxInt32 { maxAge = math.MaxInt32 }` (repair `e4a57ff`:
before it `int32(MaxAge)` wrapped, 3000000000 was sent as `max-age=-1294967296`). -/
def clampMaxAge (n : Int) : Int := if n > 2147483647 then 2147483647 else n

def stsValue (cfg : Cfg) : Str :=
  "max-age=".toList ++ (toString (wrap32 (clampMaxAge cfg.stsMaxAge))).toList ++
  (if cfg.stsSubdomains then "; includeSubdomains".toList else []) ++
  (if cfg.stsPreload then "; preload".toList else [])

def addResponseHeaders (cfg : Cfg) (tls : Bool) (w : Headers) : Headers :=
  if tls && cfg.stsMaxAge > 0 then put stsName [stsValue cfg] w else w

/-! ## the relevant part of `HTTPProxy.ServeHTTP` -/

/-- The route's `host=` option: `""` keeps the client's Host, `dst` uses the target's, anything else is the
literal value. -/
def overrideHost (hostOpt targetHost clientHost : Str) : Str :=
  if hostOpt == "dst".toList then targetHost
  else if !hostOpt.isEmpty then hostOpt
  else clientHost

structure Upstream where
  host : Str              -- Host the upstream sees
  headers : Headers       -- request headers handed to the forwarding handler
  resp : Headers          -- headers fabio adds to the response
deriving Repr

/-- Request-id header, then `addHeaders` **on the client's request**, then the Host override (the order is
pinned by `C08Facts.addHeaders_before_host_override`; before the repair of D12 the override came first and
X-Forwarded-Host and X-Forwarded-Port described the upstream). `none` = 500 "cannot parse". -/
def serve (cfg : Cfg) (uuid hostOpt targetHost strip : Str) (r : Req) : Option Upstream :=
  let h0 := if cfg.requestID.isEmpty then r.headers else set cfg.requestID uuid r.headers
  match addHeaders cfg strip { r with headers := h0 } with
  | none => none
  | some h => some { host := overrideHost hostOpt targetHost r.host, headers := h,
                     resp := addResponseHeaders cfg r.tls.isSome [] }

/-- Assumed behaviour of `httputil.ReverseProxy` with a `Director` (Go 1.24) for the non-websocket path, as
far as the headers of this property are concerned: it appends the peer to X-Forwarded-For with the same
block as `xffAppend` (when `RemoteAddr` splits — it did, or `addHeaders` would have failed). -/
def reverseProxyXFF (ip : Str) (h : Headers) : Headers := xffAppend ip h

/-- The header names a request declares hop-by-hop in its `Connection` header(s). -/
def hopByHopNames (h : Headers) : List Str :=
  ((vals connection h).getD []).flatMap fun v =>
    (splitComma v).filterMap fun t => if (trimBlanks t).isEmpty then none else some (tokenKey t)

/-- `hopHeaders` of `net/http/httputil`: removed from every proxied request whatever the client says. -/
def fixedHopByHop : List Str :=
  ["Connection", "Proxy-Connection", "Keep-Alive", "Proxy-Authenticate", "Proxy-Authorization", "Te", "Trailer",
   "Transfer-Encoding", "Upgrade"].map String.toList

/-- `removeHopByHopHeaders`: every header named in `Connection` is deleted, then the fixed list. -/
def removeHopByHop (h : Headers) : Headers :=
  fixedHopByHop.foldl (fun acc k => del k acc) ((hopByHopNames h).foldl (fun acc k => del k acc) h)

/-- `httpguts.HeaderValuesContainsToken(h["Connection"], tok)`: comma separated, blanks trimmed, ASCII case
ignored. -/
def connectionHasToken (tok : Str) (h : Headers) : Bool :=
  ((vals connection h).getD []).any fun v => (splitComma v).any fun t => lowerL (trimBlanks t) == lowerL tok

/-- `upgradeType(h)`: the protocol the client asks to switch to, when `Connection` carries the `Upgrade` token. -/
def upgradeType (h : Headers) : Str := if connectionHasToken upgrade h then get1 upgrade h else []

/-- What `httputil.ReverseProxy` does to the request headers (assumed, exercised on the real type by the
streams `c08.serve`, `c08.proxy`, `c08.hopbyhop`): client-declared and fixed hop-by-hop headers are removed,
`Connection: Upgrade` / `Upgrade: <type>` are put back for a protocol switch, **then** the peer is appended to
X-Forwarded-For. (`Te: trailers` is put back too — not modelled, no header of this property; a non-printable
upgrade type is answered with 400 — not modelled, generators are printable.) Before the repair of D12d the
first step was a hole in the property: a client that sent `Connection: X-Tls, X-Client-Ip` made the proxy drop
the headers fabio had just set; `stepConnection` now removes those names from the Connection header first. -/
def reverseProxy (ip : Str) (h : Headers) : Headers :=
  let up := upgradeType h
  let h1 := removeHopByHop h
  xffAppend ip (if up.isEmpty then h1 else put upgrade [up] (put connection ["Upgrade".toList] h1))

/-- Last element of a comma separated list with leading blanks removed (how an upstream reads the nearest
hop out of X-Forwarded-For). -/
def lastElem (s : Str) : Str :=
  ((s.reverse.takeWhile (fun c => !(c == ','))).reverse).dropWhile (fun c => c == ' ')

end Fabio.Model.C08
