import Fabio.Model.C12Serve
/-!
C12, round 4 — the request as the gate sees it.

Up to round 3 the authentication half of the model started at the user/password *pair* and the HTTP gate took the
X-Forwarded-For lines as a separate argument. Here the request is a method plus a header list, and everything the
gate reads is read from it the way the code does:

* `r.Header.Get("Authorization")` — the first line under the canonical key, nothing else of the request;
* `request.BasicAuth()` / `parseBasicAuth` of net/http: the scheme word `Basic` in any case followed by one blank,
  `base64.StdEncoding.DecodeString` of the rest (Go's decoder ignores CR and LF, demands padding, and — not being
  strict — ignores non-zero trailing bits), `strings.Cut` at the first colon;
* `r.Header.Values("X-Forwarded-For")` — every line under that key, in order.

`serveReq` composes this with `serveHTTP` of round 3: lookup, the looked-up target's rules on peer and forwarded
addresses, its scheme on the credentials of this request, its redirect answer, the dial.

Core Lean only; total; nothing here can panic (Go's decoder allocates `DecodedLen` bytes up front and never indexes
beyond them).
-/
namespace Fabio.Model.C12

/-! ## base64 (encoding/base64, `StdEncoding`, non-strict) -/

def b64Alphabet : List Char :=
  "ABCDEFGHIJKLMNOPQRSTUVWXYZabcdefghijklmnopqrstuvwxyz0123456789+/".toList

/-- the character of a 6-bit value (`enc.encode[v]`) -/
def b64Char (v : Nat) : Char := b64Alphabet.getD v '='

/-- `enc.decodeMap[c]`, `none` for 0xff -/
def b64Val (c : Char) : Option Nat :=
  if 'A' ≤ c ∧ c ≤ 'Z' then some (c.toNat - 65)
  else if 'a' ≤ c ∧ c ≤ 'z' then some (c.toNat - 71)
  else if '0' ≤ c ∧ c ≤ '9' then some (c.toNat + 4)
  else if c = '+' then some 62
  else if c = '/' then some 63
  else none

/-- `StdEncoding.EncodeToString` over byte values (what a client does with `user:password`). Written with `/` and
`%` instead of shifts so that linear arithmetic decides the round trip. -/
def b64Enc : List Nat → List Char
  | [] => []
  | [x] => [b64Char (x / 4), b64Char (x % 4 * 16), '=', '=']
  | [x, y] => [b64Char (x / 4), b64Char (x % 4 * 16 + y / 16), b64Char (y % 16 * 4), '=']
  | x :: y :: z :: rest =>
    b64Char (x / 4) :: b64Char (x % 4 * 16 + y / 16) :: b64Char (y % 16 * 4 + z / 64) :: b64Char (z % 64) :: b64Enc rest

/-- `decodeQuantum` repeated, on an input from which CR and LF have been removed (the decoder skips them wherever
they stand — between the characters of a quantum, between the two padding characters, after the padding):
full quanta of four alphabet characters give three bytes; the input may end with `xx==` (one byte) or `xxx=` (two
bytes); the bits of the last character that do not fit are dropped without complaint (`strict` is off); anything
else — a foreign character, padding in the first two positions, a single `=` after two characters, a quantum cut
short, anything after the padding — is `CorruptInputError`. -/
def b64Dec : List Char → Option (List Nat)
  | [] => some []
  | a :: b :: c :: d :: rest =>
    match b64Val a, b64Val b with
    | some va, some vb =>
      match b64Val c with
      | some vc =>
        match b64Val d with
        | some vd =>
          match b64Dec rest with
          | some more => some ((va * 4 + vb / 16) :: (vb % 16 * 16 + vc / 4) :: (vc % 4 * 64 + vd) :: more)
          | none => none
        | none => if d = '=' ∧ rest = [] then some [va * 4 + vb / 16, vb % 16 * 16 + vc / 4] else none
      | none => if c = '=' ∧ d = '=' ∧ rest = [] then some [va * 4 + vb / 16] else none
    | _, _ => none
  | _ => none

def isNewline (c : Char) : Bool := c == '\n' || c == '\r'

/-- `base64.StdEncoding.DecodeString` -/
def b64DecodeString (s : List Char) : Option (List Nat) := b64Dec (s.filter (fun c => !isNewline c))

/-! ## `Request.BasicAuth` -/

/-- a Go string of arbitrary bytes as characters U+0000 … U+00FF -/
def bytesToChars (bs : List Nat) : List Char := bs.map Char.ofNat

def charsToBytes (cs : List Char) : List Nat := cs.map Char.toNat

/-- `parseBasicAuth(auth)` of net/http: `(username, password, ok)`; `none` = not ok. -/
def parseBasicAuth (auth : List Char) : Option (List Char × List Char) :=
  if auth.length < 6 then none
  else if lowerL (auth.take 6) ≠ ['b', 'a', 's', 'i', 'c', ' '] then none   -- ascii.EqualFold(auth[:6], "Basic ")
  else match b64DecodeString (auth.drop 6) with
    | none => none
    | some bs => cut ':' (bytesToChars bs)                                   -- strings.Cut(cs, ":")

/-- the header line a client builds from a pair (`req.SetBasicAuth`) -/
def basicHeader (user pass : List Char) : List Char :=
  "Basic ".toList ++ b64Enc (charsToBytes (user ++ ':' :: pass))

/-! ## The request -/

/-- What the gate reads of an `*http.Request` besides `RemoteAddr`: the method and the header map, as a list of
(canonical key, value) lines in the order the lines arrived. -/
structure Req where
  method : List Char := "GET".toList
  headers : List (List Char × List Char) := []
deriving Repr

/-- `h.Values(key)` -/
def headerValues (key : List Char) (hs : List (List Char × List Char)) : List (List Char) :=
  (hs.filter (fun kv => kv.1 == key)).map (·.2)

/-- `h.Get(key)`: the first line, `""` when there is none -/
def headerGet (key : List Char) (hs : List (List Char × List Char)) : List Char :=
  match headerValues key hs with
  | [] => []
  | v :: _ => v

def hAuthorization : List Char := "Authorization".toList
def hXFF : List Char := "X-Forwarded-For".toList

/-- `r.BasicAuth()` -/
def basicAuthOf (r : Req) : Option (List Char × List Char) :=
  let a := headerGet hAuthorization r.headers
  if a.isEmpty then none else parseBasicAuth a

/-- `t.Authorized(r, w, schemes)` with basic-auth schemes, each over its htpasswd contents. The method, the path
and every header but the first `Authorization` line do not enter. -/
def authorizedReq (scheme : List Char) (schemes : List (List Char × List (List Char × List Char))) (r : Req) : Bool :=
  authorized scheme schemes (fun file => basicVerdict file (basicAuthOf r))

/-- `HTTPProxy.ServeHTTP` on a request: the forwarded addresses and the credentials are those of this request. -/
def serveReq (P : Parsers) (schemes : List (List Char × List (List Char × List Char)))
    (lk : Nat → Option TargetM) (alive : Nat → Bool) (remote : List Char) (r : Req) : Result :=
  serveHTTP P lk alive remote (headerValues hXFF r.headers) (fun t => authorizedReq t.scheme schemes r)

/-! ## `AccessDeniedHTTP` as written

The model's `accessDeniedHTTP` walks `xffElems` (every line split at commas). The source joins the lines first. -/

/-- `strings.Join(lines, ",")` -/
def joinComma : List (List Char) → List Char
  | [] => []
  | [l] => l
  | l :: ls => l ++ ',' :: joinComma ls

/-- `AccessDeniedHTTP` the way the source reads: the peer, then — if the lines of `X-Forwarded-For` joined with
commas are not the empty text — every piece of that text between commas. -/
def accessDeniedHTTPLit (P : Parsers) (r : Rules) (remote : List Char) (xff : List (List Char)) : Bool :=
  if r.isEmpty then false else
  match P.splitHostPort remote with
  | none => true
  | some host =>
    if denyByIP r (P.parseIP (stripZone host)) then true
    else
      let joined := joinComma xff
      if joined.isEmpty then false else xffDenied P r host (splitOn ',' joined)

/-! ## Header keys on the wire

net/http's server stores a header line under `textproto.CanonicalMIMEHeaderKey` of the name the client wrote. -/

def isTokenChar (c : Char) : Bool :=
  ('a' ≤ c && c ≤ 'z') || ('A' ≤ c && c ≤ 'Z') || ('0' ≤ c && c ≤ '9') ||
    "!#$%&'*+-.^_`|~".toList.contains c

def upperChar (c : Char) : Char := if 'a' ≤ c ∧ c ≤ 'z' then Char.ofNat (c.toNat - 32) else c

def canonGo : Bool → List Char → List Char
  | _, [] => []
  | up, c :: cs => (if up then upperChar c else lowerChar c) :: canonGo (c == '-') cs

/-- `textproto.CanonicalMIMEHeaderKey`: a name with a byte outside the token characters is left alone; otherwise
the first letter and every letter after a hyphen are upper-cased, the others lower-cased. -/
def canonKey (k : List Char) : List Char := if k.all isTokenChar then canonGo true k else k

end Fabio.Model.C12
