import Fabio.Basic
/-!
Model of the certificate store (`cert/store.go`), the update loop (`cert/watch.go`, `cert/source.go`) and
`loadCertificates` (`cert/load.go`).

A certificate is an identity plus the names it spells (subject CN if non-empty, then the DNS SANs, in the
order `BuildNameToCertificate` visits them). X.509 parsing, key matching and the TLS handshake are assumed.
Strings are `List Char`; `strings.ToLower` is modelled for ASCII (DESIGN.md §5).
-/
namespace Fabio.Model.C11
open Fabio

abbrev Name := List Char

structure Cert where
  id : Nat
  names : List Name
deriving DecidableEq, Repr

abbrev CertSet := List Cert

/-! ## The name index (`certstore.BuildNameToCertificate`) -/

/-- Key under which a certificate name is filed: `strings.ToLower(name)` (since the repair of D15b; before it
the key was the name exactly as the certificate spells it). -/
def keyOf (n : Name) : Name := lowerL n

/-- The Go map as an association list with the most recent insertion first, so that looking a key up finds
the value the map holds after all insertions (later certificate / later name overrides). -/
abbrev Index := List (Name × Cert)

def ixFind (m : Index) (k : Name) : Option Cert := List.lookup k m

def indexCert (m : Index) (c : Cert) : Index := c.names.foldl (fun m n => (keyOf n, c) :: m) m

def buildNameIndex (cs : CertSet) : Index := cs.foldl indexCert []

/-! ## Normalisation of the requested server name -/

/-- `for len(name) > 0 && name[len(name)-1] == '.' { name = name[:len(name)-1] }` -/
def stripDots (s : Name) : Name := (s.reverse.dropWhile (· == '.')).reverse

def normName (s : Name) : Name := stripDots (lowerL s)

/-- `strings.Split(s, ".")`: always at least one label. -/
def splitDots : Name → List Name
  | [] => [[]]
  | c :: cs =>
    if c == '.' then [] :: splitDots cs
    else match splitDots cs with
      | [] => [[c]]
      | l :: ls => (c :: l) :: ls

/-- `strings.Join(labels, ".")` -/
def joinDots : List Name → Name
  | [] => []
  | [l] => l
  | l :: ls => l ++ '.' :: joinDots ls

/-- The wildcard candidates in the order the loop tries them: after `labels[i] = "*"` for `i = 0, 1, …` the
first `i+1` labels are `*` (`*.b.c`, `*.*.c`, `*.*.*`). -/
def candidates (labels : List Name) : List Name :=
  (List.range labels.length).map fun i => joinDots (List.replicate (i+1) ['*'] ++ labels.drop (i+1))

/-! ## `getCertificate` -/

inductive Answer where
  | cert (c : Cert)
  | noCert          -- (nil, nil): strict matching and nothing matched
  | errNoCerts      -- ErrNoCertsStored
deriving DecidableEq, Repr

/-- What `Store.cs` holds: the certificate slice and the index built from it *before* the value is stored. -/
structure Published where
  certs : CertSet
  index : Index
deriving DecidableEq, Repr

def mkPublished (cs : CertSet) : Published := ⟨cs, buildNameIndex cs⟩

/-- `getCertificate(cs, clientHello, strictMatch)` on one loaded `certstore` value. (The
`cs.NameToCertificate == nil` disjunct of the shortcut is dead for values a `Store` can hold: the only value
with a nil map is `NewStore`'s, which has no certificates and is answered by the first branch.) -/
def getCertificateP (p : Published) (server : Name) (strict : Bool) : Answer :=
  match p.certs with
  | [] => .errNoCerts
  | first :: rest =>
    if !strict && rest.isEmpty then .cert first else
    let name := normName server
    match ixFind p.index name with
    | some c => .cert c
    | none =>
      match (candidates (splitDots name)).findSome? (ixFind p.index) with
      | some c => .cert c
      | none => if strict then .noCert else .cert first

def getCertificate (cs : CertSet) (server : Name) (strict : Bool) : Answer :=
  getCertificateP (mkPublished cs) server strict

/-! ## Declarative reference (what the property says), independent of the fold / lookup above -/

def hasKey (k : Name) (c : Cert) : Bool := c.names.any (fun n => keyOf n == k)

/-- Within a set a later certificate overrides an earlier one for a shared name. -/
def lastWith (cs : CertSet) (k : Name) : Option Cert := (cs.filter (hasKey k)).getLast?

def specAnswer (cs : CertSet) (server : Name) (strict : Bool) : Answer :=
  match cs with
  | [] => .errNoCerts
  | first :: _ =>
    let name := normName server
    match lastWith cs name with
    | some c => .cert c
    | none =>
      match (candidates (splitDots name)).findSome? (lastWith cs) with
      | some c => .cert c
      | none => if strict then .noCert else .cert first

/-- Which rule decided (for the evidence histogram). -/
def branch (cs : CertSet) (server : Name) (strict : Bool) : String :=
  match cs with
  | [] => "nocerts"
  | _ :: rest =>
    let name := normName server
    match lastWith cs name with
    | some _ => if rest.isEmpty then "exact-single" else "exact"
    | none =>
      match (candidates (splitDots name)).findIdx? (fun k => (lastWith cs k).isSome) with
      | some 0 => if rest.isEmpty then "wildcard-single" else "wildcard-1"
      | some _ => "wildcard-n"
      | none => if strict then "strict-none" else "default"

/-! ## The store cell and handshakes racing with publications -/

/-- One micro-step of the system: the update goroutine stores a new value (`SetCertificates`: build index, then
one atomic store), a handshake thread loads the cell once (`store.certstore()`), a handshake thread computes its
answer from the value it loaded (`getCertificate` is a pure function of that value). -/
inductive Op where
  | publish (cs : CertSet)
  | hsLoad (t : Nat)
  | hsAnswer (t : Nat) (server : Name)
deriving DecidableEq, Repr

structure Sys where
  cell : Published
  snaps : List (Nat × Published)     -- per handshake thread: the value it loaded (latest first)
deriving Repr

def Sys.init : Sys := ⟨mkPublished [], []⟩

def Sys.step (strict : Bool) (s : Sys) : Op → Sys × List (Nat × Answer)
  | .publish cs => ({ s with cell := mkPublished cs }, [])
  | .hsLoad t => ({ s with snaps := (t, s.cell) :: s.snaps }, [])
  | .hsAnswer t server =>
    match s.snaps.lookup t with
    | some p => (s, [(t, getCertificateP p server strict)])
    | none => (s, [])                   -- ill-formed schedule: answer without a load; nothing happens

def Sys.exec (strict : Bool) : Sys → List Op → Sys × List (Nat × Answer)
  | s, [] => (s, [])
  | s, op :: ops =>
    ((Sys.exec strict (s.step strict op).1 ops).1,
     (s.step strict op).2 ++ (Sys.exec strict (s.step strict op).1 ops).2)

/-- The set that is current after a sequence of operations (the last one published, else the initial one). -/
def currentSet (cs0 : CertSet) : List Op → CertSet
  | [] => cs0
  | .publish cs :: ops => currentSet cs ops
  | _ :: ops => currentSet cs0 ops

/-! ## The watcher (`watch`) as a step machine -/

inductive LoadResult (M : Type) where
  | err                       -- loadFn returned an error
  | blocks (m : M)            -- loadFn returned PEM blocks
deriving Repr, DecidableEq

inductive Out (M S : Type) where
  | sleep (d : Int)           -- time.Sleep(d), nanoseconds
  | publish (m : M) (set : S) -- ch <- certs, made from material m
deriving Repr, DecidableEq

structure St (M : Type) where
  last : M                    -- `last`; the nil map initially
  returned : Bool             -- `watch` has returned (refresh ≤ 0 and one set delivered)
deriving Repr, DecidableEq

def second : Int := 1000000000

/-- `if refresh < time.Second { refresh = time.Second }` -/
def effRefresh (refresh : Int) : Int := if refresh < second then second else refresh

/-- `once := refresh <= 0` -/
def once (refresh : Int) : Bool := decide (refresh ≤ 0)

/-- One iteration of the `for` loop: one loader invocation and what follows it until the next one.
`sleepOnMakeErr` says whether the `loadCertificates`-error branch sleeps before `continue` (it does since the
repair of D15; `Props/C11Facts` ties the flag to the source). `mk` is `loadCertificates`, which may fail. -/
def step {M S : Type} [DecidableEq M] (sleepOnMakeErr : Bool) (mk : M → Option S) (refresh : Int)
    (st : St M) : LoadResult M → St M × List (Out M S)
  | .err => (st, [.sleep (effRefresh refresh)])
  | .blocks m =>
    if m = st.last then (st, [.sleep (effRefresh refresh)])
    else match mk m with
      | none => (st, if sleepOnMakeErr then [.sleep (effRefresh refresh)] else [])
      | some s => ({ last := m, returned := once refresh }, [.publish m s])

inductive Ev (M S : Type) where
  | load                       -- the loader is invoked
  | out (o : Out M S)
deriving Repr, DecidableEq

/-- The event trace of `watch` against a script of loader results. -/
def trace {M S : Type} [DecidableEq M] (sleepOnMakeErr : Bool) (mk : M → Option S) (refresh : Int) :
    St M → List (LoadResult M) → List (Ev M S)
  | _, [] => []
  | st, r :: rs =>
    if st.returned then [] else
    .load :: ((step sleepOnMakeErr mk refresh st r).2.map .out
              ++ trace sleepOnMakeErr mk refresh (step sleepOnMakeErr mk refresh st r).1 rs)

/-- The state after a script. -/
def runSt {M S : Type} [DecidableEq M] (sleepOnMakeErr : Bool) (mk : M → Option S) (refresh : Int) :
    St M → List (LoadResult M) → St M
  | st, [] => st
  | st, r :: rs =>
    if st.returned then st else
    runSt sleepOnMakeErr mk refresh (step sleepOnMakeErr mk refresh st r).1 rs

/-- "No spinning" as a trace monitor. `prev` is the material of the latest publication (initially `last`),
`armed` says that the loader has been invoked and nothing that excuses another invocation has happened since:
neither a sleep of at least `floor` nor the publication of material different from `prev`. A loader
invocation while armed is a spin. -/
def noSpin {M S : Type} [DecidableEq M] (floor : Int) : M → Bool → List (Ev M S) → Bool
  | _, _, [] => true
  | prev, armed, .load :: es => !armed && noSpin floor prev true es
  | prev, armed, .out (.sleep d) :: es => noSpin floor prev (armed && decide (d < floor)) es
  | prev, armed, .out (.publish m _) :: es => noSpin floor m (armed && decide (m = prev)) es

/-- The material of the latest publication in a trace (`init` if there is none). -/
def lastPubM {M S : Type} (init : M) : List (Ev M S) → M
  | [] => init
  | .out (.publish m _) :: es => lastPubM m es
  | _ :: es => lastPubM init es

/-- The store as the update goroutine of `TLSConfig` leaves it after consuming the watcher's outputs. -/
def applyOuts {M : Type} (cell : Published) : List (Out M CertSet) → Published
  | [] => cell
  | .sleep _ :: os => applyOuts cell os
  | .publish _ s :: os => applyOuts (mkPublished s) os

def outsOf {M S : Type} : List (Ev M S) → List (Out M S)
  | [] => []
  | .out o :: es => o :: outsOf es
  | .load :: es => outsOf es

/-- A load the watcher cannot use: the loader failed or `loadCertificates` rejects the material. -/
def badLoad {M S : Type} (mk : M → Option S) : LoadResult M → Bool
  | .err => true
  | .blocks m => (mk m).isNone

def publications {M S : Type} : List (Ev M S) → List S
  | [] => []
  | .out (.publish _ s) :: es => s :: publications es
  | _ :: es => publications es

/-! ## `loadCertificates` -/

/-- What a PEM file holds, as far as `tls.X509KeyPair` cares: possibly a certificate (by id) and possibly a
private key (by the id of the certificate it belongs to) — and `rest`, everything else about its bytes that plays
no part in pairing (which further `CERTIFICATE` blocks follow the leaf: the chain variant). Two files with the same
leaf and key but a different `rest` are different material for `reflect.DeepEqual` in `watch`, and equal for
`pairCert`. -/
structure FileC where
  cert : Option Nat
  key : Option Nat
  rest : Nat := 0
deriving DecidableEq, Repr

abbrev Blocks := List (Name × FileC)

def hasSuffix (s suf : Name) : Bool := suf.length ≤ s.length && s.drop (s.length - suf.length) == suf

/-- `s[:len(s)-len(old)] + new` -/
def replaceSuffix (s old new : Name) : Name := s.take (s.length - old.length) ++ new

def sCert : Name := "-cert.pem".toList
def sKey : Name := "-key.pem".toList
def sPem : Name := ".pem".toList

/-- The `switch` on the file name: `(certFile, keyFile)` or skipped. -/
def classify (name : Name) : Option (Name × Name) :=
  if hasSuffix name sCert then some (name, replaceSuffix name sCert sKey)
  else if hasSuffix name sKey then some (replaceSuffix name sKey sCert, name)
  else if hasSuffix name sPem then some (name, name)
  else none

/-- `tls.X509KeyPair(cert, key)` abstracted: usable iff the certificate file holds a certificate and the key
file holds the key of that certificate. -/
def pairCert (c k : FileC) : Option Nat :=
  match c.cert, k.key with
  | some a, some b => if a == b then some a else none
  | _, _ => none

structure LoadAcc where
  done : List (Name × Nat)    -- x / n: certFile ↦ certificate
  failed : Bool               -- errs non-empty
deriving Repr

def loadOne (blocks : Blocks) (acc : LoadAcc) (name : Name) : LoadAcc :=
  match classify name with
  | none => acc
  | some (cf, kf) =>
    if (acc.done.lookup cf).isSome then acc else
    match blocks.lookup cf, blocks.lookup kf with
    | some c, some k =>
      match pairCert c k with
      | some id => { acc with done := (cf, id) :: acc.done }
      | none => { acc with failed := true }
    | _, _ => { acc with failed := true }

/-- Byte-wise string order (`sort.Strings`); on valid UTF-8 it coincides with code-point order. -/
def lexLe : Name → Name → Bool
  | [], _ => true
  | _ :: _, [] => false
  | a :: as, b :: bs => a.toNat < b.toNat || (a.toNat == b.toNat && lexLe as bs)

/-- Insertion sort (structural, so that closed instances evaluate in the kernel). The certificate file names in
`done` are pairwise different, so every correct sort yields the same list as `sort.Strings`. -/
def insertSorted {α : Type} (le : α → α → Bool) (x : α) : List α → List α
  | [] => [x]
  | y :: ys => if le x y then x :: y :: ys else y :: insertSorted le x ys

def isort {α : Type} (le : α → α → Bool) : List α → List α
  | [] => []
  | x :: xs => insertSorted le x (isort le xs)

/-- `loadCertificates(pemBlocks)` for a given map iteration order (`order` lists the keys of `blocks`):
the certificates with their file names, ordered by file name; `none` when any pair was unusable
(`errors.Join(errs...) != nil`: the caller publishes nothing). -/
def loadCertificates (blocks : Blocks) (order : List Name) : Option (List (Name × Nat)) :=
  let acc := order.foldl (loadOne blocks) ⟨[], false⟩
  if acc.failed then none else some (isort (fun a b => lexLe a.1 b.1) acc.done)

end Fabio.Model.C11
