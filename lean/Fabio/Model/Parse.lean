import Fabio.Model.Route
/-!
Model of fabio's route command language (`route/parse_new.go`) and of the text rendering of a table
(`Table.String` / `Route.TargetConfig`, `route/table.go`, `route/route.go`).

Interface (used by C05, C14, C02, C01):

* `parse (pf : ParseFloat) (text : Str) : Except ParseErr (List RouteDef)` — `route.Parse`.
  `pf` is `strconv.ParseFloat(·, 64)` as a parameter: `none` = error, `some (.fin q)` = the float64 as an exact
  rational, `some .nan/.posInf/.negInf` = the non-finite values Go accepts ("nan", "inf", "-Infinity" …).
* `loadTable env pf text` — `route.NewTable` (= `parse` then `Route.newTable`).
* `render : Table → Str` — `Table.String()`.

What is modelled exactly as in Go:
* `bufio.Scanner` line splitting: split on `\n`, a final empty piece is no line, one trailing `\r` is dropped;
  a line of ≥ 65536 bytes (UTF-8, before dropping `\r`) is `ErrTooLong` (D29 repaired: `Parse` reports it).
* two different notions of white space: `strings.TrimSpace`/`strings.Fields` use `unicode.IsSpace`
  (`isUniSpace`), the regexes use RE2 `\s` = `[\t\n\f\r ]` (`isReSpace`). `\v`, U+0085, U+00A0 … are trimmed
  but do not separate tokens.
* the command regexes, re-expressed as a deterministic tokenizer. Every `\s+` and `\S+` in the regexes is
  followed by something that cannot start with a character of the same class, and every optional group starts
  with `\s+` followed by a distinct keyword, so the leftmost-first backtracking search of Go's `regexp` has at
  most one successful path: maximal runs, optional group taken iff it matches. The regex sources are pinned by
  `Props/C05Facts.lean`; the equivalence is checked differentially by stream `c05.line`.
* `parseTags`, `parseOpts` (a Go map: modelled as the association list sorted by key, later key wins),
  `parseWeight`.
* `%.4f` on the exact value (round half to even), `tags "%s"` (D07 repaired; `quoteGo` models the former
  `%q` for the ASCII range), options sorted by key.

Strings are `List Char`: Go strings that are not valid UTF-8 are outside the model (the generators do not
produce them).
-/
namespace Fabio.Model.Parse
open Fabio Fabio.Model.Route

/-! ### white space -/

/-- `unicode.IsSpace` (Unicode White_Space). -/
def isUniSpace (c : Char) : Bool :=
  let n := c.toNat
  (0x09 ≤ n && n ≤ 0x0D) || n == 0x20 || n == 0x85 || n == 0xA0 || n == 0x1680 ||
  (0x2000 ≤ n && n ≤ 0x200A) || n == 0x2028 || n == 0x2029 || n == 0x202F || n == 0x205F || n == 0x3000

/-- RE2 `\s` = `[\t\n\f\r ]` (no `\v`, nothing outside ASCII). -/
def isReSpace (c : Char) : Bool :=
  c == '\t' || c == '\n' || c == '\x0c' || c == '\r' || c == ' '

def trimLeft (s : Str) : Str := s.dropWhile isUniSpace
def trimRight (s : Str) : Str := (s.reverse.dropWhile isUniSpace).reverse
/-- `strings.TrimSpace` -/
def trimSpace (s : Str) : Str := trimRight (trimLeft s)

/-- `strings.Split(s, string(c))` for a single character separator: always at least one piece. -/
def splitOn (c : Char) : Str → List Str
  | [] => [[]]
  | x :: xs =>
    if x == c then [] :: splitOn c xs
    else match splitOn c xs with
      | [] => [[x]]
      | h :: t => (x :: h) :: t

def fieldsAux : Str → Str → List Str
  | [], cur => if cur.isEmpty then [] else [cur.reverse]
  | c :: cs, cur =>
    if isUniSpace c then (if cur.isEmpty then fieldsAux cs [] else cur.reverse :: fieldsAux cs [])
    else fieldsAux cs (c :: cur)

/-- `strings.Fields` -/
def fields (s : Str) : List Str := fieldsAux s []

def join (sep : Str) : List Str → Str
  | [] => []
  | [x] => x
  | x :: y :: r => x ++ sep ++ join sep (y :: r)

/-! ### lines (`bufio.Scanner` with `ScanLines`) -/

/-- `bufio.MaxScanTokenSize` -/
def maxToken : Nat := 65536

def byteLen (s : Str) : Nat := s.foldl (fun a c => a + c.utf8Size) 0

/-- the pieces between `\n`; a final empty piece is not a line -/
def rawLines (text : Str) : List Str :=
  let ps := splitOn '\n' text
  if ps.getLast? == some [] then ps.dropLast else ps

/-- `dropCR` -/
def dropCR (s : Str) : Str :=
  match s.reverse with
  | '\r' :: r => r.reverse
  | _ => s

/-! ### tokenizer combinators (all on the remaining input) -/

/-- literal prefix -/
def lit (p : Str) (s : Str) : Option Str := if p.isPrefixOf s then some (s.drop p.length) else none

/-- `\s+` -/
def ws1 : Str → Option Str
  | c :: cs => if isReSpace c then some (cs.dropWhile isReSpace) else none
  | [] => none

/-- `(\S+)` -/
def tok (s : Str) : Option (Str × Str) :=
  let t := s.takeWhile (fun c => !isReSpace c)
  if t.isEmpty then none else some (t, s.dropWhile (fun c => !isReSpace c))

/-- `"([^"]*)"` -/
def quoted : Str → Option (Str × Str)
  | '"' :: cs =>
    match cs.dropWhile (fun c => c != '"') with
    | '"' :: rest => some (cs.takeWhile (fun c => c != '"'), rest)
    | _ => none
  | _ => none

/-- `\s+kw\s+(\S+)` -/
def kwTok (kw : Str) (s : Str) : Option (Str × Str) := do
  let s ← ws1 s
  let s ← lit kw s
  let s ← ws1 s
  tok s

/-- `\s+kw\s+"([^"]*)"` -/
def kwQuoted (kw : Str) (s : Str) : Option (Str × Str) := do
  let s ← ws1 s
  let s ← lit kw s
  let s ← ws1 s
  quoted s

/-- `( … )?` around a capturing group: an unmatched group reports the empty string, as `FindStringSubmatch`
does. -/
def optGroup (g : Str → Option (Str × Str)) (s : Str) : Str × Str :=
  match g s with
  | some cr => cr
  | none => ([], s)

def kRoute : Str := "route".toList
def kAdd : Str := "add".toList
def kDel : Str := "del".toList
def kWeight : Str := "weight".toList
def kTags : Str := "tags".toList
def kOpts : Str := "opts".toList

/-- `^route\s+<cmd>` (prefix match: the dispatch regexes) and the common head of the grammars -/
def head (cmd : Str) (s : Str) : Option Str := do
  let s ← lit kRoute s
  let s ← ws1 s
  lit cmd s

structure AddM where
  service : Str
  src : Str
  dst : Str
  weight : Str
  tags : Str
  opts : Str
deriving DecidableEq, Repr

/-- `reAdd` -/
def matchAdd (s : Str) : Option AddM := do
  let s ← head kAdd s
  let s ← ws1 s
  let (service, s) ← tok s
  let s ← ws1 s
  let (src, s) ← tok s
  let s ← ws1 s
  let (dst, s) ← tok s
  let (weight, s) := optGroup (kwTok kWeight) s
  let (tags, s) := optGroup (kwQuoted kTags) s
  let (opts, s) := optGroup (kwQuoted kOpts) s
  if s.isEmpty then some { service, src, dst, weight, tags, opts } else none

/-- `reDelSvcTags`: service, tags -/
def matchDelSvcTags (s : Str) : Option (Str × Str) := do
  let s ← head kDel s
  let s ← ws1 s
  let (service, s) ← tok s
  let (tags, s) ← kwQuoted kTags s
  if s.isEmpty then some (service, tags) else none

/-- `reDelTags`: tags -/
def matchDelTags (s : Str) : Option Str := do
  let s ← head kDel s
  let (tags, s) ← kwQuoted kTags s
  if s.isEmpty then some tags else none

/-- `\s+(\S+)` -/
def wsTok (s : Str) : Option (Str × Str) := do
  let s ← ws1 s
  tok s

/-- `reDel`: service, src, dst -/
def matchDel (s : Str) : Option (Str × Str × Str) := do
  let s ← head kDel s
  let s ← ws1 s
  let (service, s) ← tok s
  match wsTok s with
  | none => if s.isEmpty then some (service, [], []) else none
  | some (src, s) =>
    let (dst, s) := optGroup wsTok s
    if s.isEmpty then some (service, src, dst) else none

/-- `reWeightSvc`: service, src, weight, tags -/
def matchWeightSvc (s : Str) : Option (Str × Str × Str × Str) := do
  let s ← head kWeight s
  let s ← ws1 s
  let (service, s) ← tok s
  let s ← ws1 s
  let (src, s) ← tok s
  let (w, s) ← kwTok kWeight s
  let (tags, s) := optGroup (kwQuoted kTags) s
  if s.isEmpty then some (service, src, w, tags) else none

/-- `reWeightSrc`: src, weight, tags -/
def matchWeightSrc (s : Str) : Option (Str × Str × Str) := do
  let s ← head kWeight s
  let s ← ws1 s
  let (src, s) ← tok s
  let (w, s) ← kwTok kWeight s
  let (tags, s) ← kwQuoted kTags s
  if s.isEmpty then some (src, w, tags) else none

/-! ### `parseTags`, `parseOpts`, `parseWeight` -/

/-- `parseTags`: empty string = no tags; else split on `,` and `TrimSpace` every piece. -/
def parseTags (s : Str) : List Str :=
  if s.isEmpty then [] else (splitOn ',' s).map trimSpace

/-- `strings.SplitN(f, "=", 2)`; a field without `=` is a key with empty value -/
def splitKV (f : Str) : Str × Str :=
  (f.takeWhile (fun c => c != '='), (f.dropWhile (fun c => c != '=')).drop 1)

/-- `m[k] = v` on the key-sorted association list that represents the Go map -/
def optInsert (kv : Str × Str) : List (Str × Str) → List (Str × Str)
  | [] => [kv]
  | x :: xs =>
    if kv.1 == x.1 then kv :: xs
    else if strLt kv.1 x.1 then kv :: x :: xs
    else x :: optInsert kv xs

/-- the association list of a Go map built by assigning the pairs in order -/
def optsOfPairs (ps : List (Str × Str)) : List (Str × Str) := ps.foldl (fun m kv => optInsert kv m) []

/-- `parseOpts` -/
def parseOpts (s : Str) : List (Str × Str) := optsOfPairs ((fields s).map splitKV)

/-- A float64 as `strconv.ParseFloat` can return it without error. -/
inductive F64 where
  | fin (q : Rat)
  | nan
  | posInf
  | negInf
deriving DecidableEq, Repr

/-- `strconv.ParseFloat(s, 64)`; `none` = error (syntax or range). -/
abbrev ParseFloat := Str → Option F64

inductive SynErr where
  | routeExpected   -- "syntax error: 'route' expected"
  | addInvalid      -- "syntax error: 'route add' invalid"
  | delInvalid      -- "syntax error: 'route del' invalid"
  | weightInvalid   -- "syntax error: 'route weight' invalid"
  | weightValue     -- "syntax error: weight value invalid"
deriving DecidableEq, Repr

inductive ParseErr where
  /-- `line %d: <syntax error>` -/
  | syn (line : Nat) (e : SynErr)
  /-- `bufio.Scanner: token too long` while reading line `line` -/
  | tooLong (line : Nat)
  /-- Go accepts the weight (NaN or ±Inf) — the table code is then outside this model (`Rat` weights);
  see C04/C02 for what the real code does with such weights -/
  | nonFinite (line : Nat) (v : F64)
deriving DecidableEq, Repr

inductive LineErr where
  | syn (e : SynErr)
  | nonFinite (v : F64)
deriving DecidableEq, Repr

/-- `parseWeight` -/
def parseWeight (pf : ParseFloat) (s : Str) : Except LineErr Rat :=
  if s.isEmpty then .ok 0 else
  match pf s with
  | none => .error (.syn .weightValue)
  | some (.fin q) => .ok q
  | some v => .error (.nonFinite v)

/-! ### the three command parsers -/

def parseRouteAdd (pf : ParseFloat) (s : Str) : Except LineErr RouteDef :=
  match matchAdd s with
  | none => .error (.syn .addInvalid)
  | some m => do
    let w ← parseWeight pf m.weight
    return { cmd := .add, service := m.service, src := m.src, dst := m.dst, weight := w,
             tags := parseTags m.tags, opts := parseOpts m.opts }

/-- `parseRouteDel`: `reDelSvcTags`, then `reDelTags`, then `reDel`. -/
def parseRouteDel (s : Str) : Except LineErr RouteDef :=
  match matchDelSvcTags s with
  | some (service, tags) => .ok { cmd := .del, service, tags := parseTags tags }
  | none =>
  match matchDelTags s with
  | some tags => .ok { cmd := .del, tags := parseTags tags }
  | none =>
  match matchDel s with
  | some (service, src, dst) => .ok { cmd := .del, service, src, dst }
  | none => .error (.syn .delInvalid)

/-- `parseRouteWeight`: `reWeightSvc`, then `reWeightSrc`. -/
def parseRouteWeight (pf : ParseFloat) (s : Str) : Except LineErr RouteDef :=
  match matchWeightSvc s with
  | some (service, src, w, tags) => do
    let w ← parseWeight pf w
    return { cmd := .weight, service, src, weight := w, tags := parseTags tags }
  | none =>
  match matchWeightSrc s with
  | some (src, w, tags) => do
    let w ← parseWeight pf w
    return { cmd := .weight, src, weight := w, tags := parseTags tags }
  | none => .error (.syn .weightInvalid)

/-- `reComment` = `^(#|//)` -/
def isComment : Str → Bool
  | '#' :: _ => true
  | '/' :: '/' :: _ => true
  | _ => false

/-- `reBlankLine` = `^\s*$` -/
def isBlank (s : Str) : Bool := s.all isReSpace

/-- One scanned line (after `dropCR`): `TrimSpace`, then the `switch` of `Parse`. `none` = comment or
blank line. -/
def parseLine (pf : ParseFloat) (line : Str) : Except LineErr (Option RouteDef) :=
  let s := trimSpace line
  if isComment s || isBlank s then .ok none
  else if (head kAdd s).isSome then (parseRouteAdd pf s).map some
  else if (head kDel s).isSome then (parseRouteDel s).map some
  else if (head kWeight s).isSome then (parseRouteWeight pf s).map some
  else .error (.syn .routeExpected)

/-- the scanner loop of `Parse`; `i` = number of the line being read (1-based) -/
def parseLines (pf : ParseFloat) : Nat → List Str → Except ParseErr (List RouteDef)
  | _, [] => .ok []
  | i, raw :: rest =>
    if maxToken ≤ byteLen raw then .error (.tooLong i) else
    match parseLine pf (dropCR raw) with
    | .error (.syn e) => .error (.syn i e)
    | .error (.nonFinite v) => .error (.nonFinite i v)
    | .ok none => parseLines pf (i+1) rest
    | .ok (some d) =>
      match parseLines pf (i+1) rest with
      | .error e => .error e
      | .ok ds => .ok (d :: ds)

/-- `route.Parse` -/
def parse (pf : ParseFloat) (text : Str) : Except ParseErr (List RouteDef) :=
  parseLines pf 1 (rawLines text)

inductive LoadErr where
  | parse (e : ParseErr)
  | table (e : Err)
deriving DecidableEq, Repr

/-- `route.NewTable` -/
def loadTable (env : Env) (pf : ParseFloat) (text : Str) : Except LoadErr Table :=
  match parse pf text with
  | .error e => .error (.parse e)
  | .ok defs =>
    match newTable env defs with
    | .error e => .error (.table e)
    | .ok t => .ok t

/-! ### rendering: `Table.String()` -/

def digitChar (d : Nat) : Char := Char.ofNat (48 + d % 10)

def natDigitsAux : Nat → Nat → List Char → List Char
  | 0, _, acc => acc
  | fuel+1, n, acc =>
    if n < 10 then digitChar n :: acc else natDigitsAux fuel (n / 10) (digitChar (n % 10) :: acc)

/-- decimal digits of a natural number -/
def natDigits (n : Nat) : List Char := natDigitsAux (n+1) n []

/-- `r · 10⁴` rounded to the nearest integer, ties to even (`r ≥ 0`): what `%.4f` prints, as a scaled
integer. Go formats the *exact* binary value, so this is exact on the rational. -/
def round4 (r : Rat) : Nat :=
  let q := r * 10000
  let n := q.num.toNat / q.den
  let rem := q.num.toNat % q.den
  if 2 * rem < q.den then n
  else if q.den < 2 * rem then n + 1
  else if n % 2 == 0 then n else n + 1

/-- the value the four decimals denote -/
def round4Rat (r : Rat) : Rat := (round4 r : Rat) / 10000

/-- `fmt.Sprintf("%.4f", r)` for `r ≥ 0` -/
def fmt4 (r : Rat) : Str :=
  let n := round4 r
  let f := n % 10000
  natDigits (n / 10000) ++ ['.', digitChar (f / 1000), digitChar (f / 100), digitChar (f / 10), digitChar f]

/-- sort keys, as `sort.Strings(keys)` + lookup does in `TargetConfig` -/
def sortOpts (o : List (Str × Str)) : List (Str × Str) := optsOfPairs o

def renderOpt (kv : Str × Str) : Str := kv.1 ++ ['='] ++ kv.2

/-- `Route.TargetConfig(t, false)` (D07 repaired: tags are written between plain quotes, like options) -/
def renderTarget (r : Route) (t : Target) : Str :=
  "route add ".toList ++ t.service ++ [' '] ++ r.host ++ r.path ++ [' '] ++ t.url ++
  (if 0 < t.fixedWeight then " weight ".toList ++ fmt4 t.fixedWeight else []) ++
  (if t.tags.isEmpty then [] else " tags \"".toList ++ join [','] t.tags ++ ['"']) ++
  (if t.opts.isEmpty then [] else " opts \"".toList ++ join [' '] ((sortOpts t.opts).map renderOpt) ++ ['"'])

/-- `Route.config(false)`: every target is written (only the display with effective weights,
`config(true)`, leaves out targets without traffic share — repaired: `String()` used to omit them too) -/
def routeConfig (r : Route) : List Str :=
  r.targets.map (renderTarget r)

def insertHostDesc (h : Str) : List Str → List Str
  | [] => [h]
  | x :: xs => if strLt x h then h :: x :: xs else x :: insertHostDesc h xs

/-- `sort.Sort(sort.Reverse(sort.StringSlice(hosts)))` of the non-empty hosts, then `""` -/
def hostOrder (t : Table) : List Str :=
  ((t.map (·.1)).filter (fun h => !h.isEmpty)).foldr insertHostDesc [] ++ [[]]

/-- `Table.config(false)` -/
def config (t : Table) : List Str :=
  (hostOrder t).flatMap (fun h => (t.get h).flatMap routeConfig)

/-- `Table.String()` -/
def render (t : Table) : Str := join ['\n'] (config t)

/-! ### `strconv.Quote` (what `%q` printed before D07 was repaired), ASCII range -/

def hexDigit (d : Nat) : Char := if d < 10 then Char.ofNat (48 + d) else Char.ofNat (87 + d)

/-- `strconv.Quote` on ASCII; printable non-ASCII passes through unchanged (Go additionally escapes
non-printable non-ASCII runes as `\u…`, not modelled). -/
def quoteGo (s : Str) : Str :=
  ['"'] ++ s.flatMap (fun c =>
    if c == '"' then ['\\', '"']
    else if c == '\\' then ['\\', '\\']
    else if c == '\x07' then ['\\', 'a']
    else if c == '\x08' then ['\\', 'b']
    else if c == '\x0c' then ['\\', 'f']
    else if c == '\n' then ['\\', 'n']
    else if c == '\r' then ['\\', 'r']
    else if c == '\t' then ['\\', 't']
    else if c == '\x0b' then ['\\', 'v']
    else if c.toNat < 0x20 || c.toNat == 0x7f then ['\\', 'x', hexDigit (c.toNat / 16), hexDigit (c.toNat % 16)]
    else [c]) ++ ['"']

/-- `TargetConfig` as it was before the repair of D07 (`tags %q`) -/
def renderTargetQ (r : Route) (t : Target) : Str :=
  "route add ".toList ++ t.service ++ [' '] ++ r.host ++ r.path ++ [' '] ++ t.url ++
  (if 0 < t.fixedWeight then " weight ".toList ++ fmt4 t.fixedWeight else []) ++
  (if t.tags.isEmpty then [] else " tags ".toList ++ quoteGo (join [','] t.tags)) ++
  (if t.opts.isEmpty then [] else " opts \"".toList ++ join [' '] ((sortOpts t.opts).map renderOpt) ++ ['"'])

end Fabio.Model.Parse
