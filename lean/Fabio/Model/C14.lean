import Fabio.Model.Route
import Fabio.Model.Parse
/-!
C14 — model of `registry/consul/routecmd.go` (`routecmd.build`, `parseURLPrefixTag`) composed with fabio's own
command parser (`Model/Parse.lean`) and routing table (`Model/Route.lean`). Core Lean only (linked into the
driver).

* A registration (`Reg`) is what `build` reads of an `api.CatalogService`: service name, service address, node
  address, port, tags. Catalog entries reach fabio as JSON, so every string is valid UTF-8 (`List Char`).
* `parseTag` = `parseURLPrefixTag`; `expand` = `os.Expand` with `mapping(x) = env[x]` (missing ↦ ""), modelled
  on the whole variable syntax (`$name`, `${name}`, the special one-character names, the three "bad syntax"
  cases); validated differentially by stream `c14.expand`.
* `intents` = the route commands `build` *means* to emit, one per accepted routing tag, as structured data
  (service, src, dst, weight text, the other tags, the remaining options).
* `renderQ` = the line the **unrepaired** code wrote (`strconv.Quote` around the joined tags/options);
  `render` = the line the repaired code writes (raw text between double quotes — the only form the grammar
  `"[^"]*"` reads).
* `denotes` = the test the repaired `build` applies before it emits a line: fabio's own parser maps the line back
  to exactly one `route add` definition equal to the intended one, and a routing table accepts that definition.
* `build` (repaired) keeps exactly the intents whose line `denotes`; `buildOld` keeps every line.
* `configText` = `makeConfig`'s join: all commands of all services, sorted in reverse, joined by `\n`.

`strings.ToLower`, `TrimSpace`, `Fields` follow the conventions of DESIGN.md §5 (`lowerL` is ASCII lower-casing;
white space is `unicode.IsSpace`). `runtime.GOOS == "darwin"` (the `.local` suffix) is outside the model: the
harness runs on linux and the fact `darwinBranchPinned` pins that the branch is guarded by that comparison.
External functions are parameters: `pf` = `strconv.ParseFloat(·, 64)`, `env.normURL`, `env.globOK`.
-/
namespace Fabio.Model.C14
open Fabio Fabio.Model.Route Fabio.Model.Parse

/-! ### `os.Expand` -/

/-- `isShellSpecialVar` -/
def isShellSpecial (c : Char) : Bool :=
  c == '*' || c == '#' || c == '$' || c == '@' || c == '!' || c == '?' || c == '-' || ('0' ≤ c && c ≤ '9')

/-- `isAlphaNum` -/
def isAlphaNum (c : Char) : Bool :=
  c == '_' || ('0' ≤ c && c ≤ '9') || ('a' ≤ c && c ≤ 'z') || ('A' ≤ c && c ≤ 'Z')

/-- `getShellName(s)` for non-empty `s`: the name and the number of characters consumed. -/
def getShellName : Str → Str × Nat
  | [] => ([], 0)
  | '{' :: rest =>
    let scan : Str × Nat :=
      -- scan to the closing brace (position i ≥ 1 in s = '{' :: rest)
      let name := rest.takeWhile (fun x => x != '}')
      if name.length < rest.length then (if name.isEmpty then ([], 2) else (name, name.length + 2)) else ([], 1)
    match rest with
    | c :: '}' :: _ => if isShellSpecial c then ([c], 3) else scan
    | _ => scan
  | c :: rest =>
    if isShellSpecial c then ([c], 1)
    else
      let name := (c :: rest).takeWhile isAlphaNum
      (name, name.length)

/-- the loop of `os.Expand`; `fuel` bounds the number of characters still to read -/
def expandAux (mapping : Str → Str) : Nat → Str → Str
  | 0, s => s
  | _, [] => []
  | fuel+1, c :: rest =>
    if c == '$' && !rest.isEmpty then
      let (name, w) := getShellName rest
      let out : Str := if name.isEmpty then (if w > 0 then [] else ['$']) else mapping name
      out ++ expandAux mapping fuel (rest.drop w)
    else c :: expandAux mapping fuel rest

/-- `os.Expand(s, mapping)` -/
def expand (mapping : Str → Str) (s : Str) : Str := expandAux mapping (s.length + 1) s

/-- `env[x]` of a Go map given as an association list (missing key ↦ "") -/
def envLookup (env : List (Str × Str)) (x : Str) : Str := (env.lookup x).getD []

/-! ### `parseURLPrefixTag` -/

/-- `strings.SplitN(s, string(c), 2)`: the part before the first `c`, and the part after it if there is one. -/
def splitFirst (c : Char) (s : Str) : Str × Option Str :=
  let a := s.takeWhile (fun x => x != c)
  if a.length < s.length then (a, some (s.drop (a.length + 1))) else (a, none)

/-- `parseURLPrefixTag(s, prefix, env)`: `(route, opts)`; `none` = `ok == false`. -/
def parseTag (pfx : Str) (env : List (Str × Str)) (s : Str) : Option (Str × Str) :=
  let s := trimSpace s
  if !hasPrefix s pfx then none else
  let s := trimSpace (s.drop pfx.length)
  let (r, o) := splitFirst ' ' s
  let opts := o.getD []
  if hasPrefix r [':'] then some (r, opts)
  else if !r.contains '/' then some (r, opts)
  else
    let (host, path) := splitFirst '/' r
    some (lowerL (expand (envLookup env) host) ++ ['/'] ++ expand (envLookup env) (path.getD []), opts)

/-! ### `routecmd.build` -/

/-- what `build` reads of an `api.CatalogService` -/
structure Reg where
  name : Str
  svcAddr : Str
  nodeAddr : Str
  port : Int
  tags : List Str
deriving DecidableEq, Repr

/-- `routecmd.prefix`, `routecmd.env` -/
structure Cfg where
  pfx : Str
  env : List (Str × Str)

/-- `strconv.Itoa` -/
def itoa (i : Int) : Str :=
  if i < 0 then '-' :: natDigits i.natAbs else natDigits i.natAbs

/-- `net.JoinHostPort` -/
def joinHostPort (host port : Str) : Str :=
  if host.contains ':' then ['['] ++ host ++ "]:".toList ++ port else host ++ [':'] ++ port

/-- one route command as `build` means it -/
structure Intent where
  service : Str
  src : Str
  dst : Str
  /-- the text after `weight=` ("" = no weight clause) -/
  weight : Str
  /-- the service's other tags (trimmed) -/
  tags : List Str
  /-- the options that are passed on -/
  opts : List Str
deriving DecidableEq, Repr

structure OptState where
  dst : Str
  weight : Str := []
  ropts : List Str := []

def kProtoTcp : Str := "proto=tcp".toList
def kProtoHttps : Str := "proto=https".toList
def kProtoGrpcs : Str := "proto=grpcs".toList
def kProtoGrpc : Str := "proto=grpc".toList
def kWeightEq : Str := "weight=".toList
def kRedirectEq : Str := "redirect=".toList

/-- one iteration of the option loop of `build` -/
def optStep (addr : Str) (st : OptState) (o : Str) : OptState :=
  if o == kProtoTcp then { st with dst := "tcp://".toList ++ addr }
  else if o == kProtoHttps then { st with dst := "https://".toList ++ addr }
  else if o == kProtoGrpcs then { st with dst := "grpcs://".toList ++ addr }
  else if o == kProtoGrpc then { st with dst := "grpc://".toList ++ addr }
  else if hasPrefix o kWeightEq then { st with weight := o.drop kWeightEq.length }
  else if hasPrefix o kRedirectEq then
    match splitOn ',' (o.drop kRedirectEq.length) with
    | [code, url] => { st with dst := url, ropts := st.ropts ++ [kRedirectEq ++ code] }
    | _ => st     -- logged, option skipped
  else { st with ropts := st.ropts ++ [o] }

/-- the tag partition at the top of `build`: every tag is trimmed; those with the prefix are routing tags -/
def routeTags (c : Cfg) (r : Reg) : List Str := (r.tags.map trimSpace).filter (fun t => hasPrefix t c.pfx)
def svcTags (c : Cfg) (r : Reg) : List Str := (r.tags.map trimSpace).filter (fun t => !hasPrefix t c.pfx)

/-- `addr` after the node-address fallback and `net.JoinHostPort` -/
def hostPort (r : Reg) : Str :=
  joinHostPort (if r.svcAddr.isEmpty then r.nodeAddr else r.svcAddr) (itoa r.port)

/-- the command `build` means to emit for one routing tag -/
def intentOf (c : Cfg) (r : Reg) (tag : Str) : Option Intent :=
  match parseTag c.pfx c.env tag with
  | none => none
  | some (route, opts) =>
    let addr := hostPort r
    let st := (fields opts).foldl (optStep addr) { dst := "http://".toList ++ addr ++ ['/'] }
    some { service := r.name, src := route, dst := st.dst, weight := st.weight, tags := svcTags c r, opts := st.ropts }

def intents (c : Cfg) (r : Reg) : List Intent := (routeTags c r).filterMap (intentOf c r)

/-! ### the emitted line -/

def headText (i : Intent) : Str :=
  "route add ".toList ++ i.service ++ [' '] ++ i.src ++ [' '] ++ i.dst ++
  (if i.weight.isEmpty then [] else " weight ".toList ++ i.weight)

/-- the line the repaired `build` writes: tags and options raw between double quotes -/
def render (i : Intent) : Str :=
  headText i ++
  (if i.tags.isEmpty then [] else " tags \"".toList ++ join [','] i.tags ++ ['"']) ++
  (if i.opts.isEmpty then [] else " opts \"".toList ++ join [' '] i.opts ++ ['"'])

/-! #### `strconv.Quote` (the unrepaired code) -/

def hex (n : Nat) : Char := hexDigit (n % 16)

def hexN (digits n : Nat) : Str := (List.range digits).reverse.map (fun k => hex (n / 16 ^ k))

/-- `appendEscapedRune` of `strconv.Quote` for a valid rune; `printHi` is `unicode.IsPrint` on runes ≥ 0x80
(a table of the standard library — parameter, shipped by the differential stream). -/
def quoteRune (printHi : Char → Bool) (c : Char) : Str :=
  let n := c.toNat
  if c == '"' then ['\\', '"']
  else if c == '\\' then ['\\', '\\']
  else if (0x20 ≤ n && n < 0x7f) || (0x80 ≤ n && printHi c) then [c]
  else if c == '\x07' then ['\\', 'a']
  else if c == '\x08' then ['\\', 'b']
  else if c == '\x0c' then ['\\', 'f']
  else if c == '\n' then ['\\', 'n']
  else if c == '\r' then ['\\', 'r']
  else if c == '\t' then ['\\', 't']
  else if c == '\x0b' then ['\\', 'v']
  else if n < 0x20 || n == 0x7f then ['\\', 'x'] ++ hexN 2 n
  else if n < 0x10000 then ['\\', 'u'] ++ hexN 4 n
  else ['\\', 'U'] ++ hexN 8 n

/-- `strconv.Quote` on valid UTF-8 -/
def quote (printHi : Char → Bool) (s : Str) : Str := ['"'] ++ s.flatMap (quoteRune printHi) ++ ['"']

/-- One step of `utf8.DecodeRuneInString` on bytes: `(some rune, width)` or `(none, 1)` for an invalid byte. -/
def decodeRune : List UInt8 → Option (Option Char × Nat)
  | [] => none
  | b0 :: rest =>
    let n0 := b0.toNat
    let cont (b : UInt8) (lo hi : Nat) : Bool := lo ≤ b.toNat && b.toNat ≤ hi
    -- the byte ranges below exclude overlong forms, surrogates and values above U+10FFFF: `v` is a valid rune
    let mk (v w : Nat) : Option (Option Char × Nat) := some (some (Char.ofNat v), w)
    if n0 < 0x80 then mk n0 1
    else if 0xC2 ≤ n0 && n0 ≤ 0xDF then
      match rest with
      | b1 :: _ => if cont b1 0x80 0xBF then mk ((n0 % 32) * 64 + b1.toNat % 64) 2 else some (none, 1)
      | _ => some (none, 1)
    else if 0xE0 ≤ n0 && n0 ≤ 0xEF then
      let lo := if n0 == 0xE0 then 0xA0 else 0x80
      let hi := if n0 == 0xED then 0x9F else 0xBF
      match rest with
      | b1 :: b2 :: _ =>
        if cont b1 lo hi && cont b2 0x80 0xBF then mk ((n0 % 16) * 4096 + (b1.toNat % 64) * 64 + b2.toNat % 64) 3
        else some (none, 1)
      | _ => some (none, 1)
    else if 0xF0 ≤ n0 && n0 ≤ 0xF4 then
      let lo := if n0 == 0xF0 then 0x90 else 0x80
      let hi := if n0 == 0xF4 then 0x8F else 0xBF
      match rest with
      | b1 :: b2 :: b3 :: _ =>
        if cont b1 lo hi && cont b2 0x80 0xBF && cont b3 0x80 0xBF then
          mk ((n0 % 8) * 262144 + (b1.toNat % 64) * 4096 + (b2.toNat % 64) * 64 + b3.toNat % 64) 4
        else some (none, 1)
      | _ => some (none, 1)
    else some (none, 1)

/-- `strconv.Quote` on an arbitrary byte string: an invalid byte is written as `\xNN`. -/
def quoteBytesAux (printHi : Char → Bool) : Nat → List UInt8 → Str
  | 0, _ => []
  | fuel+1, bs =>
    match decodeRune bs with
    | none => []
    | some (some c, w) => quoteRune printHi c ++ quoteBytesAux printHi fuel (bs.drop w)
    | some (none, _) =>
      match bs with
      | b :: rest => ['\\', 'x'] ++ hexN 2 b.toNat ++ quoteBytesAux printHi fuel rest
      | [] => []

def quoteBytes (printHi : Char → Bool) (bs : List UInt8) : Str :=
  ['"'] ++ quoteBytesAux printHi (bs.length + 1) bs ++ ['"']

/-- the line the **unrepaired** `build` wrote -/
def renderQ (printHi : Char → Bool) (i : Intent) : Str :=
  headText i ++
  (if i.tags.isEmpty then [] else " tags ".toList ++ quote printHi (join [','] i.tags)) ++
  (if i.opts.isEmpty then [] else " opts ".toList ++ quote printHi (join [' '] i.opts))

/-! ### the validation of the repaired `build` -/

/-- the definition the command is meant to denote; `none` when the weight text is not a finite number -/
def wantDef (pf : ParseFloat) (i : Intent) : Option RouteDef :=
  match parseWeight pf i.weight with
  | .error _ => none
  | .ok w => some { cmd := .add, service := i.service, src := i.src, dst := i.dst, weight := w,
                    tags := i.tags, opts := optsOfPairs (i.opts.map splitKV) }

/-- a routing table accepts the definition (`route.NewTable` on the single command) -/
def accepted (env : Env) (d : RouteDef) : Bool :=
  match newTable env [d] with
  | .ok _ => true
  | .error _ => false

/-- fabio's own parser reads `cmd` as exactly the one `route add` that is meant, and a table accepts it -/
def denotes (env : Env) (pf : ParseFloat) (cmd : Str) (i : Intent) : Bool :=
  match parse pf cmd, wantDef pf i with
  | .ok [d], some w => d == w && accepted env d
  | _, _ => false

/-- `routecmd.build` after the repair of D19 -/
def build (env : Env) (pf : ParseFloat) (c : Cfg) (r : Reg) : List Str :=
  ((intents c r).filter (fun i => denotes env pf (render i) i)).map render

/-- `routecmd.build` before the repair: every line is emitted, quoted with `strconv.Quote` -/
def buildOld (printHi : Char → Bool) (c : Cfg) (r : Reg) : List Str := (intents c r).map (renderQ printHi)

/-! ### `makeConfig`: all commands, sorted in reverse, one text -/

def insertDescStr (x : Str) : List Str → List Str
  | [] => [x]
  | y :: ys => if strLt y x then x :: y :: ys else y :: insertDescStr x ys

/-- `sort.Sort(sort.Reverse(sort.StringSlice(config)))`: equal strings are indistinguishable, so the unstable
sort has one possible result. -/
def sortDesc (l : List Str) : List Str := l.foldr insertDescStr []

def configText (cmds : List Str) : Str := join ['\n'] (sortDesc cmds)

/-- the registrations `makeConfig` looks at: `serviceConfig` returns nothing for the empty service name -/
def named (regs : List Reg) : List Reg := regs.filter (fun r => !r.name.isEmpty)

/-- all commands of a catalog, in catalog order (`makeConfig` collects them in an unspecified order and sorts) -/
def commands (env : Env) (pf : ParseFloat) (c : Cfg) (regs : List Reg) : List Str :=
  (named regs).flatMap (build env pf c)

/-- the text `makeConfig` hands to `watchBackend` for a catalog of registrations -/
def config (env : Env) (pf : ParseFloat) (c : Cfg) (regs : List Reg) : Str :=
  configText (commands env pf c regs)

def configOld (printHi : Char → Bool) (c : Cfg) (regs : List Reg) : Str :=
  configText ((named regs).flatMap (buildOld printHi c))

/-! ### histories: one long-lived monitor, a sequence of catalog states

`ServiceMonitor` keeps nothing between two calls of `makeConfig` (facts `monitor_is_stateless`): what it emits
after any history of registrations is a function of the catalog as it is *now*. -/

/-- catalog events; a slot is one (node, service id) -/
inductive Ev where
  /-- the instance registers — or registers **again** under the same (node, service id) with other fields -/
  | register (slot : Nat) (r : Reg)
  | deregister (slot : Nat)
  /-- its health check turns critical / passing -/
  | fail (slot : Nat)
  | pass (slot : Nat)

/-- slot ↦ (registration, health check passing), sorted by slot -/
abbrev Catalog := List (Nat × Reg × Bool)

def catInsert (k : Nat) (r : Reg) : Catalog → Catalog
  | [] => [(k, r, true)]
  | (k', r', p') :: rest =>
    if k = k' then (k, r, p') :: rest            -- re-registration: the health state is kept
    else if k < k' then (k, r, true) :: (k', r', p') :: rest
    else (k', r', p') :: catInsert k r rest

def applyEv (cat : Catalog) : Ev → Catalog
  | .register k r => catInsert k r cat
  | .deregister k => cat.filter (fun e => e.1 != k)
  | .fail k => cat.map (fun e => if e.1 == k then (e.1, e.2.1, false) else e)
  | .pass k => cat.map (fun e => if e.1 == k then (e.1, e.2.1, true) else e)

/-- the registrations fabio is to route to now: in the catalog and passing -/
def current (cat : Catalog) : List Reg := (cat.filter (fun e => e.2.2)).map (fun e => e.2.1)

/-- the catalog after each step of a history -/
def catalogs : Catalog → List (List Ev) → List Catalog
  | _, [] => []
  | cat, evs :: rest => let cat' := evs.foldl applyEv cat; cat' :: catalogs cat' rest

/-- the texts a monitor hands out, step by step -/
def historyTexts (env : Env) (pf : ParseFloat) (c : Cfg) (steps : List (List Ev)) : List Str :=
  (catalogs [] steps).map (fun cat => config env pf c (current cat))

/-! ### which intents the command language can express (decidable; hypothesis of `expressible_not_dropped`) -/

def noReSpace (s : Str) : Bool := s.all (fun c => !isReSpace c)
def noUniSpace (s : Str) : Bool := s.all (fun c => !isUniSpace c)

/-- The fields fit the grammar of `route add` and the table's checks:
* service and source are non-empty `\S+` tokens;
* the destination is non-empty and free of Unicode white space (it may end the line, which is `TrimSpace`d),
  `url.Parse` accepts it;
* the weight text, if any, is free of white space and `strconv.ParseFloat` reads a finite number;
* no tag holds `"`, `,` or a newline, every tag is trimmed, and the tag list is not the single empty tag
  (`tags ""` means "no tags");
* every option is a non-empty word without white space and without `"`;
* the line is shorter than the scanner's 64 KiB token limit;
* `glob.Compile` accepts the (lower-cased) host and the path of the source. -/
def expressibleB (env : Env) (pf : ParseFloat) (i : Intent) : Bool :=
  !i.service.isEmpty && noReSpace i.service &&
  !i.src.isEmpty && noReSpace i.src &&
  !i.dst.isEmpty && noUniSpace i.dst &&
  (i.weight.isEmpty || (noUniSpace i.weight && (match pf i.weight with | some (.fin _) => true | _ => false))) &&
  i.tags.all (fun t => !t.contains '"' && !t.contains ',' && !t.contains '\n' && trimSpace t == t) &&
  (i.tags.isEmpty || !(join [','] i.tags).isEmpty) &&
  i.opts.all (fun o => !o.isEmpty && noUniSpace o && !o.contains '"') &&
  decide (byteLen (render i) < maxToken) &&
  (env.normURL i.dst).isSome &&
  env.globOK (lowerL (hostpath i.src).1) && env.globOK (hostpath i.src).2

end Fabio.Model.C14
