import Fabio.Basic
/-!
Model of the access-rule / authentication gate (`route/access_rules.go`, `route/auth.go`, and the order of
the gate calls in `proxy/http_proxy.go`, `proxy/tcp/{tcp,sni,tcp_dynamic}_proxy.go`).

Text parsing of addresses (`net.ParseIP`, `net.ParseCIDR`, `net.SplitHostPort`) enters as *parameters*
(`Parsers`): every theorem holds for all parsers. The driver instantiates them with the executable parsers of
`Fabio.Model.C12Parse`, which are validated differentially against Go's (`c12.parse` stream).
-/
namespace Fabio.Model.C12

/-! ## Addresses and blocks (Go's `net.IP`, `net.IPNet`) -/

/-- Go's `net.IP`: a 4-byte (`v6 = false`) or 16-byte (`v6 = true`) slice, as a big-endian number. -/
structure IP where
  v6 : Bool
  val : Nat
deriving DecidableEq, Repr

/-- `ip.To4()`: the 32-bit value if the address is IPv4 — the 4-byte form, or the 16-byte form inside
`::ffff:0:0/96` (Go's 4-in-6 unmapping rule). -/
def IP.to4 (ip : IP) : Option Nat :=
  if ip.v6 then (if ip.val >>> 32 = 0xffff then some (ip.val % 2^32) else none) else some ip.val

def IP.wf (ip : IP) : Prop := ip.val < 2 ^ (if ip.v6 then 128 else 32)

/-- `net.CIDRMask(ones, bits)` as a number. -/
def cidrMask (ones bits : Nat) : Nat := (2^ones - 1) <<< (bits - ones)

/-- Go's `net.IPNet` as produced by `net.ParseCIDR`: the (already masked) network number and a CIDR mask of
`bits/8` bytes with `ones` leading ones. -/
structure IPNet where
  ip : IP
  bits : Nat
  ones : Nat
deriving DecidableEq, Repr

/-- `networkNumberAndMask(n)`: (16-byte form?, number, mask) or `none` (Go: `nil, nil`). -/
def IPNet.numberAndMask (n : IPNet) : Option (Bool × Nat × Nat) :=
  match n.ip.to4 with
  | some v =>
    if n.bits = 32 then some (false, v, cidrMask n.ones 32)
    else if n.bits = 128 then some (false, v, cidrMask n.ones 128 % 2^32)   -- `m = m[12:]`
    else none
  | none =>
    if n.bits = 128 then some (true, n.ip.val, cidrMask n.ones 128) else none

/-- `n.Contains(ip)`: unmap the address (`To4`), compare lengths, then compare under the mask. -/
def IPNet.contains (n : IPNet) (ip : IP) : Bool :=
  match n.numberAndMask with
  | none => false
  | some (n16, nn, m) =>
    match ip.to4 with
    | some v => !n16 && (nn &&& m == v &&& m)
    | none => n16 && (nn &&& m == ip.val &&& m)

/-- The block `ParseCIDR(ip.String() + "/32")` resp. `"/128"` that `parseAccessRule` builds for an item
without a mask (assumed behaviour of `IP.String`/`ParseCIDR` round trip; the rule dumps of the real code are
compared with this in the `c12.decide` stream). -/
def hostBlock (ip : IP) : IPNet :=
  match ip.to4 with
  | some v => { ip := { v6 := false, val := v }, bits := 32, ones := 32 }
  | none => { ip := ip, bits := 128, ones := 128 }

/-! ## The rule map -/

/-- `Target.accessRules`: a Go map with the keys `"allow:ip"` and `"deny:ip"`; `none` = key absent. -/
structure Rules where
  allow : Option (List IPNet) := none
  deny : Option (List IPNet) := none
deriving DecidableEq, Repr

/-- `len(t.accessRules) == 0` -/
def Rules.isEmpty (r : Rules) : Bool := r.allow.isNone && r.deny.isNone

/-- The state `ProcessAccessRules` leaves behind when the options cannot be parsed (repair of D16): an allow
list without any block, which admits no address. -/
def Rules.denyAll : Rules := { allow := some [], deny := none }

/-- `t.denyByIP(ip)`; `ip = none` is Go's nil `net.IP` (an address that could not be parsed). With rules
present an unknown address is denied (repair of D16b; before, `ip == nil` returned `false`). -/
def denyByIP (r : Rules) (ip : Option IP) : Bool :=
  if r.isEmpty then false else
  match ip with
  | none => true
  | some ip =>
    match r.allow with
    | some bs => !(bs.any (·.contains ip))
    | none =>
      match r.deny with
      | some bs => bs.any (·.contains ip)
      | none => false

/-! ## Parsing the `allow=` / `deny=` options -/

structure Parsers where
  /-- `net.ParseIP` (nil ↦ `none`); Go always returns the 16-byte form. -/
  parseIP : List Char → Option IP
  /-- the `*net.IPNet` of `net.ParseCIDR` (error ↦ `none`) -/
  parseCIDR : List Char → Option IPNet
  /-- the host of `net.SplitHostPort` (error ↦ `none`) -/
  splitHostPort : List Char → Option (List Char)

inductive RuleErr where
  | both         -- allow and deny on the same route
  | noColon      -- item is not <type>:<data>
  | badIP        -- ParseIP failed
  | badCIDR      -- ParseCIDR failed
  | unknownType  -- type is not "ip"
deriving DecidableEq, Repr

def isSpace (c : Char) : Bool :=
  c == ' ' || c == '\t' || c == '\n' || c == '\r' || c.toNat == 0x0b || c.toNat == 0x0c

/-- `strings.TrimSpace`, ASCII white space (generators keep rule texts and headers ASCII). -/
def trimSpace (s : List Char) : List Char :=
  ((s.dropWhile isSpace).reverse.dropWhile isSpace).reverse

/-- `strings.Split(s, sep)` for a one-character separator: always at least one element. -/
def splitOn (sep : Char) : List Char → List (List Char)
  | [] => [[]]
  | c :: cs =>
    if c == sep then [] :: splitOn sep cs
    else match splitOn sep cs with
      | [] => [[c]]
      | x :: xs => (c :: x) :: xs

/-- `strings.SplitN(s, ":", 2)`: `none` when there is no colon (`len(temps) != 2`). -/
def cut (sep : Char) (s : List Char) : Option (List Char × List Char) :=
  match indexOf sep s with
  | none => none
  | some i => some (s.take i, s.drop (i+1))

/-- One element of the comma-separated option: `<type>:<data>` with type `ip` (case-insensitive, trimmed). -/
def parseItem (P : Parsers) (c : List Char) : Except RuleErr IPNet :=
  match cut ':' c with
  | none => .error .noColon
  | some (ty, data) =>
    if lowerL (trimSpace ty) ≠ ['i', 'p'] then .error .unknownType else
    let value := trimSpace data
    if value.contains '/' then
      match P.parseCIDR value with
      | none => .error .badCIDR
      | some n => .ok n
    else
      match P.parseIP value with
      | none => .error .badIP
      | some ip => .ok (hostBlock ip)

/-- The loop of `parseAccessRule`: blocks are appended one by one; on the first bad item the function returns
its error and **the blocks appended so far stay in the map** (second component). -/
def parseItems (P : Parsers) : List (List Char) → List IPNet → List IPNet × Option RuleErr
  | [], acc => (acc, none)
  | c :: cs, acc =>
    match parseItem P c with
    | .error e => (acc, some e)
    | .ok n => parseItems P cs (acc ++ [n])

def keyOf (bs : List IPNet) : Option (List IPNet) := if bs.isEmpty then none else some bs

/-- What `ProcessAccessRules` did **before the repair of D16** (kept for the negative result
`Props.C12.unrepaired_widens`): the partial map is left as it is, and the caller only logs the error. -/
def processRaw (P : Parsers) (allow deny : List Char) : Rules × Option RuleErr :=
  if !allow.isEmpty && !deny.isEmpty then ({}, some .both) else
  let (a, ea) := if allow.isEmpty then ([], none) else parseItems P (splitOn ',' allow) []
  match ea with
  | some e => ({ allow := keyOf a }, some e)
  | none =>
    let (d, ed) := if deny.isEmpty then ([], none) else parseItems P (splitOn ',' deny) []
    ({ allow := keyOf a, deny := keyOf d }, ed)

/-- `ProcessAccessRules` on `Opts["allow"]`, `Opts["deny"]` (empty = absent): on any error the map is replaced
by `Rules.denyAll`. -/
def processAccessRules (P : Parsers) (allow deny : List Char) : Rules × Option RuleErr :=
  match processRaw P allow deny with
  | (_, some e) => (Rules.denyAll, some e)
  | (r, none) => (r, none)

/-! ## The two entry points -/

/-- An address literal may carry an IPv6 zone (`fe80::1%eth0`); the zone is cut before `ParseIP`. -/
def stripZone (s : List Char) : List Char := s.takeWhile (· != '%')

/-- The inner loop over the elements of X-Forwarded-For (all header lines, split at commas): trimmed; skipped
when textually equal to the peer host; skipped when not an address; otherwise subject to `denyByIP`. -/
def xffDenied (P : Parsers) (r : Rules) (host : List Char) : List (List Char) → Bool
  | [] => false
  | x :: xs =>
    let xip := trimSpace x
    if xip = host then xffDenied P r host xs else
    match P.parseIP (stripZone xip) with
    | none => xffDenied P r host xs
    | some ip => if denyByIP r (some ip) then true else xffDenied P r host xs

def xffElems (xff : List (List Char)) : List (List Char) := xff.flatMap (splitOn ',')

/-- `t.AccessDeniedHTTP(r)` with `r.RemoteAddr = remote`, `r.Header["X-Forwarded-For"] = xff`. -/
def accessDeniedHTTP (P : Parsers) (r : Rules) (remote : List Char) (xff : List (List Char)) : Bool :=
  if r.isEmpty then false else
  match P.splitHostPort remote with
  | none => true
  | some host =>
    if denyByIP r (P.parseIP (stripZone host)) then true
    else xffDenied P r host (xffElems xff)

/-- The remote address of a `net.Conn` as `AccessDeniedTCP` sees it. -/
inductive TCPPeer where
  | notTCP                 -- `c.RemoteAddr()` is not a `*net.TCPAddr`
  | addr (ip : Option IP)  -- `addr.IP` (nil ↦ none)
deriving DecidableEq, Repr

/-- `t.AccessDeniedTCP(c)` -/
def accessDeniedTCP (r : Rules) (p : TCPPeer) : Bool :=
  if r.isEmpty then false else
  match p with
  | .notTCP => true
  | .addr ip => denyByIP r ip

/-! ## Authentication -/

/-- `t.Authorized(r, w, authSchemes)`: `schemes` is the registry (Go map as association list), `verdict` what
the found scheme answers for this request. -/
def authorized {σ} (scheme : List Char) (schemes : List (List Char × σ)) (verdict : σ → Bool) : Bool :=
  if scheme.isEmpty then true else
  match schemes.lookup scheme with
  | none => false
  | some s => verdict s

/-- `basic.Authorized`: credentials present (`request.BasicAuth()` ok) and matching the secrets. -/
def basicVerdict (secrets : List (List Char × List Char)) (cred : Option (List Char × List Char)) : Bool :=
  match cred with
  | none => false
  | some (u, p) => secrets.lookup u == some p

/-- One event in the life of a basic-auth scheme instance: a request with (or without) credentials, or the
refresh goroutine reloading the htpasswd file with new contents. -/
inductive AuthOp where
  | attempt (cred : Option (List Char × List Char))
  | reload (secrets : List (List Char × List Char))

/-- The htpasswd contents in force after a history. -/
def fileAfter (secrets : List (List Char × List Char)) : List AuthOp → List (List Char × List Char)
  | [] => secrets
  | .attempt _ :: h => fileAfter secrets h
  | .reload s :: h => fileAfter s h

/-- The verdicts of the attempts of a history, in order: the scheme holds no state besides the file. -/
def runAuth (secrets : List (List Char × List Char)) : List AuthOp → List Bool
  | [] => []
  | .attempt c :: h => basicVerdict secrets c :: runAuth secrets h
  | .reload s :: h => runAuth s h

/-! ## The order of the gate (sequential model of `ServeHTTP` / `ServeTCP`) -/

inductive Step where
  | lookup | access | auth | redirect | upstream
deriving DecidableEq, Repr

/-- What the request meets: is there a route, do the rules deny it, does the scheme accept it. -/
structure Env where
  found : Bool
  denied : Bool
  authorized : Bool
  /-- the route carries a valid `redirect=3xx` option: fabio answers itself, no upstream -/
  redirect : Bool := false

inductive Reply where
  | noRoute | forbidden | unauthorized | redirected | served
deriving DecidableEq, Repr

/-- Run the statements in order. Each gate statement is an `if … { reply; return }`; `upstream` marks the first
contact with the upstream (dial, `h.ServeHTTP`). Returns the reply and whether an upstream was contacted. -/
def runGate (env : Env) : List Step → Bool → Reply × Bool
  | [], c => (.served, c)
  | .lookup :: ss, c => if env.found then runGate env ss c else (.noRoute, c)
  | .access :: ss, c => if env.denied then (.forbidden, c) else runGate env ss c
  | .auth :: ss, c => if env.authorized then runGate env ss c else (.unauthorized, c)
  | .redirect :: ss, c => if env.redirect then (.redirected, c) else runGate env ss c
  | .upstream :: ss, _ => runGate env ss true

/-- The steps before the first upstream contact. -/
def beforeUpstream (ss : List Step) : List Step := ss.takeWhile (· != .upstream)

/-- All of `gates` happen before the first upstream contact. -/
def gateOrdered (gates ss : List Step) : Bool := gates.all (fun g => (beforeUpstream ss).contains g)

/-- The steps before the redirect answer. -/
def beforeRedirect (ss : List Step) : List Step := ss.takeWhile (· != .redirect)

/-- All of `gates` happen before the redirect answer. -/
def redirectOrdered (gates ss : List Step) : Bool := gates.all (fun g => (beforeRedirect ss).contains g)

def stepOfString : String → Option Step
  | "lookup" => some .lookup
  | "access" => some .access
  | "auth" => some .auth
  | "redirect" => some .redirect
  | "upstream" => some .upstream
  | _ => none

end Fabio.Model.C12
