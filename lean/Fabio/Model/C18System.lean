import Fabio.Model.C18
import Fabio.Model.C18Exit
/-!
# C18 — the property's sentences for the process as a whole

The pieces composed: package `exit` decides *whether and when* the exit handler starts (`Model.C18Exit`), main.go's
handler is signal → grace → `proxy.Shutdown(wait)` (`Model.C18.processExit`), the process ends when the handler has
returned. One definition, `processEnd`, and the property's three sentences about it.
-/
namespace Fabio.Model.C18System
open Fabio.Model.C18 Fabio.Model.C18Exit

/-- The tick at which the process ends, for a history of `n` SIGHUPs followed by `last` arriving at tick `s`
(`none` = never): the exit handler (one `exit.Listen` call in main.go) must be called — then the process ends when
`proxy.Shutdown` has returned, `grace` later plus whatever the shutdown takes; if it is never called, nothing ends
the process (`exit.Exit` sits in `wg.Wait()`, main in `exit.Wait()`), and every listener keeps accepting. -/
def processEnd (c : ListenContract) (w : WsContract) (g : GrpcContract) (n : Nat) (last : Ev)
    (s grace wait : Nat) (srvs : List Server) : Time :=
  if (run c (initial 1) (history n last)).listeners.all handlerRan then processExit w g s grace wait srvs else none

/-- does a listener that was up before the signal accept at tick `t`? Until `proxy.Shutdown` closes it at
`s + grace` if the handler runs; for ever if it does not. -/
def listenerAccepts (c : ListenContract) (n : Nat) (last : Ev) (s grace : Nat) (t : Nat) : Bool :=
  if (run c (initial 1) (history n last)).listeners.all handlerRan then accepts (some (s + grace)) t else true

end Fabio.Model.C18System

