import Fabio.Model.C11
import Fabio.Model.C11Load
/-!
C11, the glue between the command line and the handshake: what `main.makeTLSConfig`, `config.parseListen`,
`cert.NewSource` and the `GetCertificate` closure of `cert.TLSConfig` add around the store, the watcher and
`loadCertificates` (core Lean only).

* every listener with a certificate source gets **its own** source value, watcher, store and closure
  (`makeTLSConfig` calls `cert.NewSource` and `cert.TLSConfig` once per listener), so what a listener presents is a
  function of the material of *its* source and of *its* `strictmatch` option alone;
* `strictmatch=<v>` is on exactly for `v = "true"` (`l.StrictMatch = (v == "true")`), off when the option is absent;
* a `file` source holds the one pair it was given (no suffix rules, no sorting), a `path` / `http` source what
  `loadCertificates` makes of the loaded files;
* the closure returns the store's certificate when there is one; otherwise — `(nil, nil)` of a strict listener and
  `ErrNoCertsStored` alike — a source that can issue certificates (`Issuer`, vault-pki) is asked for one for the
  server name **as the client sent it**; any other source leaves the answer as it is.
-/
namespace Fabio.Model.C11
open Fabio

/-! ## The `GetCertificate` closure of `cert.TLSConfig` -/

/-- What the closure hands to `crypto/tls`. -/
inductive Presented where
  | cert (c : Cert)        -- a certificate of the stored set
  | issued (c : Cert)      -- a certificate the source issued for this handshake
  | noCert                 -- (nil, nil): the handshake fails, no certificate is presented
  | errNoCerts             -- (nil, ErrNoCertsStored)
  | issueErr               -- (nil, err): the issuer failed
deriving DecidableEq, Repr

/-- `src.(Issuer)`: `Issue(commonName)`, which may fail. -/
abbrev IssuerFn := Name → Option Cert

def Presented.ofAnswer : Answer → Presented
  | .cert c => .cert c
  | .noCert => .noCert
  | .errNoCerts => .errNoCerts

/-- The closure on one loaded store value: the result and the `Issue` calls made (argument of each). -/
def tlsGetCertificate (issuer : Option IssuerFn) (p : Published) (server : Name) (strict : Bool) :
    Presented × List Name :=
  match getCertificateP p server strict with
  | .cert c => (.cert c, [])
  | a =>
    match issuer with
    | none => (Presented.ofAnswer a, [])
    | some issue =>
      match issue server with
      | some c => (.issued c, [server])
      | none => (.issueErr, [server])

/-! ## Listeners and sources as configured -/

/-- `parseListen`: `case "strictmatch": l.StrictMatch = (v == "true")`; `none` = the option is absent. -/
def parseStrict : Option Name → Bool
  | some v => v == "true".toList
  | none => false

structure ListenerCfg where
  src : Nat                 -- which certificate source (`cs=<name>`)
  strict : Option Name      -- value of `strictmatch=`
deriving Repr, DecidableEq

/-- `cert.NewSource`, the kinds whose loaders are modelled. -/
inductive SrcKind where
  | file (certFile keyFile : Name)   -- FileSource: one pair, loaded once
  | dir                              -- PathSource / HTTPSource: watch + loader + loadCertificates
deriving Repr, DecidableEq

structure SourceCfg where
  kind : SrcKind
  blocks : Blocks           -- the files the source's loader delivers (name ↦ what the PEM holds)
deriving Repr

/-- The list of certificate ids a source publishes for a given iteration order of the loaded map; `none`: nothing
is published (unusable material; for a `file` source the process exits). -/
def sourceIds (s : SourceCfg) (order : List Name) : Option (List Nat) :=
  match s.kind with
  | .dir => (loadCertificates s.blocks order).map (·.map (·.2))
  | .file cf kf =>
    match s.blocks.lookup cf, s.blocks.lookup kf with
    | some c, some k => (pairCert c k).map ([·])
    | _, _ => none

/-- What a listener presents for a server name when its source's published ids are `ids` (certificate `i` spells
`names i`). The listener's own option decides strictness; nothing of any other listener enters. -/
def listenerAnswer (names : Nat → List Name) (ids : List Nat) (l : ListenerCfg) (server : Name) : Answer :=
  getCertificate (ids.map fun i => ⟨i, names i⟩) server (parseStrict l.strict)

/-- A deployment: the sources, the listeners, and per listener its own store (`makeTLSConfig` builds one per
listener). A publication of source `j` reaches the stores of exactly the listeners configured with `cs=j`. -/
structure Deployment where
  listeners : List ListenerCfg
  stores : List CertSet       -- one per listener, same order
deriving Repr

def Deployment.init (ls : List ListenerCfg) : Deployment := ⟨ls, ls.map fun _ => []⟩

/-- source `j` publishes `cs`: every watcher of that source (one per listener on it) sends it to its own store -/
def Deployment.publish (d : Deployment) (j : Nat) (cs : CertSet) : Deployment :=
  { d with stores := (d.listeners.zip d.stores).map fun (l, s) => if l.src = j then cs else s }

/-- a handshake on listener `i` -/
def Deployment.handshake (d : Deployment) (i : Nat) (server : Name) : Option Answer :=
  match d.listeners[i]?, d.stores[i]? with
  | some l, some s => some (getCertificate s server (parseStrict l.strict))
  | _, _ => none

/-! ## `base(listURL)`: where the files named by an HTTP source's list are fetched from

`base` parses the URL, replaces the path by `path.Dir(path)` unless the path is exactly `/`, and prints the URL
again. Modelled for URLs `origin ++ path` where `origin` is `scheme://host[:port]` (opaque here) and `path` is
empty or starts with `/` and consists of characters that `URL.String` prints unescaped (letters, digits,
`. _ - /`) — for these `url.Parse` / `URL.String` change nothing but the path. Everything else (no scheme,
blanks, `%`, `?`, `#`) stays with the real function (the harness ships its answer and the driver uses it there). -/

/-- the loop of `path.Clean` over the elements of a rooted path: empty elements and `.` are dropped, `..` removes
the element before it (and is dropped at the root) -/
def cleanSegs (acc : List Name) : List Name → List Name
  | [] => acc.reverse
  | s :: ss =>
    if s.isEmpty || s == ['.'] then cleanSegs acc ss
    else if s == ['.', '.'] then cleanSegs (acc.drop 1) ss
    else cleanSegs (s :: acc) ss

def joinSlash : List Name → Name
  | [] => []
  | [l] => l
  | l :: ls => l ++ '/' :: joinSlash ls

/-- `path.Dir(p)` for `p = ""` or `p` starting with `/`: all but the last element, cleaned. -/
def pathDir (p : Name) : Name :=
  if p.isEmpty then ['.'] else
  '/' :: joinSlash (cleanSegs [] ((splitOn '/' p).dropLast))

/-- `base(origin ++ path)` -/
def baseOf (origin path : Name) : Name :=
  if path == ['/'] then origin ++ ['/']
  else if path.isEmpty then origin ++ ['/', '.']      -- Path "." is printed as "/." after a host
  else origin ++ pathDir path

/-- characters of a path that `url.Parse` and `URL.String` leave alone -/
def plainPathChar (c : Char) : Bool := c.isAlphanum || c == '.' || c == '_' || c == '-' || c == '/'

def plainPath (p : Name) : Bool := (p.isEmpty || p.head? == some '/') && p.all plainPathChar

end Fabio.Model.C11
