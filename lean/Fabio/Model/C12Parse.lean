import Fabio.Model.C12
/-!
Executable text parsers standing in for `net.ParseIP`, `net.ParseCIDR` (Go 1.24: both go through
`netip.ParseAddr`) and `net.SplitHostPort`. They are *not* part of any theorem: the theorems of
`Props/C12.lean` quantify over all parsers. These instances make the model runnable on the same texts as the
real code and are compared with Go's parsers case by case (`c12.parse`, and implicitly in `c12.decide`).
-/
namespace Fabio.Model.C12.Parse
open Fabio Fabio.Model.C12

def digitVal (c : Char) : Option Nat :=
  if '0' ≤ c ∧ c ≤ '9' then some (c.toNat - 48) else none

def hexVal (c : Char) : Option Nat :=
  if '0' ≤ c ∧ c ≤ '9' then some (c.toNat - 48)
  else if 'a' ≤ c ∧ c ≤ 'f' then some (c.toNat - 87)
  else if 'A' ≤ c ∧ c ≤ 'F' then some (c.toNat - 55)
  else none

/-- One IPv4 octet: decimal digits, no leading zero unless the field is "0", value ≤ 255. -/
def octet (f : List Char) : Option Nat :=
  if f.isEmpty then none else
  if f.length > 1 ∧ f.head? = some '0' then none else
  if !f.all (fun c => (digitVal c).isSome) then none else
  let v := f.foldl (fun a c => a * 10 + (digitVal c).getD 0) 0
  if v > 255 then none else some v

/-- `netip.parseIPv4Fields` on a whole string: exactly four octets separated by dots. -/
def parseIPv4 (s : List Char) : Option Nat :=
  match splitOn '.' s with
  | [a, b, c, d] =>
    match octet a, octet b, octet c, octet d with
    | some a, some b, some c, some d => some (((a * 256 + b) * 256 + c) * 256 + d)
    | _, _, _, _ => none
  | _ => none

/-- A hex group: 1–4 hex digits; returns value and the rest. A fifth hex digit is an error. -/
def readHex (s : List Char) : Option (Nat × List Char) :=
  let ds := s.takeWhile (fun c => (hexVal c).isSome)
  if ds.isEmpty ∨ ds.length > 4 then none
  else some (ds.foldl (fun a c => a * 16 + (hexVal c).getD 0) 0, s.drop ds.length)

structure V6State where
  rest : List Char
  groups : List Nat          -- 16-bit groups parsed so far (i = 2 * groups.length)
  ellipsis : Option Nat      -- group index of `::`

/-- The main loop of `netip.parseIPv6` (at most eight groups). `none` = parse error. -/
def v6Loop : Nat → V6State → Option V6State
  | 0, st => some st
  | fuel+1, st =>
    if st.groups.length ≥ 8 then some st else
    match readHex st.rest with
    | none => none
    | some (acc, rest) =>
      if rest.head? = some '.' then
        -- trailing embedded IPv4 starting at this group
        if st.ellipsis.isNone ∧ st.groups.length ≠ 6 then none
        else if st.groups.length + 2 > 8 then none
        else match parseIPv4 st.rest with
          | none => none
          | some v => some { st with rest := [], groups := st.groups ++ [v / 65536, v % 65536] }
      else
        let gs := st.groups ++ [acc]
        match rest with
        | [] => some { st with rest := [], groups := gs }
        | c :: rest' =>
          if c ≠ ':' then none
          else if rest'.isEmpty then none
          else if rest'.head? = some ':' then
            if st.ellipsis.isSome then none
            else
              let st' : V6State := { rest := rest'.drop 1, groups := gs, ellipsis := some gs.length }
              if st'.rest.isEmpty then some st' else v6Loop fuel st'
          else v6Loop fuel { st with rest := rest', groups := gs }

def groupsVal (gs : List Nat) : Nat := gs.foldl (fun a g => a * 65536 + g) 0

/-- `netip.parseIPv6` without a zone. -/
def parseIPv6 (s : List Char) : Option Nat :=
  let start : Option V6State :=
    match s with
    | ':' :: ':' :: r => some { rest := r, groups := [], ellipsis := some 0 }
    | _ => some { rest := s, groups := [], ellipsis := none }
  match start with
  | none => none
  | some st0 =>
    if st0.ellipsis.isSome ∧ st0.rest.isEmpty then some 0 else
    match v6Loop 9 st0 with
    | none => none
    | some st =>
      if !st.rest.isEmpty then none else
      let n := st.groups.length
      if n < 8 then
        match st.ellipsis with
        | none => none
        | some e => some (groupsVal (st.groups.take e ++ List.replicate (8 - n) 0 ++ st.groups.drop e))
      else if st.ellipsis.isSome then none
      else some (groupsVal st.groups)

/-- `netip.ParseAddr` for texts without a zone: (is IPv4?, value). The first of `.`/`:` decides. -/
def parseAddr (s : List Char) : Option (Bool × Nat) :=
  if s.contains '%' then none else
  match s.find? (fun c => c == '.' || c == ':') with
  | some '.' => (parseIPv4 s).map (fun v => (true, v))
  | some ':' => (parseIPv6 s).map (fun v => (false, v))
  | _ => none

/-- `net.ParseIP`: the 16-byte form, IPv4 under `::ffff:0:0/96`. -/
def parseIP (s : List Char) : Option IP :=
  match parseAddr s with
  | some (true, v) => some { v6 := true, val := 0xffff * 2^32 + v }
  | some (false, v) => some { v6 := true, val := v }
  | none => none

/-- `dtoi` over the whole mask text: digits only, at least one, below 0xFFFFFF. -/
def maskLen (m : List Char) : Option Nat :=
  if m.isEmpty ∨ !m.all (fun c => (digitVal c).isSome) then none else
  let rec go : List Char → Nat → Option Nat
    | [], n => some n
    | c :: cs, n =>
      let n' := n * 10 + (digitVal c).getD 0
      if n' ≥ 0xFFFFFF then none else go cs n'
  go m 0

/-- `net.ParseCIDR`: address `/` prefix length; the network number is stored masked, 4 bytes for an IPv4
literal and 16 bytes for an IPv6 literal (also for `::ffff:a.b.c.d/n`). -/
def parseCIDR (s : List Char) : Option IPNet :=
  match cut '/' s with
  | none => none
  | some (a, m) =>
    match parseAddr a, maskLen m with
    | some (is4, v), some n =>
      let bits := if is4 then 32 else 128
      if n > bits then none
      else some { ip := { v6 := !is4, val := v &&& cidrMask n bits }, bits := bits, ones := n }
    | _, _ => none

/-- The host part of `net.SplitHostPort`. -/
def splitHostPort (hp : List Char) : Option (List Char) :=
  match lastIndexOf ':' hp with
  | none => none
  | some i =>
    if hp.head? = some '[' then
      match indexOf ']' hp with
      | none => none
      | some e =>
        if e + 1 = hp.length then none
        else if e + 1 ≠ i then none
        else
          let host := (hp.take e).drop 1
          -- no further '[' after position 1, no further ']' after position e+1
          if (hp.drop 1).contains '[' ∨ (hp.drop (e+1)).contains ']' then none else some host
    else
      let host := hp.take i
      if host.contains ':' then none
      else if hp.contains '[' ∨ hp.contains ']' then none
      else some host

def goParsers : Parsers := { parseIP := parseIP, parseCIDR := parseCIDR, splitHostPort := splitHostPort }

end Fabio.Model.C12.Parse
