import Fabio.Model.C12Auth
/-!
C12, round 4 — the htpasswd file behind a basic-auth scheme (`auth/basic.go`: `htpasswd.New(file, DefaultSystems, bad)`,
`secrets.Match(user, password)`; github.com/tg123/go-htpasswd v1.2.3).

Up to round 3 the model started at an association list of stored (user, password) pairs, looked up first-match. The
file is a text; what the scheme stores is what the library reads out of it:

* the text is cut into lines (`bufio.ScanLines`), each line trimmed (`strings.TrimSpace`), blank lines skipped;
* a line is `user:encoding`, split at the FIRST colon; a line without colon is reported as bad and skipped;
* the encoding is offered to the parsers in order — `$apr1$`/`$1$` (MD5 crypt), `{SHA}`, `$2y$`/`$2a$`/`$2b$`/`$2x$`
  (bcrypt), `{SSHA}`, `$5$`/`$6$` (SHA crypt) — and to the plain-text parser last, which takes anything; a parser
  that recognises its prefix but finds the rest malformed rejects the LINE (it is reported as bad and skipped);
* entries go into a map keyed by user: a later line for the same user REPLACES the earlier one;
* `Match(user, pw)`: the user has an entry and the entry's matcher accepts `pw`; the plain-text matcher accepts `pw`
  when the stored text is `pw` or `{PLAIN}` followed by `pw` (nginx's notation).

The hash functions themselves stay the library's: what a hashed encoding accepts is the parameter `H` (`none` = the
line is rejected); every theorem holds for every `H`. Core Lean only, total.
-/
namespace Fabio.Model.C12

def hashPrefixes : List (List Char) :=
  ["$apr1$", "$1$", "{SHA}", "$2y$", "$2a$", "$2b$", "$2x$", "{SSHA}", "$5$", "$6$"].map String.toList

/-- some parser other than the plain-text one claims the encoding -/
def isHashed (enc : List Char) : Bool := hashPrefixes.any (fun p => p.isPrefixOf enc)

/-- `plainPassword.MatchesPassword` -/
def plainMatches (enc pw : List Char) : Bool := pw == enc || ("{PLAIN}".toList ++ pw) == enc

inductive HtLine where
  | blank
  | bad                                   -- no colon: "malformed line"
  | entry (user enc : List Char)
deriving DecidableEq, Repr

/-- `addHtpasswdUser` up to the split -/
def parseHtLine (raw : List Char) : HtLine :=
  let line := trimSpace raw
  if line.isEmpty then .blank
  else match cut ':' line with
    | none => .bad
    | some (u, e) => .entry u e

/-- what the parsers make of an encoding: the matcher, or `none` when the line is rejected -/
def matcherOf (H : List Char → Option (List Char → Bool)) (enc : List Char) : Option (List Char → Bool) :=
  if isHashed enc then H enc else some (plainMatches enc)

/-- the accepted lines of the file, in file order, as (user, matcher) -/
def htEntries (H : List Char → Option (List Char → Bool)) (text : List Char) : List (List Char × (List Char → Bool)) :=
  (splitOn '\n' text).filterMap fun raw =>
    match parseHtLine raw with
    | .entry u e => (matcherOf H e).map (fun m => (u, m))
    | _ => none

/-- the map after all lines were added: the LAST accepted line of a user is his entry -/
def htLookup (es : List (List Char × (List Char → Bool))) (u : List Char) : Option (List Char → Bool) :=
  (es.reverse.find? (fun e => e.1 == u)).map (·.2)

/-- `File.Match(user, pw)` -/
def htMatch (es : List (List Char × (List Char → Bool))) (u pw : List Char) : Bool :=
  match htLookup es u with
  | some m => m pw
  | none => false

/-- `basic.Authorized` over the file text: credentials present and matched by the file. -/
def fileVerdict (H : List Char → Option (List Char → Bool)) (text : List Char)
    (cred : Option (List Char × List Char)) : Bool :=
  match cred with
  | none => false
  | some (u, p) => htMatch (htEntries H text) u p

/-- `t.Authorized(r, w, schemes)`, the schemes given by the texts of their htpasswd files. -/
def authorizedFile (H : List Char → Option (List Char → Bool)) (scheme : List Char)
    (schemes : List (List Char × List Char)) (r : Req) : Bool :=
  authorized scheme schemes (fun text => fileVerdict H text (basicAuthOf r))

/-- `HTTPProxy.ServeHTTP` with the schemes given by their file texts. -/
def serveReqFile (P : Parsers) (H : List Char → Option (List Char → Bool)) (schemes : List (List Char × List Char))
    (lk : Nat → Option TargetM) (alive : Nat → Bool) (remote : List Char) (r : Req) : Result :=
  serveHTTP P lk alive remote (headerValues hXFF r.headers) (fun t => authorizedFile H t.scheme schemes r)

/-- One event in the life of a basic-auth scheme instance, the file given as text: a request, or the refresh
goroutine reloading the file (the empty text when the file has disappeared: the credentials are cleared). -/
inductive AuthOpF where
  | attempt (cred : Option (List Char × List Char))
  | reload (text : List Char)

def fileAfterF (text : List Char) : List AuthOpF → List Char
  | [] => text
  | .attempt _ :: h => fileAfterF text h
  | .reload t :: h => fileAfterF t h

/-- the verdicts of the attempts of a history: the scheme holds no state besides the table read from the file -/
def runAuthF (H : List Char → Option (List Char → Bool)) (text : List Char) : List AuthOpF → List Bool
  | [] => []
  | .attempt c :: h => fileVerdict H text c :: runAuthF H text h
  | .reload t :: h => runAuthF H t h

/-- the file the harness writes for a list of pairs: one line `user:password` each -/
def renderSecrets (secrets : List (List Char × List Char)) : List Char :=
  secrets.flatMap (fun (u, p) => u ++ ':' :: p ++ ['\n'])

end Fabio.Model.C12
