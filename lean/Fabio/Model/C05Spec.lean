import Fabio.Model.Route
import Fabio.Model.Parse
/-!
C05 — the specification side: the invariants of reachable tables, the abstraction of a concrete table to
"(host, path) ↦ list of targets", and the *spec machine* that states the documented meaning of
`route add` / `route del` / `route weight` directly on that abstraction (`route.Commands`, the comment on
`delRoute`, docs/content/cfg/_index.md; where those are silent the spec follows the code and says so:
de-duplication ignores options; `route weight` spreads the share evenly over the matching targets and a share
≤ 0 makes them dynamic again).  Core Lean only (linked into the driver).
-/
namespace Fabio.Model.C05Spec
open Fabio Fabio.Model.Route Fabio.Model.Parse

/-! ### invariants of tables -/

/-- host keys unique (it is a Go map), paths unique per host (`addRoute` appends a route only when
`find(path) == nil`), `Route.Host` equals the key it is stored under. -/
structure WF (t : Table) : Prop where
  hosts : (t.map (·.1)).Nodup
  paths : ∀ kv ∈ t, (kv.2.map (·.path)).Nodup
  hostOf : ∀ kv ∈ t, ∀ r ∈ kv.2, r.host = kv.1

/-- no host without routes, no route without targets -/
def NoEmpty (t : Table) : Prop := ∀ kv ∈ t, kv.2 ≠ [] ∧ ∀ r ∈ kv.2, r.targets ≠ []

/-- the effective weights are those `weighTargets` computes from the current target list -/
def Weighed (t : Table) : Prop := ∀ kv ∈ t, ∀ r ∈ kv.2, weigh r.targets = r.targets

structure Inv (t : Table) : Prop where
  wf : WF t
  noEmpty : NoEmpty t
  weighed : Weighed t

/-- every host of the table is a pattern `glob.Compile` accepts (`addRoute` checks it when it creates the host) -/
def HostsOK (env : Env) (t : Table) : Prop := ∀ kv ∈ t, env.globOK kv.1 = true

/-- a table some command list produces from the empty table (before the final sort) -/
def Reachable (env : Env) (t : Table) : Prop := ∃ defs : List RouteDef, defs.foldlM (applyDef env) [] = .ok t

/-! ### abstraction -/

abbrev Spec := Str → Str → List Target

def targetsAt (t : Table) (h p : Str) : List Target :=
  match t.route h p with
  | some r => r.targets
  | none => []

/-- the abstraction function: what the table routes, per (host, path) -/
def abs (t : Table) : Spec := targetsAt t

/-- where a command's `src` points: lower-cased host, path -/
def key (src : Str) : Str × Str := (lowerL (hostpath src).1, (hostpath src).2)

def upd (S : Spec) (h p : Str) (ts : List Target) : Spec :=
  fun h' p' => if h' = h ∧ p' = p then ts else S h' p'

/-- the target `route add` describes (`addTarget` clamps a negative weight to 0) -/
def newTarget (d : RouteDef) (url : Str) : Target :=
  { service := d.service, tags := d.tags, opts := d.opts, url, fixedWeight := if d.weight < 0 then 0 else d.weight }

/-- `addTarget`'s duplicate test: same service, URL, fixed weight and tags (options are not compared) -/
def isDup (ts : List Target) (x : Target) : Bool :=
  ts.any (fun t => t.service == x.service && t.url == x.url && t.fixedWeight == x.fixedWeight && t.tags == x.tags)

/-! ### the spec machine -/

/-- `route add <svc> <src> <dst> …`: append the target to the list for (lower-cased host, path) unless an equal
one is there already; nothing else changes. The host must be a valid glob pattern (the code compiles it when
the host is new — every host of a table has passed that check, `HostsOK`); a route is created (and its path
compiled as a glob) only when the list was empty. -/
def specAdd (env : Env) (S : Spec) (d : RouteDef) : Except Err Spec :=
  let h := (key d.src).1
  let p := (key d.src).2
  if d.src.isEmpty then .error .invalidPrefix else
  if d.dst.isEmpty then .error .invalidTarget else
  match env.normURL d.dst with
  | none => .error .badURL
  | some url =>
    if !env.globOK h then .error .badGlob else
    if (S h p).isEmpty && !env.globOK p then .error .badGlob else
    if isDup (S h p) (newTarget d url) then .ok S else
    .ok (upd S h p (weigh (S h p ++ [newTarget d url])))

/-- which targets a `route del` selects: `(restriction to one (host,path), predicate)` -/
def delSelTags (d : RouteDef) (tg : Target) : Bool :=
  (d.service.isEmpty || tg.service == d.service) && containsAll tg.tags d.tags
def delSelSvc (d : RouteDef) (tg : Target) : Bool := tg.service == d.service
def delSelSvcDst (d : RouteDef) (url : Str) (tg : Target) : Bool := tg.service == d.service && tg.url == url

def dropSel (sel : Target → Bool) (ts : List Target) : List Target := weigh (ts.filter (fun tg => !sel tg))

/-- `route del …`, five forms: `tags`, `<svc> tags`, `<svc>`, `<svc> <src>`, `<svc> <src> <dst>`. The selected
targets disappear, all others stay in order (their shares are recomputed). -/
def specDel (env : Env) (S : Spec) (d : RouteDef) : Except Err Spec :=
  let h := (key d.src).1
  let p := (key d.src).2
  if !d.tags.isEmpty then .ok (fun h p => dropSel (delSelTags d) (S h p))
  else if d.src.isEmpty && d.dst.isEmpty then .ok (fun h p => dropSel (delSelSvc d) (S h p))
  else if d.dst.isEmpty then .ok (upd S h p (dropSel (delSelSvc d) (S h p)))
  else match env.normURL d.dst with
    | none => .error .badURL
    | some url => .ok (upd S h p (dropSel (delSelSvcDst d url) (S h p)))

/-- `route weight [<svc>] <src> weight <w> [tags …]`: the share `w` is split evenly over the matching
targets of that one (host,path); no target matches = error. -/
def specWeigh (S : Spec) (d : RouteDef) : Except Err Spec :=
  let h := (key d.src).1
  let p := (key d.src).2
  if d.src.isEmpty then .error .invalidPrefix else
  let n := ((S h p).filter (matchesWeight d.service d.tags)).length
  if n = 0 then .error .noMatch else
  .ok (upd S h p (weigh ((S h p).map (fun t =>
    if matchesWeight d.service d.tags t then { t with fixedWeight := d.weight / (n : Rat) } else t))))

def specApply (env : Env) (S : Spec) (d : RouteDef) : Except Err Spec :=
  match d.cmd with
  | .add => specAdd env S d
  | .del => specDel env S d
  | .weight => specWeigh S d
  | .other _ => .error .invalidCommand

def specEmpty : Spec := fun _ _ => []

def specRun (env : Env) (defs : List RouteDef) : Except Err Spec := defs.foldlM (specApply env) specEmpty

/-! ### what the text rendering carries -/

/-- the `route add` command `TargetConfig` writes for a target, as a definition -/
def defOfTarget (r : Route) (t : Target) : RouteDef :=
  { cmd := .add, service := t.service, src := r.host ++ r.path, dst := t.url,
    weight := if 0 < t.fixedWeight then round4Rat t.fixedWeight else 0,
    tags := t.tags, opts := sortOpts t.opts }

/-- the definitions `Table.String()` writes, in its order -/
def defsOfTable (t : Table) : List RouteDef :=
  (hostOrder t).flatMap (fun h => (t.get h).flatMap (fun r =>
    r.targets.map (defOfTarget r)))

/-- a target as the text carries it: weight to four decimals (≤ 0 = none), options sorted by key -/
def norm4 (t : Target) : Target :=
  { t with fixedWeight := if 0 < t.fixedWeight then round4Rat t.fixedWeight else 0, opts := sortOpts t.opts, weight := 0 }

end Fabio.Model.C05Spec
