import Fabio.Model.C01
import Fabio.Model.C14
/-!
C01 phase 2 — the composed executable pipeline: the C01 model (`Model/C01.lean`) with its parameter `cmds`
(`routecmd.build`) instantiated by C14's model of the repaired `build` (`Model/C14.lean`), and the `build` parameter
of the `watchBackend` step machine instantiated by `loadTable` (`Model/Parse.lean` + `Model/Route.lean`).
Core Lean only (linked into the driver: stream `c01.pipeline` uses `svcText` and `loadTable` as its model).
-/
namespace Fabio.Model.C01Compose
open Fabio Fabio.Model.C01
open Fabio.Model.Route (Env Table)
open Fabio.Model.C14 (Reg Cfg build)
open Fabio.Model.Parse (loadTable ParseFloat)

/-- what `routecmd.build` reads of a catalog entry -/
def regOf (i : Instance) : Reg :=
  { name := i.serviceName, svcAddr := i.serviceAddress, nodeAddr := i.address, port := i.port, tags := i.tags }

section
variable (env : Env) (pf : ParseFloat) (cfg : Cfg) (st : List Str) (strict : Bool)
variable (checks : List Check) (catalog : Str → List Instance)

/-- `routecmd.build` (C14's model of the repaired code) on a catalog entry -/
def cmdsOf (i : Instance) : List Str := build env pf cfg (regOf i)

/-- the checks `Watch` hands to `makeConfig` -/
def passingOf : List Check := passingServices (checksWithTagPrefix cfg.pfx checks) st strict

/-- the catalog entries `serviceConfig` hands to `routecmd.build`, over all service names -/
def routed : List Instance :=
  (serviceNames (passingOf cfg st strict checks)).flatMap (joined keyPair (passingOf cfg st strict checks) catalog)

/-- the lines `Watch` sends: the C01 model with `cmds := C14.build` -/
def svcLines : List Str := watchOnce keyPair (cmdsOf env pf cfg) cfg.pfx st strict checks catalog

/-- the lines `Watch` sends in a round in which the catalog lookups of the services `fails` selects fail
(`serviceConfig` returns nil for them) -/
def svcLinesF (fails : Str → Bool) : List Str :=
  watchOnceF fails keyPair (cmdsOf env pf cfg) cfg.pfx st strict checks catalog

/-- the text `Watch` sends -/
def svcText : Str := joinLines (svcLines env pf cfg st strict checks catalog)

/-- `route.NewTable` on a text, as the `build` parameter of the step machine -/
def loadOpt (s : Str) : Option Table := (loadTable env pf s).toOption

end
end Fabio.Model.C01Compose
