import Fabio.Basic
/-!
C09 — TCP, TCP+SNI and WebSocket tunnels are transparent byte streams.

Executable model (core Lean only) of

* a scripted connection (`Script` = what successive `Read` calls on the socket can deliver),
* `copyBuffer` (`/repo/proxy/tcp/copy_buffer.go`) as a loop over `Read`/`Write` results,
* `bufio.Reader` (`Peek`/`Read`/`fill`, `io.ReadFull`) on a scripted connection,
* `clientHelloBufferSize`, `SNIProxy.ServeTCP` up to and including the client→upstream copy,
* `WriteProxyHeader`,
* the two-direction tunnel as a state machine over events (module section `Tunnel`).

What is *modelled rather than verified*: `net.Conn` (a `Read` returns a non-empty prefix of the next
scripted segment, or the scripted error, never `(0, nil)`), `bufio.Reader` (followed line by line from
Go 1.23 `bufio/bufio.go`; differentially checked against the real one in stream `c09.bufio`),
`net.SplitHostPort ∘ Addr.String`, `net.ParseIP(..).To4()`.
-/
namespace Fabio.Model.C09

abbrev Bytes := List UInt8

/-! ## Scripted connection -/

/-- One event on the read side of a socket: a segment of bytes, a clean end of stream, or an error. -/
inductive ReadEv where
  | chunk (bs : Bytes)
  | eof
  | err
deriving Repr, BEq, DecidableEq

abbrev Script := List ReadEv

/-- The error value a `Read` call can return. -/
inductive RdErr where
  | eof
  | err
deriving Repr, BEq, DecidableEq

/-- `conn.Read(p)` with `len(p) = cap`. A segment longer than `cap` is delivered in pieces; `eof`/`err`
are sticky; an exhausted script reads as EOF; empty segments do not exist on a socket and are skipped. -/
def connRead (cap : Nat) : Script → Bytes × Option RdErr × Script
  | [] => ([], some .eof, [])
  | .eof :: r => ([], some .eof, .eof :: r)
  | .err :: r => ([], some .err, .err :: r)
  | .chunk bs :: r =>
    if bs = [] then connRead cap r
    else if bs.length ≤ cap then (bs, none, r)
    else (bs.take cap, none, .chunk (bs.drop cap) :: r)

/-- The byte stream a script carries: everything up to the first `eof`/`err`. -/
def streamOf : Script → Bytes
  | [] => []
  | .chunk bs :: r => bs ++ streamOf r
  | .eof :: _ => []
  | .err :: _ => []

/-- How the stream ends. -/
def endOf : Script → RdErr
  | [] => .eof
  | .chunk _ :: r => endOf r
  | .eof :: _ => .eof
  | .err :: _ => .err

/-- Number of bytes in all segments before the end (a bound on the number of non-empty reads). -/
def totalBytes (s : Script) : Nat := (streamOf s).length

/-! ## copyBuffer -/

/-- Result of one `dst.Write(p)`: everything accepted, `n` bytes accepted without an error (a short
write), or `n` bytes accepted and an error. A writer script that has run out accepts everything. -/
inductive WriteEv where
  | full
  | short (n : Nat)
  | fail (n : Nat)
deriving Repr, BEq, DecidableEq

abbrev WScript := List WriteEv

/-- `(nw, ew ≠ nil, rest)` -/
def connWrite (bs : Bytes) : WScript → Nat × Bool × WScript
  | [] => (bs.length, false, [])
  | .full :: r => (bs.length, false, r)
  | .short n :: r => (min n bs.length, false, r)
  | .fail n :: r => (min n bs.length, true, r)

inductive CopyErr where
  | none         -- source ended with io.EOF: copyBuffer returns nil
  | read         -- source error is returned
  | write        -- destination error is returned
  | shortWrite   -- io.ErrShortWrite
  | stuck        -- only for a zero-length buffer (the Go loop would spin); never for `0 < cap`
deriving Repr, BEq, DecidableEq

structure CopyRes where
  written : Bytes      -- bytes accepted by the destination, in order
  counter : Nat        -- what was added to the metrics counter
  err : CopyErr
  src : Script         -- what is left on the source
  dst : WScript
deriving Repr, BEq, DecidableEq

def CopyErr.ofRd : RdErr → CopyErr
  | .eof => .none
  | .err => .read

/-- The `for` loop of `copyBuffer`; one iteration per unit of fuel. -/
def copyLoop (cap : Nat) : Nat → Script → WScript → CopyRes
  | 0, s, w => { written := [], counter := 0, err := .stuck, src := s, dst := w }
  | fuel+1, s, w =>
    match connRead cap s with
    | (bs, er, s') =>
      if bs ≠ [] then                                   -- nr > 0
        match connWrite bs w with
        | (nw, ew, w') =>
          if ew then { written := bs.take nw, counter := nw, err := .write, src := s', dst := w' }
          else if nw ≠ bs.length then
            { written := bs.take nw, counter := nw, err := .shortWrite, src := s', dst := w' }
          else match er with
            | some e => { written := bs, counter := nw, err := .ofRd e, src := s', dst := w' }
            | none =>
              let r := copyLoop cap fuel s' w'
              { r with written := bs ++ r.written, counter := nw + r.counter }
      else match er with
        | some e => { written := [], counter := 0, err := .ofRd e, src := s', dst := w }
        | none => copyLoop cap fuel s' w

/-- `copyBuffer(dst, src, counter)` with a buffer of `cap` bytes (the code: `32*1024`). Every iteration
with `0 < cap` either ends the loop or consumes at least one byte, so `totalBytes + 1` iterations suffice
(`copy_never_stuck`). -/
def copyBuffer (cap : Nat) (s : Script) (w : WScript) : CopyRes :=
  copyLoop cap (totalBytes s + 1) s w

def copyBufSize : Nat := 32 * 1024

/-! ## bufio.Reader on a scripted connection -/

structure BufReader where
  size : Nat               -- len(b.buf); bufio.NewReader: 4096
  buf : Bytes              -- b.buf[b.r:b.w], the buffered unread bytes
  err : Option RdErr       -- b.err, reported (and cleared) by readErr
  conn : Script
deriving Repr, BEq, DecidableEq

def defaultBufSize : Nat := 4096

def BufReader.new (conn : Script) (size : Nat := defaultBufSize) : BufReader :=
  { size := size, buf := [], err := none, conn := conn }

/-- `b.fill()`: slide, then one `Read` into the free part of the buffer (callers guarantee it is not
full). The retry loop for `(0, nil)` reads is not modelled: the scripted connection never returns that. -/
def BufReader.fill (b : BufReader) : BufReader :=
  match connRead (b.size - b.buf.length) b.conn with
  | (bs, e, c') => { b with buf := b.buf ++ bs, err := (match e with | some x => some x | none => b.err), conn := c' }

def BufReader.peekLoop (n : Nat) : Nat → BufReader → BufReader
  | 0, b => b
  | fuel+1, b =>
    if b.buf.length < n ∧ b.buf.length < b.size ∧ b.err = none then peekLoop n fuel b.fill else b

inductive PeekErr where
  | bufferFull
  | rd (e : RdErr)
deriving Repr, BEq, DecidableEq

/-- `b.Peek(n)` -/
def BufReader.peek (n : Nat) (b : BufReader) : Bytes × Option PeekErr × BufReader :=
  let b := BufReader.peekLoop n (n + 1) b
  if n > b.size then (b.buf, some .bufferFull, b)
  else if b.buf.length < n then
    match b.err with
    | some e => (b.buf, some (.rd e), { b with err := none })
    | none => (b.buf, some .bufferFull, b)
  else (b.buf.take n, none, b)

/-- `b.Read(p)` with `len(p) = n`. -/
def BufReader.read (n : Nat) (b : BufReader) : Bytes × Option RdErr × BufReader :=
  if n = 0 then
    if b.buf ≠ [] then ([], none, b) else ([], b.err, { b with err := none })
  else if b.buf = [] then
    match b.err with
    | some e => ([], some e, { b with err := none })
    | none =>
      if n ≥ b.size then
        -- large read, empty buffer: read directly into p
        match connRead n b.conn with
        | (bs, e, c') => (bs, e, { b with conn := c', err := none })
      else
        match connRead b.size b.conn with
        | (bs, e, c') =>
          if bs = [] then ([], e, { b with conn := c', err := none })
          else (bs.take n, none, { b with buf := bs.drop n, err := e, conn := c' })
  else (b.buf.take n, none, { b with buf := b.buf.drop n })

inductive FullErr where
  | eof | unexpectedEOF | err
deriving Repr, BEq, DecidableEq

/-- `io.ReadFull(b, data)` with `len(data) = want`: `Read` until `want` bytes or an error. -/
def BufReader.readFullLoop (want : Nat) : Nat → Bytes → BufReader → Bytes × Option FullErr × BufReader
  | 0, acc, b => (acc, if acc.length ≥ want then none else some .err, b)
  | fuel+1, acc, b =>
    if acc.length ≥ want then (acc, none, b)
    else
      match b.read (want - acc.length) with
      | (bs, e, b') =>
        let acc' := acc ++ bs
        match e with
        | none => readFullLoop want fuel acc' b'
        | some e =>
          if acc'.length ≥ want then (acc', none, b')
          else if acc'.length > 0 ∧ e = .eof then (acc', some .unexpectedEOF, b')
          else (acc', some (match e with | .eof => .eof | .err => .err), b')

def BufReader.readFull (want : Nat) (b : BufReader) : Bytes × Option FullErr × BufReader :=
  BufReader.readFullLoop want (want + 1) [] b

/-- What a reader of the `bufio.Reader` sees from now on, as a script: the buffered bytes, then the
pending error (if any), then the rest of the socket. With a destination of at least `size` bytes this is
exactly how `Read` behaves (buffered bytes first, then direct reads). -/
def BufReader.asScript (b : BufReader) : Script :=
  (if b.buf = [] then [] else [.chunk b.buf]) ++
  (match b.err with | some .eof => [.eof] | some .err => [.err] | none => []) ++ b.conn

/-! ## SNIProxy.ServeTCP -/

/-- `clientHelloBufferSize(tlsHeaders)` on the 9 peeked bytes: `some (handshakeLength + 9)` or an error. -/
def helloSize : Bytes → Option Nat
  | t :: _ :: _ :: l1 :: l2 :: ht :: h1 :: h2 :: h3 :: _ =>
    let recLen := l1.toNat * 256 + l2.toNat
    let hsLen := h1.toNat * 65536 + h2.toNat * 256 + h3.toNat
    if t ≠ 0x16 then none
    else if recLen = 0 ∨ recLen > 16384 then none
    else if ht ≠ 0x01 then none
    else if hsLen = 0 ∨ hsLen + 4 > recLen then none
    else some (hsLen + 9)
  | _ => none

inductive SniStage where
  | peekFailed | badHeader | readFullFailed | noRoute | tunnel
deriving Repr, BEq, DecidableEq

structure SniRes where
  stage : SniStage
  hello : Bytes          -- `data`: what ReadFull returned
  excess : Bytes         -- bytes pulled from the socket that sit in the bufio buffer after ReadFull
  upstream : Bytes       -- everything written to the upstream connection
  copyErr : CopyErr
deriving Repr, BEq, DecidableEq

/-- Which reader the client→upstream `copyBuffer` is given. -/
inductive CopySrc where
  | rawConn      -- `in`: the socket itself (the code before the D13 repair, /repo 937ee59)
  | buffered     -- `tlsReader`: the bufio.Reader that peeked the hello
deriving Repr, BEq, DecidableEq

/-- `SNIProxy.ServeTCP` for a client whose socket delivers `script`; `routed` = `readServerName` found a
name and `Lookup` a target (parser and table are C10's/C03's business); `proxyLine` = the PROXY header
if the target asks for one, else `[]`; the upstream accepts every write. -/
def sniServe (src : CopySrc) (routed : Bool) (proxyLine : Bytes) (script : Script) : SniRes :=
  let rd := BufReader.new script
  match rd.peek 9 with
  | (_, some _, _) => { stage := .peekFailed, hello := [], excess := [], upstream := [], copyErr := .none }
  | (hdr, none, rd) =>
    match helloSize hdr with
    | none => { stage := .badHeader, hello := [], excess := rd.buf, upstream := [], copyErr := .none }
    | some want =>
      match rd.readFull want with
      | (data, some _, rd) => { stage := .readFullFailed, hello := data, excess := rd.buf, upstream := [], copyErr := .none }
      | (data, none, rd) =>
        if !routed then { stage := .noRoute, hello := data, excess := rd.buf, upstream := [], copyErr := .none }
        else
          -- dial → PROXY line → hello → copy
          let from_ : Script := match src with
            | .rawConn => rd.conn
            | .buffered => rd.asScript
          let c := copyBuffer copyBufSize from_ []
          { stage := .tunnel, hello := data, excess := rd.buf,
            upstream := proxyLine ++ data ++ c.written, copyErr := c.err }

/-- Which reader the code in the current tree hands to the client→upstream copy of `SNIProxy.ServeTCP`
(pinned against the source by `Props/C09Facts.lean`). -/
def codeCopySrc : CopySrc := .buffered

/-- Does `DynamicProxy.ServeTCP` call `WriteProxyHeader` (pinned by `Props/C09Facts.lean`)? -/
def dynWritesProxyHeader : Bool := true

/-- Plain `Proxy.ServeTCP` / `DynamicProxy.ServeTCP`, client→upstream direction. -/
def tcpServe (proxyLine : Bytes) (script : Script) : Bytes × CopyErr :=
  let c := copyBuffer copyBufSize script []
  (proxyLine ++ c.written, c.err)

/-! ## WriteProxyHeader -/

def asciiBytes (s : List Char) : Bytes := s.map (fun c => UInt8.ofNat c.toNat)

def splitOnDot (s : List Char) : List (List Char) :=
  let rec go (cur : List Char) : List Char → List (List Char)
    | [] => [cur.reverse]
    | c :: cs => if c = '.' then cur.reverse :: go [] cs else go (c :: cur) cs
  go [] s

def decOctet (f : List Char) : Bool :=
  f ≠ [] ∧ f.length ≤ 3 ∧ f.all Char.isDigit ∧ (f.length = 1 ∨ f.head? ≠ some '0') ∧
  f.foldl (fun n c => n * 10 + (c.toNat - 48)) 0 ≤ 255

/-- `net.ParseIP(s).To4() != nil` for the address texts a `*net.TCPAddr` prints: dotted quads are IPv4,
everything with a colon (and anything unparsable) is not. (IPv4-mapped IPv6 texts such as
`::ffff:1.2.3.4` are printed by Go as dotted quads, so they never reach this function in that form.) -/
def isIPv4Text (s : List Char) : Bool :=
  let fs := splitOnDot s
  fs.length = 4 ∧ fs.all decOctet

/-- The line `WriteProxyHeader` writes, from the host/port texts of `in.RemoteAddr()`/`in.LocalAddr()`. -/
def proxyHeader (clientAddr clientPort serverAddr serverPort : List Char) : List Char :=
  "PROXY ".toList ++ (if isIPv4Text clientAddr then "TCP4".toList else "TCP6".toList) ++ [' '] ++
  clientAddr ++ [' '] ++ serverAddr ++ [' '] ++ clientPort ++ [' '] ++ serverPort ++ ['\r', '\n']

/-! ## The assumed socket contract

The tunnel machine below delivers what a copy direction has written (`fwdC2U`/`fwdU2C` append to `upSaw`/
`clSaw` at once) and lets `finish` close both connections without touching what was delivered. That is the
contract of an ordinary TCP socket *as the handlers use it*, and it is an assumption of every theorem about
the machine:

* **Close is orderly.** `Close()` on a connection with default options queues a FIN *behind* the data
  already accepted by `Write`; the peer reads all of that data and then EOF. (With `SO_LINGER = 0`, or when the
  closing side has unread data, the kernel sends RST instead and queued data is discarded — outside the model.)
* **Writes are not time-bounded.** A `Write` on the outbound connection blocks until the data is accepted; no
  deadline makes a later write fail.
* Consequently the tunnel handlers must not set linger, deadlines, buffer sizes or keep-alive options; the one
  half-close they perform is `CloseWrite` on the upstream connection after the client→upstream copy has ended
  with EOF (it queues a FIN behind the forwarded data: the upstream reads everything, then EOF — event `c2uEOF`
  of the tunnel machine in mode `clientHalf`). `Props/C09Facts.lean` (`no_socket_options_in_tunnel_handlers`) pins the complete list
  of such calls in `tcp_proxy.go`, `sni_proxy.go`, `tcp_dynamic_proxy.go`, `proxy_proto.go`, `copy_buffer.go`
  (none), in `ws_handler.go` (the 1 s read deadline around the handshake read, cleared before the copy phase)
  and the shape of `server.go`'s `conn` wrapper (per-call read/write deadlines only when `ReadTimeout`/
  `WriteTimeout` are configured; the streams run with the default 0). The streams `c09.tunnel`/`c09.ws` exercise
  the contract on sockets: a large final burst towards a slowly reading upstream followed by the client's
  close, and client data sent long after the configured dial timeout. -/

/-- Do the tcp tunnel handlers touch socket options or deadlines, or half-close anything but the upstream after
the client's EOF (pinned by `C09Facts`)? -/
def tunnelHandlersTouchSocketOptions : Bool := false


/-! ## The connection wrapper of `tcp.Server` (`server.go`, type `conn`): per-call deadlines

With a listener write timeout `wt > 0` every `Write` first arms the deadline `now + wt` and then writes; the
write fails iff it is still blocked when the deadline in force passes. Time is in ticks; a write is (`t` = when it
is issued, `d` = how long the peer makes it block). `Read` is the same with `rt`. `C09Facts` pins the shape
(`Write: SetWriteDeadline(now+recv.WriteTimeout) if recv.WriteTimeout > 0`), the class `*-timeouts` of `c09.tunnel`
runs it. `lazy` is the arming rule of seeded change m10 (re-arm only when more than `wt/4` has passed since the
value remembered — which is the deadline itself), kept as the counter-model. -/

inductive Arming where
  | everyCall
  | lazy
deriving Repr, BEq, DecidableEq

structure ConnW where
  deadline : Option Nat := none   -- write deadline in force
  last : Nat := 0                 -- `lazy`: the remembered time (0 = the zero time)
deriving Repr, BEq, DecidableEq

/-- One `Write` issued at `t` that blocks for `d` ticks: (succeeded, state). -/
def ConnW.write (a : Arming) (wt : Nat) (c : ConnW) (t d : Nat) : Bool × ConnW :=
  let c' : ConnW :=
    if wt = 0 then c
    else match a with
      | .everyCall => { c with deadline := some (t + wt) }
      | .lazy => if t - c.last > wt / 4 then { deadline := some (t + wt), last := t + wt } else c
  (match c'.deadline with
   | none => true
   | some dl => t + d < dl, c')

/-- A sequence of writes `(t, d)`; the results. -/
def ConnW.writes (a : Arming) (wt : Nat) : ConnW → List (Nat × Nat) → List Bool
  | _, [] => []
  | c, (t, d) :: r => let (ok, c') := c.write a wt t d; ok :: ConnW.writes a wt c' r

/-! ## The two-direction tunnel as a state machine -/

/-- How the proxy reacts when one copy direction finishes.
* `firstEnds`: the code before the D14 repair (`err = <-errc`, return, deferred `Close` of both connections:
  whichever direction ends first ends the tunnel).
* `halfClose`: the symmetric textbook repair that was evaluated and rejected — propagate every EOF with
  `CloseWrite` and wait for both directions; after a client EOF nothing ties the handler to the inbound
  connection any more, so `Server.Shutdown` cannot end it (`naive_half_close_survives_shutdown`).
* `clientHalf`: the repair that was made. The client→upstream goroutine, on a clean EOF, calls
  `CloseWrite` on the upstream connection and then *waits for the client connection to be closed*
  (`<-conn.Done()`) before it reports on `errc`; the upstream→client direction keeps running and its end (or
  the server closing the client connection) ends the tunnel. The websocket handler does the same without the
  wait (its goroutine simply does not report). -/
inductive Mode where
  | firstEnds
  | halfClose
  | clientHalf
deriving Repr, BEq, DecidableEq

/-- The mode of the code in `/repo`, pinned to the source by `C09Facts.tunnel_teardown_mode` (the events of the
client→upstream goroutine). -/
def codeMode : Mode := .clientHalf

structure Tun where
  pre : Bytes := []            -- written to the upstream before the copy phase (PROXY line, hello)
  cSent : Bytes := []          -- everything the client has sent
  cFin : Bool := false         -- client has finished sending (half-close or close)
  uSent : Bytes := []
  uFin : Bool := false
  c2u : Nat := 0               -- bytes of cSent the client→upstream copy has forwarded
  u2c : Nat := 0
  c2uDone : Bool := false      -- the copy goroutine has returned (saw EOF)
  u2cDone : Bool := false
  torn : Bool := false         -- ServeTCP has returned: both connections closed
  upSaw : Bytes := []          -- delivered to the upstream
  upEOF : Bool := false        -- upstream has seen the end of the client's stream
  clSaw : Bytes := []
  clEOF : Bool := false
deriving Repr, BEq, DecidableEq

inductive Ev where
  | clientSend (bs : Bytes)
  | clientFin
  | upSend (bs : Bytes)
  | upFin
  | fwdC2U            -- one Read+Write of the client→upstream copy: forwards what is pending
  | fwdU2C
  | c2uEOF            -- client→upstream copy reads EOF and returns
  | u2cEOF
  | finish            -- ServeTCP returns (`<-errc`), deferred Closes run
deriving Repr, BEq, DecidableEq

/-- One event; an event whose guard is false leaves the state unchanged. -/
def step (m : Mode) (s : Tun) : Ev → Tun
  | .clientSend bs => if s.cFin then s else { s with cSent := s.cSent ++ bs }
  | .clientFin => { s with cFin := true }
  | .upSend bs => if s.uFin then s else { s with uSent := s.uSent ++ bs }
  | .upFin => { s with uFin := true }
  | .fwdC2U =>
    if s.torn ∨ s.c2uDone then s
    else { s with c2u := s.cSent.length, upSaw := s.upSaw ++ s.cSent.drop s.c2u }
  | .fwdU2C =>
    if s.torn ∨ s.u2cDone then s
    else { s with u2c := s.uSent.length, clSaw := s.clSaw ++ s.uSent.drop s.u2c }
  | .c2uEOF =>
    if s.torn ∨ s.c2uDone ∨ !s.cFin ∨ s.c2u < s.cSent.length then s
    else match m with
      | .firstEnds => { s with c2uDone := true }
      | .halfClose => { s with c2uDone := true, upEOF := true }       -- CloseWrite(out)
      | .clientHalf => { s with c2uDone := true, upEOF := true }      -- CloseWrite(out), then wait for Done
  | .u2cEOF =>
    if s.torn ∨ s.u2cDone ∨ !s.uFin ∨ s.u2c < s.uSent.length then s
    else match m with
      | .firstEnds => { s with u2cDone := true }
      | .halfClose => { s with u2cDone := true, clEOF := true }
      | .clientHalf => { s with u2cDone := true }
  | .finish =>
    let ready := match m with
      | .firstEnds => s.c2uDone ∨ s.u2cDone
      | .halfClose => s.c2uDone ∧ s.u2cDone
      | .clientHalf => s.u2cDone       -- the client→upstream direction reports only once the connection is closed
    if s.torn ∨ !ready then s else { s with torn := true, upEOF := true, clEOF := true }

def run (m : Mode) (s : Tun) (h : List Ev) : Tun := h.foldl (step m) s

def Tun.init (pre : Bytes) : Tun := { pre := pre, upSaw := pre }

/-- `Server.Shutdown` / `Server.Close` (`closeConns`): the server closes the *inbound* connection of the
tunnel. What that does to the handler depends on what still ties it to that connection:
* `firstEnds`: the client→upstream copy is blocked in `Read` on it (or has already reported): it fails, reports,
  `ServeTCP` returns and closes the upstream connection too.
* `clientHalf`: the same while the client→upstream copy is running; after a client EOF its goroutine is parked in
  `<-conn.Done()`, which the close releases: it reports, `ServeTCP` returns.
* `halfClose` (the rejected repair): after a client EOF that goroutine is gone; the handler waits for the
  upstream→client copy, which is blocked in `Read` on the *upstream* connection — an idle upstream keeps handler
  and outbound socket alive. -/
def serverClose (m : Mode) (s : Tun) : Tun :=
  match m with
  | .firstEnds | .clientHalf => { s with torn := true, upEOF := true, clEOF := true }
  | .halfClose =>
    if s.c2uDone ∧ !s.u2cDone ∧ !s.torn then { s with clEOF := true }
    else { s with torn := true, upEOF := true, clEOF := true }

/-- The proxy's own steps. -/
def proxyEvs : List Ev := [.fwdC2U, .fwdU2C, .c2uEOF, .u2cEOF, .finish]

/-- No proxy step can change the state any more: everything that can be forwarded has been forwarded,
every EOF that can be observed has been observed, and the teardown has happened if it could. -/
def quiescent (m : Mode) (s : Tun) : Prop := ∀ e ∈ proxyEvs, step m s e = s

instance (m : Mode) (s : Tun) : Decidable (quiescent m s) := by
  unfold quiescent; exact inferInstance

/-! ## Scenario of the socket streams (`c09.tunnel`, `c09.ws`)

The harness runs: phase A (client sends `cstream` in its segmentation, upstream sends `ustream`),
a barrier (everything sent so far has arrived), then one closing order. The prediction of the model for
what both ends have seen when everything has stopped: -/

inductive CloseOrder where
  | client        -- client closes; upstream closes when it sees EOF
  | upstream      -- upstream closes
  | halfClose     -- client half-closes; the upstream answers `reply` when it sees EOF, then closes
  | halfIdle      -- client half-closes; the upstream answers `reply` when it sees EOF and stays idle (never
                  -- finishes); when the reply has arrived the server closes the client connection
deriving Repr, BEq, DecidableEq

/-- History of the closing phase for the given order, with every proxy step taken as soon as it is
enabled (the barrier makes the schedule deterministic). -/
def closeHistory (order : CloseOrder) (reply : Bytes) (m : Mode) : List Ev :=
  match order, m with
  | .client, _ => [.clientFin, .c2uEOF, .finish, .upFin, .u2cEOF, .finish]
  | .upstream, _ => [.upFin, .u2cEOF, .finish, .clientFin, .c2uEOF, .finish]
  | .halfClose, _ =>
    -- the upstream replies only after it has seen EOF; in mode firstEnds that is after `finish`, in the other
    -- modes the first `finish` is not enabled
    [.clientFin, .c2uEOF, .finish, .upSend reply, .fwdU2C, .upFin, .u2cEOF, .finish]
  | .halfIdle, _ => [.clientFin, .c2uEOF, .finish, .upSend reply, .fwdU2C]

def scenario (m : Mode) (pre cstream ustream reply : Bytes) (order : CloseOrder) : Tun :=
  let t := run m (Tun.init pre)
    ([.clientSend cstream, .upSend ustream, .fwdC2U, .fwdU2C] ++ closeHistory order reply m)
  match order with
  | .halfIdle => serverClose m t
  | _ => t

end Fabio.Model.C09
