import Fabio.Model.C11
/-!
Model of the two loaders a certificate source hands to `watch` (`cert/load.go`): `loadURL` (`HTTPSource`) and
`loadPath` (`PathSource`), and of how their results enter the watcher.

`net/http` is abstracted to what one `fetch(url)` of `loadURL` observes (`Fetch`): the request failed / the body
could not be read, or a status and a body. `path/filepath.Walk` + `os.Lstat`/`ReadDir`/`ReadFile` are abstracted to
the sequence of callback invocations (`Visit`) a directory tree gives rise to (`Node.visits`). `url.Parse`,
`path.Dir` and `URL.String` inside `base` are a parameter (`base : Name → Option Name`; the harness ships the
real function's answer with every case).
-/
namespace Fabio.Model.C11
open Fabio

def LoadResult.map {M N : Type} (f : M → N) : LoadResult M → LoadResult N
  | .err => .err
  | .blocks m => .blocks (f m)

/-- The Go map `pemBlocks` as an association list, most recent insertion first (`List.lookup` = map lookup
after all insertions). -/
abbrev PemMap (B : Type) := List (Name × B)

/-! ## `loadURL` -/

/-- What one `fetch(url)` sees. `fail`: `http.Get` returned an error (connection refused or reset, malformed
URL, unsupported scheme, too many redirects) or `io.ReadAll` did (body shorter than announced). -/
inductive Fetch (B : Type) where
  | fail
  | resp (status : Nat) (body : B)
deriving Repr, DecidableEq

/-- The closure `fetch` of `loadURL`. `checkStatus = true` is the function since `ea73618` (any answer other than
`200 OK` is an error); `false` is the function before, which returned whatever body came back. -/
def fetchBody {B : Type} (checkStatus : Bool) : Fetch B → Option B
  | .fail => none
  | .resp s b => if checkStatus && s != 200 then none else some b

/-- `strings.Split(s, string(sep))` for a one-byte separator: always at least one piece. -/
def splitOn (sep : Char) : List Char → List (List Char)
  | [] => [[]]
  | c :: cs =>
    if c == sep then [] :: splitOn sep cs
    else match splitOn sep cs with
      | [] => [[c]]
      | l :: ls => (c :: l) :: ls

/-- The loop over the lines of the list: empty lines are skipped, every other line `p` is fetched from
`baseURL + p`; the first fetch that fails ends the whole load. Returns the URLs requested (in order) and the map. -/
def fetchNames {B : Type} (chk : Bool) (fetch : Name → Fetch B) (baseURL : Name) :
    List Name → PemMap B → List Name × Option (PemMap B)
  | [], acc => ([], some acc)
  | p :: ps, acc =>
    if p.isEmpty then fetchNames chk fetch baseURL ps acc else
    match fetchBody chk (fetch (baseURL ++ p)) with
    | none => ([baseURL ++ p], none)
    | some b =>
      ((baseURL ++ p) :: (fetchNames chk fetch baseURL ps ((baseURL ++ p, b) :: acc)).1,
       (fetchNames chk fetch baseURL ps ((baseURL ++ p, b) :: acc)).2)

/-- `loadURL(listURL)`: the URLs requested, and the result (`blocks none` = the nil map of an empty URL).
`text` reads a body as the string that is split into lines. -/
def loadURLRun {B : Type} (chk : Bool) (base : Name → Option Name) (fetch : Name → Fetch B)
    (text : B → List Char) (listURL : Name) : List Name × LoadResult (Option (PemMap B)) :=
  if listURL.isEmpty then ([], .blocks none) else
  match base listURL with
  | none => ([], .err)
  | some b =>
    match fetchBody chk (fetch listURL) with
    | none => ([listURL], .err)
    | some list =>
      (listURL :: (fetchNames chk fetch b (splitOn '\n' (text list)) []).1,
       match (fetchNames chk fetch b (splitOn '\n' (text list)) []).2 with
       | none => .err
       | some m => .blocks (some m))

def loadURL {B : Type} (chk : Bool) (base : Name → Option Name) (fetch : Name → Fetch B)
    (text : B → List Char) (listURL : Name) : LoadResult (Option (PemMap B)) :=
  (loadURLRun chk base fetch text listURL).2

/-- The names a list announces: its non-empty lines. -/
def listedNames (body : List Char) : List Name := (splitOn '\n' body).filter (fun p => !p.isEmpty)

/-! ## `loadPath` -/

/-- A directory tree as `os.Lstat` / `os.ReadDir` / `os.ReadFile` present it. A `file` is anything that is not a
directory (regular file, symbolic link, …): `size` is what `Lstat` reports (for a symbolic link the length of
its target string, not of the file it points to), `content` what `os.ReadFile(path)` returns (`none`: it fails —
no permission, a dangling link, a link to a directory). A directory that cannot be listed is `readable = false`. -/
inductive Node (B : Type) where
  | file (name : Name) (size : Nat) (content : Option B)
  | dir (name : Name) (readable : Bool) (entries : List (Node B))

instance {B : Type} : Inhabited (Node B) := ⟨.file [] 0 none⟩

def Node.name {B : Type} : Node B → Name
  | .file n _ _ => n
  | .dir n _ _ => n

/-- Why a path could not be stat'ed / a directory not be listed, as far as the walk function distinguishes. -/
inductive FsErr where
  | notExist      -- `os.IsNotExist(err)`: ENOENT
  | other         -- no permission, a parent that is not a directory, an I/O error, …
deriving Repr, DecidableEq

inductive VisitKind (B : Type) where
  | lstatErr (e : FsErr)                      -- walkFn(path, nil, err-of-Lstat): the path cannot be stat'ed
  | dir (listErr : Option FsErr)              -- walkFn(path, info, err-of-ReadDir)
  | file (size : Nat) (content : Option B)    -- walkFn(path, info, nil), !info.IsDir()
deriving Repr, DecidableEq

/-- One invocation of the walk function: the path (key of the map), `info.Name()` and what is there. -/
structure Visit (B : Type) where
  path : Name
  name : Name
  kind : VisitKind B
deriving Repr, DecidableEq

/-- `filepath.Join(parent, name)` for a clean `parent` (which `makePath` guarantees for the root and `Walk`
preserves below it) and a plain entry name. -/
def joinPath (parent name : Name) : Name := parent ++ '/' :: name

mutual
/-- The invocations `filepath.Walk` makes for the node at `path` when the walk function never stops it: the node
itself, then — for a directory that can be listed — its entries in the order `ReadDir` returned them. -/
def Node.visits {B : Type} (path : Name) : Node B → List (Visit B)
  | .file n sz c => [⟨path, n, .file sz c⟩]
  | .dir n readable es =>
    ⟨path, n, .dir (if readable then none else some .other)⟩ :: (if readable then visitsList path es else [])
def visitsList {B : Type} (parent : Name) : List (Node B) → List (Visit B)
  | [] => []
  | e :: es => e.visits (joinPath parent e.name) ++ visitsList parent es
end

/-- What is at the root path. -/
inductive Root (B : Type) where
  | absent (name : Name) (e : FsErr)   -- Lstat fails: does not exist / a parent is a file or may not be searched
  | node (n : Node B)

def Root.visits {B : Type} (root : Name) : Root B → List (Visit B)
  | .absent n e => [⟨root, n, .lstatErr e⟩]
  | .node n => n.visits root

/-- The error the walk function is handed with a visit. -/
def Visit.err {B : Type} (v : Visit B) : Option FsErr :=
  match v.kind with
  | .lstatErr e => some e
  | .dir e => e
  | .file _ _ => none

/-- `filepath.Ext(name)` for a name without separators: from the last dot, empty if there is none. -/
def ext (name : Name) : Name :=
  match lastIndexOf '.' name with
  | some i => name.drop i
  | none => []

def hasDotPrefix : Name → Bool
  | '.' :: _ => true
  | _ => false

inductive CbRes (B : Type) where
  | skip                        -- return nil without touching the map
  | fail                        -- return a non-nil error: Walk stops and loadPath fails
  | add (key : Name) (b : B)    -- pemBlocks[path] = buf; return nil
deriving Repr, DecidableEq

def CbRes.isFail {B : Type} : CbRes B → Bool
  | .fail => true
  | _ => false

/-- The walk function of `loadPath`, statement by statement: an error on the root path itself is passed over when
the root does not exist ("a root directory which does not exist is an empty directory"; before `onlyNotExist`
— the repair `e63514f` — *every* error on the root was, by the type assertion `err.(*os.PathError)`), any other error
is returned; directories, names without the extension `.pem` and dot-files are passed over; so are files larger
than `maxSize`; a file that cannot be read fails the load. -/
def pathCallback {B : Type} (onlyNotExist : Bool) (maxSize : Nat) (root : Name) (v : Visit B) : CbRes B :=
  match v.kind with
  | .lstatErr e => if v.path = root && (!onlyNotExist || e == .notExist) then .skip else .fail
  | .dir (some e) => if v.path = root && (!onlyNotExist || e == .notExist) then .skip else .fail
  | .dir none => .skip
  | .file size content =>
    if ext v.name != sPem || hasDotPrefix v.name then .skip
    else if size > maxSize then .skip
    else match content with
      | none => .fail
      | some b => .add v.path b

def walkFold {B : Type} (strict : Bool) (maxSize : Nat) (root : Name) : List (Visit B) → PemMap B → Option (PemMap B)
  | [], acc => some acc
  | v :: vs, acc =>
    match pathCallback strict maxSize root v with
    | .skip => walkFold strict maxSize root vs acc
    | .fail => none
    | .add k b => walkFold strict maxSize root vs ((k, b) :: acc)

/-- `loadPath(root)` given the invocations the tree at `root` gives rise to. -/
def loadPath {B : Type} (strict : Bool) (maxSize : Nat) (root : Name) (visits : List (Visit B)) :
    LoadResult (Option (PemMap B)) :=
  if root.isEmpty then .blocks none else
  match walkFold strict maxSize root visits [] with
  | none => .err
  | some m => .blocks (some m)

/-- `MaxSize = 1 << 20` -/
def maxSize : Nat := 1048576

/-- A visit whose key would be added if it could be read. -/
def selected {B : Type} (maxSize : Nat) (v : Visit B) : Bool :=
  match v.kind with
  | .file size _ => ext v.name == sPem && !hasDotPrefix v.name && decide (size ≤ maxSize)
  | _ => false

/-! ## From a loaded map to the watcher's material

`reflect.DeepEqual` on `map[string][]byte` does not see insertion order; the material the watcher compares is
the map as a function. `canonMap` removes overwritten entries and orders by key, so `=` on the result is
`DeepEqual`. -/

def dedupKeys {B : Type} : PemMap B → PemMap B
  | [] => []
  | (k, b) :: rest => (k, b) :: (dedupKeys rest).filter (fun e => e.1 != k)

def canonMap {B : Type} (m : PemMap B) : PemMap B := isort (fun a b => lexLe a.1 b.1) (dedupKeys m)

/-- A PEM file body as far as the chain `loadURL`/`loadPath` → `loadCertificates` cares: its text (only the list of
an HTTP source is read as text) and what `tls.X509KeyPair` finds in it. -/
structure Body where
  text : List Char
  pem : FileC
deriving Repr, DecidableEq

/-- `loadCertificates` on what a loader returned (nil map: no certificates, no error), the published set being
certificates without names (identity only). The map is iterated in canonical order; every other iteration order
gives the same list (`Props.C11Order.loadCertificates_order_irrelevant`). -/
def mkFromMap (m : Option (PemMap Body)) : Option CertSet :=
  match m with
  | none => some []
  | some pm =>
    let blocks : Blocks := (canonMap pm).map fun e => (e.1, e.2.pem)
    (loadCertificates blocks (blocks.map (·.1))).map fun l => l.map fun e => ⟨e.2, []⟩

end Fabio.Model.C11
