import Fabio.Basic
/-!
Model of the part of Go's `net/url` (go1.24) that three access-log fields go through:
`$request_url` / `$upstream_request_url` = `(*url.URL).String()` and `$upstream_request_uri` =
`(*url.URL).RequestURI()`, with `EscapedPath`, `EscapedFragment`, `escape`, `unescape`, `validEncoded`,
`shouldEscape` and `Userinfo.String` underneath. The whole `url.URL` struct is modelled (every field the two
methods read), so the functions are total on whatever a caller puts into the struct.

Strings are byte strings here (`List Nat`, every element `< 256`): `escape` works on bytes and a non-ASCII
character becomes one `%XX` per UTF-8 byte. `c>>4` / `c&15` of a byte are `c / 16` / `c % 16`.
`escape` is modelled by its meaning (byte by byte); the two fast paths of the Go function (nothing to escape,
only spaces to turn into `+`) and its scratch buffer are not reproduced — this is the standard-library side of
the comparison, tied to the real package by the streams `c20.url` and `c20.render` on every run.
Core Lean only: this module is linked into the model driver.
-/
namespace Fabio.Model.C20Url

abbrev Bytes := List Nat

/-- the `encoding` modes `String()` and `RequestURI()` can reach -/
inductive Mode where
  | path | host | userPassword | fragment
deriving DecidableEq, Repr

def isAlnum (c : Nat) : Bool := (97 ≤ c && c ≤ 122) || (65 ≤ c && c ≤ 90) || (48 ≤ c && c ≤ 57)

/-- `! $ & ' ( ) * + , ; = : [ ] < > "` -/
def hostChars : Bytes := [33, 36, 38, 39, 40, 41, 42, 43, 44, 59, 61, 58, 91, 93, 60, 62, 34]
/-- `- _ . ~` -/
def markChars : Bytes := [45, 95, 46, 126]
/-- `$ & + , / : ; = ? @` -/
def reservedChars : Bytes := [36, 38, 43, 44, 47, 58, 59, 61, 63, 64]
/-- `! ( ) *` -/
def fragmentChars : Bytes := [33, 40, 41, 42]

/-- `shouldEscape(c, mode)` -/
def shouldEscape (c : Nat) (mode : Mode) : Bool :=
  if isAlnum c then false
  else if mode == .host && hostChars.contains c then false
  else if markChars.contains c then false
  else if reservedChars.contains c then
    match mode with
    | .path => c == 63                                       -- only `?`
    | .userPassword => c == 64 || c == 47 || c == 63 || c == 58   -- `@ / ? :`
    | .fragment => false
    | .host => true      -- no case in the inner switch: falls through to "everything else"
  else if mode == .fragment && fragmentChars.contains c then false
  else true

/-- `upperhex[n]` for `n < 16` -/
def upperhexDigit (n : Nat) : Nat := if n < 10 then 48 + n else 55 + n

def escapeByte (mode : Mode) (c : Nat) : Bytes :=
  if shouldEscape c mode then [37, upperhexDigit (c / 16), upperhexDigit (c % 16)] else [c]

/-- `escape(s, mode)` -/
def escape (s : Bytes) (mode : Mode) : Bytes := s.flatMap (escapeByte mode)

def ishex (c : Nat) : Bool := (48 ≤ c && c ≤ 57) || (97 ≤ c && c ≤ 102) || (65 ≤ c && c ≤ 70)

def unhex (c : Nat) : Nat :=
  if 48 ≤ c ∧ c ≤ 57 then c - 48 else if 97 ≤ c ∧ c ≤ 102 then c - 97 + 10 else if 65 ≤ c ∧ c ≤ 70 then c - 65 + 10 else 0

/-- `unescape(s, mode)` for the modes used here (path, fragment: no `+` translation, no host rules);
`none` = an `EscapeError` (a `%` not followed by two hex digits, anywhere in the string). -/
def unescape : Bytes → Option Bytes
  | [] => some []
  | c :: rest =>
    if c = 37 then
      match rest with
      | a :: b :: rest' =>
        if ishex a && ishex b then (unescape rest').map ((unhex a * 16 + unhex b) :: ·) else none
      | _ => none
    else (unescape rest).map (c :: ·)

/-- `! $ & ' ( ) * + , ; = : @ [ ] %` -/
def validExtra : Bytes := [33, 36, 38, 39, 40, 41, 42, 43, 44, 59, 61, 58, 64, 91, 93, 37]

/-- `validEncoded(s, mode)` -/
def validEncoded (s : Bytes) (mode : Mode) : Bool := s.all fun c => validExtra.contains c || !shouldEscape c mode

/-- `url.URL`; `user`: `nil`, or (username, password if set) -/
structure URL where
  scheme : Bytes := []
  opaq : Bytes := []
  user : Option (Bytes × Option Bytes) := none
  host : Bytes := []
  path : Bytes := []
  rawPath : Bytes := []
  omitHost : Bool := false
  forceQuery : Bool := false
  rawQuery : Bytes := []
  fragment : Bytes := []
  rawFragment : Bytes := []
deriving DecidableEq, Repr

/-- `u.EscapedPath()` -/
def escapedPath (u : URL) : Bytes :=
  if u.rawPath ≠ [] ∧ validEncoded u.rawPath .path = true ∧ unescape u.rawPath = some u.path then u.rawPath
  else if u.path = [42] then [42]      -- "*" is not escaped
  else escape u.path .path

/-- `u.EscapedFragment()` -/
def escapedFragment (u : URL) : Bytes :=
  if u.rawFragment ≠ [] ∧ validEncoded u.rawFragment .fragment = true ∧ unescape u.rawFragment = some u.fragment
  then u.rawFragment
  else escape u.fragment .fragment

/-- `(*Userinfo).String()` -/
def userString : Bytes × Option Bytes → Bytes
  | (name, none) => escape name .userPassword
  | (name, some pw) => escape name .userPassword ++ [58] ++ escape pw .userPassword

/-- the first path segment (up to the first `/`) contains a colon -/
def firstSegmentHasColon (p : Bytes) : Bool := (p.takeWhile (· != 47)).contains 58

def queryPart (u : URL) : Bytes := if u.forceQuery ∨ u.rawQuery ≠ [] then 63 :: u.rawQuery else []

/-- what `String()` writes between the scheme and the path when `Opaque` is empty -/
def authority (u : URL) : Bytes :=
  if u.scheme ≠ [] ∨ u.host ≠ [] ∨ u.user.isSome then
    if u.omitHost ∧ u.host = [] ∧ u.user.isNone then []
    else
      (if u.host ≠ [] ∨ u.path ≠ [] ∨ u.user.isSome then [47, 47] else []) ++
      (match u.user with | some ui => userString ui ++ [64] | none => []) ++
      (if u.host ≠ [] then escape u.host .host else [])
  else []

/-- `u.String()` -/
def urlString (u : URL) : Bytes :=
  let s0 : Bytes := if u.scheme ≠ [] then u.scheme ++ [58] else []
  let body : Bytes :=
    if u.opaq ≠ [] then s0 ++ u.opaq
    else
      let path := escapedPath u
      let b1 := s0 ++ authority u ++ (if path ≠ [] ∧ path.head? ≠ some 47 ∧ u.host ≠ [] then [47] else [])
      let b2 : Bytes := if b1 = [] ∧ firstSegmentHasColon path = true then [46, 47] else []
      b1 ++ b2 ++ path
  body ++ queryPart u ++ (if u.fragment ≠ [] then 35 :: escapedFragment u else [])

/-- `u.RequestURI()` -/
def requestURI (u : URL) : Bytes :=
  let r : Bytes :=
    if u.opaq = [] then (if escapedPath u = [] then [47] else escapedPath u)
    else if u.opaq.take 2 = [47, 47] then u.scheme ++ [58] ++ u.opaq
    else u.opaq
  r ++ queryPart u

/-! specification side -/

/-- bytes that can occur in an escaped path: alphanumerics, `- _ . ~`, `$ & + , / : ; = @`,
`! ' ( ) * [ ]` and `%`. No space, no control byte, no quote, no `?`, no `#`, nothing above 126. -/
def pathSafe (c : Nat) : Bool :=
  isAlnum c || [45, 95, 46, 126, 36, 38, 43, 44, 47, 58, 59, 61, 64, 33, 39, 40, 41, 42, 91, 93, 37].contains c

def wellFormed (s : Bytes) : Prop := ∀ c ∈ s, c < 256

end Fabio.Model.C20Url
