import Fabio.Model.C04
/-!
C04 — decidable specification predicates evaluated by the driver on the *implementation's own output*
(independent of the model functions), the IEEE-754 rounding needed to recompute Go's slot counts from its
float64 weights exactly, and an `Array`-based ring fill used only for speed (shown equal to the list model in
`Props/C04.lean`, theorem `fillA_refines`). Core Lean only.
-/
namespace Fabio.Model.C04
open Fabio Fabio.Model.Route

/-! ### float64 rounding (round to nearest, ties to even) of a non-negative rational below 2^1024 -/

def pow2 (e : Int) : Rat := if e ≥ 0 then ((2 ^ e.toNat : Nat) : Rat) else 1 / ((2 ^ (-e).toNat : Nat) : Rat)

def roundF64 (q : Rat) : Rat :=
  if q ≤ 0 then 0 else
  let e0 : Int := (Nat.log2 q.num.toNat : Int) - (Nat.log2 q.den : Int)   -- ⌊log₂ q⌋ ∈ {e0-1, e0}
  let e : Int := if pow2 e0 ≤ q then e0 else e0 - 1
  let u : Int := if e - 52 < -1074 then -1074 else e - 52                -- exponent of one ulp (subnormals)
  let m : Rat := q / pow2 u
  let r : Int := m.floor
  let frac : Rat := m - (r : Rat)
  let half : Rat := 1 / 2
  let r' : Int := if half < frac then r + 1 else if frac = half then (if r % 2 = 0 then r else r + 1) else r
  (r' : Rat) * pow2 u

/-- Go's `n := int(float64(maxSlots) * t.Weight); if n == 0 && t.Weight > 0 { n = 1 }` on the float64 `w`
(given as its exact rational value): the product is rounded to float64 before the truncation. -/
def slotCountF64 (w : Rat) : Int :=
  let n := truncZ (roundF64 ((maxSlots : Rat) * w))
  if n = 0 ∧ 0 < w then 1 else n

/-! ### the ring fill on arrays (same code as `findFree`/`placeK`/`fill`, O(1) slot access) -/

def findFreeA (ring : Array (Option Nat)) (next : Nat) : Nat → Option Nat
  | 0 => none
  | fuel+1 =>
    match ring[next]? with
    | some none => some next
    | some (some _) => findFreeA ring ((next + 1) % ring.size) fuel
    | none => none

def placeKA (i step : Nat) : Nat → Array (Option Nat) → Nat → Outcome (Array (Option Nat))
  | 0, ring, _ => .ok ring
  | k+1, ring, next =>
    match findFreeA ring next ring.size with
    | none => .panic "ring fill: no free slot (index out of range / endless scan)"
    | some p => placeKA i step k (ring.setIfInBounds p (some i)) ((p + step) % ring.size)

def fillA (used : Nat) : List (Int × Nat) → Array (Option Nat) → Outcome (Array (Option Nat))
  | [], ring => .ok ring
  | (n, i) :: rest, ring =>
    if n ≤ 0 then fillA used rest ring
    else
      match placeKA i (used / n.toNat) n.toNat ring 0 with
      | .ok ring' => fillA used rest ring'
      | .panic w => .panic w

def fillRingA (ns : List Int) (pl : List (Int × Nat)) : Outcome (Array (Option Nat)) :=
  let used := sumInt ns
  if used < 0 then .panic "makeslice: len out of range"
  else fillA used.toNat pl (Array.replicate used.toNat none)

/-! ### observations and the specification -/

/-- what the harness reports about one route: fixed and effective weight of every target (exact rationals of
the float64 values) and the ring (slot → target index; a pointer that is not in `Targets` is reported as an
index ≥ the number of targets, a nil slot as `none`). -/
structure RouteObs where
  fixed : List Rat
  weight : List Rat
  ring : Array (Option Nat)

def absR (a : Rat) : Rat := if a < 0 then -a else a
def eps40 : Rat := 1 / ((2 ^ 40 : Nat) : Rat)
def sumR (l : List Rat) : Rat := l.foldl (· + ·) 0

/-- per-target occurrence counts of a ring (`n` targets); slots that are nil or out of range are ignored -/
def ringCounts (n : Nat) (ring : Array (Option Nat)) : Array Nat :=
  ring.foldl (fun acc s => match s with
    | some i => if i < n then acc.modify i (· + 1) else acc
    | none => acc) (Array.replicate n 0)

def hasFixed (o : RouteObs) : Bool := o.fixed.any (fun f => decide (0 < f))

/-! ### sentence 1 of the property as a reference computation, and `route weight` spreading

Both are evaluated on what the implementation reports (requested weight `FixedWeight`, effective weight
`Weight`, service and tags of every target), independently of `Model.Route.weigh` / `Route.setWeight`. -/

/-- "fixed weights are honoured as given (scaled down proportionally if they exceed 100 %, scaled up if every
target is fixed and they sum to less), and the remaining targets share the remainder equally" -/
def sentenceOne (fixed : List Rat) : List Rat :=
  let n := fixed.length
  let fx := fixed.filter (fun f => decide (0 < f))
  let S := sumR fx
  let nd := n - fx.length
  if fx.length = 0 then fixed.map (fun _ => 1 / (n : Rat))
  else fixed.map (fun f =>
    if 0 < f then (if 1 < S ∨ (nd = 0 ∧ S < 1) then f / S else f)
    else (if 1 < S then 0 else (1 - S) / (nd : Rat)))

def ruleFollowed (o : RouteObs) : Bool :=
  let want := sentenceOne o.fixed
  want.length == o.weight.length && (want.zip o.weight).all (fun (a, b) => decide (absR (a - b) ≤ eps40))

def relCloseQ (a b : Rat) : Bool :=
  let m := if absR a < absR b then absR b else absR a
  absR (a - b) ≤ eps40 * (if m < 1 then 1 else m)

/-- one `route weight` command aimed at the route under inspection -/
structure WCmd where
  service : Str
  tags : List Str
  w : Rat

def matchesCmd (c : WCmd) (service : Str) (tags : List Str) : Bool :=
  (c.service.isEmpty || service == c.service) && c.tags.all (fun t => tags.contains t)

/-- After a block of `route weight` commands on a route (no add/del between or after them) the requested
weight of a target is `w / k` of the *last* command that matches it, `k` = number of targets that command
matches: the share `w` goes to all matching targets combined. `targets` = (service, tags, FixedWeight). -/
def spreadHonoured (targets : List (Str × List Str × Rat)) (cmds : List WCmd) : Bool :=
  targets.all (fun t =>
    match cmds.reverse.find? (fun c => matchesCmd c t.1 t.2.1) with
    | none => true
    | some c =>
      let k := (targets.filter (fun u => matchesCmd c u.1 u.2.1)).length
      relCloseQ t.2.2 (c.w / (k : Rat)))

/-- The property's specification on one route, as a list of the clauses that fail (empty = holds):
weights non-negative; sum to one (within the float64 tolerance `n·2⁻⁴⁰`); ring valid: non-empty for a
non-empty route, no nil slot, every slot a target of the route; per target |count − 10⁴·w| < 1 + 10⁻⁶;
the effective weights are the ones sentence 1 prescribes for the requested weights (within 2⁻⁴⁰);
zero weight ⇒ absent; positive weight ⇒ present; without fixed weights the ring is the target list itself
(every target exactly once per cycle: share 1/n exactly). -/
def specFailures (o : RouteObs) : List String :=
  let n := o.weight.length
  if n = 0 then (if o.ring.size = 0 then [] else ["ring-of-empty-route"]) else
  let counts := ringCounts n o.ring
  let f1 := if o.weight.all (fun w => decide (0 ≤ w)) then [] else ["negative-weight"]
  let f2 := if absR (sumR o.weight - 1) ≤ (n : Rat) * eps40 then [] else ["sum-not-one"]
  let f3 := if o.ring.size = 0 then ["empty-ring"] else []
  let f4 := if o.ring.any (fun s => s.isNone) then ["nil-slot"] else []
  let f5 := if o.ring.any (fun s => match s with | some i => decide (n ≤ i) | none => false) then ["foreign-slot"] else []
  let idx := List.range n
  let f6 :=
    if !hasFixed o then
      (if o.ring.toList == idx.map some then [] else ["bypass-ring-differs"])
    else
      let tol : Rat := 1 + 1 / 1000000
      let off := idx.any (fun i =>
        let w := o.weight.getD i 0
        let c : Rat := ((counts.getD i 0 : Nat) : Rat)
        !(decide (absR (c - (maxSlots : Rat) * w) < tol)))
      let zero := idx.any (fun i => decide (o.weight.getD i 0 = 0) && counts.getD i 0 != 0)
      let starved := idx.any (fun i => decide (0 < o.weight.getD i 0) && counts.getD i 0 == 0)
      (if off then ["count-off"] else []) ++ (if zero then ["zero-weight-on-ring"] else []) ++
      (if starved then ["positive-weight-starved"] else [])
  let f7 := if ruleFollowed o then [] else ["weights-not-as-configured"]
  f1 ++ f2 ++ f7 ++ f3 ++ f4 ++ f5 ++ f6

/-! ### Go's placement order recovered from a ring

Every entry starts its scan at slot 0 and takes the first free slot, so the entries with `n > 0` were placed
in the order of their first occurrence on the ring; the entries with `n ≤ 0` are skipped wherever they are
(they sort first). -/

def firstOccurrences (n : Nat) (ring : Array (Option Nat)) : List Nat :=
  let (_, out) := ring.foldl (fun (st : Array Bool × Array Nat) s =>
    match s with
    | some i => if i < n ∧ !(st.1.getD i true) then (st.1.setIfInBounds i true, st.2.push i) else st
    | none => st) ((Array.replicate n false), (#[] : Array Nat))
  out.toList

def placementFromRing (ns : List Int) (ring : Array (Option Nat)) : List (Int × Nat) :=
  let skipped := (stablePlacement ns).filter (fun e => decide (e.1 ≤ 0))
  skipped ++ (firstOccurrences ns.length ring).map (fun i => (ns.getD i 0, i))

/-- The model's ring for the slot counts Go computed from its own float64 weights, placed in the order Go
placed them (checked to be a legal result of `sort.Sort`): must equal the observed ring. -/
def ringAgrees (o : RouteObs) : Bool × String :=
  let n := o.weight.length
  if !hasFixed o then (o.ring.toList == (List.range n).map some, "bypass")
  else
    let ns := o.weight.map slotCountF64
    let pl := placementFromRing ns o.ring
    if !validPlacement ns pl then (false, "placement-not-sorted")
    else
      match fillRingA ns pl with
      | .ok r => (r == o.ring, "ring")
      | .panic _ => (false, "model-panic")

/-! ### pickers on observed rings -/

/-- every window of `N = ring.size` consecutive picks contains target `i` exactly `counts[i]` times -/
def windowsExact (n : Nat) (ring : Array (Option Nat)) (picks : Array Nat) : Bool :=
  let N := ring.size
  if N = 0 ∨ picks.size < N then true else
  let want := ringCounts n ring
  -- counts of the first window, then slide
  let first := (picks.extract 0 N).foldl (fun acc i => if i < n then acc.modify i (· + 1) else acc) (Array.replicate n 0)
  if first != want then false else
  let rec go (k : Nat) (fuel : Nat) (cur : Array Nat) : Bool :=
    match fuel with
    | 0 => true
    | fuel+1 =>
      if k + N < picks.size then
        let out := picks.getD k 0
        let inn := picks.getD (k + N) 0
        let cur := if out < n then cur.modify out (· - 1) else cur
        let cur := if inn < n then cur.modify inn (· + 1) else cur
        if cur != want then false else go (k+1) fuel cur
      else true
  go 0 picks.size first

end Fabio.Model.C04
