import Fabio.Model.C16
/-!
C16, round 4 — the relay (core Lean only).

Until round 3 the sentences of the property about the relay itself ("the backend receives the caller's messages
and custom metadata in order and unmodified, the caller receives the backend's messages, trailers and final
status code and message, and its headers whenever it sends at least one message") were judged on recorded
observations only.  This file models the code that performs the relay: `GetGRPCDirector`'s closure
(`metadata.NewOutgoingContext(ctx, md.Copy())`), `GrpcProxyInterceptor.Stream`'s tail (`err = handler(srv,
proxyStream); return err`) and `mwitkow/grpc-proxy`'s `handler.handler` with its two forwarding goroutines
(`forwardServerToClient`, `forwardClientToServer`) and its `select` loop, as a transition system whose steps
are the *micro-steps of the concurrent program* — one `RecvMsg`, one `SendMsg`, one `SendHeader`, one `select`
case — interleaved in any order with the actions of the two ends (caller sends / half-closes / receives;
backend receives / sets its header / sends / finishes).  The four gRPC streams in between are FIFO channels
(assumption about grpc-go's transport: per direction in order, nothing lost, nothing invented; the header
metadata of a stream is readable once its first message has been received; a finished backend is seen after
its last message).

Every event is total: an event that is not enabled in a state leaves the state unchanged (the goroutine is
blocked, the end cannot act).  The theorems of `Props/C16Relay.lean` hold for *every* event list, i.e. for
every schedule and every behaviour of the two ends.

Not modelled: a caller that cancels the call or a transport failure (`s2cErr != io.EOF` → `codes.Internal`,
"failed proxying s2c"), deadlines, flow control (a full window blocks a `SendMsg`; blocking changes which
interleavings are possible, not what arrives).
-/
namespace Fabio.Model.C16.Relay
open Fabio.Model.C16.Spec (SMD)

abbrev Msg := String

structure Status where
  code : Nat := 0
  message : String := ""
deriving DecidableEq, Repr

/-- `return c2sErr` for an RPC error, `return nil` for `io.EOF`: a backend that ends with OK ends the caller's
call with OK and the empty message (`status.Error(codes.OK, m)` is `nil` on the backend as well). -/
def Status.norm (s : Status) : Status := if s.code = 0 then {} else s

/-- what travels from the proxy to the caller before trailers and status -/
inductive Item where
  | header (h : SMD)
  | msg (m : Msg)
deriving DecidableEq, Repr

def Item.msg? : Item → Option Msg
  | .msg m => some m
  | .header _ => none

def msgsOf (q : List Item) : List Msg := q.filterMap Item.msg?

/-- `forwardServerToClient` (caller → backend): about to `src.RecvMsg`, holding a message for `dst.SendMsg`,
ended with `io.EOF` put into its channel, ended with another error. -/
inductive S2C where
  | recv
  | send (m : Msg)
  | eof
  | failed
deriving DecidableEq, Repr

/-- `forwardClientToServer` (backend → caller): about to `src.RecvMsg`; holding the first message, about to
`src.Header()` + `dst.SendHeader`; holding a message for `dst.SendMsg`; ended with the backend's outcome put
into its channel. -/
inductive C2S where
  | recv
  | hdr (m : Msg)
  | send (m : Msg)
  | done (trailer : SMD) (st : Status)
deriving DecidableEq, Repr

def S2C.held : S2C → List Msg
  | .send m => [m]
  | _ => []

def C2S.held : C2S → List Msg
  | .hdr m => [m]
  | .send m => [m]
  | _ => []

structure St where
  -- what the backend was called with (`grpc.NewClientStream(clientCtx, …, fullMethodName)` on the outgoing
  -- context with the copied metadata)
  bMethod : String := ""
  bMD : SMD := []
  -- history of the two ends
  cSent : List Msg := []
  cClosed : Bool := false
  bGot : List Msg := []
  bEOF : Bool := false
  bHdr : SMD := []
  bSent : List Msg := []
  bFin : Option (SMD × Status) := none
  cHdr : Option SMD := none
  cGot : List Msg := []
  cFin : Option (SMD × Status) := none
  -- the four streams
  qA : List Msg := []                     -- caller → proxy
  qB : List Msg := []                     -- proxy → backend
  bClosed : Bool := false                 -- `clientStream.CloseSend()` done
  qC : List Msg := []                     -- backend → proxy
  qD : List Item := []                    -- proxy → caller
  dFin : Option (SMD × Status) := none    -- the handler returned: trailers and status follow `qD`
  -- the proxy's goroutines
  s2c : S2C := .recv
  c2s : C2S := .recv
  first : Bool := true                    -- `i == 0` in `forwardClientToServer`: no header sent yet
  s2cSeen : Bool := false                 -- the `select` took `s2cErrChan`
deriving DecidableEq, Repr

/-- The director and the handler's preamble: the backend's stream is opened for the caller's full method name
with a copy of the caller's metadata. -/
def init (method : String) (md : SMD) : St := { bMethod := method, bMD := md }

inductive Ev where
  | callerSend (m : Msg)
  | callerClose
  | callerRecv
  | backendRecv
  | backendHeader (h : SMD)
  | backendSend (m : Msg)
  | backendFinish (trailer : SMD) (st : Status)
  /-- one micro-step of `forwardServerToClient` -/
  | s2cStep
  /-- one micro-step of `forwardClientToServer` -/
  | c2sStep
  /-- `case s2cErr := <-s2cErrChan` -/
  | selS2C
  /-- `case c2sErr := <-c2sErrChan` -/
  | selC2S
deriving DecidableEq, Repr

def step (s : St) : Ev → St
  | .callerSend m => if s.cClosed then s else { s with cSent := s.cSent ++ [m], qA := s.qA ++ [m] }
  | .callerClose => { s with cClosed := true }
  | .callerRecv =>
    match s.qD with
    | .header h :: r => { s with qD := r, cHdr := some h }
    | .msg m :: r => { s with qD := r, cGot := s.cGot ++ [m] }
    | [] =>
      match s.dFin with
      | some f => { s with cFin := some f }
      | none => s
  | .backendRecv =>
    if s.bFin.isSome then s else
    match s.qB with
    | m :: r => { s with qB := r, bGot := s.bGot ++ [m] }
    | [] => if s.bClosed then { s with bEOF := true } else s
  | .backendHeader h =>
    -- `SetHeader` / `SendHeader` are possible only before the first message and before the end
    if s.bFin.isSome || !s.bSent.isEmpty then s else { s with bHdr := h }
  | .backendSend m => if s.bFin.isSome then s else { s with bSent := s.bSent ++ [m], qC := s.qC ++ [m] }
  | .backendFinish tr st => if s.bFin.isSome then s else { s with bFin := some (tr, st) }
  | .s2cStep =>
    match s.s2c with
    | .recv =>
      -- the handler has returned: the caller's stream is over, `RecvMsg` fails, nobody reads the channel
      if s.dFin.isSome then { s with s2c := .failed } else
      match s.qA with
      | m :: r => { s with qA := r, s2c := .send m }
      | [] => if s.cClosed then { s with s2c := .eof } else s
    | .send m => { s with qB := s.qB ++ [m], s2c := .recv }
    | .eof => s
    | .failed => s
  | .c2sStep =>
    match s.c2s with
    | .recv =>
      match s.qC with
      | m :: r => { s with qC := r, c2s := if s.first then .hdr m else .send m }
      | [] =>
        match s.bFin with
        | some (tr, st) => { s with c2s := .done tr st }
        | none => s
    | .hdr m => { s with qD := s.qD ++ [.header s.bHdr], first := false, c2s := .send m }
    | .send m => { s with qD := s.qD ++ [.msg m], c2s := .recv }
    | .done _ _ => s
  | .selS2C =>
    -- `clientStream.CloseSend()`
    if s.s2c = .eof && !s.s2cSeen && s.dFin.isNone then { s with s2cSeen := true, bClosed := true } else s
  | .selC2S =>
    -- `serverStream.SetTrailer(clientStream.Trailer())`; `return c2sErr` (nil for `io.EOF`)
    match s.c2s with
    | .done tr st => if s.dFin.isNone then { s with dFin := some (tr, st.norm) } else s
    | _ => s

def run (s : St) (es : List Ev) : St := es.foldl step s

/-- one round of every internal event and of both ends' receives -/
def round : List Ev := [.s2cStep, .selS2C, .backendRecv, .c2sStep, .selC2S, .callerRecv]

/-- `n` rounds -/
def settle : Nat → List Ev
  | 0 => []
  | n + 1 => round ++ settle n

end Fabio.Model.C16.Relay
