import Fabio.Model.C17Proxy
/-!
C17, what is around ONE response while it is being written:

* **a client that goes away** (`Down.writeF`, `GW.writeF`, `GW.runF`, `GW.closeF`): the connection takes `cap`
  body bytes in total; a `Write` that does not fit delivers what fits and fails, every later one fails. The
  code does not look at the error (`return grw.writer.Write(b)`): it hands it to the wrapped handler, which either
  goes on (`stop = false`) or returns at once (`stop = true`, the copy loop of `httputil.ReverseProxy`); the
  deferred `Close` runs in both cases.
* **other handlers working on the shared pool in the meantime** (`GW.runP`): the script of a response is cut into
  segments; between two segments the pool is changed by an arbitrary function (whatever concurrently served
  responses take out of it and put into it, whatever the runtime drops). The writer the response holds is its own —
  that is `writer_exclusively_owned` / `handlers_never_share_a_writer`.
* **a sequence of exchanges some of whose clients go away** (`serveSeqF`).
* **the pool events of one response** (`GW.trace`, `servedTrace`): `Get` when the decision falls on compressing,
  `Put` in `Close` — the program order the ownership theorem assumes, here read off the machine.
* **program order as a checked condition** (`pstepChk`, `prunChk`): the pool semantics in which a `Get` by a
  handler that already holds a writer, or a `Put` by one that holds none, is an ERROR instead of a no-op.
-/
namespace Fabio.Model.C17

variable {Z : Type}

/-! ### a client that goes away -/

/-- what a client whose connection takes `cap` body bytes has got of a response. -/
def Down.cut (cap : Nat) (d : Down) : Down := { d with body := d.body.take cap }

/-- `Write(b)` on a connection that takes `cap` body bytes in total: status line and sniffed type as for the
whole chunk, then what still fits; the call fails when not everything fitted. -/
def Down.writeF {Z} (C : Cfg Z) (cap : Nat) (d : Down) (h : Hdr) (b : Bytes) : Down × Bool :=
  ({ (d.implicit C h b) with body := (d.implicit C h b).body ++ b.take (cap - d.body.length) },
   decide (cap - d.body.length < b.length))

/-- `grw.Write(b)` with such a client: the decision is taken as always; the bytes — the compressor's output or
the chunk itself — are offered to the connection; the error is the connection's. -/
def GW.writeF (C : Cfg Z) (cap : Nat) (s : GW Z) (b : Bytes) : GW Z × Bool :=
  let s := GW.decideOnWrite C s b
  match s.dec with
  | .gzip z =>
    ({ s with dec := .gzip (C.comp.write z b).1, down := (s.down.writeF C cap s.hdr (C.comp.write z b).2).1 },
     (s.down.writeF C cap s.hdr (C.comp.write z b).2).2)
  | _ => ({ s with down := (s.down.writeF C cap s.hdr b).1 }, (s.down.writeF C cap s.hdr b).2)

/-- the wrapped handler's script against the gzip writer with such a client; `stop`: the handler returns at the
first failed `Write`. -/
def GW.runF (C : Cfg Z) (cap : Nat) (stop : Bool) : GW Z → List Op → GW Z
  | s, [] => s
  | s, .w b :: r => if (GW.writeF C cap s b).2 && stop then (GW.writeF C cap s b).1 else GW.runF C cap stop (GW.writeF C cap s b).1 r
  | s, o :: r => GW.runF C cap stop (GW.step C s o) r

/-- the deferred `grw.Close()`: the compressor's last bytes are offered to the connection, the writer goes back
to the pool — whether or not anything failed. -/
def GW.closeF (C : Cfg Z) (cap : Nat) (s : GW Z) : GW Z :=
  match s.dec with
  | .gzip z => { s with dec := .gzip (C.comp.close z).1, down := (s.down.writeF C cap s.hdr (C.comp.close z).2).1,
                        pool := (C.comp.close z).1 :: s.pool }
  | _ => s

/-- the engaged branch of the handler (`NewGzipResponseWriter`, `defer Close`, wrapped handler) for a patient
client … -/
def engaged (C : Cfg Z) (hdr : Hdr) (pool : List Z) (ops : List Op) : GW Z :=
  GW.close C (GW.run C { dec := .undecided, hdr := hdr, down := {}, pool := pool } ops)

/-- … and for one that goes away. -/
def engagedF (C : Cfg Z) (cap : Nat) (stop : Bool) (hdr : Hdr) (pool : List Z) (ops : List Op) : GW Z :=
  GW.closeF C cap (GW.runF C cap stop { dec := .undecided, hdr := hdr, down := {}, pool := pool } ops)

/-! ### the others, in the meantime -/

/-- the script in segments; after each segment the shared pool is whatever the others made of it. -/
def GW.runP (C : Cfg Z) : GW Z → List (List Op × (List Z → List Z)) → GW Z
  | s, [] => s
  | s, (ops, f) :: r => GW.runP C { (GW.run C s ops) with pool := f (GW.run C s ops).pool } r

def segOps (segs : List (List Op × (List Z → List Z))) : List Op := (segs.map (·.1)).flatten

/-- the engaged branch while others work on the pool. -/
def engagedP (C : Cfg Z) (hdr : Hdr) (pool : List Z) (segs : List (List Op × (List Z → List Z))) : GW Z :=
  GW.close C (GW.runP C { dec := .undecided, hdr := hdr, down := {}, pool := pool } segs)

/-- what the client can tell of the engaged branch's result. -/
def GW.view (C : Cfg Z) (s : GW Z) : Bool × Nat × Hdr × Option Bytes :=
  (s.dec.isGzip, (s.down.obs s.hdr).status, (s.down.obs s.hdr).hdr,
   if s.dec.isGzip then C.comp.decode (s.down.obs s.hdr).body else some (s.down.obs s.hdr).body)

/-! ### sequences in which clients go away -/

/-- one exchange of a sequence: `gone = some (cap, stop)` when its client goes away. -/
structure ExchF where
  e : Exch
  gone : Option (Nat × Bool)

/-- the engaged branch with a departed client leaves a pool behind like any other; the bypassed branch does not
touch the pool. -/
def poolAfter (C : Cfg Z) (pool : List Z) (x : ExchF) : List Z :=
  match x.gone with
  | none => (serve C x.e.head x.e.dfl x.e.req x.e.h0 pool x.e.ops).pool
  | some (cap, stop) =>
    if acceptsGzip x.e.req && !x.e.head then
      (engagedF C cap stop (hadd x.e.h0 hVary hAcceptEncoding) pool x.e.ops).pool
    else pool

/-- the responses to the patient clients of a sequence served by one handler value (`none` for a departed one). -/
def serveSeqF (C : Cfg Z) : List Z → List ExchF → List (Option (Served Z))
  | _, [] => []
  | pool, x :: xs =>
    (match x.gone with
     | none => some (serve C x.e.head x.e.dfl x.e.req x.e.h0 pool x.e.ops)
     | some _ => none) :: serveSeqF C (poolAfter C pool x) xs

/-! ### the pool events of one response -/

inductive PK where
  | get
  | put
deriving Repr, DecidableEq

/-- `Get` is executed by exactly those steps that take the machine from undecided to compressing. -/
def stepEv (s s' : GW Z) : List PK := if s.dec.isUndecided && s'.dec.isGzip then [.get] else []

def GW.trace (C : Cfg Z) : GW Z → List Op → List PK
  | _, [] => []
  | s, o :: r => stepEv s (GW.step C s o) ++ GW.trace C (GW.step C s o) r

/-- `Close` puts the writer back iff one was taken. -/
def closeEv (s : GW Z) : List PK := if s.dec.isGzip then [.put] else []

/-- the pool events of the engaged branch, in program order. -/
def servedTrace (C : Cfg Z) (hdr : Hdr) (pool : List Z) (ops : List Op) : List PK :=
  GW.trace C { dec := .undecided, hdr := hdr, down := {}, pool := pool } ops ++
    closeEv (GW.run C { dec := .undecided, hdr := hdr, down := {}, pool := pool } ops)

/-! ### program order, checked -/

/-- like `pstep`, but an event that violates the program order — `Get` by a handler that holds a writer, `Put` by
one that holds none — is an error (`none`), not a no-op. -/
def pstepChk (s : PState) : PEv → Option PState
  | .get t i =>
    match heldBy s t with
    | some _ => none
    | none => some (pstep s (.get t i))
  | .put t =>
    match heldBy s t with
    | none => none
    | some _ => some (pstep s (.put t))
  | .drop i => some (pstep s (.drop i))

def prunChk : PState → List PEv → Option PState
  | s, [] => some s
  | s, e :: r => match pstepChk s e with
    | none => none
    | some s' => prunChk s' r

/-- the pool events of handler `t` in a schedule. -/
def eventsOf (t : Nat) : List PEv → List PK
  | [] => []
  | .get t' _ :: r => if t' = t then .get :: eventsOf t r else eventsOf t r
  | .put t' :: r => if t' = t then .put :: eventsOf t r else eventsOf t r
  | .drop _ :: r => eventsOf t r

/-- every handler serves one response: its events are a prefix of `[Get, Put]` (the trace of a served response,
`served_trace`, possibly not finished yet) or nothing. -/
def ProgramOrder (evs : List PEv) : Prop :=
  ∀ t, eventsOf t evs = [] ∨ eventsOf t evs = [.get] ∨ eventsOf t evs = [.get, .put]

/-- what happens WITHOUT program order (the field `grw.gzipWriter` is set by `Get` and never cleared, `Put` hands
in whatever it holds): raw semantics, used for the counterexample only. -/
structure RState where
  pool : List Nat := []
  field : List (Nat × Nat) := []
  next : Nat := 0
deriving Repr, DecidableEq

def rstep (s : RState) : PEv → RState
  | .get t i =>
    if h : i < s.pool.length then { s with pool := s.pool.eraseIdx i, field := (t, s.pool[i]) :: s.field }
    else { s with field := (t, s.next) :: s.field, next := s.next + 1 }
  | .put t =>
    match s.field.lookup t with
    | none => s
    | some z => { s with pool := z :: s.pool }
  | .drop i => { s with pool := s.pool.eraseIdx i }

def rrun (s : RState) (evs : List PEv) : RState := evs.foldl rstep s

/-! ### `Close` called more than once -/

/-- the writer machine plus the one piece of state `Close` adds: has the gzip field been cleared (`grw.gzipWriter = nil`
after the `Put`). `Close` is exported: the wrapped handler, or a direct user of `NewGzipResponseWriter`, may call it
any number of times before the deferred call. -/
structure GWC (Z : Type) where
  s : GW Z
  released : Bool

/-- `grw.Close()` as repaired: everything under "the gzip field is set". -/
def GWC.close (C : Cfg Z) (x : GWC Z) : GWC Z :=
  if x.released then x else { s := GW.close C x.s, released := x.s.dec.isGzip }

/-- `n` calls. -/
def GWC.closeN (C : Cfg Z) : Nat → GWC Z → GWC Z
  | 0, x => x
  | n + 1, x => GWC.closeN C n (GWC.close C x)

end Fabio.Model.C17
