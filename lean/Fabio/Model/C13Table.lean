import Fabio.Model.C03
import Fabio.Model.C13
import Fabio.Model.C13Glue
/-!
C13 ∘ C03, executable part — a request against a whole routing *table*: C03's model of `Table.Lookup`
(`matchingHosts` / `matchingHostNoGlob`, the host order, the per-host `lookup`) run with C13's self-redirect
skip for the request at hand, and what the client of a redirect route receives.

Until round 4 the definitions below stood in `Props/C13Compose.lean` (theorems only) and the `c13.http` stream
took "which target each matching host yields" from the real code (hook `VerifC13Candidates`) — an oracle that
follows a bug in host matching. Now the driver of `c13.http` runs `answer`/`Lookup` of this module on the dumped
table, so the composition theorems of `Props/C13Compose.lean` speak about the function that is compared with
the real proxy on every case; the hook's host list and candidate list are only compared with `C03.hostList` and
`cands`.

Strings: C03 speaks `List Char`, C13 `List UInt8` (Go strings are bytes). A byte string is taken into C03's
world byte by byte (`chars`: byte `b` ↦ the code point `b`), which is injective, so literal comparison and
prefix tests (all that host and path matching do with non-ASCII bytes under the prefix matcher) mean the same
on both sides; ASCII case folding is the same function on both sides.

`specAnswered` further down is the *specification* of the property's last sentence on a whole table, written
without the model's `Lookup`, host list or `buildRedirectURL`.
-/
namespace Fabio.Model.C13Table
open Fabio Fabio.Model

/-- one request, as the two models see it -/
structure CReq where
  /-- host, TLS, decoded path: what host and path matching read (C03) -/
  r03 : C03.Req
  /-- `req.URL` with `Host` set to `req.Host`: what `BuildRedirectURL` reads (C13) -/
  url : C13.URL
  /-- the `X-Forwarded-Proto` header (empty = absent) -/
  xfp : C13.Str

def scheme (q : CReq) : C13.Str := C13.reqScheme q.xfp q.r03.tls

/-- C13's self-redirect predicate for a table target: it is a redirect target and the URL built for this
request points back at the request's own scheme, host and path. -/
def skipFor (view : Route.Target → C13.RTarget) (q : CReq) (tg : Route.Target) : Bool :=
  decide ((view tg).code ≠ 0) && C13.selfRedirect (C13.buildRedirectURL (view tg) q.url) (scheme q) q.url

/-- C03's configuration with the skip of this request -/
def cfgFor (cfg : C03.Cfg) (view : Route.Target → C13.RTarget) (q : CReq) : C03.Cfg :=
  { cfg with skip := skipFor view q }

/-- `Table.Lookup` for this request: C03's model with C13's skip -/
def Lookup (cfg : C03.Cfg) (view : Route.Target → C13.RTarget) (t : Route.Table) (q : CReq) :
    Option (Route.Str × Route.Route × Route.Target) :=
  C03.Lookup (cfgFor cfg view q) t q.r03

/-- what the client of a redirect route sees (status, `Location`); `none`: not answered by a redirect -/
def answer (cfg : C03.Cfg) (view : Route.Target → C13.RTarget) (t : Route.Table) (q : CReq) : Option (Int × C13.Str) :=
  match Lookup cfg view t q with
  | some (_, _, tg) => if (view tg).code ≠ 0 then some ((view tg).code, C13.location (view tg) q.url) else none
  | none => none

/-- the candidate list C13's loop runs over: per host of C03's host list, what `t.lookup` yields -/
def cands (cfg : C03.Cfg) (view : Route.Target → C13.RTarget) (t : Route.Table) (q : CReq) : List (Option C13.RTarget) :=
  (C03.hostList cfg t q.r03).map (fun h => (C03.lookup cfg.pathMatch cfg.pick t h q.r03.path).map (fun p => view p.2))

/-! ### a dumped table (what `c13.http` ships: the real `route.Table` after `NewTableCustom`) -/

/-- a byte as the code point of the same number -/
def b2c (b : UInt8) : Char := Char.ofNat b.toNat

def chars (s : C13.Str) : Route.Str := s.map b2c

/-- one route of the dump: its path and its single target as the redirect code reads it -/
structure DRoute where
  path : C13.Str
  tgt : C13.RTarget
  /-- which instrumented upstream of the harness the target is (`none`: not one of them) -/
  up : Option Nat := none
  /-- verdict of the target's access gate for the client of the case (oracle from the real code; C12) -/
  denied : Bool := false
deriving DecidableEq, Repr

/-- host key ↦ routes in the table's own order -/
abbrev DTable := List (C13.Str × List DRoute)

/-- the label that stands for the target of route `j` under key number `i` (unary, so that distinct positions
have visibly distinct labels) -/
def label (i j : Nat) : Route.Str := List.replicate i 'k' ++ '/' :: List.replicate j 'r'

/-- a list with the positions of its elements, counted from `i` -/
def enumFrom {α : Type} (i : Nat) : List α → List (Nat × α)
  | [] => []
  | x :: xs => (i, x) :: enumFrom (i + 1) xs

def enum {α : Type} (l : List α) : List (Nat × α) := enumFrom 0 l

/-- the dump as C03's table: every route has exactly one target, named by its position -/
def toTable (d : DTable) : Route.Table :=
  (enum d).map (fun (i, k, rs) => (chars k, (enum rs).map (fun (j, r) =>
    ({ host := chars k, path := chars r.path,
       targets := [{ service := label i j, tags := [], opts := [], url := [], fixedWeight := 0 }] } : Route.Route))))

/-- the labelled routes -/
def labelled (d : DTable) : List (Route.Str × DRoute) :=
  (enum d).flatMap (fun (i, _, rs) => (enum rs).map (fun (j, r) => (label i j, r)))

def routeOf (d : DTable) (tg : Route.Target) : Option DRoute := (labelled d).lookup tg.service

/-- the redirect view of the labelled targets -/
def viewOf (d : DTable) (tg : Route.Target) : C13.RTarget :=
  match routeOf d tg with
  | some r => r.tgt
  | none => { url := {} }

/-- C03's configuration as `c13.http` runs the proxy: prefix matcher, one target per route (no picker
choice), host globs through `C03.globLib` (gobwas/glob on the fragment literal / `*` / `?`). -/
def cfgOf (noglob : Bool) : C03.Cfg :=
  { globMatch := C03.globLib, pathMatch := fun uri p => p.isPrefixOf uri,
    pick := fun r => r.targets.headD { service := [], tags := [], opts := [], url := [], fixedWeight := 0 },
    globDisabled := noglob }

/-- the request `GET target` with `Host: host` on a plain or TLS connection -/
def mkReq (host target xfp : C13.Str) (tls : Bool) : Option CReq :=
  (C13.parseTarget host target).map (fun u =>
    { r03 := { host := chars host, tls := tls, path := chars u.path }, url := u, xfp := xfp })

/-- every key of the dump is inside the host-glob fragment the model states (`inFragment`) -/
def keysInFragment (d : DTable) : Bool := d.all (fun kv => C03.inFragment (chars kv.1))

/-- `Lookup` on a dumped table: the route whose target is selected -/
def selectRoute (d : DTable) (noglob : Bool) (q : CReq) : Option DRoute :=
  match Lookup (cfgOf noglob) (viewOf d) (toTable d) q with
  | none => none
  | some (_, _, tg) => routeOf d tg

/-- … and the target as `Lookup` hands it to the proxy, with the redirect URL built for this request -/
def select (d : DTable) (noglob : Bool) (q : CReq) : Option (C13.RTarget × Option C13.URL) :=
  (selectRoute d noglob q).map (fun r =>
    (r.tgt, if r.tgt.code ≠ 0 then some (C13.buildRedirectURL r.tgt q.url) else none))

/-- `Lookup` ∘ `ServeHTTP` on a dumped table (no auth schemes configured) -/
def serveTable (d : DTable) (noglob : Bool) (q : CReq) (upgrade accept : C13.Str) : C13.Served :=
  let denied := match selectRoute d noglob q with | some r => r.denied | none => false
  C13.serve (select d noglob q) denied true upgrade accept

/-! ### the specification of "skipped in favour of the next matching host" on a whole table

Written from the sentence, evaluated on the implementation's answer; it uses neither `C03.hostList` /
`normalizeHost` / the host sort nor `buildRedirectURL`.

* a key *matches the host* when, default port of the connection removed and ASCII case ignored, it equals the
  request host, or — host globs enabled — it is `*` followed by a literal that the request host ends with
  (the documented wildcard form; other patterns are not judged by the specification);
* a route is a *candidate* when its key is empty or matches the host and its path is a prefix of the request
  path; per key the candidate with the longest path stands for the key (C03: longest prefix wins);
* a candidate is *surely not a self-redirect* when it is no redirect at all, or its template's scheme differs
  from the request's, or its template host holds no variable and differs from the request's `Host`.

The sentence then demands: **if some host-specific key has a candidate that is surely not a self-redirect, the
request is answered by a host-specific candidate** — neither by a host-less route nor with "no route".
And whoever answers is a candidate at all. -/

def lower (s : C13.Str) : C13.Str := s.map C13.lowerByte

/-! the hypotheses of `Props.C13TableSpec.model_meets_table_spec` about a dump, tested by the driver on every case -/

/-- no element twice -/
def nodupB : List C13.Str → Bool
  | [] => true
  | x :: xs => !xs.contains x && nodupB xs

/-- longest path first -/
def sortedB : List DRoute → Bool
  | [] => true
  | r :: rs => rs.all (fun b => decide (r.path.length ≥ b.path.length)) && sortedB rs

/-- the hypotheses of `model_meets_table_spec` about a dump, as a test the driver runs on every dumped table:
lower-case keys, every key once, within a key the longest path first -/
def wellFormedB (d : DTable) : Bool :=
  d.all (fun kv => lower kv.1 == kv.1) && nodupB (d.map (fun kv => kv.1)) && d.all (fun kv => sortedB kv.2)


/-- default port of the connection removed, lower case -/
def specNorm (h : C13.Str) (tls : Bool) : C13.Str :=
  let r := h.reverse
  let cutP (p : C13.Str) := if p.reverse.isPrefixOf r then (r.drop p.length).reverse else h
  lower (if tls then cutP (C13.lit ":443") else cutP (C13.lit ":80"))

def hasMeta (k : C13.Str) : Bool := k.any (fun c => (C13.lit "*?[{\\").contains c)

/-- `some true` / `some false`: the key matches / does not match the request host; `none`: a pattern the
specification does not read -/
def specHostOK (noglob : Bool) (key host : C13.Str) (tls : Bool) : Option Bool :=
  let k := specNorm key tls
  let h := specNorm host tls
  if noglob || !hasMeta k then some (k == h)
  else match k with
    | 42 :: lit => if hasMeta lit then none else some (lit.isSuffixOf h)
    | _ => none

/-- the first among the longest -/
def longest : List DRoute → Option DRoute
  | [] => none
  | r :: rs =>
    match longest rs with
    | none => some r
    | some b => if b.path.length > r.path.length then some b else some r

/-- the candidate that stands for a key: the matching route with the longest path -/
def specBest (rs : List DRoute) (path : C13.Str) : Option DRoute :=
  longest (rs.filter (fun r => r.path.isPrefixOf path))

def surelyLive (t : C13.RTarget) (scheme host : C13.Str) : Bool :=
  t.code == 0 || t.url.scheme != scheme ||
  (!t.url.host.contains 36 && t.url.host != host)

/-- the observed answer, attributed: which routes could have produced it -/
structure Observed where
  /-- 404 "no route" -/
  noRoute : Bool
  /-- does this candidate explain the answer (3xx with its code and a `Location` meeting `locationSpec`; its
  upstream was contacted; 403 and it carries access rules) -/
  explains : DRoute → Bool

def specHostCands (d : DTable) (noglob : Bool) (q : CReq) (host : C13.Str) : List DRoute :=
  d.filterMap (fun kv =>
    if kv.1.isEmpty then none
    else if specHostOK noglob kv.1 host q.r03.tls == some true then specBest kv.2 q.url.path else none)

def specHostlessCands (d : DTable) (q : CReq) : List DRoute :=
  d.filterMap (fun kv => if kv.1.isEmpty then specBest kv.2 q.url.path else none)

/-- is some key a pattern the specification does not read -/
def specUnread (d : DTable) (noglob : Bool) (host : C13.Str) (tls : Bool) : Bool :=
  d.any (fun kv => !kv.1.isEmpty && (specHostOK noglob kv.1 host tls).isNone)

inductive Judgement where
  | ok
  /-- answered by nothing that matches the request -/
  | notACandidate
  /-- a host-specific route that is no self-redirect matches, but the host-less routes / nobody answered -/
  | nextHostNotTried
deriving DecidableEq, Repr

def specAnswered (d : DTable) (noglob : Bool) (q : CReq) (host : C13.Str) (o : Observed) : Judgement :=
  let hc := specHostCands d noglob q host
  let fc := specHostlessCands d q
  let live := hc.any (fun r => surelyLive r.tgt (scheme q) host)
  if specUnread d noglob host q.r03.tls then .ok
  else if o.noRoute then (if live then .nextHostNotTried else .ok)
  else if hc.any o.explains then .ok
  else if fc.any o.explains then (if live then .nextHostNotTried else .ok)
  else .notACandidate

end Fabio.Model.C13Table
