import Fabio.Model.C01Compose
/-!
C01 round 4 — the system around the stages: what connects the registry to the table loop.

Code under test (`/repo`):
* `registry/consul/service.go` : the loop of `ServiceMonitor.Watch` — one text per answered health query, handed to
  the table loop with a **blocking send** on the channel `be.WatchServices` made;
* `registry/consul/kv.go`      : `listKV` (the manual text assembled from the KV pairs below the configured path) and
  the loop of `watchKV` (publish iff the value or the index changed);
* `main.go`                    : `watchBackend` — the `select` over the two channels, and the alias registration
  `registry.Default.Register(aliases)` between the change test and `route.NewTable`, whose result is discarded.

The two watchers are sequential producers; `Merge` is the set of event orders the `select` can see. The alternative
designs that seeded changes introduced (a non-blocking hand-over in `Watch`; skipping the table when `Register`
fails) are modelled next to the code's design so that the theorems can say what goes wrong with them.
Core Lean only (linked into the driver).
-/
namespace Fabio.Model.C01Sys
open Fabio Fabio.Model.C01
open Fabio.Model.Parse (trimSpace join)

/-! ### two sequential producers and the `select` of the table loop -/

/-- `Merge l a b`: `l` is an interleaving of `a` and `b` that keeps the order within each. Two goroutines that each
hand over their items one at a time with a blocking send on an unbuffered channel, and a consumer that takes one item
per iteration from whichever `select` case is ready, give exactly these sequences. -/
inductive Merge {α : Type} : List α → List α → List α → Prop
  | nil : Merge [] [] []
  | left {x : α} {l a b : List α} : Merge l a b → Merge (x :: l) (x :: a) b
  | right {x : α} {l a b : List α} : Merge l a b → Merge (x :: l) a (x :: b)

/-- executable test for `Merge` (used in the non-vacuity examples) -/
def isMerge {α : Type} [DecidableEq α] : List α → List α → List α → Bool
  | [], a, b => a.isEmpty && b.isEmpty
  | x :: l, a, b =>
    (match a with | y :: a' => decide (x = y) && isMerge l a' b | [] => false) ||
    (match b with | y :: b' => decide (x = y) && isMerge l a b' | [] => false)

/-- the events the service monitor hands over: `case svccfg = <-svc` -/
def svcEvents (texts : List Str) : List Event := texts.map Event.svc

/-- the events the KV watcher hands over: `case mancfg = <-man` -/
def manEvents (texts : List Str) : List Event := texts.map Event.man

/-- `Watch`: every answered health query (blocking or polling mode; a failed query is retried and produces nothing)
yields one text — `compute` of the state the answer describes — and the loop does not ask again before the table
loop has taken it (`updates <- w.makeConfig(passing)`, a plain send). -/
def watchTexts {ρ : Type} (compute : ρ → Str) (observed : List ρ) : List Str := observed.map compute

/-- The hand-over if it were a non-blocking send (`select { case updates <- cfg: default: }`): the text of round `k`
reaches the table loop only when the loop happens to wait in its `select` at that moment (`taken k`); otherwise it is
dropped and the monitor goes on to wait for the next change. -/
def handOverNonBlocking : List Bool → List Str → List Str
  | t :: ts, x :: xs => if t then x :: handOverNonBlocking ts xs else handOverNonBlocking ts xs
  | _, _ => []

/-! ### `listKV` and `watchKV` -/

def kvHeader : Str := "# --- ".toList

/-- one KV pair in the manual text: the value with `strings.TrimSpace`, and — with `separator` (the route commands;
not the no-route page) — a comment line naming the key in front of it -/
def kvItem (separator : Bool) (kv : Str × Str) : Str :=
  if separator then kvHeader ++ kv.1 ++ '\n' :: trimSpace kv.2 else trimSpace kv.2

/-- `listKV`: the values of the pairs below the path, in the order Consul lists them (sorted by key), joined by an
empty line; no pairs give the empty text. -/
def listKVText (separator : Bool) (pairs : List (Str × Str)) : Str :=
  join ['\n', '\n'] (pairs.map (kvItem separator))

/-- the locals of `watchKV` -/
structure KVWatch where
  lastValue : Str := []
  lastIndex : Nat := 0
deriving DecidableEq, Repr

/-- one answered query of `watchKV` (a failed one pauses and changes nothing): publish iff the value or the index
differs from what is remembered — a *change* test, an index that went backwards is a change like any other -/
def watchKVRound (s : KVWatch) (value : Str) (index : Nat) : KVWatch × Option Str :=
  if value != s.lastValue || index != s.lastIndex then ({ lastValue := value, lastIndex := index }, some value)
  else (s, none)

/-- the texts `watchKV` publishes over a sequence of answers `(value, index)` -/
def watchKVRun (s : KVWatch) : List (Str × Nat) → List Str
  | [] => []
  | (v, i) :: rest =>
    match (watchKVRound s v i).2 with
    | some p => p :: watchKVRun (watchKVRound s v i).1 rest
    | none => watchKVRun (watchKVRound s v i).1 rest

def watchKVFinal (s : KVWatch) : List (Str × Nat) → KVWatch
  | [] => s
  | (v, i) :: rest => watchKVFinal (watchKVRound s v i).1 rest

/-- The alternative that discards answers whose index is smaller than the remembered one (seeded change m6 of
round 2): after the index went backwards nothing is published any more. -/
def watchKVRoundMonotone (s : KVWatch) (value : Str) (index : Nat) : KVWatch × Option Str :=
  if index < s.lastIndex then (s, none) else watchKVRound s value index

/-! ### the alias registration inside an iteration of `watchBackend` -/

/-- One iteration with the alias registration spelled out: `register next` is whether
`registry.Default.Register(route.ParseAliases(next))` succeeded. The third component is that outcome (`none`: not
called, the text is unchanged). The code discards it: the table is built and installed all the same. -/
def stepOutReg {T} (register : Str → Bool) (build : Str → Option T) (s : State T) (e : Event) :
    State T × Option T × Option Bool :=
  let s1 := receive s e
  let next := concatCfg s1.svccfg s1.mancfg
  if next == s1.lastTable then (s1, none, none)
  else
    let ok := register next
    match build next with
    | none => (s1, none, some ok)
    | some t => ({ s1 with lastTable := next, active := t }, some t, some ok)

/-- The alternative design in which a failed alias registration ends the iteration (`continue` before
`route.NewTable`; seeded change m10 of round 4). -/
def stepAbortOnRegisterError {T} (register : Str → Bool) (build : Str → Option T) (s : State T) (e : Event) :
    State T :=
  let s1 := receive s e
  let next := concatCfg s1.svccfg s1.mancfg
  if next == s1.lastTable then s1
  else if !register next then s1
  else match build next with
    | none => s1
    | some t => { s1 with lastTable := next, active := t }

end Fabio.Model.C01Sys
