import Fabio.Basic
/-!
C06 — concurrent requests do not influence each other's routing: the interleaving model.

* **Semantics.**  Shared state `S`, a thread = list of atomic micro-steps `S → L → S × L` plus its local
  state `L`, a schedule = list of thread ids; `run` executes the head step of the scheduled thread (ids that
  are out of range or name a finished thread are skipped, so *every* list of naturals is a schedule).
  One `sync/atomic` call, one `sync.Map` call and one critical section under a mutex are one micro-step
  each; a plain read followed by an atomic add is two.  (Trusted: Go's memory model for these primitives.)
* **Programs** (both the form found on the unchanged tree and the repaired form are kept, the former to
  exhibit witnesses):
  - `rrPicker`            current `[rrRead N, rrAdd]`          repaired `[rrFetchAdd N]`
  - `GlobCache.Get`       current `getCurrent` (7 micro-steps)  repaired `getRepaired` (fast path load,
                          compile, slow path = the same statements under one mutex = one step)
  - redirect lookup       current `[rdWrite, rdRead]`          repaired `[rdPure]`
  - `route.SetTable` / `GetTable`: one `atomic.Value` store / load.
  Patterns, compiled globs, requests and Locations are natural numbers (identities); `compile` and `build`
  are parameters (gobwas/glob and the URL builder are modelled elsewhere — C03, C13).
-/
namespace Fabio.Model.C06

/-! ## Interleaving semantics -/

abbrev Step (S L : Type) := S → L → S × L

structure Thread (S L : Type) where
  steps : List (Step S L)
  loc : L

section sem
variable {S L : Type}

/-- Thread `i` performs its next micro-step (nothing happens if there is no such thread or it is finished). -/
def stepAt (i : Nat) (ts : List (Thread S L)) (s : S) : S × List (Thread S L) :=
  match ts[i]? with
  | none => (s, ts)
  | some t =>
    match t.steps with
    | [] => (s, ts)
    | f :: rest => ((f s t.loc).1, ts.set i { steps := rest, loc := (f s t.loc).2 })

def run : List Nat → List (Thread S L) → S → S × List (Thread S L)
  | [], ts, s => (s, ts)
  | i :: sch, ts, s => run sch (stepAt i ts s).2 (stepAt i ts s).1

def outputs (r : S × List (Thread S L)) : List L := r.2.map (·.loc)

def finished (ts : List (Thread S L)) : Bool := ts.all (fun t => t.steps.isEmpty)

/-- Several statements executed without interruption: a critical section under one mutex. -/
def atomicSeq (fs : List (Step S L)) : Step S L := fun s l => fs.foldl (fun r f => f r.1 r.2) (s, l)

/-- The sequential schedule: thread 0 to completion, then thread 1, … -/
def seqSchedule (ts : List (Thread S L)) : List Nat :=
  (List.range ts.length).flatMap (fun i => List.replicate ((ts[i]?.map (·.steps.length)).getD 0) i)

end sem

/-! ## Shared state of the lookup path -/

/-- `route.GlobCache`: `m` is the `sync.Map` (pattern ↦ compiled glob), `l` the ring of patterns (fixed
length = configured size, `0` = unused slot), `h` the head (oldest entry), `n` the number of used slots. -/
structure Cache where
  m : List (Nat × Nat)
  l : List Nat
  h : Nat
  n : Nat
deriving DecidableEq, Repr

def Cache.new (size : Nat) : Cache := { m := [], l := List.replicate size 0, h := 0, n := 0 }

def mLoad (p : Nat) (m : List (Nat × Nat)) : Option Nat := m.lookup p
def mDelete (p : Nat) (m : List (Nat × Nat)) : List (Nat × Nat) := m.filter (fun e => e.1 != p)
def mStore (p g : Nat) (m : List (Nat × Nat)) : List (Nat × Nat) := (p, g) :: mDelete p m
def keys (m : List (Nat × Nat)) : List Nat := m.map (·.1)

/-- Everything a lookup can reach that is shared between requests. -/
structure State where
  /-- `Route.total`, the round-robin cursor -/
  total : Nat := 0
  cache : Cache := Cache.new 0
  /-- `Target.RedirectURL` of the (one) shared redirect target; `none` = nil -/
  redirect : Option Nat := none
  /-- the `atomic.Value` cell holding the active table (table identity) -/
  table : Nat := 0
  /-- state of math/rand's process-wide generator (behind the generator's own lock) -/
  rng : Nat := 0
deriving DecidableEq, Repr

inductive PanicKind where
  | indexOutOfRange | divideByZero
deriving DecidableEq, Repr

/-- Result of one `GlobCache.Get`. -/
inductive Res where
  | ok (g : Nat) | err | panic (k : PanicKind)
deriving DecidableEq, Repr

def Res.isPanic : Res → Bool
  | .panic _ => true
  | _ => false

inductive Phase where
  | start | missed | compiled | append | evict | done
deriving DecidableEq, Repr

/-- Thread-local state: scratch registers of the operation in flight and the outputs handed back so far. -/
structure Local where
  idx : Nat := 0                       -- rrPicker: index computed from the plain read of `total`
  phase : Phase := .start              -- GlobCache.Get: where the call in flight stands
  cur : Nat := 0                       -- GlobCache.Get: the parameter `pattern` of the call in flight
  glb : Nat := 0                       -- GlobCache.Get: the freshly compiled glob
  tbl : Nat := 0                       -- table snapshot of the lookup in flight
  picks : List Nat := []               -- ring indices handed to this thread, in order
  gets : List (Nat × Res) := []        -- (pattern, result) of every completed Get
  locs : List (Nat × Option Nat) := [] -- (request, Location sent) of every completed redirect lookup
  tbls : List Nat := []                -- table seen by every lookup
  rpicks : List (Nat × Nat) := []      -- rndPicker: (ring size, index handed out)
  dead : Bool := false                 -- the goroutine panicked
deriving DecidableEq, Repr

abbrev St := Step State Local
abbrev Th := Thread State Local

/-- A goroutine that panicked does nothing more. -/
def alive (f : St) : St := fun s l => if l.dead then (s, l) else f s l

def Local.die (l : Local) : Local := { l with dead := true, phase := .done }

/-! ## rrPicker -/

/-- current: `u := r.wTargets[r.total % uint64(len(r.wTargets))]` — plain read of the cursor -/
def rrRead (N : Nat) : St := alive fun s l =>
  if N = 0 then (s, l.die) else (s, { l with idx := s.total % N })

/-- current: `atomic.AddUint64(&r.total, 1); return u` -/
def rrAdd : St := alive fun s l =>
  ({ s with total := s.total + 1 }, { l with picks := l.picks ++ [l.idx] })

/-- repaired: `n := atomic.AddUint64(&r.total, 1); return r.wTargets[(n-1) % uint64(len(r.wTargets))]` -/
def rrFetchAdd (N : Nat) : St := alive fun s l =>
  if N = 0 then ({ s with total := s.total + 1 }, l.die)
  else
    let n := s.total + 1
    ({ s with total := n }, { l with picks := l.picks ++ [(n - 1) % N] })

/-- the generator's transition; no theorem depends on which function it is -/
def rngNext (x : Nat) : Nat := (x * 1103515245 + 12345) % 2147483648

/-- `rndPicker`: `r.wTargets[randIntn(len(r.wTargets))]` with `randIntn` = math/rand's top-level `rand.Intn`.
Trusted contract: the top-level functions of math/rand are safe for concurrent use (the process-wide generator
sits behind its own lock), so one call is one micro-step that reads and advances the shared generator state and
yields an index below `N`.  (`Props/C06Facts.rnd_uses_locked_generator` pins that `randIntn` calls nothing else.)
An empty ring panics (index out of range). -/
def rndPick (N : Nat) : St := alive fun s l =>
  if N = 0 then (s, l.die)
  else ({ s with rng := rngNext s.rng }, { l with rpicks := l.rpicks ++ [(N, s.rng % N)] })

def pickCurrent (N : Nat) : List St := [rrRead N, rrAdd]
def pickRepaired (N : Nat) : List St := [rrFetchAdd N]

/-- names of the shared-memory accesses of the two forms, pinned to the source by `Props/C06Facts.lean` -/
def pickCurrentAccesses : List String := ["read Route.total", "atomic.AddUint64 Route.total"]
def pickRepairedAccesses : List String := ["atomic.AddUint64 Route.total"]

/-! ## GlobCache.Get

The pattern of the call in flight is the goroutine's local variable `cur` (set on entry by `gLoad p`); the
remaining statements refer to it, exactly as the Go statements refer to the parameter `pattern`. -/

def finishGet (l : Local) (r : Res) : Local :=
  { l with phase := .done, gets := l.gets ++ [(l.cur, r)], dead := l.dead || r.isPanic }

/-- entry + fast path: `if glb, ok := c.m.Load(pattern); ok { return glb, nil }` -/
def gLoad (p : Nat) : St := alive fun s l =>
  match mLoad p s.cache.m with
  | some g => (s, finishGet { l with cur := p } (.ok g))
  | none => (s, { l with cur := p, phase := .missed })

/-- `glob.Compile(pattern)`; an error is returned to the caller -/
def gCompile (compile : Nat → Option Nat) : St := alive fun s l =>
  if l.phase = .missed then
    match compile l.cur with
    | none => (s, finishGet l .err)
    | some g => (s, { l with glb := g, phase := .compiled })
  else (s, l)

/-- repaired form only: the map is consulted again under the lock -/
def gRecheck : St := alive fun s l =>
  if l.phase = .compiled then
    match mLoad l.cur s.cache.m with
    | some g => (s, finishGet l (.ok g))
    | none => (s, l)
  else (s, l)

/-- `if c.n < len(c.l)` -/
def gTest : St := alive fun s l =>
  if l.phase = .compiled then
    (s, { l with phase := if s.cache.n < s.cache.l.length then .append else .evict })
  else (s, l)

/-- append: `c.m.Store(pattern, g)` · evict: `c.m.Delete(c.l[c.h])` -/
def gS4 : St := alive fun s l =>
  match l.phase with
  | .append => ({ s with cache := { s.cache with m := mStore l.cur l.glb s.cache.m } }, l)
  | .evict =>
    match s.cache.l[s.cache.h]? with
    | none => (s, finishGet l (.panic .indexOutOfRange))
    | some old => ({ s with cache := { s.cache with m := mDelete old s.cache.m } }, l)
  | _ => (s, l)

/-- append: `c.l[c.n] = pattern` · evict: `c.m.Store(pattern, g)` -/
def gS5 : St := alive fun s l =>
  match l.phase with
  | .append =>
    if s.cache.n < s.cache.l.length then
      ({ s with cache := { s.cache with l := s.cache.l.set s.cache.n l.cur } }, l)
    else (s, finishGet l (.panic .indexOutOfRange))
  | .evict => ({ s with cache := { s.cache with m := mStore l.cur l.glb s.cache.m } }, l)
  | _ => (s, l)

/-- append: `c.n++; return` · evict: `c.l[c.h] = pattern` -/
def gS6 : St := alive fun s l =>
  match l.phase with
  | .append => ({ s with cache := { s.cache with n := s.cache.n + 1 } }, finishGet l (.ok l.glb))
  | .evict =>
    if s.cache.h < s.cache.l.length then
      ({ s with cache := { s.cache with l := s.cache.l.set s.cache.h l.cur } }, l)
    else (s, finishGet l (.panic .indexOutOfRange))
  | _ => (s, l)

/-- evict: `c.h = (c.h + 1) % c.n; return` -/
def gS7 : St := alive fun s l =>
  match l.phase with
  | .evict =>
    if s.cache.n = 0 then (s, finishGet l (.panic .divideByZero))
    else ({ s with cache := { s.cache with h := (s.cache.h + 1) % s.cache.n } }, finishGet l (.ok l.glb))
  | _ => (s, l)

/-- the statements of the slow path after `Compile`, in source order -/
def slowPath : List St := [gTest, gS4, gS5, gS6, gS7]

/-- `GlobCache.Get` as found: every statement is its own micro-step, nothing is held. -/
def getCurrent (compile : Nat → Option Nat) (p : Nat) : List St :=
  [gLoad p, gCompile compile] ++ slowPath

/-- repaired: re-check + the same slow-path statements, all under `c.mu` — one micro-step -/
def gSlowLocked : St := atomicSeq (gRecheck :: slowPath)

/-- `GlobCache.Get` repaired: lock-free fast path, compile, locked slow path. -/
def getRepaired (compile : Nat → Option Nat) (p : Nat) : List St :=
  [gLoad p, gCompile compile, gSlowLocked]

/-- what `Get` must return whatever the cache holds: the compiled pattern, or the compile error -/
def getSpec (compile : Nat → Option Nat) (p : Nat) : Res :=
  match compile p with
  | some g => .ok g
  | none => .err

/-- shared accesses of `Get` outside / inside the critical section (pinned by `Props/C06Facts.lean`) -/
def getRepairedUnlocked : List String := ["m.Load"]
def getRepairedLocked : List String :=
  ["m.Load",                                              -- gRecheck
   "read n", "read l",                                     -- gTest      if c.n < len(c.l)
   "m.Store", "read n", "write l", "read n", "write n",    -- append     gS4 gS5 gS6
   "read l", "read h", "m.Delete", "m.Store",              -- evict      gS4 gS5
   "read h", "write l", "read h", "read n", "write h"]     --            gS6 gS7

/-! ## redirect lookup and table cell -/

/-- current: `target.BuildRedirectURL(req.URL)` stores the URL on the shared target (in `Table.Lookup`) -/
def rdWrite (build : Nat → Nat) (r : Nat) : St := alive fun s l =>
  ({ s with redirect := some (build r) }, l)

/-- current: `http.Redirect(w, r, t.RedirectURL.String(), …)` reads it back (in `HTTPProxy.ServeHTTP`) -/
def rdRead (r : Nat) : St := alive fun s l =>
  (s, { l with locs := l.locs ++ [(r, s.redirect)] })

/-- repaired: the Location is computed from the request and the (immutable) target only -/
def rdPure (build : Nat → Nat) (r : Nat) : St := alive fun s l =>
  (s, { l with locs := l.locs ++ [(r, some (build r))] })

def redirectCurrent (build : Nat → Nat) (r : Nat) : List St := [rdWrite build r, rdRead r]
def redirectRepaired (build : Nat → Nat) (r : Nat) : List St := [rdPure build r]

/-- `route.GetTable()`: one `atomic.Value.Load` -/
def tblSnap : St := alive fun s l => (s, { l with tbl := s.table, tbls := l.tbls ++ [s.table] })

/-- `route.SetTable(t)`: one `atomic.Value.Store` -/
def tblSet (v : Nat) : St := alive fun s l => ({ s with table := v }, l)

/-! ## a whole lookup -/

/-- What the (immutable) active table makes of a request: the host patterns `matchingHosts` compiles, the
ring size of the matched route if it has several targets (`none`: single target, no picker call), and
whether the target is a redirect. -/
structure Req where
  id : Nat
  pats : List Nat := []
  ring : Option Nat := none
  /-- the configured strategy is `rnd` (the default) instead of `rr` -/
  rnd : Bool := false
  redirect : Bool := false
deriving DecidableEq, Repr

def lookupRepaired (compile : Nat → Option Nat) (build : Nat → Nat) (q : Req) : List St :=
  [tblSnap] ++ q.pats.flatMap (getRepaired compile)
    ++ (match q.ring with | some N => (if q.rnd then [rndPick N] else pickRepaired N) | none => [])
    ++ (if q.redirect then redirectRepaired build q.id else [])

def lookupCurrent (compile : Nat → Option Nat) (build : Nat → Nat) (q : Req) : List St :=
  [tblSnap] ++ q.pats.flatMap (getCurrent compile)
    ++ (match q.ring with | some N => (if q.rnd then [rndPick N] else pickCurrent N) | none => [])
    ++ (if q.redirect then redirectCurrent build q.id else [])

/-- the shared writes of a repaired lookup as (kind, destination) — without the name of the function they sit
in, so that extracting, inlining or renaming helpers does not matter (pinned by `Generated.C06.lookupWriteKinds`):
the atomic cursor add, the `sync.Once` that seeds the generator, the cache bookkeeping under the lock -/
def lookupSharedWrites : List (String × String) :=
  [("atomic", "Route.total"),
   ("call", "var:sync.Once.Do"),
   ("locked", "GlobCache.h"),
   ("locked", "GlobCache.l"),
   ("locked", "GlobCache.m.Delete"),
   ("locked", "GlobCache.m.Store"),
   ("locked", "GlobCache.n")]

/-! ## invariants and step classes the theorems are stated about -/

/-- structural invariant of the cache (the `compile` conjunct ties cached values to their patterns) -/
def CacheInv (compile : Nat → Option Nat) (size : Nat) (c : Cache) : Prop :=
  c.l.length = size ∧ c.n ≤ size ∧ (c.n < size → c.h = 0) ∧ c.h < max c.n 1 ∧
  (keys c.m).Perm (c.l.take c.n) ∧ (keys c.m).Nodup ∧ (∀ e ∈ c.m, compile e.1 = some e.2)

/-- the micro-steps a repaired lookup is made of -/
inductive LookupStep (compile : Nat → Option Nat) (build : Nat → Nat) : St → Prop where
  | snap : LookupStep compile build tblSnap
  | load (p : Nat) : LookupStep compile build (gLoad p)
  | comp : LookupStep compile build (gCompile compile)
  | slow : LookupStep compile build gSlowLocked
  | pick (N : Nat) (h : 0 < N) : LookupStep compile build (rrFetchAdd N)
  | rnd (N : Nat) (h : 0 < N) : LookupStep compile build (rndPick N)
  | redirect (r : Nat) : LookupStep compile build (rdPure build r)

/-- … plus table replacement running next to the lookups -/
inductive SysStep (compile : Nat → Option Nat) (build : Nat → Nat) : St → Prop where
  | lookup {f : St} (h : LookupStep compile build f) : SysStep compile build f
  | setTable (v : Nat) : SysStep compile build (tblSet v)

/-- what is true of a goroutine's local state between any two of its micro-steps -/
def LocalInv (compile : Nat → Option Nat) (build : Nat → Nat) (l : Local) : Prop :=
  l.dead = false ∧ l.phase ≠ .append ∧ l.phase ≠ .evict ∧
  (l.phase = .compiled → compile l.cur = some l.glb) ∧
  (∀ e ∈ l.gets, e.2 = getSpec compile e.1) ∧ (∀ e ∈ l.locs, e.2 = some (build e.1)) ∧
  (∀ e ∈ l.rpicks, e.2 < e.1)

/-- a step that leaves cursor, redirect slot and table cell alone and hands out no ring index -/
def FrameStep (f : St) : Prop :=
  ∀ s l, (f s l).1.total = s.total ∧ (f s l).1.redirect = s.redirect ∧ (f s l).1.table = s.table ∧
    (f s l).2.picks = l.picks

/-! ## thread builders -/

def mkThread (steps : List St) : Th := { steps := steps, loc := {} }

def rrThreadRepaired (N k : Nat) : Th := mkThread ((List.replicate k (pickRepaired N)).flatten)
def rrThreadCurrent (N k : Nat) : Th := mkThread ((List.replicate k (pickCurrent N)).flatten)
def getThreadRepaired (compile : Nat → Option Nat) (ps : List Nat) : Th := mkThread (ps.flatMap (getRepaired compile))
def getThreadCurrent (compile : Nat → Option Nat) (ps : List Nat) : Th := mkThread (ps.flatMap (getCurrent compile))
def rdThreadRepaired (build : Nat → Nat) (rs : List Nat) : Th := mkThread (rs.flatMap (redirectRepaired build))
def rdThreadCurrent (build : Nat → Nat) (rs : List Nat) : Th := mkThread (rs.flatMap (redirectCurrent build))

/-- all ring indices handed out so far, over all threads -/
def allPicks (ts : List Th) : List Nat := ts.flatMap (fun t => t.loc.picks)

/-- micro-steps still to be performed -/
def remaining (ts : List Th) : Nat := (ts.map (fun t => t.steps.length)).sum

def lookupThread (compile : Nat → Option Nat) (build : Nat → Nat) (qs : List Req) : Th :=
  mkThread (qs.flatMap (lookupRepaired compile build))
def swapThread (vs : List Nat) : Th := mkThread (vs.map tblSet)

/-! ## specification predicates (evaluated by the driver on the implementation's own output) -/

/-- the structural invariant of the cache: sizes bounded, the map's keys are exactly the used ring slots -/
def cacheOK (size : Nat) (mkeys l : List Nat) (h n : Nat) : Bool :=
  l.length == size && decide (n ≤ size) && decide (mkeys.length ≤ size) && decide (h < max n 1)
    && (mkeys.all (fun k => (l.take n).contains k)) && ((l.take n).all (fun k => mkeys.contains k))
    && decide (mkeys.length = n)

/-- number of `i < K` with `(c+i) % N = j` — what slot `j` must have received after `K` picks from cursor `c` -/
def slotShare (N c K j : Nat) : Nat := ((List.range' c K).map (· % N)).count j

/-- per-target share after `K` picks from cursor `c` over `ring` (slot ↦ target) -/
def targetShare (ring : List Nat) (c K t : Nat) : Nat :=
  ((List.range' c K).map (fun x => ring[x % ring.length]?.getD 0)).count t

/-- the same number computed cycle-wise with O(1) ring access (what the driver evaluates on 10⁵–10⁶ picks);
`Props.C06.targetShareFast_eq` proves it equal to `targetShare` -/
def targetShareFast (ring : List Nat) (c K t : Nat) : Nat :=
  let N := ring.length
  let a := ring.toArray
  (K / N) * ring.count t + ((List.range' (c + N * (K / N)) (K % N)).map (fun x => a[x % N]?.getD 0)).count t

end Fabio.Model.C06
