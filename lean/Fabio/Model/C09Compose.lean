import Fabio.Model.C09
import Fabio.Model.C10
/-!
Composition of the C09 tunnel model with C10's ClientHello model (core Lean only).

`Model.C09.sniServe` takes the routing decision as a parameter (`routed`) and computes the hello size with
its own `helloSize`. Here both are instantiated with C10's functions: the size function is shown equal to
C10's `clientHelloBufferSize` (`Props.C09Compose.size_agrees`), and the routing decision is what
`SNIProxy.ServeTCP` does with `readServerName(data[5:])` — C10's `readServerName` — and the route table.
-/
namespace Fabio.Model.C09Compose
open Fabio Fabio.Model.C09

/-- C10's result type projected to an option (reject and panic are both "no size"; C10 proves there is no
panic). -/
def sizeC10 (hdr : Bytes) : Option Nat :=
  match Fabio.Model.C10.clientHelloBufferSize hdr with
  | .ok n => some n
  | _ => none

/-- The host `SNIProxy.ServeTCP` looks up, from the bytes `io.ReadFull` returned: `readServerName(data[5:])`
with `!ok → return` and `host == "" → return`. -/
def lookedUp (data : Bytes) : Option Bytes :=
  match Fabio.Model.C10.readServerName (data.drop 5) with
  | .ok (nm, true) => if nm = [] then none else some nm
  | _ => none

/-- The routing decision of `ServeTCP` from the bytes `ReadFull` returned: a name was extracted and the
table has a route for it (`table host` = `Lookup(host) != nil`). -/
def routedBy (table : Bytes → Bool) (data : Bytes) : Bool :=
  match lookedUp data with
  | some host => table host
  | none => false

/-- `SNIProxy.ServeTCP` with C10's parser and a route table. The bytes `ReadFull` returns do not depend on
the routing decision, so they are taken from a first run. -/
def sniProxy (src : CopySrc) (table : Bytes → Bool) (line : Bytes) (script : Script) : SniRes :=
  sniServe src (routedBy table (sniServe src true line script).hello) line script

/-- The host the proxy hands to `Lookup` on this connection, if it gets that far. -/
def sniLookup (script : Script) : Option Bytes :=
  let r := sniServe .buffered true [] script
  if r.stage = .tunnel then lookedUp r.hello else none

end Fabio.Model.C09Compose
