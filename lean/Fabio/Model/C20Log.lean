/-!
Concurrency model of `logger.(*logger).Log` (`logger/logger.go`):

    b := pool.Get().(*bytes.Buffer); b.Reset()     -- get
    l.p.write(b, e)                                -- render
    l.mu.Lock()                                    -- lock
    l.w.Write(b.Bytes())                           -- write
    l.mu.Unlock()                                  -- unlock
    pool.Put(b)                                    -- put

Shared state: the buffer objects (their contents), the pool (buffers that have been `Put` and may be handed
to anybody by the next `Get`), the mutex, the sink. Each request thread runs `Log` once per event; a schedule
picks, micro-step by micro-step, which thread moves and (for `get`) which pooled buffer — or a new one —
`sync.Pool` hands out. The order of the micro-steps is a parameter (`prog`) so that other orders of the same
steps can be evaluated. `b.Bytes()` aliases the buffer: what `write` puts into the sink is the content the
buffer has *at that moment*. Core Lean only.
-/
namespace Fabio.Model.C20Log

inductive Op where
  | get | render | lock | write | unlock | put
deriving DecidableEq, Repr

/-- the order in `logger.go` (pinned by the regenerated fact `log_call_order_pinned`) -/
def goodProg : List Op := [.get, .render, .lock, .write, .unlock, .put]

/-- "hand the buffer back before waiting for the writer": same steps, `put` moved before `lock` -/
def earlyPutProg : List Op := [.get, .render, .put, .lock, .write, .unlock]

structure Thread (Ev : Type) where
  todo : List Ev            -- events still to be logged by this thread; the head is being logged
  pc : Nat := 0             -- next micro-step of the current `Log` call
  buf : Option Nat := none  -- the buffer the local `b` (and any slice taken from it) refers to
deriving Repr

structure St (Ev : Type) where
  bufs : List (List Char) := []      -- contents of the buffer objects ever created
  free : List Nat := []              -- the pool
  lock : Option Nat := none          -- holder of `l.mu`
  sink : List (List Char × Ev) := [] -- bytes of each `Write` call, tagged with the event whose `Log` call made it
  threads : List (Thread Ev)
deriving Repr

def init {Ev} (evs : List (List Ev)) : St Ev := { threads := evs.map fun es => { todo := es } }

def setThread {Ev} (s : St Ev) (t : Nat) (th : Thread Ev) : St Ev := { s with threads := s.threads.set t th }

/-- One micro-step of thread `t`; `choice` resolves what `pool.Get` returns (one of the pooled buffers or a
new one). A thread that has no event left, or that waits for the mutex, does not move. -/
def step {Ev} (prog : List Op) (render : Ev → List Char) (t choice : Nat) (s : St Ev) : St Ev :=
  match s.threads[t]? with
  | none => s
  | some th =>
    match th.todo with
    | [] => s
    | e :: rest =>
      match prog[th.pc]? with
      | none => setThread s t { todo := rest, pc := 0, buf := none }   -- `Log` returns; next event
      | some .get =>
        let k := choice % (s.free.length + 1)
        match s.free[k]? with
        | some b =>   -- a pooled buffer; `b.Reset()`
          setThread { s with free := s.free.eraseIdx k, bufs := s.bufs.set b [] } t { th with pc := th.pc + 1, buf := some b }
        | none =>     -- `pool.New`
          setThread { s with bufs := s.bufs ++ [[]] } t { th with pc := th.pc + 1, buf := some s.bufs.length }
      | some .render =>
        match th.buf with
        | some b => setThread { s with bufs := s.bufs.set b (render e) } t { th with pc := th.pc + 1 }
        | none => setThread s t { th with pc := th.pc + 1 }
      | some .lock =>
        if s.lock.isNone then setThread { s with lock := some t } t { th with pc := th.pc + 1 } else s
      | some .write =>
        match th.buf with
        | some b => setThread { s with sink := s.sink ++ [(s.bufs.getD b [], e)] } t { th with pc := th.pc + 1 }
        | none => setThread s t { th with pc := th.pc + 1 }
      | some .unlock => setThread { s with lock := none } t { th with pc := th.pc + 1 }
      | some .put =>
        match th.buf with
        | some b => setThread { s with free := b :: s.free } t { th with pc := th.pc + 1 }   -- `b` stays in scope
        | none => setThread s t { th with pc := th.pc + 1 }

/-- run a schedule: a list of (thread, choice) -/
def run {Ev} (prog : List Op) (render : Ev → List Char) (sched : List (Nat × Nat)) (s : St Ev) : St Ev :=
  sched.foldl (fun s tc => step prog render tc.1 tc.2 s) s

/-- every line in the sink is the rendering of the event whose `Log` call wrote it -/
def SinkIntact {Ev} (render : Ev → List Char) (s : St Ev) : Prop := ∀ x ∈ s.sink, x.1 = render x.2

instance {Ev} [DecidableEq Ev] (render : Ev → List Char) (s : St Ev) : Decidable (SinkIntact render s) := by
  unfold SinkIntact; exact inferInstance

end Fabio.Model.C20Log
