import Fabio.Basic
/-!
C13 — redirect routes answer from the request alone: executable model (core Lean only).

Modelled code (the tree *with the repairs* of D08, D17, D17b, D17c, D17e, D18, D18b, D18c and D27):

* `route/route.go` `addTarget`: the `redirect=<code>` option (`strconv.Atoi`, 300..399, else 0);
* `route/target.go` `BuildRedirectURL`, statement by statement;
* `route/table.go` `Lookup`: the loop over the matching hosts with the self-redirect skip;
* `proxy/http_proxy.go` `ServeHTTP`: `http.Redirect(w, r, t.RedirectURL.String(), t.RedirectCode)`;
* the part of `net/url` that decides which bytes reach the `Location` header: `shouldEscape` (path and host
  mode), `escape`, `unescape` (path mode), `validEncoded`, `URL.setPath`, `URL.EscapedPath`, `URL.String`
  (for URLs without user info, opaque part and fragment — `BuildRedirectURL` never sets those), and
  `http.hexEscapeNonASCII`.

Go strings are byte strings: `Str = List UInt8`. Non-ASCII bytes are opaque (every byte ≥ 0x80 "should be
escaped" in `net/url`, nothing else is asked of them).
-/
namespace Fabio.Model.C13

abbrev Str := List UInt8

/-- one ASCII character as a byte -/
def ch (c : Char) : UInt8 := c.toNat.toUInt8
/-- an ASCII literal as a byte string -/
def lit (s : String) : Str := s.toList.map ch

/-! ### `strings` helpers -/

def hasPrefix (s p : Str) : Bool := p.isPrefixOf s
def hasSuffix (s p : Str) : Bool := p.isSuffixOf s

/-- `strings.Contains(s, sub)` -/
def contains (sub : Str) : Str → Bool
  | [] => sub.isEmpty
  | c :: cs => sub.isPrefixOf (c :: cs) || contains sub cs

/-- `strings.Replace(s, old, new, 1)` for non-empty `old`: the first occurrence is replaced. -/
def replace1 (old new : Str) : Str → Str
  | [] => []
  | c :: cs => if old.isPrefixOf (c :: cs) then new ++ (c :: cs).drop old.length else c :: replace1 old new cs

/-- `strings.Cut(s, sep)` for a one-byte separator: (before, after, found). -/
def cut (sep : UInt8) : Str → Str × Str × Bool
  | [] => ([], [], false)
  | c :: cs => if c == sep then ([], cs, true) else
      let (a, b, f) := cut sep cs
      (c :: a, b, f)

/-! ### the three pseudo-variables (pinned against the literals in `target.go` by `Props/C13Facts.lean`) -/

/-- `"$path"` -/
def vPath : Str := [36, 112, 97, 116, 104]
/-- `"/$path"` -/
def vSlashPath : Str := 47 :: vPath
/-- `"$host"` -/
def vHost : Str := [36, 104, 111, 115, 116]
def slash : Str := [47]

/-- ASCII lower case of one byte -/
def lowerByte (c : UInt8) : UInt8 := if 65 ≤ c && c ≤ 90 then c + 32 else c

/-! ### `net/url` escaping -/

inductive Mode where
  | path | host
deriving DecidableEq, Repr

def isAlnum (c : UInt8) : Bool := (97 ≤ c && c ≤ 122) || (65 ≤ c && c ≤ 90) || (48 ≤ c && c ≤ 57)

/-- bytes `net/url.shouldEscape` lets through in host mode:  `! $ & ' ( ) * + , ; = : [ ] < > "` -/
def hostExtra : List UInt8 := [33, 36, 38, 39, 40, 41, 42, 43, 44, 59, 61, 58, 91, 93, 60, 62, 34]
/-- unreserved marks `- _ . ~` -/
def marks : List UInt8 := [45, 95, 46, 126]
/-- the reserved bytes `$ & + , / : ; = ? @` -/
def reserved : List UInt8 := [36, 38, 43, 44, 47, 58, 59, 61, 63, 64]

/-- `net/url.shouldEscape(c, mode)` for `encodePath` and `encodeHost`. -/
def shouldEscape (c : UInt8) (m : Mode) : Bool :=
  if isAlnum c then false
  else if m == .host && hostExtra.contains c then false
  else if marks.contains c then false
  else if reserved.contains c then
    match m with
    | .path => c == 63          -- only `?`
    | .host => true             -- falls through to "everything else must be escaped"
  else true

def upperhex (n : UInt8) : UInt8 := if n < 10 then 48 + n else 55 + n   -- '0'+n / 'A'+n-10

/-- `net/url.escape(s, mode)` (path and host mode: a space becomes `%20`). -/
def escape (m : Mode) : Str → Str
  | [] => []
  | c :: cs => if shouldEscape c m then 37 :: upperhex (c >>> 4) :: upperhex (c &&& 15) :: escape m cs
               else c :: escape m cs

def ishex (c : UInt8) : Bool := (48 ≤ c && c ≤ 57) || (97 ≤ c && c ≤ 102) || (65 ≤ c && c ≤ 70)
def unhex (c : UInt8) : UInt8 :=
  if 48 ≤ c && c ≤ 57 then c - 48 else if 97 ≤ c && c ≤ 102 then c - 97 + 10 else if 65 ≤ c && c ≤ 70 then c - 65 + 10 else 0

/-- `net/url.unescape(s, encodePath)`: `none` is the `EscapeError`. -/
def unescape : Str → Option Str
  | [] => some []
  | 37 :: h1 :: h2 :: rest =>
      if ishex h1 && ishex h2 then (unescape rest).map (fun r => ((unhex h1 <<< 4) ||| unhex h2) :: r) else none
  | [37] => none
  | [37, _] => none
  | c :: rest => (unescape rest).map (fun r => c :: r)

/-- bytes `validEncoded` accepts without asking `shouldEscape`: `! $ & ' ( ) * + , ; = : @ [ ] %` -/
def validExtra : List UInt8 := [33, 36, 38, 39, 40, 41, 42, 43, 44, 59, 61, 58, 64, 91, 93, 37]

/-- `net/url.validEncoded(s, encodePath)` -/
def validEncoded (s : Str) : Bool := s.all (fun c => validExtra.contains c || !shouldEscape c .path)

structure URL where
  scheme : Str := []
  host : Str := []
  path : Str := []
  rawPath : Str := []
  rawQuery : Str := []
deriving DecidableEq, Repr

/-- `URL.setPath(p)`: decoded path and the raw-path hint; `none` when the escaping is malformed. -/
def setPath (p : Str) : Option (Str × Str) :=
  match unescape p with
  | none => none
  | some path => some (path, if escape .path path == p then [] else p)

/-- `URL.EscapedPath()` -/
def escapedPath (u : URL) : Str :=
  if u.rawPath ≠ [] && validEncoded u.rawPath && unescape u.rawPath == some u.path then u.rawPath
  else if u.path == [42] then [42]
  else escape .path u.path

/-- `URL.String()` for a URL without user info, opaque part, fragment, `OmitHost`, `ForceQuery`. -/
def urlString (u : URL) : Str :=
  let s := if u.scheme ≠ [] then u.scheme ++ [58] else []
  let a := if u.scheme ≠ [] || u.host ≠ [] then
      (if u.host ≠ [] || u.path ≠ [] then [47, 47] else []) ++ escape .host u.host else []
  let p := escapedPath u
  let sl := if p ≠ [] && p.head? != some 47 && u.host ≠ [] then [47] else []
  let dot := if (s ++ a ++ sl).isEmpty && (cut 47 p).1.contains 58 then [46, 47] else []
  s ++ a ++ sl ++ dot ++ p ++ (if u.rawQuery ≠ [] then 63 :: u.rawQuery else [])

def lowerhex (n : UInt8) : UInt8 := if n < 10 then 48 + n else 87 + n
/-- `http.hexEscapeNonASCII` (lower-case hex digits, as `strconv.AppendInt(…, 16)` writes them) -/
def hexEscapeNonASCII : Str → Str
  | [] => []
  | c :: cs => if c ≥ 128 then 37 :: lowerhex (c >>> 4) :: lowerhex (c &&& 15) :: hexEscapeNonASCII cs
               else c :: hexEscapeNonASCII cs

/-- The request-target of an origin-form request as `url.ParseRequestURI` splits it (no scheme, leading
`/`): path up to the first `?`, the rest is the raw query (a single trailing `?` is `ForceQuery`, i.e. an
empty query). `none`: malformed escaping (the server answers 400 before fabio sees the request). -/
def parseTarget (host : Str) (t : Str) : Option URL :=
  let (p, q, _) := cut 63 t
  match setPath p with
  | none => none
  | some (path, raw) => some { host := host, path := path, rawPath := raw, rawQuery := q }

/-! ### the `redirect=` option (`route.go` addTarget) -/

def isDigit (c : UInt8) : Bool := 48 ≤ c && c ≤ 57
def digitsVal (ds : Str) : Nat := ds.foldl (fun a d => a * 10 + (d - 48).toNat) 0

def maxInt : Int := 9223372036854775807

/-- the optional sign `strconv.Atoi` accepts -/
def signOf : Str → Bool × Str
  | 43 :: r => (false, r)
  | 45 :: r => (true, r)
  | r => (false, r)

/-- `strconv.Atoi`: value and "error ≠ nil". A syntax error yields 0, a range error the clamped value. -/
def atoi (s : Str) : Int × Bool :=
  let (neg, ds) := signOf s
  if ds.isEmpty || !ds.all isDigit then (0, true) else
  let v : Int := digitsVal ds
  if neg then (if v > maxInt + 1 then (-(maxInt + 1), true) else (-v, false))
  else (if v > maxInt then (maxInt, true) else (v, false))

/-- `Target.RedirectCode` for the value of the `redirect` option (absent = empty string). With the repair
of D27 a value `Atoi` rejects leaves the code 0. -/
def redirectCode (opt : Str) : Int :=
  if opt.isEmpty then 0 else
  let (v, err) := atoi opt
  if err then 0 else if v < 300 || v > 399 then 0 else v

/-! ### `BuildRedirectURL` -/

/-- The fields of `route.Target` the redirect reads. `url.rawPath` is not read by the code. -/
structure RTarget where
  url : URL
  strip : Str := []
  prepend : Str := []
  code : Int := 0
deriving DecidableEq, Repr

def stripPrefix (s p : Str) : Str := if hasPrefix s p then s.drop p.length else s

/-! `(*Target).BuildRedirectURL(requestURL)`, one stage per statement of `target.go`. -/

/-- `t.RedirectURL = &url.URL{Scheme, Host, Path: t.URL.Path, RawPath: t.URL.EscapedPath(), RawQuery}`
(D17b repaired: the template's own encoding is kept) -/
def stage1 (t : RTarget) : URL :=
  { scheme := t.url.scheme, host := t.url.host, path := t.url.path, rawPath := escapedPath t.url, rawQuery := t.url.rawQuery }

/-- treat case of `$path` not separated with a `/` from host (D17 repaired: the raw path is set as well) -/
def stage2 (u : URL) : URL :=
  if hasSuffix u.host vPath then
    { u with host := u.host.take (u.host.length - vPath.length), path := vPath, rawPath := vPath } else u

/-- remove `/` before `$path` in redirect url -/
def stage3 (u : URL) : URL :=
  if contains vSlashPath u.path then
    { u with path := replace1 vSlashPath vPath u.path, rawPath := replace1 vSlashPath vPath u.rawPath } else u

/-- the replacement texts: request path and raw path after strip and prepend -/
def replacement (t : RTarget) (req : URL) : Str × Str :=
  let rp := req.path
  -- D17e repaired: `requestURL.EscapedPath()` (always a valid encoding) instead of the raw path as written
  let rr := escapedPath req
  let (rp, rr) := if t.strip ≠ [] then (stripPrefix rp t.strip, stripPrefix rr t.strip) else (rp, rr)
  -- D17c repaired: the raw path gets the prepend value in its escaped form
  if t.prepend ≠ [] then (t.prepend ++ rp, escapedPath { path := t.prepend } ++ rr) else (rp, rr)

/-- remove strip path, insert passed request path, set query -/
def stage4 (t : RTarget) (req : URL) (u : URL) : URL :=
  if contains vPath u.path then
    let (rp, rr) := replacement t req
    let u := { u with path := replace1 vPath rp u.path, rawPath := replace1 vPath rr u.rawPath }
    if u.rawQuery.isEmpty && req.rawQuery ≠ [] then { u with rawQuery := req.rawQuery } else u
  else u

/-- the path of the redirect URL is made absolute (D18b repaired; before, only an empty path became `/`
and `URL.String()` supplied the missing slash after the self-redirect comparison had been made) -/
def stage5 (u : URL) : URL :=
  if !hasPrefix u.path slash then
    { u with path := slash ++ u.path, rawPath := if u.rawPath ≠ [] then slash ++ u.rawPath else u.rawPath }
  else u

/-- `$host` substitution -/
def stage6 (req : URL) (u : URL) : URL :=
  if contains vHost u.host then { u with host := replace1 vHost req.host u.host } else u

def buildRedirectURL (t : RTarget) (req : URL) : URL :=
  stage6 req (stage5 (stage4 t req (stage3 (stage2 (stage1 t)))))

/-- The `Location` header `ServeHTTP` sends for a redirect target (the URL has a scheme, so
`http.Redirect` does not rewrite it). -/
def location (t : RTarget) (req : URL) : Str := hexEscapeNonASCII (urlString (buildRedirectURL t req))

/-! ### `Lookup`: the self-redirect skip -/

/-- The scheme the request arrived with: `X-Forwarded-Proto` if present, else from the connection
(D18 repaired). -/
def reqScheme (xfp : Str) (tls : Bool) : Str := if xfp ≠ [] then xfp else if tls then lit "https" else lit "http"

def selfRedirect (u : URL) (scheme : Str) (req : URL) : Bool :=
  u.scheme == scheme && u.host == req.host && u.path == req.path

/-- The loop of `Table.Lookup` over the matching hosts (the last one is the no-host fallback). `cands` holds,
per host in order, what `t.lookup(h, path, …)` returned. The result is the target handed to the proxy with
the redirect URL built for this request. A skipped redirect is dropped (`target = nil` before `continue`:
D18c repaired — before, a redirect skipped on the *last* host stayed selected and was answered). -/
def lookupLoop (scheme : Str) (req : URL) : List (Option RTarget) → Option (RTarget × Option URL)
  | [] => none
  | none :: rest => lookupLoop scheme req rest
  | some t :: rest =>
      if t.code ≠ 0 then
        let u := buildRedirectURL t req
        if selfRedirect u scheme req then lookupLoop scheme req rest else some (t, some u)
      else some (t, none)

def lookup (scheme : Str) (req : URL) (cands : List (Option RTarget)) : Option (RTarget × Option URL) :=
  lookupLoop scheme req cands

/-- What the client of a redirect route sees: status and `Location`. `none`: not a redirect answer. -/
def answer (scheme : Str) (req : URL) (cands : List (Option RTarget)) : Option (Int × Str) :=
  match lookup scheme req cands with
  | some (t, some u) => some (t.code, hexEscapeNonASCII (urlString u))
  | _ => none

/-! ### specification helpers (independent of `buildRedirectURL`) -/

/-- Remove from an *escaped* path the shortest prefix that decodes to `strip`; `none` if there is none. -/
def stripEnc : Str → Str → Option Str
  | [], e => some e
  | _ :: _, [] => none
  | s :: ss, 37 :: h1 :: h2 :: rest =>
      if ishex h1 && ishex h2 && ((unhex h1 <<< 4) ||| unhex h2) == s then stripEnc ss rest else none
  | s :: ss, c :: rest => if c == s && c != 37 then stripEnc ss rest else none

/-- Decoded segments of an escaped path: split at the literal `/` bytes, then decode each piece.
Two escaped paths with the same segments name the same resource; `a%2Fb` and `a/b` do not. -/
def splitSlash : Str → List Str
  | [] => [[]]
  | c :: cs => if c == 47 then [] :: splitSlash cs else
      match splitSlash cs with
      | [] => [[c]]
      | x :: xs => (c :: x) :: xs

def segments (e : Str) : Option (List Str) := (splitSlash e).mapM unescape

/-- A `Location` value `scheme://host[/path][?query]` taken apart (no model function involved). -/
structure Loc where
  scheme : Str
  host : Str
  path : Str
  query : Str
  hasQuery : Bool
deriving DecidableEq, Repr

def parseLoc (l : Str) : Option Loc :=
  let (sch, rest, f) := cut 58 l
  if !f then none else
  match rest with
  | 47 :: 47 :: r =>
      let host := r.takeWhile (fun c => c != 47 && c != 63)
      let (p, q, hq) := cut 63 (r.drop host.length)
      some { scheme := sch, host := host, path := p, query := q, hasQuery := hq }
  | _ => none

/-- first occurrence of `sub` (non-empty): the parts before and after it -/
def splitAtSub (sub : Str) : Str → Option (Str × Str)
  | [] => none
  | c :: cs => if sub.isPrefixOf (c :: cs) then some ([], (c :: cs).drop sub.length) else
      (splitAtSub sub cs).map (fun (a, b) => (c :: a, b))

def countSub (sub : Str) : Str → Nat
  | [] => 0
  | c :: cs => (if sub.isPrefixOf (c :: cs) then 1 else 0) + countSub sub cs

/-- the template as the documentation reads it: host, and — for a `$path` template — the (escaped) path
text before and after the variable (the `/` in front of `$path` belongs to the variable) -/
def tmplParts (t : RTarget) : Str × Option (Str × Str) :=
  let hp := hasSuffix t.url.host vPath
  let host := if hp then t.url.host.take (t.url.host.length - vPath.length) else t.url.host
  let path := if hp then vPath else escapedPath t.url
  match splitAtSub vPath path with
  | none => (host, none)
  | some (pre, post) => (host, some (if hasSuffix pre slash then pre.dropLast else pre, post))

/-- `$path` occurs at most once in the template (the documented forms); the path clause of the
specification speaks about these templates. -/
def singlePath (t : RTarget) : Bool :=
  if hasSuffix t.url.host vPath then true else countSub vPath t.url.path ≤ 1

def normPath (e : Str) : Str := if e.isEmpty then slash else if e.head? != some 47 then 47 :: e else e

/-- The specification of the `Location` header, as a predicate on what the implementation sent.
`reqEsc` is the request's path in the request's own encoding (`URL.EscapedPath()` of the request URL: the
bytes the client wrote whenever they are a valid encoding), `reqQuery` its query.
* scheme: the template's; host: the template's with `$host` replaced by the request's `Host`;
* `$path` template: the path names the same segments as `prefix ++ prepend ++ (request path minus strip)`
  *in the request's own encoding* (an encoded `/` stays encoded), the query is the template's if it has
  one, else the request's;
* fixed template: path (same segments) and query are the template's. -/
def locationSpec1 (t : RTarget) (reqHost reqEsc reqQuery : Str) (loc : Str) : Bool :=
  match parseLoc loc with
  | none => false
  | some l =>
    let (host, pp) := tmplParts t
    let host := if contains vHost host then replace1 vHost reqHost host else host
    l.scheme == t.url.scheme && l.host == hexEscapeNonASCII (escape .host host) &&
    match pp with
    | none =>
        (segments l.path).isSome && segments l.path == segments (normPath (escapedPath t.url)) &&
        l.query == hexEscapeNonASCII t.url.rawQuery && l.hasQuery == (t.url.rawQuery ≠ [])
    | some (pre, post) =>
        let stripped := if t.strip.isEmpty then reqEsc else (stripEnc t.strip reqEsc).getD reqEsc
        let want := normPath (pre ++ escape .path t.prepend ++ stripped ++ post)
        let q := if t.url.rawQuery ≠ [] then t.url.rawQuery else reqQuery
        (!singlePath t || ((segments l.path).isSome && segments l.path == segments want)) &&
        l.query == hexEscapeNonASCII q && l.hasQuery == (q ≠ [])

/-- When the bytes the client wrote are not a valid encoding (a raw space, `"`, `<`, a non-ASCII byte …)
"the request's own encoding" has two defensible readings — those bytes, or what `net/url` makes of them
(`EscapedPath`) — and the specification accepts either; for a valid encoding the two coincide. -/
def locationSpec (t : RTarget) (reqHost reqEsc reqRaw reqQuery : Str) (loc : Str) : Bool :=
  locationSpec1 t reqHost reqEsc reqQuery loc || (reqRaw != reqEsc && locationSpec1 t reqHost reqRaw reqQuery loc)

/-- the redirect status is 0 (no redirect) or a 3xx code -/
def codeSpec (c : Int) : Bool := c == 0 || (300 ≤ c && c ≤ 399)

/-- an optional leading `+` -/
def dropPlus : Str → Str
  | 43 :: r => r
  | r => r

/-- **"receives the configured 3xx status"**, read off the option text without `atoi`: an option that is a
plain decimal number (an optional `+`, then digits only) with a value in 300..399 *is* the status; every other
option text configures no redirect (code 0). -/
def configuredCode (opt : Str) : Int :=
  let body := dropPlus opt
  if body.isEmpty || !body.all isDigit then 0 else
  let v := digitsVal body
  if 300 ≤ v && v ≤ 399 then (v : Int) else 0

def codeSpecOpt (opt : Str) (c : Int) : Bool := c == configuredCode opt

end Fabio.Model.C13
