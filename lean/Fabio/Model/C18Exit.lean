/-!
# C18 — package `exit` (`/repo/exit/listen.go`): how a shutdown *begins* (core Lean only)

`exit.Listen(fn)` starts one goroutine per registered handler. Each goroutine, in a loop: makes a channel, has
SIGINT/SIGTERM/SIGHUP delivered to it (`signal.Notify`), and waits in **one `select` over that channel and the
package's `quit` channel**. SIGHUP: log, `continue` (back to the same select). SIGINT/SIGTERM or `quit` closed: call
`fn(sig)` (`sig = nil` for `quit`), return. `exit.Exit(code)` (also behind `exit.Fatal`/`Fatalf`, which is what
main.go calls when a listener, the admin server or BGP fails) closes `quit`, waits for every handler goroutine
(`wg.Wait()`) and only then calls `os.Exit(code)`. `exit.Wait()` (end of `main`) waits for the same WaitGroup.

The model is the state machine of one listener goroutine plus the bookkeeping of `Exit`. What the goroutine waits on
after a SIGHUP is a parameter (`ListenContract`), so that the shape a rewrite could take — wait for the next *signal*
only — is a value of the model with its own (negative) theorem.
-/
namespace Fabio.Model.C18Exit

inductive Sig where
  | int | term
deriving DecidableEq, Repr, BEq

/-- what arrives at the process -/
inductive Ev where
  | hup                 -- SIGHUP
  | sig (s : Sig)       -- SIGINT / SIGTERM
  | exitCall            -- somebody calls exit.Exit / Fatal / Fatalf
deriving DecidableEq, Repr, BEq

/-- what a listener goroutine waits on after it has seen a SIGHUP -/
inductive ListenContract where
  | reselects      -- back to `select { <-sigchan; <-quit }` (the code as it is)
  | signalsOnly    -- a plain `<-sigchan`: `quit` is no longer watched
deriving DecidableEq, Repr, BEq

/-- state of one listener goroutine -/
inductive LState where
  | waiting (sawHup : Bool)
  | ran (with_ : Option Sig)     -- the handler has been called, with this signal (`none` = nil, from `quit`)
deriving DecidableEq, Repr, BEq

/-- does the goroutine, in this state, react to `quit` being closed? -/
def watchesQuit (c : ListenContract) : LState → Bool
  | .waiting sawHup => match c with
    | .reselects => true
    | .signalsOnly => !sawHup
  | .ran _ => false

/-- one event. `quitClosed` is sticky (a closed channel stays closed), so it is part of the process state. -/
structure PState where
  listeners : List LState
  quitClosed : Bool
deriving DecidableEq, Repr

def stepListener (c : ListenContract) (e : Ev) (l : LState) : LState :=
  match l with
  | .ran s => .ran s
  | .waiting sawHup =>
    match e with
    | .hup => .waiting true
    | .sig s => .ran (some s)
    | .exitCall => if watchesQuit c (.waiting sawHup) then .ran none else .waiting sawHup

def step (c : ListenContract) (p : PState) (e : Ev) : PState :=
  { listeners := p.listeners.map (stepListener c e)
    quitClosed := p.quitClosed || decide (e = .exitCall) }

def run (c : ListenContract) (p : PState) (es : List Ev) : PState := es.foldl (step c) p

/-- `n` handlers registered, nothing has happened yet -/
def initial (n : Nat) : PState := { listeners := List.replicate n (.waiting false), quitClosed := false }

def handlerRan : LState → Bool
  | .ran _ => true
  | .waiting _ => false

/-- `exit.Exit` gets past `wg.Wait()` (and so reaches `os.Exit`) iff every handler goroutine has returned; in the
model a handler that has been called also returns (its duration is the subject of `Model.C18`). -/
def exitCompletes (p : PState) : Bool := p.quitClosed && p.listeners.all handlerRan

/-- the signal every handler was called with, if all were called with the same one -/
def calledWith (p : PState) (s : Option Sig) : Bool := p.listeners.all (fun l => decide (l = .ran s))

/-- a history: `n` SIGHUPs, then the event that is meant to begin the shutdown -/
def history (n : Nat) (last : Ev) : List Ev := List.replicate n .hup ++ [last]

/-- what the terminating event hands to the handlers -/
def sigOf : Ev → Option Sig
  | .sig s => some s
  | _ => none

/-! ## Between os/signal and a listener goroutine: the channel

`signal.Notify` never blocks: a signal that finds the listener's channel full is dropped. `exit.Listen` gives each
listener a channel of capacity 1 for three signals. The event-level machine above (`stepListener`) describes what
the goroutine does with the signals it *receives*; this level says which ones it receives. `quit` is not a buffered
signal (a closed channel stays closed), so `exitCall` is never dropped. -/

/-- what happens at the process, finer than `Ev`: a signal (or an `Exit` call) arrives, or the goroutine gets to
run and handles everything that is buffered -/
inductive Act where
  | arrives (e : Ev)
  | runs
deriving DecidableEq, Repr

/-- delivery into a channel of capacity `cap` that currently holds `q` -/
def deliver (cap : Nat) (q : List Ev) (e : Ev) : List Ev :=
  if e = .exitCall then q ++ [e] else if q.length < cap then q ++ [e] else q

def stepAct (c : ListenContract) (cap : Nat) (st : LState × List Ev) : Act → LState × List Ev
  | .arrives e => (st.1, deliver cap st.2 e)
  | .runs => (st.2.foldl (fun l e => stepListener c e l) st.1, [])

def runActs (c : ListenContract) (cap : Nat) (acts : List Act) : LState × List Ev :=
  acts.foldl (stepAct c cap) (.waiting false, [])

/-- every arrival is handled before the next one: the schedule the event-level machine assumes -/
def sequential (es : List Ev) : List Act := es.flatMap (fun e => [.arrives e, .runs])

end Fabio.Model.C18Exit
