import Fabio.Basic
/-!
Model of `proxy/gzip/gzip_handler.go`: `acceptsGzip`, `isCompressable`, the `GzipResponseWriter` machine
(`WriteHeader`, `Write`, `Close`) in front of a downstream `http.ResponseWriter`, the handler built by
`NewGzipHandler`, and the pool of gzip writers with ownership.

What is a parameter (library behaviour, modelled not verified): the configured regexp (`matches`), content
sniffing (`sniff` = `http.DetectContentType`), the compressor (`Comp`: `compress/gzip`), the downstream
`ResponseWriter` contract (`Down`: the first `WriteHeader` wins and snapshots the header map; a `Write` without
one is an implicit `WriteHeader(200)` that sniffs a missing Content-Type into the outgoing header only).
Header names are ASCII tokens (letters, digits, `-`); values are ASCII.
-/
namespace Fabio.Model.C17

abbrev Bytes := List UInt8

/-! ### http.Header -/

/-- canonical name ↦ values; keys are unique (invariant of the operations below). -/
abbrev Hdr := List (String × List String)

def upperChar (c : Char) : Char := if 'a' ≤ c ∧ c ≤ 'z' then Char.ofNat (c.toNat - 32) else c

def canonGo : Bool → List Char → List Char
  | _, [] => []
  | up, c :: cs => (if up then upperChar c else Fabio.lowerChar c) :: canonGo (c == '-') cs

/-- `textproto.CanonicalMIMEHeaderKey` on token-character names. -/
def canonKey (k : String) : String := String.ofList (canonGo true k.toList)

/-- `h[k]` with an already canonical key. -/
def hraw (h : Hdr) (k : String) : Option (List String) := h.lookup k
def hhasRaw (h : Hdr) (k : String) : Bool := (hraw h k).isSome
def firstOr : Option (List String) → String
  | some (v :: _) => v
  | _ => ""
/-- `h.Get(k)`. -/
def hget (h : Hdr) (k : String) : String := firstOr (hraw h (canonKey k))
def hdelRaw (h : Hdr) (k : String) : Hdr := h.filter (fun p => !(p.1 == k))
/-- `h.Del(k)`. -/
def hdel (h : Hdr) (k : String) : Hdr := hdelRaw h (canonKey k)
def hsetRaw (h : Hdr) (k v : String) : Hdr := hdelRaw h k ++ [(k, [v])]
/-- `h.Set(k, v)`. -/
def hset (h : Hdr) (k v : String) : Hdr := hsetRaw h (canonKey k) v
/-- `h.Add(k, v)`. -/
def hadd (h : Hdr) (k v : String) : Hdr :=
  let ck := canonKey k
  match hraw h ck with
  | some _ => h.map (fun p => if p.1 == ck then (p.1, p.2 ++ [v]) else p)
  | none => h ++ [(ck, [v])]

/-- `h[CanonicalHeaderKey(k)] = nil`. -/
def hnil (h : Hdr) (k : String) : Hdr := hdelRaw h (canonKey k) ++ [(canonKey k, [])]

def hVary := "Vary"
def hAccept := "Accept"
def hAcceptEncoding := "Accept-Encoding"
def hContentEncoding := "Content-Encoding"
def hContentType := "Content-Type"
def hContentLength := "Content-Length"
def encGzip := "gzip"
def blacklistedAccept : List String := ["text/event-stream"]

/-! ### acceptsGzip -/

def isPrefix : List Char → List Char → Bool
  | [], _ => true
  | _ :: _, [] => false
  | a :: as, b :: bs => a == b && isPrefix as bs

/-- `strings.Contains`. -/
def containsL (s sub : List Char) : Bool :=
  match s with
  | [] => sub.isEmpty
  | _ :: t => isPrefix sub s || containsL t sub

/-- `strings.Split(s, sep)` for a one-character separator: always at least one element. -/
def splitOn (sep : Char) : List Char → List (List Char)
  | [] => [[]]
  | c :: cs =>
    match splitOn sep cs with
    | [] => [[]]   -- unreachable
    | x :: xs => if c == sep then [] :: x :: xs else (c :: x) :: xs

/-- `strings.Cut(s, sep)`: before and after the first separator (after = "" when there is none). -/
def cut (sep : Char) : List Char → List Char × List Char
  | [] => ([], [])
  | c :: cs => if c == sep then ([], cs) else ((cut sep cs).1.cons c, (cut sep cs).2)

/-- ASCII white space (`strings.TrimSpace`; header values are ASCII). -/
def isSpace (c : Char) : Bool := c == ' ' || c == '\t' || c == '\n' || c == '\r' || c.toNat == 11 || c.toNat == 12
def trim (s : List Char) : List Char := ((s.dropWhile isSpace).reverse.dropWhile isSpace).reverse

/-! `strconv.ParseFloat(s, 64)` returns no error and the value zero. Modelled: the grammar of `readFloat` —
underscores are skipped wherever digits are read and then have to pass `underscoreOK` (only between digits, or
right after a base prefix); optional sign; decimal mantissa (digits with at most one point, at least one digit) with an optional
`e`/`E` exponent (optional sign, at least one digit); or `0x`/`0X` + hexadecimal mantissa with a MANDATORY `p`/`P`
exponent; the whole string consumed — and correct rounding (to nearest, ties to even) of the exact value: the result
is zero iff the mantissa is zero or the value is at most 2^-1075, half the smallest subnormal. Everything else —
`inf`, `infinity`, `nan`, malformed text, an overflow (`ErrRange`) — is an error or a non-zero value, i.e. `false`. -/

def digitVal (hex : Bool) (c : Char) : Option Nat :=
  if '0' ≤ c ∧ c ≤ '9' then some (c.toNat - 48)
  else if hex && ('a' ≤ c ∧ c ≤ 'f') then some (c.toNat - 87)
  else if hex && ('A' ≤ c ∧ c ≤ 'F') then some (c.toNat - 55)
  else none

/-- mantissa: digit values (point removed), number of digits after the point, the unread rest. A second point
ends the mantissa (and is then left over: malformed). -/
def scanMant (hex : Bool) : List Char → Bool → List Nat → Nat → List Nat × Nat × List Char
  | [], _, ds, f => (ds, f, [])
  | c :: cs, dot, ds, f =>
    if c == '.' then (if dot then (ds, f, c :: cs) else scanMant hex cs true ds f)
    else match digitVal hex c with
      | some d => scanMant hex cs dot (ds ++ [d]) (if dot then f + 1 else f)
      | none => (ds, f, c :: cs)

def natOfDigits (base : Nat) (ds : List Nat) : Nat := ds.foldl (fun a d => a * base + d) 0

/-- exponent after the `e`/`p`: optional sign, at least one decimal digit, nothing else. -/
def scanExp (s : List Char) : Option (Bool × Nat) :=
  let neg := match s with
    | '-' :: _ => true
    | _ => false
  let body := match s with
    | '+' :: r => r
    | '-' :: r => r
    | r => r
  if body.isEmpty || !(body.all (fun c => '0' ≤ c && c ≤ '9')) then none
  else some (neg, natOfDigits 10 (body.map (fun c => c.toNat - 48)))

/-- mantissa `M` (in base 10 or 16), scaled by `B^(±e)·B'^(-frac)`: does the exact value round to zero? -/
def roundsToZero (hex : Bool) (ds : List Nat) (frac : Nat) (expNeg : Bool) (e : Nat) : Bool :=
  let m := natOfDigits (if hex then 16 else 10) ds
  if m == 0 then true
  else
    let shift := if hex then 4 * frac else frac
    if !expNeg && shift ≤ e then false        -- value ≥ 1
    else
      let n := if expNeg then e + shift else shift - e   -- value = m / B^n, B = 2 (hex) or 10
      if hex then
        if n < 1075 then false
        else if 4 * ds.length ≤ n - 1075 then true       -- m < 16^len ≤ 2^(n-1075)
        else decide (m ≤ 2 ^ (n - 1075))
      else if 324 + ds.length ≤ n then true              -- m < 10^len and 2^1075 < 10^324
      else decide (m * 2 ^ 1075 ≤ 10 ^ n)

/-- `strconv.underscoreOK`: after an optional sign and an optional base prefix (`0b`, `0o`, `0x`, any case), an
underscore must follow a digit (or the prefix) and must be followed by a digit. -/
def underscoreGo (hex : Bool) : List Char → Char → Bool
  | [], saw => saw != '_'
  | c :: cs, saw =>
    if ('0' ≤ c && c ≤ '9') || (hex && (('a' ≤ c && c ≤ 'f') || ('A' ≤ c && c ≤ 'F'))) then underscoreGo hex cs '0'
    else if c == '_' then (if saw == '0' then underscoreGo hex cs '_' else false)
    else if saw == '_' then false
    else underscoreGo hex cs '!'

def underscoreOK (s : List Char) : Bool :=
  let body := match s with
    | '+' :: r => r
    | '-' :: r => r
    | r => r
  match body with
  | '0' :: x :: r =>
    if x == 'x' || x == 'X' then underscoreGo true r '0'
    else if x == 'b' || x == 'B' || x == 'o' || x == 'O' then underscoreGo false r '0'
    else underscoreGo false body '^'
  | _ => underscoreGo false body '^'

def zeroLitCore (s : List Char) : Bool :=
  let body := match s with
    | '+' :: r => r
    | '-' :: r => r
    | r => r
  let hex := match body with
    | '0' :: x :: _ :: _ => x == 'x' || x == 'X'
    | _ => false
  let r := scanMant hex (if hex then body.drop 2 else body) false [] 0
  if r.1.isEmpty then false
  else match r.2.2 with
    | [] => if hex then false else roundsToZero false r.1 r.2.1 false 0
    | c :: rest =>
      if (!hex && (c == 'e' || c == 'E')) || (hex && (c == 'p' || c == 'P')) then
        match scanExp rest with
        | some (neg, e) => roundsToZero hex r.1 r.2.1 neg e
        | none => false
      else false

def zeroLit (s : List Char) : Bool :=
  if s.any (· == '_') then underscoreOK s && zeroLitCore (s.filter (· != '_')) else zeroLitCore s

/-- the first parameter named `q`/`Q` decides. -/
def zeroWeightL : List (List Char) → Bool
  | [] => false
  | p :: ps =>
    let name := trim (cut '=' p).1
    if name == ['q'] || name == ['Q'] then zeroLit (trim (cut '=' p).2) else zeroWeightL ps

def zeroWeight (params : List Char) : Bool := zeroWeightL (splitOn ';' params)

/-- the first element whose coding is exactly `gzip` decides. -/
def acceptsL : List (List Char) → Bool
  | [] => false
  | e :: es => if trim (cut ';' e).1 == encGzip.toList then !zeroWeight (cut ';' e).2 else acceptsL es

/-- `acceptsGzip(r)`. -/
def acceptsGzip (req : Hdr) : Bool :=
  if blacklistedAccept.any (fun ct => containsL (hget req hAccept).toList ct.toList) then false
  else acceptsL (splitOn ',' (hget req hAcceptEncoding).toList)

/-! ### parameters -/

/-- The compressor (`*gzip.Writer` writing to the response): `write`/`close` return the new state and the
bytes emitted downstream. -/
structure Comp (Z : Type) where
  reset : Z → Z
  write : Z → Bytes → Z × Bytes
  close : Z → Z × Bytes
  decode : Bytes → Option Bytes

/-- feed chunks, collecting what is emitted. -/
def Comp.feed {Z} (c : Comp Z) : Z → List Bytes → Z × Bytes
  | z, [] => (z, [])
  | z, b :: bs => ((c.feed (c.write z b).1 bs).1, (c.write z b).2 ++ (c.feed (c.write z b).1 bs).2)

/-- The round-trip law of the compressor: whatever state a recycled writer is in, after `Reset` the
concatenation of everything emitted up to and including `Close` decodes to the concatenation of the inputs.
Only ever used as a hypothesis. -/
def Comp.RoundTrip {Z} (c : Comp Z) : Prop :=
  ∀ (z : Z) (chunks : List Bytes),
    c.decode ((c.feed (c.reset z) chunks).2 ++ (c.close (c.feed (c.reset z) chunks).1).2) = some chunks.flatten

structure Cfg (Z : Type) where
  /-- `contentTypes.MatchString` -/
  typeOk : String → Bool
  /-- `http.DetectContentType` -/
  sniff : Bytes → String
  comp : Comp Z
  /-- `gzipWriterPool.New()` -/
  fresh : Z

/-! ### the downstream ResponseWriter -/

structure Down where
  status : Option Nat := none
  sent : Hdr := []
  body : Bytes := []
deriving Repr, BEq, DecidableEq

/-- 1xx: an informational response; the final status line is still to come. (The real server sends it and
carries on; `httptest.ResponseRecorder` has no such notion, so 1xx codes are only generated on the real-server
layer. 101 is never generated.) -/
def informational (code : Nat) : Bool := 100 ≤ code && code ≤ 199

def Down.writeHeader (d : Down) (h : Hdr) (code : Nat) : Down :=
  match d.status with
  | some _ => d
  | none => if informational code then d else { d with status := some code, sent := h }

/-- `Flush()` of the downstream writer (net/http and the recorder alike): commits status 200 and the header
map as it is — without content sniffing — unless the status line is already out. -/
def Down.flush (d : Down) (h : Hdr) : Down := d.writeHeader h 200

/-- a `Write` before any `WriteHeader`: status 200, and a missing Content-Type is sniffed into the outgoing
header (not into the handler's live map). -/
def Down.implicit {Z} (C : Cfg Z) (d : Down) (h : Hdr) (b : Bytes) : Down :=
  match d.status with
  | some _ => d
  | none => { d with status := some 200, sent := if hhasRaw h hContentType then h else hsetRaw h hContentType (C.sniff b) }

def Down.write {Z} (C : Cfg Z) (d : Down) (h : Hdr) (b : Bytes) : Down :=
  { (d.implicit C h b) with body := (d.implicit C h b).body ++ b }

/-- What the client sees when the handler has returned with live header map `h`. -/
structure Obs where
  status : Nat
  hdr : Hdr
  body : Bytes
deriving Repr, BEq, DecidableEq

def Down.obs (d : Down) (h : Hdr) : Obs :=
  match d.status with
  | none => { status := 200, hdr := h, body := [] }
  | some c => { status := c, hdr := d.sent, body := d.body }

/-! ### the scripted upstream handler -/

inductive Op where
  | set (k v : String)
  | add (k v : String)
  | del (k : String)
  /-- `w.Header()[CanonicalHeaderKey(k)] = nil`: the key present with NO value — net/http's documented way of
  suppressing an automatic header (for Content-Type: no sniffing) -/
  | unset (k : String)
  | wh (code : Nat)
  | w (b : Bytes)
  /-- `if f, ok := w.(http.Flusher); ok { f.Flush() }` -/
  | fl
deriving Repr, BEq, DecidableEq

/-- effect of an operation on the live header map. -/
def hop : Op → Hdr → Hdr
  | .set k v, h => hset h k v
  | .add k v, h => hadd h k v
  | .del k, h => hdel h k
  | .unset k, h => hnil h k
  | _, h => h

def hops (ops : List Op) (h : Hdr) : Hdr := ops.foldl (fun h o => hop o h) h

def writesOf : List Op → List Bytes
  | [] => []
  | .w b :: r => b :: writesOf r
  | _ :: r => writesOf r

/-- the handler talking to the bare ResponseWriter; `cf` = the writer it is given implements `http.Flusher`. -/
def bareStep {Z} (C : Cfg Z) (cf : Bool) (s : Hdr × Down) : Op → Hdr × Down
  | .wh c => (s.1, s.2.writeHeader s.1 c)
  | .w b => (s.1, s.2.write C s.1 b)
  | .fl => if cf then (s.1, s.2.flush s.1) else s
  | o => (hop o s.1, s.2)

def bareRun {Z} (C : Cfg Z) (cf : Bool) (s : Hdr × Down) (ops : List Op) : Hdr × Down :=
  ops.foldl (bareStep C cf) s

/-! ### GzipResponseWriter -/

inductive Dec (Z : Type) where
  | undecided          -- grw.writer == nil
  | gzip (z : Z)       -- grw.writer == grw.gzipWriter
  | plain              -- grw.writer == grw.ResponseWriter

def Dec.isGzip {Z} : Dec Z → Bool
  | .gzip _ => true
  | _ => false
def Dec.isUndecided {Z} : Dec Z → Bool
  | .undecided => true
  | _ => false

structure GW (Z : Type) where
  dec : Dec Z
  hdr : Hdr
  down : Down
  pool : List Z

def bodyAllowedForStatus (code : Nat) : Bool := code != 204 && code != 304

/-- `isCompressable(header, contentTypes)`. -/
def isCompressable {Z} (C : Cfg Z) (h : Hdr) : Bool :=
  if hget h hContentEncoding != "" then false else C.typeOk (hget h hContentType)

/-- `gzipWriterPool.Get()`: a pooled writer or a new one. -/
def poolGet {Z} (fresh : Z) : List Z → Z × List Z
  | [] => (fresh, [])
  | z :: p => (z, p)

/-- `grw.WriteHeader(code)`: an informational status is passed on without taking the decision. -/
def GW.writeHeader {Z} (C : Cfg Z) (s : GW Z) (code : Nat) : GW Z :=
  if informational code then { s with down := s.down.writeHeader s.hdr code } else
  match s.dec with
  | .undecided =>
    if bodyAllowedForStatus code && isCompressable C s.hdr then
      let hdr := hset (hdel s.hdr hContentLength) hContentEncoding encGzip
      { dec := .gzip (C.comp.reset (poolGet C.fresh s.pool).1), hdr := hdr,
        down := s.down.writeHeader hdr code, pool := (poolGet C.fresh s.pool).2 }
    else { s with dec := .plain, down := s.down.writeHeader s.hdr code }
  | _ => { s with down := s.down.writeHeader s.hdr code }

/-- the part of `grw.Write` that runs while `grw.writer == nil`. -/
def GW.decideOnWrite {Z} (C : Cfg Z) (s : GW Z) (b : Bytes) : GW Z :=
  match s.dec with
  | .undecided =>
    GW.writeHeader C (if hhasRaw s.hdr hContentType then s else { s with hdr := hset s.hdr hContentType (C.sniff b) }) 200
  | _ => s

/-- `grw.Write(b)`. -/
def GW.write {Z} (C : Cfg Z) (s : GW Z) (b : Bytes) : GW Z :=
  let s := GW.decideOnWrite C s b
  match s.dec with
  | .gzip z => { s with dec := .gzip (C.comp.write z b).1, down := s.down.write C s.hdr (C.comp.write z b).2 }
  | _ => { s with down := s.down.write C s.hdr b }

/-- `grw.Close()`: close the compressor (flushing it downstream), then hand it back to the pool. -/
def GW.close {Z} (C : Cfg Z) (s : GW Z) : GW Z :=
  match s.dec with
  | .gzip z => { s with dec := .gzip (C.comp.close z).1, down := s.down.write C s.hdr (C.comp.close z).2,
                        pool := (C.comp.close z).1 :: s.pool }
  | _ => s

def GW.step {Z} (C : Cfg Z) (s : GW Z) : Op → GW Z
  | .wh c => GW.writeHeader C s c
  | .w b => GW.write C s b
  /- `*GzipResponseWriter` has no `Flush` method (its method set is pinned by the facts) and the embedded
     `http.ResponseWriter` is an interface value, so the handler's type assertion to `http.Flusher` fails and
     nothing happens: a flush can neither commit headers early nor move bytes. -/
  | .fl => s
  | o => { s with hdr := hop o s.hdr }

def GW.run {Z} (C : Cfg Z) (s : GW Z) (ops : List Op) : GW Z := ops.foldl (GW.step C) s

/-! ### NewGzipHandler -/

structure Served (Z : Type) where
  compressed : Bool
  obs : Obs
  pool : List Z

/-- The handler returned by `NewGzipHandler(h, contentTypes)` serving one request: `h0` is the response
header map as it arrives (empty unless an outer layer has put something in), `head` says the method is HEAD,
`dfl` that the downstream writer implements `http.Flusher`, `ops` is what the wrapped handler does. -/
def serve {Z} (C : Cfg Z) (head : Bool) (dfl : Bool) (req : Hdr) (h0 : Hdr) (pool : List Z) (ops : List Op) : Served Z :=
  let h1 := hadd h0 hVary hAcceptEncoding
  if acceptsGzip req && !head then
    let s := GW.close C (GW.run C { dec := .undecided, hdr := h1, down := {}, pool := pool } ops)
    { compressed := s.dec.isGzip, obs := s.down.obs s.hdr, pool := s.pool }
  else
    let r := bareRun C dfl (h1, {}) ops
    { compressed := false, obs := r.2.obs r.1, pool := pool }

/-- the same script against the bare downstream writer (with the `Vary` line the handler adds). -/
def serveBare {Z} (C : Cfg Z) (cf : Bool) (h0 : Hdr) (ops : List Op) : Obs :=
  let r := bareRun C cf (hadd h0 hVary hAcceptEncoding, {}) ops
  r.2.obs r.1

/-- does the handler get a `Flusher`? Behind the gzip writer: no; otherwise whatever the downstream offers. -/
def flusherOffered (head dfl : Bool) (req : Hdr) : Bool := if acceptsGzip req && !head then false else dfl

/-- Header map and status at the first non-informational `WriteHeader`, `Write` or effective `Flush` of the
script (after the Content-Type fill-in of an implicit write); `none` when the handler never does any. -/
def decision {Z} (C : Cfg Z) (cf : Bool) (h : Hdr) : List Op → Option (Hdr × Nat)
  | [] => none
  | .wh c :: r => if informational c then decision C cf h r else some (h, c)
  | .w b :: _ => some (if hhasRaw h hContentType then h else hset h hContentType (C.sniff b), 200)
  | .fl :: r => if cf then some (h, 200) else decision C cf h r
  | .set k v :: r => decision C cf (hset h k v) r
  | .add k v :: r => decision C cf (hadd h k v) r
  | .del k :: r => decision C cf (hdel h k) r
  | .unset k :: r => decision C cf (hnil h k) r

/-- The conditions under which the code compresses. -/
def shouldCompress {Z} (C : Cfg Z) (head : Bool) (req : Hdr) (h0 : Hdr) (ops : List Op) : Bool :=
  acceptsGzip req && !head &&
    match decision C false (hadd h0 hVary hAcceptEncoding) ops with
    | some (h, c) => bodyAllowedForStatus c && hget h hContentEncoding == "" && C.typeOk (hget h hContentType)
    | none => false

/-! ### the pool with ownership, handlers as threads -/

/-- Events of the pool: thread `t` executes `gzipWriterPool.Get()` (the runtime hands out the pooled writer at
position `i`, or calls `New` when `i` is out of range), thread `t` executes `Put` of the writer it holds, or the
runtime drops the pooled writer at position `i` (a `sync.Pool` may do that at any time). -/
inductive PEv where
  | get (t : Nat) (i : Nat)
  | put (t : Nat)
  | drop (i : Nat)
deriving Repr, DecidableEq

/-- writers are identified by numbers; `held` maps a handler (thread) to the writer it owns. -/
structure PState where
  pool : List Nat := []
  held : List (Nat × Nat) := []
  next : Nat := 0
deriving Repr, DecidableEq

def heldBy (s : PState) (t : Nat) : Option Nat := s.held.lookup t

/-- A handler calls `Get` only while it holds nothing (`grw.writer == nil` guard in `WriteHeader`) and `Put`
only for the writer it holds, once (`Close` is deferred once per request); an event that violates this
program order does not occur, i.e. is a no-op. -/
def pstep (s : PState) : PEv → PState
  | .get t i =>
    match heldBy s t with
    | some _ => s
    | none =>
      if h : i < s.pool.length then { s with pool := s.pool.eraseIdx i, held := (t, s.pool[i]) :: s.held }
      else { s with held := (t, s.next) :: s.held, next := s.next + 1 }
  | .put t =>
    match heldBy s t with
    | none => s
    | some z => { s with pool := z :: s.pool, held := s.held.filter (fun p => !(p.1 == t)) }
  | .drop i => { s with pool := s.pool.eraseIdx i }

def prun (s : PState) (evs : List PEv) : PState := evs.foldl pstep s

end Fabio.Model.C17
