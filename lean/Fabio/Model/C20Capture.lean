/-!
Model of `proxy.responseWriter` (`proxy/http_proxy.go`): the wrapper `ServeHTTP` puts around the client
connection for the sole purpose of capturing status code and body size for the access log.
Every call is forwarded to the wrapped writer; `code` is the status of the last `WriteHeader`, `size` the
number of bytes the wrapped writer accepted. Core Lean only.
-/
namespace Fabio.Model.C20Capture

/-- a call made by the handler (for `write`: bytes offered and bytes the client connection accepts) -/
inductive RWOp where
  | header (code : Nat)
  | write (offered accepted : Nat)
  | flush
  | set (k v : List Char)     -- `rw.Header().Set(k, v)`
deriving DecidableEq, Repr

structure Capture where
  forwarded : List RWOp := []   -- calls received by the wrapped writer, in order
  code : Nat := 0
  size : Nat := 0
deriving DecidableEq, Repr

/-- `flusher`: the wrapped writer implements `http.Flusher` (otherwise `Flush` is a no-op) -/
def captureStep (flusher : Bool) (c : Capture) : RWOp → Capture
  | .header code => { c with forwarded := c.forwarded ++ [.header code], code := code }
  | .write o a => { c with forwarded := c.forwarded ++ [.write o a], size := c.size + a }
  | .flush => if flusher then { c with forwarded := c.forwarded ++ [.flush] } else c
  | .set k v => { c with forwarded := c.forwarded ++ [.set k v] }

def captureRun (flusher : Bool) (ops : List RWOp) : Capture := ops.foldl (captureStep flusher) {}

/-! specification side -/

def statuses (ops : List RWOp) : List Nat := ops.filterMap fun | .header c => some c | _ => none
def accepted (ops : List RWOp) : Nat := (ops.map fun | .write _ a => a | _ => 0).sum
def visible (flusher : Bool) (ops : List RWOp) : List RWOp := ops.filter fun | .flush => flusher | _ => true

end Fabio.Model.C20Capture
