import Fabio.Model.C03
import Fabio.Model.C07
import Fabio.Model.C08
import Fabio.Model.C12
import Fabio.Model.C13
/-!
Unified model of `HTTPProxy.ServeHTTP` (proxy/http_proxy.go), phase 2: ONE function `serveHTTP` that runs the
statements of `ServeHTTP` in the order the regenerated facts pin (`C07Facts.serve_order`, C08's
`addHeaders_before_host_override`, C12's gate order, C13's `no_upstream`):

  request-id → `Table.Lookup` (C03, with C13's self-redirect skip) → no target ⇒ no-route status + page (C07)
  → access rules ⇒ 403 (C12) → auth ⇒ 401 (C12) → redirect route ⇒ 3xx + Location (C13)
  → target URL (C07) → `addHeaders` + Connection protection, error ⇒ 500 (C08) → Host override (C08/C07)
  → handler choice ⇒ forward (C07/C08)

Nothing is modelled again here: every stage is the function of the property that owns it.  What differs between
the per-property models is only the *shape* of the request and of the target; the small total projections below
(`req03`, `url13`, `req08`, `redirectView`, `rulesOf`, `authOf`, `fwdTarget`) translate one `Request` and one
`Route.Target` into each of them.  A target's option-derived fields are read from `opts` exactly as
`route.addTarget` does (`strip`, `prepend`, `host`, `redirect`, `allow`, `deny`, `auth`); `url.Parse` of the
target URL is the parameter `Cfg.parseURL`.  Core Lean only (linked into the C07 driver).
-/
namespace Fabio.Model.ServeHTTP
open Fabio Fabio.Model

abbrev Bytes := C07.Bytes   -- = C13.Str = List UInt8
abbrev Str := Route.Str     -- = C08.Str = List Char

/-- the bytes of a Go string given as code points -/
def utf8 (s : Str) : Bytes := (String.ofList s).toUTF8.toList

/-- a Go string (bytes) as code points; bytes that are not UTF-8 are carried one code point per byte (the path and
host matching of C03 is then exact for ASCII route keys, DESIGN.md §5) -/
def chars (b : Bytes) : Str :=
  match String.fromUTF8? ⟨b.toArray⟩ with
  | some s => s.toList
  | none => b.map (fun c => Char.ofNat c.toNat)

/-- one incoming request: the union of what the five models read -/
structure Request where
  method : String := "GET"
  /-- `r.URL`: decoded path, raw path, raw query, `ForceQuery` (C07) -/
  url : C07.URL := {}
  /-- `r.Host` -/
  host : Str := []
  /-- `r.Header`, canonical keys (C08) -/
  headers : C08.Headers := []
  /-- `r.RemoteAddr` -/
  remoteAddr : Str := []
  /-- `r.TLS` -/
  tls : Option C08.TLS := none
  /-- `r.Proto` -/
  proto : Str := "HTTP/1.1".toList
  /-- `r.BasicAuth()` -/
  basicAuth : Option (Str × Str) := none
deriving Repr

structure Cfg where
  /-- matcher, picker, host glob (C03); its `skip` is replaced per request by C13's self-redirect test -/
  lookup : C03.Cfg
  /-- `net.ParseIP`, `net.ParseCIDR`, `net.SplitHostPort` (C12) -/
  parsers : C12.Parsers
  /-- `url.Parse` of a target's URL (scheme, host, path, raw path, raw query) -/
  parseURL : Str → C13.URL
  /-- header configuration (C08); `uuid` is what `p.UUID()` returns -/
  headers : C08.Cfg := {}
  uuid : Str := []
  /-- `proxy.noroutestatus`, `noroute.GetHTML()` (C07) -/
  noRouteStatus : Int := 404
  noRouteHTML : String := ""
  /-- `p.AuthSchemes`: name ↦ the secrets of a basic scheme (C12) -/
  authSchemes : List (Str × List (Str × Str)) := []

/-! ### projections of the request -/

/-- `r.Header.Set(p.Config.RequestID, id())`, the first statement: everything later reads these headers -/
def withRequestID (cfg : Cfg) (r : Request) : C08.Headers :=
  if cfg.headers.requestID.isEmpty then r.headers else C08.set cfg.headers.requestID cfg.uuid r.headers

/-- what host and path matching read (C03) -/
def req03 (r : Request) : C03.Req := { host := r.host, tls := r.tls.isSome, path := chars r.url.path }

/-- `requestURL` of `Table.Lookup`: `r.URL` with `Host` = `r.Host` (C13) -/
def url13 (r : Request) : C13.URL :=
  { host := utf8 r.host, path := r.url.path, rawPath := r.url.rawPath, rawQuery := r.url.rawQuery }

/-- the scheme the request arrived with (C13): `X-Forwarded-Proto`, else the connection -/
def scheme13 (cfg : Cfg) (r : Request) : C13.Str :=
  C13.reqScheme (utf8 (C08.get1 C08.xForwardedProto (withRequestID cfg r))) r.tls.isSome

/-- what `addHeaders` reads (C08); the request-id step is part of `C08.serve` -/
def req08 (r : Request) : C08.Req :=
  { headers := r.headers, host := r.host, remoteAddr := r.remoteAddr, tls := r.tls, proto := r.proto }

/-- the `X-Forwarded-For` header lines `AccessDeniedHTTP` walks (C12) -/
def xffLines (cfg : Cfg) (r : Request) : List Str := (C08.vals C08.xForwardedFor (withRequestID cfg r)).getD []

/-! ### projections of the target (`route.addTarget` reading `opts`) -/

def opt (tg : Route.Target) (k : String) : Str := (tg.opts.lookup k.toList).getD []

/-- the fields `BuildRedirectURL` reads (C13) -/
def redirectView (cfg : Cfg) (tg : Route.Target) : C13.RTarget :=
  { url := cfg.parseURL tg.url, strip := utf8 (opt tg "strip"), prepend := utf8 (opt tg "prepend"),
    code := C13.redirectCode (utf8 (opt tg "redirect")) }

/-- `t.accessRules` as `ProcessAccessRules` leaves it (C12) -/
def rulesOf (cfg : Cfg) (tg : Route.Target) : C12.Rules :=
  (C12.processAccessRules cfg.parsers (opt tg "allow") (opt tg "deny")).1

/-- `t.AuthScheme` (C12) -/
def authOf (tg : Route.Target) : Str := opt tg "auth"

/-- the route options and target URL parts the URL construction reads (C07) -/
def fwdTarget (cfg : Cfg) (tg : Route.Target) : C07.Target :=
  let u := cfg.parseURL tg.url
  { strip := utf8 (opt tg "strip"), prepend := utf8 (opt tg "prepend"), hostOpt := String.ofList (opt tg "host"),
    scheme := String.ofList (chars u.scheme), host := String.ofList (chars u.host), rawQuery := u.rawQuery }

/-- `t.URL.Host` as code points (what `host=dst` resolves to and what is dialled) -/
def targetHost (cfg : Cfg) (tg : Route.Target) : Str := chars (cfg.parseURL tg.url).host

/-! ### the stages -/

/-- C13's self-redirect test for a table target and this request (the same predicate as
`Props.C13Compose.skipFor`) -/
def skipFor (cfg : Cfg) (r : Request) (tg : Route.Target) : Bool :=
  decide ((redirectView cfg tg).code ≠ 0) &&
    C13.selfRedirect (C13.buildRedirectURL (redirectView cfg tg) (url13 r)) (scheme13 cfg r) (url13 r)

/-- `p.Lookup(r)`: C03's `Table.Lookup` with C13's skip for this request -/
def select (cfg : Cfg) (t : Route.Table) (r : Request) : Option (Str × Route.Route × Route.Target) :=
  C03.Lookup { cfg.lookup with skip := skipFor cfg r } t (req03 r)

/-- `t.AccessDeniedHTTP(r)` -/
def denied (cfg : Cfg) (r : Request) (tg : Route.Target) : Bool :=
  C12.accessDeniedHTTP cfg.parsers (rulesOf cfg tg) r.remoteAddr (xffLines cfg r)

/-- `t.Authorized(r, w, p.AuthSchemes)` -/
def authorized (cfg : Cfg) (r : Request) (tg : Route.Target) : Bool :=
  C12.authorized (authOf tg) cfg.authSchemes (fun secrets => C12.basicVerdict secrets r.basicAuth)

/-- `t.RedirectCode != 0` (the redirect URL is built by `Lookup` exactly for these targets) -/
def isRedirect (cfg : Cfg) (tg : Route.Target) : Bool := decide ((redirectView cfg tg).code ≠ 0)

/-- request-id, `addHeaders` on the client's request, Host override, response headers: `C08.serve` -/
def headerStage (cfg : Cfg) (r : Request) (tg : Route.Target) : Option C08.Upstream :=
  C08.serve cfg.headers cfg.uuid (opt tg "host") (targetHost cfg tg) (opt tg "strip") (req08 r)

/-- the request handed to the forwarding handler -/
structure Forward where
  /-- handler / transport kind -/
  via : C07.Via
  /-- `targetURL.Host`: where the connection goes -/
  upstream : Str
  /-- the outgoing URL (`targetURL` through the director, or `targetURL` itself on the websocket path) -/
  url : C07.URL
  /-- the Host the upstream sees -/
  host : Str
  headers : C08.Headers
  /-- headers fabio adds to the response -/
  respHeaders : C08.Headers
  method : String
deriving Repr

inductive Outcome where
  | noRoute (status : Int) (page : String)
  | forbidden                                  -- 403 "access denied"
  | unauthorized                               -- 401 "authorization failed"
  | redirect (code : Int) (location : Bytes)   -- `http.Redirect`
  | serverError                                -- 500 "cannot parse <RemoteAddr>"
  | forward (f : Forward)
deriving Repr

/-- handler choice on the headers as `addHeaders` left them; URL per handler (C07: director / `r.URL = targetURL`) -/
def forwardOf (cfg : Cfg) (r : Request) (tg : Route.Target) (up : C08.Upstream) : Forward :=
  let turl := C07.targetURL (fwdTarget cfg tg) r.url
  let via := if C08.isWebsocket up.headers then C07.Via.ws else C07.Via.http
  { via := via, upstream := targetHost cfg tg,
    url := match via with
      | .ws => turl
      | .http => C07.director turl r.url,
    host := up.host, headers := up.headers, respHeaders := up.resp, method := r.method }

/-- `ServeHTTP` once the lookup has produced a target -/
def serveTarget (cfg : Cfg) (r : Request) (tg : Route.Target) : Outcome :=
  if denied cfg r tg then .forbidden
  else if !authorized cfg r tg then .unauthorized
  else if isRedirect cfg tg then
    .redirect (redirectView cfg tg).code (C13.location (redirectView cfg tg) (url13 r))
  else match headerStage cfg r tg with
    | none => .serverError
    | some up => .forward (forwardOf cfg r tg up)

/-- **`HTTPProxy.ServeHTTP`** -/
def serveHTTP (cfg : Cfg) (t : Route.Table) (r : Request) : Outcome :=
  match select cfg t r with
  | none => .noRoute (C07.noRouteStatus cfg.noRouteStatus) cfg.noRouteHTML
  | some (_, _, tg) => serveTarget cfg r tg

/-- the class of an outcome (what the correspondence compares first) -/
def Outcome.cls : Outcome → String
  | .noRoute _ _ => "noroute"
  | .forbidden => "403"
  | .unauthorized => "401"
  | .redirect _ _ => "redirect"
  | .serverError => "500"
  | .forward _ => "forward"

end Fabio.Model.ServeHTTP
