import Fabio.Model.C20
/-!
Specification side of C20: what the standard library would render, written without the loops of the code
under test (decimal and hexadecimal digits come from Lean's own `Nat.toDigits`/`Nat.repr`). The theorems in
`Props/C20.lean` relate the model to these; the driver evaluates them on the implementation's output.
-/
namespace Fabio.Model.C20.Spec
open Fabio.Model.C20

/-- left-pad with `'0'` to width `w` (never truncates) -/
def zpad (w : Nat) (ds : List Char) : List Char := List.replicate (w - ds.length) '0' ++ ds

/-- `fmt.Sprintf("%0*d")`-like: sign, then the decimal digits of `|i|` zero-padded to `pad` digits -/
def decimal (i : Int) (pad : Nat) : List Char :=
  (if i < 0 then ['-'] else []) ++ zpad pad (Nat.toDigits 10 i.natAbs)

/-- `strconv.Itoa` -/
def itoa (i : Int) : List Char := decimal i 0

/-- `fmt.Sprintf("0x%04x", n)` -/
def hex4 (n : Nat) : List Char := ['0', 'x'] ++ zpad 4 (Nat.toDigits 16 n)

/-- `fmt.Sprintf("%02x", b)` -/
def hexByte (b : UInt8) : List Char := zpad 2 (Nat.toDigits 16 b.toNat)

def hexBytes (bs : List UInt8) : List Char := bs.flatMap hexByte

/-- the canonical 8-4-4-4-12 text of the first 16 bytes -/
def uuidText (u : List UInt8) : List Char :=
  hexBytes (u.take 4) ++ ['-'] ++ hexBytes ((u.drop 4).take 2) ++ ['-'] ++ hexBytes ((u.drop 6).take 2) ++ ['-'] ++
  hexBytes ((u.drop 8).take 2) ++ ['-'] ++ hexBytes ((u.drop 10).take 6)

/-- `hostport` specification: with a colon, `host:port` is the address and the port has no colon; without
one the address is the host. -/
def hostportOk (s host port : List Char) : Bool :=
  if s.contains ':' then host ++ [':'] ++ port == s && !port.contains ':'
  else host == s && port == []

/-! ### reference rendering of an event (independent of `atoi`, `hostport`, `lex`) -/

def splitLastColon (s : List Char) : List Char × List Char :=
  if s.contains ':' then
    let rp := s.reverse.takeWhile (· != ':')
    ((s.take (s.length - rp.length - 1)), rp.reverse)
  else (s, [])

def monthNames : List String := ["Jan", "Feb", "Mar", "Apr", "May", "Jun", "Jul", "Aug", "Sep", "Oct", "Nov", "Dec"]

def d2 (i : Int) : List Char := decimal i 2

def refRfc3339 (e : Event) : List Char :=
  decimal e.year 4 ++ ['-'] ++ d2 e.month ++ ['-'] ++ d2 e.day ++ ['T'] ++ d2 e.hour ++ [':'] ++ d2 e.minute ++ [':'] ++ d2 e.second

/-- seconds with a fixed number of decimals of a non-negative nanosecond count (truncating) -/
def refSeconds (d : Int) (decimals : Nat) : List Char :=
  let n := d.toNat
  (toString (n / 1000000000)).toList ++ ['.'] ++ zpad decimals (toString ((n % 1000000000) / 10 ^ (9 - decimals))).toList

def refField (e : Event) (name : String) : Option (List Char) :=
  let req (s : List Char) : Option (List Char) := some (if e.hasRequest then s else [])
  match name with
  | "$remote_addr" => req e.remoteAddr
  | "$remote_host" => req (splitLastColon e.remoteAddr).1
  | "$remote_port" => req (splitLastColon e.remoteAddr).2
  | "$request" => req (e.method ++ " ".toList ++ e.requestURI ++ " ".toList ++ e.proto)
  | "$request_args" => some ((e.requestURL.map (·.rawQuery)).getD [])
  | "$request_host" => req e.host
  | "$request_method" => req e.method
  | "$request_scheme" => some ((e.requestURL.map (·.scheme)).getD [])
  | "$request_uri" => req e.requestURI
  | "$request_url" => some ((e.requestURL.map (·.str)).getD [])
  | "$request_proto" => req e.proto
  | "$response_body_size" => some (itoa e.contentLength)
  | "$response_status" => some (itoa e.status)
  | "$response_time_ms" => some (refSeconds e.durNs 3)
  | "$response_time_us" => some (refSeconds e.durNs 6)
  | "$response_time_ns" => some (refSeconds e.durNs 9)
  | "$time_unix_ms" => some (itoa (e.unixNano.tdiv 1000000))
  | "$time_unix_us" => some (itoa (e.unixNano.tdiv 1000))
  | "$time_unix_ns" => some (itoa e.unixNano)
  | "$time_common" => some (d2 e.day ++ ['/'] ++ (monthNames.getD (e.month.toNat - 1) "???").toList ++ ['/'] ++ decimal e.year 4 ++ [':'] ++
      d2 e.hour ++ [':'] ++ d2 e.minute ++ [':'] ++ d2 e.second ++ " +0000".toList)
  | "$time_rfc3339" => some (refRfc3339 e ++ ['Z'])
  | "$time_rfc3339_ms" => some (refRfc3339 e ++ ['.'] ++ decimal (e.nanos / 1000000) 3 ++ ['Z'])
  | "$time_rfc3339_us" => some (refRfc3339 e ++ ['.'] ++ decimal (e.nanos / 1000) 6 ++ ['Z'])
  | "$time_rfc3339_ns" => some (refRfc3339 e ++ ['.'] ++ decimal e.nanos 9 ++ ['Z'])
  | "$upstream_addr" => some e.upstreamAddr
  | "$upstream_host" => some (splitLastColon e.upstreamAddr).1
  | "$upstream_port" => some (splitLastColon e.upstreamAddr).2
  | "$upstream_request_scheme" => some ((e.upstreamURL.map (·.scheme)).getD [])
  | "$upstream_request_uri" => some ((e.upstreamURL.map (·.requestURI)).getD [])
  | "$upstream_request_url" => some ((e.upstreamURL.map (·.str)).getD [])
  | "$upstream_service" => some e.upstreamService
  | _ => none

/-- what one item of a parsed pattern contributes to the line, by the reference -/
def refItemText (e : Event) : Item → List Char
  | .text s => s
  | .header name =>
    (match e.hasRequest, e.header with
     | true, some h => headerGet h name
     | _, _ => [])
  | .field name => (refField e (String.ofList name)).getD []

/-- the reference rendering of a whole pattern: the line without its newline -/
def refLine (p : List Item) (e : Event) : List Char := p.flatMap (refItemText e)

/-- The fields listed in the package comment of `logger/logger.go` (without `$header.<name>`). -/
def documentedFields : List String := [
  "$remote_addr", "$remote_host", "$remote_port", "$request", "$request_args", "$request_host",
  "$request_method", "$request_scheme", "$request_uri", "$request_url", "$request_proto",
  "$response_body_size", "$response_status", "$response_time_ms", "$response_time_us", "$response_time_ns",
  "$time_rfc3339", "$time_rfc3339_ms", "$time_rfc3339_us", "$time_rfc3339_ns",
  "$time_unix_ms", "$time_unix_us", "$time_unix_ns", "$time_common",
  "$upstream_addr", "$upstream_host", "$upstream_port",
  "$upstream_request_scheme", "$upstream_request_uri", "$upstream_request_url"]

/-! ### declarative description of a lexed format (for the `spec` verdict of the parse stream) -/

def allID (s : List Char) : Bool := s.all isIDChar

/-- Is `(typ, val)` followed by `rest` a correct first item? Stated on the shape of the strings, not by
running the state machine. -/
def itemOk (typ : ItemType) (val rest : List Char) : Bool :=
  let next? := rest.head?
  match typ with
  | .header =>
    -- "$header." name, name maximal
    headerPrefix ++ ['.'] == val.take 8 && val.length > 8 && allID (val.drop 8) &&
      (match next? with | some c => !isIDChar c | none => true)
  | .field =>
    -- '$' then identifier characters; "$header." with nothing usable behind the dot is the field "$header."
    -- (or "$header" at the very end of the format)
    val.head? == some '$' && val.length ≥ 2 &&
      (if val == headerPrefix ++ ['.'] then (match next? with | some c => !isIDChar c | none => false)
       else allID (val.drop 1) &&
         (match next? with
          | some c => (!isIDChar c && !(c == '.' && val == headerPrefix)) || (val == headerPrefix && rest == ['.'])
          | none => true))
  | .text =>
    -- text runs up to the next '$' that is not its first rune — unless the item starts with a '$' that is
    -- not followed by an identifier character, which is text as well
    (match next? with | some c => c == '$' | none => true) &&
      (match val with
       | [] => false
       | ['$'] => rest.isEmpty
       | '$' :: c :: tl => !isIDChar c && !tl.contains '$'
       | _ :: tl => !tl.contains '$')

end Fabio.Model.C20.Spec
