import Fabio.Basic
import Fabio.Model.Route
/-!
C04 — traffic is split by the configured weights: executable model (core Lean only).

What is modelled (`/repo/route/route.go`, `picker.go`, `table.go`):

* the weight normalisation of `weighTargets` is `Fabio.Model.Route.weigh` (shared layer, over ℚ);
* the slot computation `n := int(float64(maxSlots) * t.Weight); if n == 0 && t.Weight > 0 { n = 1 }`;
* the ring fill exactly as coded: entries are placed in the order `sort.Sort(byN)` leaves them in. Go's
  `sort.Sort` is not stable, so the placement order is a *parameter*: any permutation of the indexed slot
  counts that is ascending in `n` (`ValidPlacement`); every theorem is proved for every such order (most
  need no hypothesis on the order at all). Per entry: `next, step := 0, usedSlots/s.n`, then `s.n` times
  the scan `for targets[next] != nil { next = (next+1) % usedSlots }` (with fuel `usedSlots`, shown to be
  enough), the store, and `next = (next+step) % usedSlots`;
* the bypass `r.wTargets = r.Targets` when no target has a fixed weight;
* `rrPicker` (`wTargets[total % len]`, then `total+1` on a uint64), `rndPicker` (RNG as a parameter) and
  the `n == 0` / `n == 1` shortcuts of `Table.lookup`.

Every Go operation that can panic is a checked operation returning `Outcome.panic`.
A ring is a list of slots, each holding the index (into `Route.Targets`) of the target stored there, or
`none` for a nil pointer.
-/
namespace Fabio.Model.C04
open Fabio Fabio.Model.Route

/-- `const maxSlots = 1e4` -/
def maxSlots : Nat := 10000

/-- Go's conversion `int(x)` of a (finite, in-range) float64: truncation toward zero. -/
def truncZ (q : Rat) : Int := if 0 ≤ q then q.floor else -((-q).floor)

/-- `n := int(float64(maxSlots) * t.Weight); if n == 0 && t.Weight > 0 { n = 1 }` -/
def slotCount (w : Rat) : Int :=
  let n := truncZ ((maxSlots : Rat) * w)
  if n = 0 ∧ 0 < w then 1 else n

/-- slot counts of the (already weighed) targets, in `Targets` order -/
def slotCounts (ts : List Target) : List Int := ts.map (fun t => slotCount t.weight)

def sumInt (ns : List Int) : Int := ns.foldl (· + ·) 0

abbrev Ring := List (Option Nat)

/-- Go: `for targets[next] != nil { next = (next + 1) % usedSlots }` with explicit fuel. `none` means
the scan did not finish within the fuel (Go: endless loop) or indexed out of range (Go: panic). -/
def findFree (ring : Ring) (next : Nat) : Nat → Option Nat
  | 0 => none
  | fuel+1 =>
    match ring[next]? with
    | some none => some next
    | some (some _) => findFree ring ((next + 1) % ring.length) fuel
    | none => none

/-- the loop `for k := 0; k < s.n; k++ { scan; targets[next] = r.Targets[s.i]; next = (next+step) % usedSlots }`
for one entry (`i` = target index, `k` = remaining iterations). -/
def placeK (i step : Nat) : Nat → Ring → Nat → Outcome Ring
  | 0, ring, _ => .ok ring
  | k+1, ring, next =>
    match findFree ring next ring.length with
    | none => .panic "ring fill: no free slot (index out of range / endless scan)"
    | some p => placeK i step k (ring.set p (some i)) ((p + step) % ring.length)

/-- the loop over the sorted entries `(n, i)`; `used = usedSlots = len(targets)`. -/
def fill (used : Nat) : List (Int × Nat) → Ring → Outcome Ring
  | [], ring => .ok ring
  | (n, i) :: rest, ring =>
    if n ≤ 0 then fill used rest ring
    else
      match placeK i (used / n.toNat) n.toNat ring 0 with
      | .ok ring' => fill used rest ring'
      | .panic w => .panic w

/-- `slots[i].i = i; slots[i].n = n` : the entries before sorting. -/
def entries (ns : List Int) : List (Int × Nat) := ns.zipIdx

/-- a list is ascending in the slot count (what `sort.Sort(byN)` guarantees) -/
def ascending : List (Int × Nat) → Bool
  | [] => true
  | [_] => true
  | a :: b :: rest => decide (a.1 ≤ b.1) && ascending (b :: rest)

/-- `pl` is a possible result of `sort.Sort(slots)`: a permutation of the entries, ascending in `n`.
(Executable check used by the driver; the `Prop` version is in `Props/C04.lean`.) -/
def validPlacement (ns : List Int) (pl : List (Int × Nat)) : Bool :=
  ascending pl && pl.length == ns.length &&
  (List.range ns.length).all (fun i => pl.contains ((ns.getD i 0), i))

/-- ring fill of `weighTargets` (the part after the weights are assigned), for a placement order `pl`. -/
def fillRing (ns : List Int) (pl : List (Int × Nat)) : Outcome Ring :=
  let used := sumInt ns
  if used < 0 then .panic "makeslice: len out of range"
  else fill used.toNat pl (List.replicate used.toNat none)

/-- `r.wTargets` after `weighTargets`, given the weighed targets and the placement order. -/
def ringOf (ts : List Target) (pl : List (Int × Nat)) : Outcome Ring :=
  if nFixed ts = 0 then .ok ((List.range ts.length).map some)   -- `r.wTargets = r.Targets`
  else fillRing (slotCounts ts) pl

/-- one deterministic choice of the tie order: stable insertion sort by `n` (the driver derives Go's actual
order from the ring instead, see `Driver/C04.lean`). -/
def insertAsc (e : Int × Nat) : List (Int × Nat) → List (Int × Nat)
  | [] => [e]
  | x :: xs => if e.1 ≤ x.1 then e :: x :: xs else x :: insertAsc e xs

def stablePlacement (ns : List Int) : List (Int × Nat) := (entries ns).foldr insertAsc []

/-! ### pickers -/

/-- `r.total` is a uint64 -/
def uint64Size : Nat := 2^64

/-- `rrPicker`: `u := r.wTargets[r.total % uint64(len(r.wTargets))]; atomic.AddUint64(&r.total, 1)`.
Returns the slot content and the new cursor. -/
def rrPick (ring : Ring) (total : Nat) : Outcome (Option Nat × Nat) :=
  if ring.length = 0 then .panic "integer divide by zero"
  else
    match ring[total % ring.length]? with
    | some s => .ok (s, (total + 1) % uint64Size)
    | none => .panic "index out of range"

/-- `k` sequential `rrPicker` calls starting with cursor `total`. -/
def rrRun (ring : Ring) : Nat → Nat → Outcome (List (Option Nat))
  | 0, _ => .ok []
  | k+1, total =>
    match rrPick ring total with
    | .panic w => .panic w
    | .ok (s, total') =>
      match rrRun ring k total' with
      | .panic w => .panic w
      | .ok rest => .ok (s :: rest)

/-- `rndPicker`: `r.wTargets[randIntn(len(r.wTargets))]`; the RNG is a parameter. Contract of the real
`randIntn` (math/rand): `0 ≤ randIntn n < n` for `n > 0`, and `0` for `n = 0`. -/
def rndPick (ring : Ring) (randIntn : Nat → Int) : Outcome (Option Nat) :=
  let k := randIntn ring.length
  if k < 0 then .panic "index out of range"
  else
    match ring[k.toNat]? with
    | some s => .ok s
    | none => .panic "index out of range"

/-- `Table.lookup` on a matching route: `n == 0 → nil`, `n == 1 → Targets[0]`, else `pick(r)`. -/
def lookupPick (nTargets : Nat) (pick : Outcome (Option Nat)) : Outcome (Option Nat) :=
  if nTargets = 0 then .ok none
  else if nTargets = 1 then .ok (some 0)
  else pick

/-! ### non-finite weights (D02 repaired)

`Table.addRoute` and `Table.weighRoute` refuse a weight that is NaN or ±Inf with "route: invalid weight"
(after the empty-prefix / empty-target checks, before anything else). The shared model carries weights as
`Rat`, so a definition comes with the flag `finite`; `none` as error stands for `invalid weight`. -/

def applyDefW (env : Env) (t : Table) (d : RouteDef) (finite : Bool) : Except (Option Err) Table :=
  if finite then
    match applyDef env t d with
    | .ok t' => .ok t'
    | .error e => .error (some e)
  else
    match d.cmd with
    | .add =>
      if d.src.isEmpty then .error (some .invalidPrefix)
      else if d.dst.isEmpty then .error (some .invalidTarget)
      else .error none
    | .weight =>
      if d.src.isEmpty then .error (some .invalidPrefix) else .error none
    | .del =>   -- `delRoute` never looks at the weight
      match applyDef env t { d with weight := 0 } with
      | .ok t' => .ok t'
      | .error e => .error (some e)
    | .other _ => .error (some .invalidCommand)

/-- `NewTable`/`NewTableCustom` on definitions that may carry non-finite weights. -/
def newTableW (env : Env) (defs : List (RouteDef × Bool)) : Except (Option Err) Table :=
  match defs.foldlM (fun t d => applyDefW env t d.1 d.2) ([] : Table) with
  | .error e => .error e
  | .ok t => .ok (t.map (fun kv => (kv.1, sortRoutes kv.2)))

end Fabio.Model.C04
