import Fabio.Model.C06
/-!
C06 — the published table as shared memory: access rules and ring slots are READ by the requests, one element
per micro-step, next to everything else that runs on the table.

* **Access decision** (`route/access_rules.go`): `Block.contains`, `denyByIP`, `accessDenied` — the decision as a
  function of the request (remote address, forwarded addresses) and the rules of the target.  Addresses are
  numbers with a width (32 / 128; an address with a 4-byte form is identified with it, as `net.IPNet.Contains`
  does); `none` = text that does not parse.
* **Interleaving model of the scan.**  `Target.denyByIP` walks `t.accessRules[tag]` with `for _, x := range …`:
  the slice header is read once (`scanBegin`), then one element per iteration (`scanIter`).  The rule list lives
  in shared state (`TState.rules`); so does the ring of the route (`TState.ring`, `Route.wTargets`), which the
  picker indexes with the value it got from the atomic add (`ringRead`: a plain read of one slot).
  `liftCore f` runs any micro-step of `Model/C06.lean` (cursor, glob cache, redirect, table cell) on the
  embedded core state: by construction it cannot touch `rules` or `ring`.
* Two forms that DO write to the published table are kept to exhibit witnesses (both were written by independent
  authors as seeded changes): `scanIterPromote` (a matching block is moved to the front of the shared list — m11)
  and `dumpSort` (a reader sorts the route's target slice, which is the ring, in place — m12).
-/
namespace Fabio.Model.C06

/-! ## the access decision -/

structure Addr where
  bits : Nat
  val : Nat
deriving DecidableEq, Repr

structure Block where
  bits : Nat
  val : Nat
  plen : Nat
deriving DecidableEq, Repr

/-- `(*net.IPNet).Contains`: same address family and the same leading `plen` bits -/
def Block.contains (b : Block) (a : Addr) : Bool :=
  b.bits == a.bits && a.val / 2 ^ (b.bits - b.plen) == b.val / 2 ^ (b.bits - b.plen)

/-- `Target.accessRules`: nothing, an allow list (`allow:ip`), or a deny list (`deny:ip`).  A rule text that does
not parse, or allow and deny together, becomes `allow []` (`denyAll`). -/
inductive Rules where
  | none
  | allow (bs : List Block)
  | deny (bs : List Block)
deriving DecidableEq, Repr

/-- `Target.denyByIP`; `ip = none`: the address did not parse -/
def denyByIP : Rules → Option Addr → Bool
  | .none, _ => false
  | _, .none => true
  | .allow bs, some a => !(bs.any (·.contains a))
  | .deny bs, some a => bs.any (·.contains a)

/-- what `AccessDeniedHTTP` looks at: the remote address (`noport`: `net.SplitHostPort` fails), and the elements
of all `X-Forwarded-For` lines: (`same`: spelled exactly like the remote host — skipped, parsed address) -/
structure AccReq where
  remote : Option Addr
  noport : Bool := false
  xff : List (Bool × Option Addr) := []
deriving DecidableEq, Repr

/-- `Target.AccessDeniedHTTP` -/
def accessDenied (r : Rules) (q : AccReq) : Bool :=
  match r with
  | .none => false
  | _ =>
    if q.noport then true
    else denyByIP r q.remote ||
      q.xff.any (fun e => !e.1 && (match e.2 with | some a => denyByIP r (some a) | none => false))

/-! ## the published table as shared memory -/

structure TState where
  core : State := {}
  /-- `Route.wTargets`: slot ↦ target -/
  ring : List Nat := []
  /-- the block list `denyByIP` walks (`t.accessRules[tag]`) -/
  rules : List Block := []
deriving DecidableEq, Repr

structure TLocal where
  core : Local := {}
  /-- `range` over the rule list: length of the slice header read on entry, position, address being checked -/
  slen : Nat := 0
  si : Nat := 0
  scur : Addr := ⟨0, 0⟩
  sactive : Bool := false
  /-- (ring index handed out by the picker, target read from that slot) -/
  targets : List (Nat × Nat) := []
  /-- (address, some block of the list contains it) per completed scan -/
  scans : List (Addr × Bool) := []
deriving DecidableEq, Repr

abbrev TSt := Step TState TLocal
abbrev TTh := Thread TState TLocal

/-- any micro-step of the core model, on the embedded core state -/
def liftCore (f : St) : TSt := fun s l =>
  ({ s with core := (f s.core l.core).1 }, { l with core := (f s.core l.core).2 })

/-- `r.wTargets[(n-1) % len]`: a plain read of the slot whose index the atomic add produced -/
def ringRead : TSt := fun s l =>
  match l.core.picks.getLast? with
  | some i => (s, { l with targets := l.targets ++ [(i, s.ring[i]?.getD 0)] })
  | none => (s, l)

/-- entry of the loop: the slice header is evaluated once -/
def scanBegin (a : Addr) : TSt := fun s l =>
  (s, { l with slen := s.rules.length, si := 0, scur := a, sactive := true })

def finishScan (l : TLocal) (hit : Bool) : TLocal :=
  { l with sactive := false, scans := l.scans ++ [(l.scur, hit)] }

/-- one iteration: read element `si`, test it -/
def scanIter : TSt := fun s l =>
  if !l.sactive then (s, l)
  else if l.si < l.slen then
    match s.rules[l.si]? with
    | some b => if b.contains l.scur then (s, finishScan l true) else (s, { l with si := l.si + 1 })
    | none => (s, { l with si := l.si + 1 })
  else (s, finishScan l false)

/-- m11: a matching block is swapped with the first one (`rules[0], rules[i] = rules[i], rules[0]`) — even as ONE
uninterrupted step this breaks the scans in flight -/
def scanIterPromote : TSt := fun s l =>
  if !l.sactive then (s, l)
  else if l.si < l.slen then
    match s.rules[l.si]?, s.rules[0]? with
    | some b, some b0 =>
      if b.contains l.scur then ({ s with rules := (s.rules.set 0 b).set l.si b0 }, finishScan l true)
      else (s, { l with si := l.si + 1 })
    | _, _ => (s, { l with si := l.si + 1 })
  else (s, finishScan l false)

/-- m12: a reader sorts the target slice of the route in place; for a route without fixed weights that slice IS the
ring (insertion sort on the target ids) -/
def dumpSort : TSt := fun s l =>
  ({ s with ring := s.ring.foldr (fun x acc => (acc.takeWhile (· < x)) ++ x :: acc.dropWhile (· < x)) [] }, l)

/-- a reader of the published table (`Table.Dump`, `Table.String`, the admin API): reads, writes nothing -/
def tableRead : TSt := fun s l => (s, l)

/-- one whole scan of a list of `n` blocks -/
def scanProg (a : Addr) (n : Nat) : List TSt := scanBegin a :: List.replicate (n + 1) scanIter
def scanProgPromote (a : Addr) (n : Nat) : List TSt := scanBegin a :: List.replicate (n + 1) scanIterPromote

/-- a pick on the shared ring: atomic fetch-add, then the plain read of the slot -/
def pickTarget (N : Nat) : List TSt := [liftCore (rrFetchAdd N), ringRead]

/-- the micro-steps that run on a published table: every core step (they cannot reach ring or rules), the slot
read, the scan, the readers -/
inductive TableStep : TSt → Prop where
  | core (f : St) : TableStep (liftCore f)
  | ring : TableStep ringRead
  | begin (a : Addr) : TableStep (scanBegin a)
  | iter : TableStep scanIter
  | read : TableStep tableRead

/-- between two micro-steps of a goroutine: the scan in flight has seen no matching block so far, everything
recorded is what the table as published (`ring0`, `rules0`) determines -/
def TLocalInv (ring0 : List Nat) (rules0 : List Block) (l : TLocal) : Prop :=
  (l.sactive = true → l.slen = rules0.length ∧ l.si ≤ l.slen ∧ ∀ j, j < l.si → ∀ b, rules0[j]? = some b → b.contains l.scur = false) ∧
  (∀ e ∈ l.targets, e.2 = ring0[e.1]?.getD 0) ∧
  (∀ e ∈ l.scans, e.2 = rules0.any (·.contains e.1))

def mkTThread (steps : List TSt) : TTh := { steps := steps, loc := {} }

/-! ## programs as syntax (so that a goroutine can be projected onto its core micro-steps) -/

/-- the operations that run on a published table -/
inductive TOp where
  | core (f : St)
  /-- `atomic.AddUint64(&r.total, 1)` on a ring of `N` slots -/
  | pick (N : Nat)
  | ringRead
  | scanBegin (a : Addr)
  | scanIter
  | tableRead

def TOp.sem : TOp → TSt
  | .core f => liftCore f
  | .pick N => liftCore (rrFetchAdd N)
  | .ringRead => Fabio.Model.C06.ringRead
  | .scanBegin a => Fabio.Model.C06.scanBegin a
  | .scanIter => Fabio.Model.C06.scanIter
  | .tableRead => Fabio.Model.C06.tableRead

def TOp.coreStep : TOp → Option St
  | .core f => some f
  | .pick N => some (rrFetchAdd N)
  | _ => none

/-- a goroutine given by its remaining operations -/
structure STh where
  ops : List TOp
  loc : TLocal := {}

/-- the goroutine as a thread of the interleaving semantics -/
def STh.toT (t : STh) : TTh := { steps := t.ops.map TOp.sem, loc := t.loc }

/-- what the goroutine does to the core state: its core micro-steps, in order, on the core part of its local state -/
def STh.proj (t : STh) : Th := { steps := t.ops.filterMap TOp.coreStep, loc := t.loc.core }

/-- one whole request on a route with a ring of `N` slots and a target with `n` rule blocks: the atomic pick, the
read of the slot, the scan of the rule list for the client's address -/
def requestOps (N n : Nat) (a : Addr) : List TOp :=
  [.pick N, .ringRead, .scanBegin a] ++ List.replicate (n + 1) .scanIter

def requestThread (N n : Nat) (as : List Addr) : STh := { ops := as.flatMap (requestOps N n) }

/-- a reader of the published table (`Dump`, `String`, the admin API): `k` reads -/
def readerThread (k : Nat) : STh := { ops := List.replicate k .tableRead }

/-- the remaining operations of a goroutine are well-formed: every pick is immediately followed by the read of its
slot (`pending` = a pick awaits its read), and nothing else touches the list of picks -/
def wfFrom : Bool → List TOp → Bool
  | pending, [] => !pending
  | false, .pick N :: rest => decide (0 < N) && wfFrom true rest
  | true, .ringRead :: rest => wfFrom false rest
  | false, .scanBegin _ :: rest => wfFrom false rest
  | false, .scanIter :: rest => wfFrom false rest
  | false, .tableRead :: rest => wfFrom false rest
  | _, _ => false

/-- all (index, target) pairs read so far, over all goroutines -/
def allTargetsT (ts : List TTh) : List (Nat × Nat) := ts.flatMap (fun t => t.loc.targets)

/-- all ring indices handed out so far, over all goroutines -/
def allPicksT (ts : List TTh) : List Nat := ts.flatMap (fun t => t.loc.core.picks)

end Fabio.Model.C06
