import Fabio.Basic
/-!
Model of the hand-written formatters on the access-log / request path:
`logger/pattern.go` (`atoi`, `hostport`, the field renderers, `lex`, `parse`, `pattern.write`),
`proxy/http_headers.go` (`uint16base16`, `i32toa`) and `uuid/format.go` (`ToString`).

Conventions (DESIGN.md §5): strings are `List Char`; every Go operation that can panic (index into a
fixed-size buffer, slice expression) is a checked operation returning `Outcome.panic`; Go's truncating
integer division is `Int.tdiv`/`Int.tmod`; two's-complement wrap-around is explicit (`wrap64`).
Core Lean only: this module is linked into the model driver.
-/
namespace Fabio.Model.C20

/-! ## checked buffer operations -/

/-- `l[i]` with Go's bounds check. -/
def getIdx {α} (l : List α) (i : Nat) : Outcome α :=
  match l[i]? with
  | some a => .ok a
  | none => .panic "index out of range"

/-- `l[i] = a` with Go's bounds check. -/
def setIdx {α} (l : List α) (i : Nat) (a : α) : Outcome (List α) :=
  if i < l.length then .ok (l.set i a) else .panic "index out of range"

/-- The formatters fill a fixed array of `cap` bytes from its end towards its start (`d[p] = c; p--`).
`acc` is the part written so far (`d[p+1:]`); one more write needs a free cell, otherwise `p` is `-1` and
Go panics with "index out of range [-1]". -/
def pushFront (cap : Nat) (c : Char) (acc : List Char) : Outcome (List Char) :=
  if acc.length < cap then .ok (c :: acc) else .panic "index out of range [-1]"

/-! ## numbers -/

def minInt64 : Int := -(2^63)

/-- two's-complement reduction of a mathematical integer to int64 -/
def wrap64 (x : Int) : Int := (x + 2^63) % 2^64 - 2^63

/-- `byte('0') + byte(i%10)` for `i ≥ 0` -/
def digitByte (i : Nat) : Char := Char.ofNat (48 + i % 10)

/-- The digit loop shared by `atoi` and `i32toa`:
`for { d[p] = '0' + i%10; i /= 10; p--; if i == 0 { break } }` on a buffer of `cap` bytes.
`fuel` bounds the iterations of the model; running out of it is reported as a panic value so that it can
never be mistaken for a result (`digitsLoop_ok` shows it does not happen for `i < 10^fuel`). -/
def digitsLoop (cap : Nat) : Nat → Nat → List Char → Outcome (List Char)
  | 0, _, _ => .panic "model: digit loop out of fuel"
  | fuel+1, i, acc =>
    match pushFront cap (digitByte i) acc with
    | .panic w => .panic w
    | .ok acc' => if i / 10 = 0 then .ok acc' else digitsLoop cap fuel (i / 10) acc'

/-- The padding loop of `atoi`: `for n-p-1 < pad { d[p] = '0'; p-- }`, `k` = number of iterations
(`pad - (n-p-1)`, or 0). -/
def padLoop (cap : Nat) : Nat → List Char → Outcome (List Char)
  | 0, acc => .ok acc
  | k+1, acc =>
    match pushFront cap '0' acc with
    | .panic w => .panic w
    | .ok acc' => padLoop cap k acc'

/-- `atoi(b, i, pad)` of `logger/pattern.go` for an int64 `i` (`-2^63 ≤ i < 2^63`) and `pad ≥ 0`; the result
is what is appended to the buffer. `-i` wraps for MinInt64 and leaves `i` negative, so `for i >= 0` is
skipped altogether. The scratch array has 128 bytes. -/
def atoi (i : Int) (pad : Nat) : Outcome (List Char) :=
  let neg := decide (i < 0)
  let a : Int := if neg then wrap64 (-i) else i
  (if a < 0 then Outcome.ok [] else digitsLoop 128 20 a.toNat []).bind fun ds =>
  (padLoop 128 (pad - ds.length) ds).bind fun padded =>
  if neg then pushFront 128 '-' padded else .ok padded

/-- `i32toa(n)` of `proxy/http_headers.go` for an int32 `n`: 11-byte buffer, digits from the back, then
the sign. `int64(n)` cannot overflow on negation. -/
def i32toa (n : Int) : Outcome (List Char) :=
  let signed := decide (n < 0)
  let a : Int := if signed then -n else n
  (digitsLoop 11 11 a.toNat []).bind fun ds =>
  if signed then pushFront 11 '-' ds else .ok ds

/-- `var digit16 = []byte("0123456789abcdef")` -/
def digit16 : List Char := "0123456789abcdef".toList

/-- `uint16base16(n)` for `n < 65536`. In Go `&` and `>>` have the same precedence and associate to the
left: `n&0x00f0>>4` is `(n&0x00f0)>>4`. -/
def uint16base16 (n : Nat) : Outcome (List Char) :=
  (getIdx digit16 (n &&& 0x000f)).bind fun b5 =>
  (getIdx digit16 ((n &&& 0x00f0) >>> 4)).bind fun b4 =>
  (getIdx digit16 ((n &&& 0x0f00) >>> 8)).bind fun b3 =>
  (getIdx digit16 ((n &&& 0xf000) >>> 12)).bind fun b2 =>
  .ok ['0', 'x', b2, b3, b4, b5]

/-! ## uuid.ToString -/

/-- the position table of `ToString` -/
def uuidIdx : List Nat := [0, 2, 4, 6, 9, 11, 14, 16, 19, 21, 24, 26, 28, 30, 32, 34]
def uuidDashes : List Nat := [8, 13, 18, 23]
/-- `halfbyte2hexchar` -/
def halfbyte2hexchar : List Char :=
  [48, 49, 50, 51, 52, 53, 54, 55, 56, 57, 97, 98, 99, 100, 101, 102].map Char.ofNat

/-- `for i, n := range table { b[n] = hex[(u[i]>>4)&0x0f]; b[n+1] = hex[u[i]&0x0f] }` -/
def uuidLoop (u : List UInt8) : List Nat → Nat → List Char → Outcome (List Char)
  | [], _, b => .ok b
  | n :: ns, i, b =>
    (getIdx u i).bind fun ui =>
    (getIdx halfbyte2hexchar ((ui.toNat >>> 4) &&& 0x0f)).bind fun hi =>
    (setIdx b n hi).bind fun b1 =>
    (getIdx halfbyte2hexchar (ui.toNat &&& 0x0f)).bind fun lo =>
    (setIdx b1 (n+1) lo).bind fun b2 =>
    uuidLoop u ns (i+1) b2

def setAll (c : Char) : List Nat → List Char → Outcome (List Char)
  | [], b => .ok b
  | n :: ns, b => (setIdx b n c).bind (setAll c ns)

/-- `uuid.ToString(u)`, `u` the 24 raw bytes -/
def uuidToString (u : List UInt8) : Outcome (List Char) :=
  (uuidLoop u uuidIdx 0 (List.replicate 36 (Char.ofNat 0))).bind (setAll '-' uuidDashes)

/-! ## hostport -/

/-- `hostport(s)`: `("","")` for the empty string, otherwise split at the last colon; an address without
a colon is a host with an empty port (before the repair of D24 the Go code evaluated `s[:-1]` there and
panicked). The slice expressions are checked: an out-of-range bound is a panic value. -/
def hostport (s : List Char) : Outcome (List Char × List Char) :=
  if s.isEmpty then .ok ([], []) else
  match lastIndexOf ':' s with
  | none => .ok (s, [])
  | some n => if n + 1 ≤ s.length then .ok (s.take n, s.drop (n+1)) else .panic "slice bounds out of range"

/-! ## lex / parse -/

inductive ItemType where
  | text | field | header
deriving DecidableEq, Repr, BEq

inductive LexState where
  | start | text | dollar | field | dot | header
deriving DecidableEq, Repr

def isIDChar (r : Char) : Bool :=
  ('a' ≤ r && r ≤ 'z') || ('A' ≤ r && r ≤ 'Z') || ('0' ≤ r && r ≤ '9') || r == '_' || r == '-'

def headerPrefix : List Char := "$header".toList

/-- The `for i, r := range s` loop of `lex` with the `switch state` after it. `s` is the whole rune slice,
`i` the index of the next rune, the last argument the runes from `i` on. The returned length is a Go `int`
(`len(s) - 1` is not truncated at zero). -/
def lexLoop (s : List Char) : LexState → Nat → List Char → ItemType × Int
  | st, _, [] =>
    match st with
    | .dot => (.field, (s.length : Int) - 1)
    | .field => (.field, s.length)
    | .header => (.header, s.length)
    | _ => (.text, s.length)
  | st, i, r :: rs =>
    match st with
    | .start => if r = '$' then lexLoop s .dollar (i+1) rs else lexLoop s .text (i+1) rs
    | .text => if r = '$' then (.text, i) else lexLoop s .text (i+1) rs
    | .dollar => if isIDChar r then lexLoop s .field (i+1) rs else lexLoop s .text (i+1) rs
    | .field =>
      if r = '.' then
        (if s.take i = headerPrefix then lexLoop s .dot (i+1) rs else (.field, i))
      else if isIDChar r then lexLoop s .field (i+1) rs
      else (.field, i)
    | .dot => if isIDChar r then lexLoop s .header (i+1) rs else (.field, i)
    | .header => if isIDChar r then lexLoop s .header (i+1) rs else (.header, i)

/-- `lex(s)`: type and length (in runes) of the first item of `s`. -/
def lex (s : List Char) : ItemType × Int := lexLoop s .start 0 s

/-- one element of a parsed pattern -/
inductive Item where
  | text (s : List Char)
  | header (name : List Char)
  | field (name : List Char)
deriving DecidableEq, Repr, BEq

/-- Result of `parse`: the pattern or `invalid field "<name>"`. -/
abbrev ParseResult := Except (List Char) (List Item)

/-- The `for { if len(s) == 0 { break }; typ, n := lex(s); val := string(s[:n]); s = s[n:]; … }` loop of
`parse`. The Go loop has no bound of its own: it terminates because `lex` consumes at least one rune
(`lex_progress`). The model runs it with `fuel`; running out of fuel stands for a loop that would not
terminate and is reported as a panic value (`parse_total`: it does not happen with fuel `len + 1`). -/
def parseLoop (known : List Char → Bool) : Nat → List Char → List Item → Outcome ParseResult
  | 0, _, _ => .panic "model: parse makes no progress"
  | fuel+1, s, acc =>
    if s.isEmpty then .ok (.ok acc.reverse) else
    let (typ, n) := lex s
    if n < 0 ∨ (s.length : Int) < n then .panic "slice bounds out of range" else
    let val := s.take n.toNat
    let s' := s.drop n.toNat
    match typ with
    | .text => parseLoop known fuel s' (.text val :: acc)
    | .header =>
      -- val[len("$header."):]
      if val.length < 8 then .panic "slice bounds out of range"
      else parseLoop known fuel s' (.header (val.drop 8) :: acc)
    | .field =>
      if known val then parseLoop known fuel s' (.field val :: acc) else .ok (.error val)

def parseWith (known : List Char → Bool) (format : List Char) : Outcome ParseResult :=
  parseLoop known (format.length + 1) format []

/-! ## the log event and the field renderers -/

/-- What the renderers read from a `*url.URL` (the strings are what `net/url` returns; `net/url` itself is
not modelled). -/
structure URLView where
  scheme : List Char
  rawQuery : List Char
  requestURI : List Char   -- u.RequestURI()
  str : List Char          -- u.String()
deriving Repr

/-- An abstract `logger.Event`. `Response` is never nil at the only call site (`proxy/http_proxy.go`
builds `&http.Response{…}` in place; pinned by a regenerated fact). The calendar is not modelled: the time
fields are the year … nanosecond **of `End` in UTC** and `End.UnixNano()`, `durNs` is
`End.Sub(Start).Nanoseconds()`. -/
structure Event where
  hasRequest : Bool := true
  remoteAddr : List Char := []
  method : List Char := []
  requestURI : List Char := []
  proto : List Char := []
  host : List Char := []
  /-- `Request.Header`: `none` for a nil map, otherwise key ↦ values (keys unique, as stored in the map) -/
  header : Option (List (List Char × List (List Char))) := some []
  requestURL : Option URLView := none
  upstreamURL : Option URLView := none
  upstreamAddr : List Char := []
  upstreamService : List Char := []
  status : Int := 0
  contentLength : Int := 0
  durNs : Int := 0
  unixNano : Int := 0
  year : Int := 1970
  month : Int := 1
  day : Int := 1
  hour : Int := 0
  minute : Int := 0
  second : Int := 0
  nanos : Int := 0
deriving Repr

def shortMonthNames : List (List Char) :=
  ["---", "Jan", "Feb", "Mar", "Apr", "May", "Jun", "Jul", "Aug", "Sep", "Oct", "Nov", "Dec"].map String.toList

def upperASCII (c : Char) : Char := if 'a' ≤ c ∧ c ≤ 'z' then Char.ofNat (c.toNat - 32) else c

/-- `textproto.CanonicalMIMEHeaderKey` on names made of `[a-zA-Z0-9_-]` (all of them valid token bytes):
first letter and every letter after a `-` upper case, the rest lower case. -/
def canonicalKey : Bool → List Char → List Char
  | _, [] => []
  | upper, c :: cs =>
    let c' := if upper then upperASCII c else lowerChar c
    c' :: canonicalKey (c' == '-') cs

/-- `e.Request.Header.Get(name)` -/
def headerGet (h : List (List Char × List (List Char))) (name : List Char) : List Char :=
  match h.lookup (canonicalKey true name) with
  | some (v :: _) => v
  | _ => []

def seqOut : List (Outcome (List Char)) → Outcome (List Char)
  | [] => .ok []
  | x :: xs => x.bind fun a => (seqOut xs).bind fun b => .ok (a ++ b)

def lit (s : String) : Outcome (List Char) := .ok s.toList

/-- `YYYY-MM-DDTHH:MM:SS` -/
def rfc3339Head (e : Event) : List (Outcome (List Char)) :=
  [atoi e.year 4, lit "-", atoi e.month 2, lit "-", atoi e.day 2, lit "T",
   atoi e.hour 2, lit ":", atoi e.minute 2, lit ":", atoi e.second 2]

def monthName (m : Int) : Outcome (List Char) :=
  if m < 0 then .panic "index out of range" else getIdx shortMonthNames m.toNat

def secondNs : Int := 1000000000

def responseTime (e : Event) (unit : Int) (pad : Nat) : Outcome (List Char) :=
  let d := e.durNs
  seqOut [atoi (d.tdiv secondNs) 0, lit ".", atoi ((d.tmod secondNs).tdiv unit) pad]

def ifReq (e : Event) (s : List Char) : Outcome (List Char) := .ok (if e.hasRequest then s else [])

/-- The `fields` map of `logger/pattern.go`, in the order of the source. -/
def fieldTable : List (String × (Event → Outcome (List Char))) := [
  ("$remote_addr", fun e => ifReq e e.remoteAddr),
  ("$remote_host", fun e => if e.hasRequest then (hostport e.remoteAddr).map (·.1) else .ok []),
  ("$remote_port", fun e => if e.hasRequest then (hostport e.remoteAddr).map (·.2) else .ok []),
  ("$request", fun e => ifReq e (e.method ++ [' '] ++ e.requestURI ++ [' '] ++ e.proto)),
  ("$request_args", fun e => .ok ((e.requestURL.map (·.rawQuery)).getD [])),
  ("$request_host", fun e => ifReq e e.host),
  ("$request_method", fun e => ifReq e e.method),
  ("$request_scheme", fun e => .ok ((e.requestURL.map (·.scheme)).getD [])),
  ("$request_uri", fun e => ifReq e e.requestURI),
  ("$request_url", fun e => .ok ((e.requestURL.map (·.str)).getD [])),
  ("$request_proto", fun e => ifReq e e.proto),
  ("$response_body_size", fun e => atoi e.contentLength 0),
  ("$response_status", fun e => atoi e.status 0),
  ("$response_time_ms", fun e => responseTime e 1000000 3),
  ("$response_time_us", fun e => responseTime e 1000 6),
  ("$response_time_ns", fun e => responseTime e 1 9),
  ("$time_unix_ms", fun e => atoi (e.unixNano.tdiv 1000000) 0),
  ("$time_unix_us", fun e => atoi (e.unixNano.tdiv 1000) 0),
  ("$time_unix_ns", fun e => atoi e.unixNano 0),
  ("$time_common", fun e => seqOut [atoi e.day 2, lit "/", monthName e.month, lit "/", atoi e.year 4, lit ":",
      atoi e.hour 2, lit ":", atoi e.minute 2, lit ":", atoi e.second 2, lit " +0000"]),
  ("$time_rfc3339", fun e => seqOut (rfc3339Head e ++ [lit "Z"])),
  ("$time_rfc3339_ms", fun e => seqOut (rfc3339Head e ++ [lit ".", atoi (e.nanos.tdiv 1000000) 3, lit "Z"])),
  ("$time_rfc3339_us", fun e => seqOut (rfc3339Head e ++ [lit ".", atoi (e.nanos.tdiv 1000) 6, lit "Z"])),
  ("$time_rfc3339_ns", fun e => seqOut (rfc3339Head e ++ [lit ".", atoi e.nanos 9, lit "Z"])),
  ("$upstream_addr", fun e => .ok e.upstreamAddr),
  ("$upstream_host", fun e => (hostport e.upstreamAddr).map (·.1)),
  ("$upstream_port", fun e => (hostport e.upstreamAddr).map (·.2)),
  ("$upstream_request_scheme", fun e => .ok ((e.upstreamURL.map (·.scheme)).getD [])),
  ("$upstream_request_uri", fun e => .ok ((e.upstreamURL.map (·.requestURI)).getD [])),
  ("$upstream_request_url", fun e => .ok ((e.upstreamURL.map (·.str)).getD [])),
  ("$upstream_service", fun e => .ok e.upstreamService)]

def fieldNames : List String := fieldTable.map (·.1)

def knownField (name : List Char) : Bool := fieldNames.contains (String.ofList name)

/-- `parse(format, fields)` with the package's own table -/
def parse (format : List Char) : Outcome ParseResult := parseWith knownField format

def renderItem (e : Event) : Item → Outcome (List Char)
  | .text s => .ok s
  | .header name =>
    match e.hasRequest, e.header with
    | true, some h => .ok (headerGet h name)
    | _, _ => .ok []
  | .field name =>
    match fieldTable.lookup (String.ofList name) with
    | some f => f e
    | none => .panic "nil field function"   -- unreachable after `parse` (unknown names are rejected)

/-- what the field functions append to the (reset) buffer, in order -/
def render (p : List Item) (e : Event) : Outcome (List Char) := seqOut (p.map (renderItem e))

/-- `pattern.write` on an empty buffer: the rendering followed by one `'\n'` — unless the rendering is
empty, in which case nothing at all is written (`if b.Len() == 0 { return }`). -/
def write (p : List Item) (e : Event) : Outcome (List Char) :=
  (render p e).bind fun b => if b.isEmpty then .ok [] else .ok (b ++ ['\n'])

inductive LogResult where
  | newError (msg : List Char)     -- `logger.New` returned an error
  | written (out : List Char)      -- bytes handed to the writer by `Log`
deriving Repr, DecidableEq

/-- `logger.New(w, format)` followed by `Log(e)` on the resulting logger. -/
def newAndLog (format : List Char) (e : Event) : Outcome LogResult :=
  (parse format).bind fun r =>
  match r with
  | .error name => .ok (.newError ("invalid field \"".toList ++ name ++ ['"']))
  | .ok [] => .ok (.newError "empty log format".toList)
  | .ok p => (write p e).map .written

end Fabio.Model.C20
