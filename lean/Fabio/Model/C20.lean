import Fabio.Basic
/-!
Model of the hand-written formatters on the access-log / request path (`logger/pattern.go`).
-/
namespace Fabio.Model.C20

def minInt64 : Int := -(2^63)

/-- The digit loop of `atoi`: `for i >= 0 { d[p] = '0'+i%10; i /= 10; p--; if i == 0 { break } }`,
producing most-significant digit first. `fuel` bounds the iterations (an int64 has ≤ 19 digits). -/
def digitsLoop : Nat → Nat → List Char → List Char
  | 0, _, acc => acc
  | fuel+1, i, acc =>
    let acc' := Char.ofNat (48 + i % 10) :: acc
    if i / 10 == 0 then acc' else digitsLoop fuel (i / 10) acc'

/-- `atoi(b, i, pad)` for an int64 `i` (precondition `-2^63 ≤ i < 2^63`). Go's `-i` wraps for MinInt64,
leaving `i` negative, so the digit loop is skipped altogether. -/
def atoi (i : Int) (pad : Nat) : List Char :=
  let neg := i < 0
  let a : Int := if neg then (if i == minInt64 then minInt64 else -i) else i
  let ds : List Char := if a < 0 then [] else digitsLoop 20 a.toNat []
  let padded := List.replicate (pad - ds.length) '0' ++ ds
  if neg then '-' :: padded else padded

/-- `hostport(s)`: `("","")` for the empty string, otherwise split at the last colon; an address without
a colon is a host with an empty port (before the repair of D24 the Go code evaluated `s[:-1]` there and
panicked). The slice expressions are checked: an out-of-range bound is a panic value. -/
def hostport (s : List Char) : Outcome (List Char × List Char) :=
  if s.isEmpty then .ok ([], []) else
  match lastIndexOf ':' s with
  | none => .ok (s, [])
  | some n => if n + 1 ≤ s.length then .ok (s.take n, s.drop (n+1)) else .panic "slice bounds out of range"

end Fabio.Model.C20
