import Fabio.Model.C16Race
/-!
C16, round 4 — racing callers **while the cleanup loop runs and the table changes** (core Lean only).

`Model/C16Race.lean` lets `n` callers race for one key in a pool nobody else touches.  Here the schedule also
contains iterations of the pool's cleanup loop against an arbitrary set of target URLs (whatever table is current
at that moment; the loop body runs under the pool's write lock, so it is one step among the callers'
micro-steps — obligation `pool_critical_sections_are_single`): it drops shut-down connections and hands the live
connections of absent keys to the asynchronous closer.
-/
namespace Fabio.Model.C16.RaceEnv
open Fabio.Model.Route (Str)
open Fabio.Model.C16 Fabio.Model.C16.Race

structure EState where
  pool : Pool := []
  next : Nat := 0
  /-- connections closed by `Set` -/
  closed : List Nat := []
  /-- connections handed to the closer goroutine by a cleanup -/
  handed : List Nat := []
  ts : List TState := []
deriving DecidableEq, Repr

inductive Ev where
  /-- thread `i` performs its next micro-step -/
  | thread (i : Nat)
  /-- one iteration of the cleanup loop against the target URLs of the table of that moment -/
  | cleanup (urls : List Str)
deriving DecidableEq, Repr

def step (k : Str) (s : EState) : Ev → EState
  | .thread i =>
    match s.ts[i]? with
    | none => s
    | some t =>
      let r := tstep true k s.pool s.next s.closed t
      { s with pool := r.1, next := r.2.1, closed := r.2.2.1, ts := s.ts.set i r.2.2.2 }
  | .cleanup urls =>
    { s with pool := s.pool.cleanup urls, handed := s.handed ++ (s.pool.toClose urls).map (·.id) }

def run (k : Str) (s : EState) (es : List Ev) : EState := es.foldl (step k) s

def start (p : Pool) (next n : Nat) : EState := { pool := p, next := next, ts := List.replicate n .start }

/-- connections dialled since `next0` that are open and that nobody will close: not pooled, not closed by
`Set`, not handed to the closer, not in the hands of a caller that still has its `Set` before it -/
def orphans (next0 : Nat) (s : EState) : List Nat :=
  (List.range s.next).filter fun i =>
    decide (next0 ≤ i) && !(s.pool.any fun kc => kc.2.id == i) && !s.closed.contains i && !s.handed.contains i
      && !s.ts.contains (.dialled i)

end Fabio.Model.C16.RaceEnv
