import Fabio.Model.Route
import Fabio.Model.Parse
import Fabio.Model.C05Spec
/-!
C05, round 3 — the glue around the command core, modelled (core Lean only, linked into the driver):

* `route.ParseAliases` (`route/parse_new.go`): the *second* reader of the command language — `main.go` hands every
  configuration text to it before `NewTable`. It splits on `"\n"` itself (no `bufio.Scanner`: no 64 KiB limit, no
  `dropCR`), dispatches like `Parse`, and returns the `register` option of every definition, in order.
* `validWeight` in `addRoute` / `weighRoute` (`route/table.go`): `strconv.ParseFloat` accepts `nan`, `inf`,
  `-Infinity` …; the commands refuse such weights (`route: invalid weight`) *after* the empty-prefix /
  empty-target checks. `Model/Parse.lean` stops at such a line (`ParseErr.nonFinite`, weights are `Rat`); here the
  flag travels next to the definition (`WDef`) so that the outcome of the real `NewTable` — which error, decided
  by which command fails first — is modelled for every text.
* the option-derived fields `addTarget` computes from `opts` (`strip`, `prepend`, `host`, `tlsskipverify`,
  `pxyproto`, `redirect` via `strconv.Atoi` and the 3xx range check, `auth`).
* the admin endpoint `/api/routes` (`admin/api/routes.go`): `?raw` prints `t.String()` plus a newline, the JSON form
  lists one entry per target, hosts ascending.
-/
namespace Fabio.Model.C05Glue
open Fabio Fabio.Model.Route Fabio.Model.Parse Fabio.Model.C05Spec

/-! ### a line scanner generic in the per-line function and in the 64 KiB limit -/

/-- the loop shared by `Parse` (`lim = true`: `bufio.Scanner`) and `ParseAliases` (`lim = false`:
`strings.Split`); `i` = 1-based number of the line being read -/
def scan {α : Type} (lim : Bool) (f : Str → Except LineErr (Option α)) : Nat → List Str → Except ParseErr (List α)
  | _, [] => .ok []
  | i, raw :: rest =>
    if lim && decide (maxToken ≤ byteLen raw) then .error (.tooLong i) else
    match f raw with
    | .error (.syn e) => .error (.syn i e)
    | .error (.nonFinite v) => .error (.nonFinite i v)
    | .ok none => scan lim f (i+1) rest
    | .ok (some d) =>
      match scan lim f (i+1) rest with
      | .error e => .error e
      | .ok ds => .ok (d :: ds)

/-! ### `ParseAliases` -/

/-- `strconv.ParseFloat` with every accepted non-finite value replaced by 0: `ParseAliases` never looks at the
weight, and Go's `parseWeight` reports no error for `nan`/`inf` -/
def finPf (pf : ParseFloat) : ParseFloat := fun s =>
  match pf s with
  | some (.fin q) => some (.fin q)
  | some _ => some (.fin 0)
  | none => none

/-- the definitions `ParseAliases` collects (its first loop) -/
def aliasDefs (pf : ParseFloat) (text : Str) : Except ParseErr (List RouteDef) :=
  scan false (parseLine (finPf pf)) 1 (splitOn '\n' text)

def kRegister : Str := "register".toList

/-- `registerName, ok := d.Opts["register"]` for every definition, in order (an option written without a value
is present with the empty name) -/
def registerNames (defs : List RouteDef) : List Str := defs.filterMap (fun d => d.opts.lookup kRegister)

/-- `route.ParseAliases` -/
def parseAliases (pf : ParseFloat) (text : Str) : Except ParseErr (List Str) :=
  match aliasDefs pf text with
  | .error e => .error e
  | .ok defs => .ok (registerNames defs)

/-! ### non-finite weights: `validWeight` -/

/-- the weight token the grammar captures on a (trimmed) line, following the dispatch of `Parse`; `[]` when the
line has none -/
def weightTok (s : Str) : Str :=
  if isComment s || isBlank s then []
  else if (head kAdd s).isSome then
    (match matchAdd s with
     | some m => m.weight
     | none => [])
  else if (head kDel s).isSome then []
  else if (head kWeight s).isSome then
    (match matchWeightSvc s with
     | some (_, _, w, _) => w
     | none =>
       match matchWeightSrc s with
       | some (_, w, _) => w
       | none => [])
  else []

/-- `ParseFloat` accepts the token without error and the value is NaN or ±Inf -/
def nonFiniteTok (pf : ParseFloat) (w : Str) : Bool :=
  !w.isEmpty &&
  (match pf w with
   | some (.fin _) => false
   | some _ => true
   | none => false)

/-- a definition as `Parse` delivers it, the weight being a float64: `bad` = the weight is NaN or ±Inf (then
`d.weight` is a placeholder) -/
structure WDef where
  d : RouteDef
  bad : Bool
deriving DecidableEq, Repr

def parseLineW (pf : ParseFloat) (line : Str) : Except LineErr (Option WDef) :=
  match parseLine (finPf pf) line with
  | .error e => .error e
  | .ok none => .ok none
  | .ok (some d) => .ok (some { d, bad := nonFiniteTok pf (weightTok (trimSpace line)) })

/-- `route.Parse`, total over float64 weights -/
def parseW (pf : ParseFloat) (text : Str) : Except ParseErr (List WDef) :=
  scan true (fun raw => parseLineW pf (dropCR raw)) 1 (rawLines text)

inductive XErr where
  /-- "route: invalid weight" -/
  | invalidWeight
  | table (e : Err)
deriving DecidableEq, Repr

def liftErr : Except Err Table → Except XErr Table
  | .ok t => .ok t
  | .error e => .error (.table e)

/-- one command of `NewTable` / `NewTableCustom`: `addRoute` and `weighRoute` check the weight after the
prefix (and target) checks and before anything else -/
def applyW (env : Env) (t : Table) (x : WDef) : Except XErr Table :=
  match x.d.cmd with
  | .add =>
    if x.d.src.isEmpty then .error (.table .invalidPrefix)
    else if x.d.dst.isEmpty then .error (.table .invalidTarget)
    else if x.bad then .error .invalidWeight
    else liftErr (addRoute env t x.d)
  | .weight =>
    if x.d.src.isEmpty then .error (.table .invalidPrefix)
    else if x.bad then .error .invalidWeight
    else liftErr (weighRoute t x.d)
  | _ => liftErr (applyDef env t x.d)

/-- `NewTableCustom` / the table part of `NewTable` -/
def newTableW (env : Env) (xs : List WDef) : Except XErr Table :=
  match xs.foldlM (applyW env) [] with
  | .error e => .error e
  | .ok t => .ok (t.map (fun kv => (kv.1, sortRoutes kv.2)))

/-- the spec machine (`Model/C05Spec.lean`) extended to float64 weights: a command that looks at its weight
refuses a non-finite one, after the empty-prefix / empty-target checks -/
def liftSpec : Except Err Spec → Except XErr Spec
  | .ok S => .ok S
  | .error e => .error (.table e)

def specApplyW (env : Env) (S : Spec) (x : WDef) : Except XErr Spec :=
  match x.d.cmd with
  | .add =>
    if x.d.src.isEmpty then .error (.table .invalidPrefix)
    else if x.d.dst.isEmpty then .error (.table .invalidTarget)
    else if x.bad then .error .invalidWeight
    else liftSpec (specAdd env S x.d)
  | .weight =>
    if x.d.src.isEmpty then .error (.table .invalidPrefix)
    else if x.bad then .error .invalidWeight
    else liftSpec (specWeigh S x.d)
  | _ => liftSpec (specApply env S x.d)

def specRunW (env : Env) (xs : List WDef) : Except XErr Spec := xs.foldlM (specApplyW env) specEmpty

inductive LoadErrW where
  | parse (e : ParseErr)
  | cmd (e : XErr)
deriving DecidableEq, Repr

/-- `route.NewTable`, total over float64 weights -/
def loadTableW (env : Env) (pf : ParseFloat) (text : Str) : Except LoadErrW Table :=
  match parseW pf text with
  | .error e => .error (.parse e)
  | .ok xs =>
    match newTableW env xs with
    | .error e => .error (.cmd e)
    | .ok t => .ok t

/-! ### option-derived target fields (`addTarget`) -/

def isDigit (c : Char) : Bool := '0' ≤ c && c ≤ '9'

/-- value of a digit string -/
def digitsVal (s : Str) : Nat := s.foldl (fun a c => 10 * a + (c.toNat - 48)) 0

def stripPlus : Str → Str
  | '+' :: r => r
  | s => s

/-- `t.RedirectCode` from `opts["redirect"]`: `strconv.Atoi` (optional sign, decimal digits only) and the range
check 300…399; anything else (a minus sign, also a value too large for an int) leaves 0 -/
def redirectCode (s : Str) : Nat :=
  let ds := stripPlus s
  if ds.isEmpty || !ds.all isDigit then 0
  else
    let v := digitsVal ds
    if 300 ≤ v && v ≤ 399 then v else 0

structure Derived where
  strip : Str
  prepend : Str
  host : Str
  auth : Str
  tlsSkip : Bool
  pxyProto : Bool
  redirect : Nat
deriving DecidableEq, Repr

/-- `m[k]` on a Go map of strings: the zero value `""` when absent -/
def optGet (o : List (Str × Str)) (k : String) : Str := (o.lookup k.toList).getD []

/-- the fields `addTarget` sets from the options (a nil map gives the zero values, like an empty one) -/
def derive (o : List (Str × Str)) : Derived :=
  { strip := optGet o "strip", prepend := optGet o "prepend", host := optGet o "host", auth := optGet o "auth",
    tlsSkip := optGet o "tlsskipverify" == "true".toList, pxyProto := optGet o "pxyproto" == "true".toList,
    redirect := redirectCode (optGet o "redirect") }

/-! ### the admin endpoint `/api/routes` -/

/-- `?raw`: `fmt.Fprintln(w, t.String())` -/
def apiRaw (t : Table) : Str := render t ++ ['\n']

structure ApiRoute where
  service : Str
  host : Str
  path : Str
  src : Str
  dst : Str
  /-- the `k=v` pairs (the handler joins them in map order: compared as a sorted list) -/
  opts : List (Str × Str)
  weight : Rat
  tags : List Str
deriving DecidableEq, Repr

def apiEntry (r : Route) (tg : Target) : ApiRoute :=
  { service := tg.service, host := r.host, path := r.path, src := r.host ++ r.path, dst := tg.url,
    opts := sortOpts tg.opts, weight := tg.weight, tags := tg.tags }

def insertHostAsc (h : Str) : List Str → List Str
  | [] => [h]
  | x :: xs => if strLt h x then h :: x :: xs else x :: insertHostAsc h xs

/-- `sort.Strings(hosts)` -/
def hostsAsc (t : Table) : List Str := (t.map (·.1)).foldr insertHostAsc []

/-- the JSON listing: hosts ascending, routes in table order, targets in order -/
def apiRoutes (t : Table) : List ApiRoute :=
  (hostsAsc t).flatMap (fun h => (t.get h).flatMap (fun r => r.targets.map (apiEntry r)))

end Fabio.Model.C05Glue
