import Fabio.Model.C10
/-!
C10 — "the name a standard TLS server receives from the same bytes", as a model of its own.

Rounds 1–3 used two *oracles* for this half of the property: crypto/tls's server (run on every case) and a strict
RFC reader written in Go (`harness/c10/wire.go`). This module is the Lean counterpart: a reader in the style of
`golang.org/x/crypto/cryptobyte` (the style crypto/tls's own `clientHelloMsg.unmarshal` is written in — *not* the
index/slice style of fabio's Go 1.7 copy): `rdBytes`, `rdVec8`, `rdVec16` read length-prefixed vectors and hand
back the rest; `frame` takes a handshake message apart into a `RawHello` (every vector must nest exactly);
`stdName` is what a standard server does with the parts (session id bound, duplicate extension types refused,
`server_name` per RFC 6066 §3 exactly as crypto/tls reads it: non-empty list, non-empty names, at most one
`host_name`, no trailing dot); `stdRoute` is the record layer in front of it (one handshake record of 1..16384
bytes that holds the complete message).

`stdServerName 32` is the strict reader (RFC 5246 §7.4.1.2: `SessionID<0..32>`), `stdServerName 255` is
crypto/tls's reading (its `unmarshal` does not bound the session id) with the bodies of all extensions other than
`server_name` taken as opaque: crypto/tls additionally refuses malformed bodies of the extensions it knows, so
"crypto/tls accepts with name `n`" implies "`stdServerName 255` accepts with name `n`" (checked on every case of
every stream), which is the direction the agreement theorems need.

`lenientFold`/`fabioView` say what fabio's parser computes from the same parts (`Props/C10Std.lean`:
`unmarshal_factors` — fabio's `unmarshal` *is* `frame` followed by `fabioView`, for every byte string).
-/
namespace Fabio.Model.C10

/-- `ReadBytes(n)`: the next `n` bytes and the rest. -/
def rdBytes (n : Nat) (d : Bytes) : Option (Bytes × Bytes) :=
  if n ≤ d.length then some (d.take n, d.drop n) else none

/-- `ReadUint8LengthPrefixed` -/
def rdVec8 : Bytes → Option (Bytes × Bytes)
  | a :: t => rdBytes a.toNat t
  | [] => none

/-- `ReadUint16LengthPrefixed` -/
def rdVec16 : Bytes → Option (Bytes × Bytes)
  | a :: b :: t => rdBytes (a.toNat * 256 + b.toNat) t
  | _ => none

/-- A ClientHello taken apart; extension bodies and the cipher-suite vector stay opaque. -/
structure RawHello where
  /-- handshake type, 24-bit length, legacy_version, random: 4 + 2 + 32 bytes -/
  fixed : Bytes
  sessionId : Bytes
  cipherSuites : Bytes
  compressionMethods : Bytes
  /-- `none`: the message ends behind the compression methods -/
  extensions : Option (List (Nat × Bytes))
deriving Repr, BEq, DecidableEq

/-- `for !extensions.Empty() { ReadUint16(&ext); ReadUint16LengthPrefixed(&extData) }` -/
def splitExts : Nat → Bytes → Option (List (Nat × Bytes))
  | 0, _ => none
  | _+1, [] => some []
  | _+1, [_] => none
  | fuel+1, a :: b :: t =>
    match rdVec16 t with
    | none => none
    | some (body, rest) => (splitExts fuel rest).map (fun es => (a.toNat * 256 + b.toNat, body) :: es)

/-- the optional extension block: nothing, or one 16-bit vector that ends the message -/
def frameExts (d : Bytes) : Option (Option (List (Nat × Bytes))) :=
  if d.length = 0 then some none else
  match rdVec16 d with
  | none => none
  | some (ext, rest) => if rest.length ≠ 0 then none else (splitExts (ext.length + 1) ext).map some

def frameCompression (d : Bytes) : Option (Bytes × Option (List (Nat × Bytes))) :=
  match rdVec8 d with
  | none => none
  | some (comp, d) => (frameExts d).map (fun o => (comp, o))

def frameCiphers (d : Bytes) : Option (Bytes × Bytes × Option (List (Nat × Bytes))) :=
  match rdVec16 d with
  | none => none
  | some (cs, d) => if cs.length % 2 = 1 then none else (frameCompression d).map (fun p => (cs, p))

/-- A handshake message as its parts. Like crypto/tls (`s.Skip(4)`), the message type and the 24-bit length
are not looked at here: `stdRoute` cuts the message to its announced length first. -/
def frame (msg : Bytes) : Option RawHello :=
  match rdBytes 38 msg with
  | none => none
  | some (fixed, d) =>
    match rdVec8 d with
    | none => none
    | some (sid, d) =>
      (frameCiphers d).map (fun p =>
        { fixed := fixed, sessionId := sid, cipherSuites := p.1, compressionMethods := p.2.1, extensions := p.2.2 })

/-- `for !nameList.Empty() { ReadUint8(&nameType); ReadUint16LengthPrefixed(&serverName) }` -/
def splitNames : Nat → Bytes → Option (List (UInt8 × Bytes))
  | 0, _ => none
  | _+1, [] => some []
  | fuel+1, ty :: t =>
    match rdVec16 t with
    | none => none
    | some (name, rest) => (splitNames fuel rest).map (fun es => (ty, name) :: es)

/-- The `server_name` extension body as a standard server reads it (crypto/tls `case extensionServerName`):
the list fills the body and is non-empty, no entry has an empty name, at most one `host_name`, which has no
trailing dot. Result: the `host_name`, `""` if the list has none. -/
def stdSni (body : Bytes) : Option Bytes :=
  match rdVec16 body with
  | none => none
  | some (list, rest) =>
    if rest.length ≠ 0 ∨ list.length = 0 then none else
    match splitNames (list.length + 1) list with
    | none => none
    | some entries =>
      if entries.any (fun e => e.2.length == 0) then none else
      let hosts := entries.filter (fun e => e.1 == 0)
      if hosts.length > 1 then none else
      match hosts.head? with
      | none => some []
      | some h => if h.2.getLast? = some 0x2e then none else some h.2

/-- What a standard server makes of the parts: session id within `maxSid`, extension types pairwise distinct,
the `server_name` extension read by `stdSni`; `""` without the extension or without an extension block. -/
def stdName (maxSid : Nat) (rh : RawHello) : Option Bytes :=
  if rh.sessionId.length > maxSid then none else
  match rh.extensions with
  | none => some []
  | some es =>
    if ¬ (es.map (·.1)).Nodup then none else
    match es.find? (fun e => e.1 == 0) with
    | none => some []
    | some e => stdSni e.2

/-- The server name a standard TLS server reads from a handshake message; `none`: not accepted. -/
def stdServerName (maxSid : Nat) (msg : Bytes) : Option Bytes :=
  match frame msg with
  | none => none
  | some rh => stdName maxSid rh

/-- The handshake message at the start of a client's first flight, if it is complete within the first record:
record type 22, record length 1..`maxRec` and the record fully present, message type 1, the 24-bit message
length (+ 4 header bytes) within the record. Result: the message including its 4-byte header. -/
def firstMessage (maxRec : Nat) : Bytes → Option Bytes
  | ty :: _ :: _ :: r1 :: r0 :: mt :: a :: b :: c :: t =>
    let recLen := r1.toNat * 256 + r0.toNat
    let n := a.toNat * 65536 + b.toNat * 256 + c.toNat
    if ty ≠ 0x16 ∨ recLen = 0 ∨ recLen > maxRec ∨ t.length + 4 < recLen ∨ mt ≠ 1 ∨ recLen < n + 4 then none
    else some (mt :: a :: b :: c :: t.take n)
  | _ => none

/-- A standard server in front of the bytes a client sends first (one record, RFC 5246 §6.2.1: at most 2^14
bytes): the name it reads, `none` if it does not accept them as a ClientHello. -/
def stdRoute (s : Bytes) : Option Bytes :=
  match firstMessage maxRecordLen s with
  | none => none
  | some msg => stdServerName maxSidLen msg

/-! ### fabio's reading of the same parts -/

/-- fabio's extension loop on the parts: every `server_name` extension is read by `serverNameExt` (first
`host_name` wins, the rest of the list is not looked at), a later one overwrites an earlier one, everything else
is skipped. -/
def lenientFold : List (Nat × Bytes) → Bytes → R Bytes
  | [], cur => .ok cur
  | e :: es, cur =>
    (if e.1 = extensionServerName then serverNameExt e.2 cur else .ok cur) >>= fun cur' => lenientFold es cur'

def viewExts : Option (List (Nat × Bytes)) → R Bytes
  | none => .ok []
  | some es => lenientFold es []

def fabioView (rh : RawHello) : R Bytes :=
  if rh.sessionId.length > maxSidLen then .reject "session-id" else viewExts rh.extensions

/-! ### the rest of `SNIProxy.ServeTCP` up to the dial -/

/-- What `ServeTCP` does with a connection, up to the point where it dials: it drops it (`site` names the
`return`), or it calls `Lookup host` having consumed exactly `hello` from the connection; `hello` is what
`out.Write(data)` replays to the upstream before the two copy loops start. -/
inductive Decision where
  | drop (site : String)
  | lookup (host : Bytes) (hello : Bytes) (rest : Bytes)
  | panic (why : String)
deriving Repr, BEq, DecidableEq

/-- sni_proxy.go:45–93. -/
def serveTCP (stream : Bytes) : Decision :=
  if stream.length < peekLen then .drop "peek" else
  match sliceTo stream peekLen >>= clientHelloBufferSize with
  | .panic w => .panic w
  | .reject s => .drop s
  | .ok bufferSize =>
    if stream.length < bufferSize then .drop "read-full" else
    match sliceTo stream bufferSize with
    | .panic w => .panic w
    | .reject s => .drop s
    | .ok data =>
      match sliceFrom data recHdrLen >>= unmarshal with
      | .panic w => .panic w
      | .reject s => .drop s
      | .ok host =>
        if host.length = 0 then .drop "server-name-missing" else
        .lookup host data (stream.drop bufferSize)

/-- the buffer size `ServeTCP` computes from the first 9 bytes (0 when it does not get that far) -/
def bufSizeOf (stream : Bytes) : Nat :=
  match clientHelloBufferSize (stream.take peekLen) with
  | .ok n => n
  | _ => 0

end Fabio.Model.C10
