import Fabio.Model.C16
/-!
C16, round 3 — the glue around interceptor and pool (core Lean only):

* the two **gates** `GrpcProxyInterceptor.Stream` applies between the table lookup and the handler
  (`target.AccessDeniedAddr(peer)` → `PermissionDenied`, `target.Authorized(…)` → `Unauthenticated`; what the
  gates decide is property C12, here they are one parameter `gate`);
* the **director's** own error paths (`GetGRPCDirector`: no metadata, no target in the context);
* **`newConnection`'s choice of transport credentials**: TLS exactly for a `grpcs` target when the director was
  built with a non-nil `*tls.Config`, with the target's `grpcservername` and `tlsskipverify`; the pooled
  connection keeps the credentials it was dialled with, and the pool key (`URL.String()`) does not contain them;
* **`main.startServers` / `newGrpcProxy`**: one interceptor, director and pool *per gRPC listener*, the
  director built from that listener's TLS configuration (`makeTLSConfig`: non-nil iff the listener names a
  certificate source);
* the three **message limits** `newGrpcProxy` / `newConnection` install (listener receive = rx, listener send =
  tx, backend connection receive = rx).

Assumed, not modelled (grpc-go, crypto/tls): which handshakes succeed (`handshake`) and that a message over a
limit ends the call with `ResourceExhausted`.
-/
namespace Fabio.Model.C16.Serve
open Fabio.Model.Route (Str Table)
open Fabio.Model.C16

/-- what `newConnection` and `makeGRPCTargetKey` read of a `*route.Target` -/
structure Tgt where
  /-- `URL.String()`: the pool key -/
  key : Str
  /-- `URL.Scheme == "grpcs"` -/
  grpcs : Bool := false
  /-- `TLSSkipVerify` (route option `tlsskipverify=true`) -/
  skipVerify : Bool := false
  /-- `Opts["grpcservername"]` -/
  serverName : Str := []
deriving DecidableEq, Repr

/-- the transport credentials of a backend connection -/
inductive Security where
  /-- `grpc.WithInsecure()` -/
  | insecure
  /-- `credentials.NewTLS(&tls.Config{InsecureSkipVerify: …, ServerName: …})` -/
  | tls (serverName : Str) (skipVerify : Bool)
deriving DecidableEq, Repr

/-- `newConnection`: `if target.URL.Scheme == "grpcs" && p.tlscfg != nil { TLS } else { insecure }`.
`hasCert` = the pool's `tlscfg` is non-nil. -/
def dialSecurity (hasCert : Bool) (t : Tgt) : Security :=
  if t.grpcs && hasCert then .tls t.serverName t.skipVerify else .insecure

/-- a backend as the dialler meets it -/
inductive Backend where
  | plain
  /-- a TLS server: the names its certificate is valid for, and whether the proxy trusts its issuer -/
  | tls (names : List Str) (trusted : Bool)
deriving DecidableEq, Repr

/-- **Assumption (grpc-go, crypto/tls).** Which connections come up: clear text meets clear text; TLS meets
TLS and the certificate is accepted — unverified, or trusted and valid for the configured server name (the
dialled host when none is configured). -/
def handshake (dialHost : Str) : Security → Backend → Bool
  | .insecure, .plain => true
  | .tls sn skip, .tls names trusted => skip || (trusted && names.contains (if sn.isEmpty then dialHost else sn))
  | _, _ => false

/-- gRPC status codes of the gates and of the transport -/
def codePermissionDenied : Nat := 7
def codeResourceExhausted : Nat := 8
def codeUnavailable : Nat := 14
def codeUnauthenticated : Nat := 16
def codeUnknown : Nat := 2

/-- `Stream`'s gates between lookup and handler: `none` = pass, `some code` = answered by the interceptor. -/
abbrev Gate := Tgt → MD → Option Nat

/-- the gate `Stream` is built from: the access rules first, then the auth scheme -/
def gateOf (accessDenied : Tgt → Bool) (authorized : Tgt → MD → Bool) : Gate := fun t md =>
  if accessDenied t then some codePermissionDenied
  else if !authorized t md then some codeUnauthenticated
  else none

/-- What the director returns (`GetGRPCDirector`'s closure): an error before the pool is asked — no metadata
in the context, or no target stored by the interceptor — or the pool's answer for the stored target. -/
inductive Directed where
  | noMetadata
  | noTarget
  | pool (key : Str)
deriving DecidableEq, Repr

def director (hasMD : Bool) (target : Option Tgt) : Directed :=
  if !hasMD then .noMetadata else
  match target with
  | none => .noTarget
  | some t => .pool t.key

/-- One gRPC listener's proxy: its pool world, whether its director got a TLS configuration, and the
credentials of every connection it has dialled (position = connection id; ids are handed out in dial order). -/
structure LWorld where
  hasCert : Bool := false
  w : World := {}
  secs : List Security := []
deriving DecidableEq, Repr

inductive Res where
  /-- answered by the interceptor itself -/
  | status (code : Nat)
  /-- the pool was asked for `key`; `sec` = the credentials of the connection the call rides on -/
  | proxied (key : Str) (r : GetRes) (sec : Option Security)
deriving DecidableEq, Repr

/-- Director and pool for a call the interceptor let through: `pool.Get` for the target's key, on a miss one
dial with the credentials `newConnection` chooses for this target on this listener. -/
def LWorld.dial (lw : LWorld) (t : Tgt) (dialOk : Bool) : LWorld × Res :=
  let wr := lw.w.get t.key dialOk
  let secs' := match wr.2 with
    | .dialled _ => lw.secs ++ [dialSecurity lw.hasCert t]
    | _ => lw.secs
  ({ lw with w := wr.1, secs := secs' }, .proxied t.key wr.2 (wr.2.conn?.bind fun i => secs'[i]?))

/-- A call on one listener: interceptor (lookup, gates), director, pool, dial. `lookup` returns the target
chosen for host and path under the current table. -/
def LWorld.call (pp : Str → Option Str) (lookup : Table → Str → Str → Option Tgt) (gate : Gate)
    (lw : LWorld) (hasMD : Bool) (md : MD) (method : Str) (dialOk : Bool) : LWorld × Res :=
  match intercept pp (lookup lw.w.table) hasMD md method with
  | .internal => (lw, .status codeInternal)
  | .notFound => (lw, .status codeNotFound)
  | .forward t =>
    match gate t md with
    | some code => (lw, .status code)
    | none => lw.dial t dialOk

/-- `main.startServers`: every gRPC listener has its own proxy. -/
abbrev Proxy := List LWorld

/-- `makeTLSConfig` + `newGrpcProxy` + `GetGRPCDirector` + `newGrpcConnectionPool` for the configured listeners
(`true` = the listener names a certificate source) -/
def Proxy.start (listeners : List Bool) : Proxy := listeners.map fun c => { hasCert := c }

def Proxy.setTable (p : Proxy) (t : Table) : Proxy := p.map fun lw => { lw with w := { lw.w with table := t } }

/-- a call arriving on listener `i` (a call on a listener that does not exist changes nothing) -/
def Proxy.call (pp : Str → Option Str) (lookup : Table → Str → Str → Option Tgt) (gate : Gate)
    (p : Proxy) (i : Nat) (hasMD : Bool) (md : MD) (method : Str) (dialOk : Bool) : Proxy × Option Res :=
  match p[i]? with
  | none => (p, none)
  | some lw =>
    let r := lw.call pp lookup gate hasMD md method dialOk
    (p.set i r.1, some r.2)

/-! ### message limits -/

/-- `proxy.grpcmaxrxmsgsize`, `proxy.grpcmaxtxmsgsize` -/
structure Limits where
  rx : Nat := 4194304
  tx : Nat := 4194304
deriving DecidableEq, Repr

/-- a caller's message passes the listener's receive limit (`grpc.MaxRecvMsgSize(rx)`) -/
def Limits.reqOK (l : Limits) (size : Nat) : Bool := size ≤ l.rx
/-- a backend's message passes the backend connection's receive limit (`grpc.MaxCallRecvMsgSize(rx)`) and the
listener's send limit (`grpc.MaxSendMsgSize(tx)`) -/
def Limits.repOK (l : Limits) (size : Nat) : Bool := size ≤ l.rx && size ≤ l.tx

def Limits.allOK (l : Limits) (req rep : List Nat) : Bool := req.all l.reqOK && rep.all l.repOK

/-- The status a caller ends up with, given the credentials of the connection its call rides on, the backend
behind the target, the sizes of the messages of both directions and the status the backend answers. -/
def outcome (dialHost : Str) (l : Limits) (sec : Security) (b : Backend) (req rep : List Nat) (backendCode : Nat) : Nat :=
  if !handshake dialHost sec b then codeUnavailable
  else if !l.allOK req rep then codeResourceExhausted
  else backendCode

end Fabio.Model.C16.Serve
