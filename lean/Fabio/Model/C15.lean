import Fabio.Basic
/-!
C15 — model of configuration loading (`config/flagset.go`, `config/load.go`, `config/kvslice.go`) and of the
index arithmetic of `route/glob_cache.go`.

Go strings are `List Char` (one `Char` per rune).  Go maps are association lists with an explicit
"insert = overwrite" operation.  External packages are parameters or stated fragments:

* `flag` (command-line tokenisation and `Value.Set`): the command line is modelled *after* tokenisation, as the
  list of `(name, value)` pairs in the order `flag.Parse` applies them (later pairs overwrite earlier ones);
* `magiconair/properties`: the properties file is modelled after loading, as the key → value map `p.Get` sees;
* `strconv.Unquote` is a parameter `unq` of the kvslice lexer (theorems hold for every `unq`); the driver
  instantiates it with `unquote`, a model of the printable-ASCII/simple-escape fragment;
* what `flag.IntVar`'s `Set` leaves in the variable is a parameter `atoi` of `loadModel`.
-/
namespace Fabio.Model.C15
open Fabio

abbrev Str := List Char

/-! ## 1. Environment-variable names -/

/-- `strings.ToUpper` on one rune, exact on every rune whose upper case is an ASCII character: the ASCII
letters, U+0131 (dotless i → `I`) and U+017F (long s → `S`); all other runes are left alone (their upper
case is never ASCII, so they can never take part in a match with an ASCII key). -/
def upperChar : Char → Char
  | 'a' => 'A' | 'b' => 'B' | 'c' => 'C' | 'd' => 'D' | 'e' => 'E' | 'f' => 'F' | 'g' => 'G'
  | 'h' => 'H' | 'i' => 'I' | 'j' => 'J' | 'k' => 'K' | 'l' => 'L' | 'm' => 'M' | 'n' => 'N'
  | 'o' => 'O' | 'p' => 'P' | 'q' => 'Q' | 'r' => 'R' | 's' => 'S' | 't' => 'T' | 'u' => 'U'
  | 'v' => 'V' | 'w' => 'W' | 'x' => 'X' | 'y' => 'Y' | 'z' => 'Z'
  | 'ı' => 'I' | 'ſ' => 'S'
  | c => c

def upper (s : Str) : Str := s.map upperChar

/-- `strings.Replace(name, ".", "_", -1)` -/
def dotChar (c : Char) : Char := if c = '.' then '_' else c
def dots (s : Str) : Str := s.map dotChar

/-- `strings.ToUpper(pfx + strings.Replace(fl.Name, ".", "_", -1))` -/
def envName (pfx name : Str) : Str := upper (pfx ++ dots name)

/-! ## 2. Go maps as association lists -/

abbrev Map := List (Str × Str)

/-- `m[k] = v` -/
def Map.put (m : Map) (k v : Str) : Map :=
  match m with
  | [] => [(k, v)]
  | (k', v') :: t => if k' = k then (k, v) :: t else (k', v') :: Map.put t k v

/-- `v, ok := m[k]` -/
def Map.get (m : Map) (k : Str) : Option Str := List.lookup k m

/-! ## 3. The environment block (`ParseFlags`, first loop) -/

/-- `strings.SplitN(e, "=", 2)`: one part when there is no `=`, otherwise the text before the first `=` and
everything after it. -/
def splitN2 : Str → List Str
  | [] => [[]]
  | c :: cs =>
    if c = '=' then [[], cs] else
    match splitN2 cs with
    | [a] => [c :: a]
    | a :: rest => (c :: a) :: rest
    | [] => [[c]]

/-- One iteration of `for _, e := range environ`.  After the repair of D20 an entry without `=` is skipped;
the two index expressions `p[0]`, `p[1]` are checked (before the repair `p[1]` was evaluated on a
one-element slice and the process panicked). -/
def envStep (m : Map) (e : Str) : Outcome Map :=
  let p := splitN2 e
  if p.length ≠ 2 then .ok m else
  match p[0]?, p[1]? with
  | some k, some v => .ok (m.put (upper k) v)
  | _, _ => .panic "index out of range"

def envMap : Map → List Str → Outcome Map
  | m, [] => .ok m
  | m, e :: es =>
    match envStep m e with
    | .ok m' => envMap m' es
    | .panic w => .panic w

/-! ## 4. Resolution of one flag (`ParseFlags`, the `VisitAll` body) -/

structure Sources where
  /-- command line after `flag` tokenisation, in order -/
  cmd : List (Str × Str)
  /-- the environment block as handed to `Load` -/
  environ : List Str
  /-- `envprefix` -/
  prefixes : List Str
  /-- the loaded properties (`nil` when there is no file) -/
  props : Option Map
deriving Repr

inductive Src where
  | cmdline
  | env (prefixIdx : Nat)
  | props
  | dflt
deriving Repr, DecidableEq, BEq

/-- `f.Parse(args)`: every `-name=value` is applied in order, so the last one for a name is what stays. -/
def cmdLookup (name : Str) : List (Str × Str) → Option Str
  | [] => none
  | (n, v) :: t =>
    match cmdLookup name t with
    | some v' => some v'
    | none => if n = name then some v else none

/-- `for _, pfx := range prefixes { if val, ok := env[name(pfx)]; ok { … return } }` -/
def envFirst (env : Map) (name : Str) : Nat → List Str → Option (Nat × Str)
  | _, [] => none
  | i, p :: ps =>
    match env.get (envName p name) with
    | some v => some (i, v)
    | none => envFirst env name (i+1) ps

/-- `if len(prefixes) == 0 { prefixes = []string{""} }` -/
def effPrefixes (ps : List Str) : List Str := if ps.isEmpty then [[]] else ps

/-- Which source supplies flag `name`, and the raw string handed to the flag's `Set` (or the default, which
is never passed through `Set`). -/
def resolveWith (env : Map) (name dflt : Str) (s : Sources) : Src × Str :=
  match cmdLookup name s.cmd with
  | some v => (.cmdline, v)
  | none =>
    match envFirst env name 0 (effPrefixes s.prefixes) with
    | some (i, v) => (.env i, v)
    | none =>
      match s.props with
      | none => (.dflt, dflt)
      | some p =>
        match p.get name with
        | some v => (.props, v)
        | none => (.dflt, dflt)

def resolve (name dflt : Str) (s : Sources) : Outcome (Src × Str) :=
  match envMap [] s.environ with
  | .ok env => .ok (resolveWith env name dflt s)
  | .panic w => .panic w

/-! ## 5. `parseKVSlice` -/

inductive Item where
  | text | equal | semicolon | comma | error
deriving Repr, DecidableEq, BEq

inductive LexState where
  | start | text | qtext (quote : Char) | qtextEnd | qtextEsc (quote : Char)
deriving Repr, DecidableEq

def isSep (r : Char) : Bool := r = ',' || r = ';' || r = '='
def isQuote (r : Char) : Bool := r = '"' || r = '\''

/-- `for i, r := range s { switch state … }` followed by the `switch state` after the loop.
`s` is the whole input of this `lex` call, `i` the index of the next rune, the last argument what is left. -/
def lexGo (unq : Str → Option Str) (s : Str) : LexState → Nat → Str → Item × Str × Nat
  | st, _, [] =>
    match st with
    | .qtext _ => (.error, "unbalanced quotes".toList, s.length)
    | .qtextEsc _ => (.error, "unterminated escape sequence".toList, s.length)
    | .qtextEnd =>
      match unq s with
      | none => (.error, "invalid escape sequence".toList, s.length)
      | some v => (.text, v, s.length)
    | _ => (.text, s, s.length)
  | st, i, r :: rest =>
    match st with
    | .start =>
      if r = ',' then (.comma, [r], 1)
      else if r = ';' then (.semicolon, [r], 1)
      else if r = '=' then (.equal, [r], 1)
      else if isQuote r then lexGo unq s (.qtext r) (i+1) rest
      else lexGo unq s .text (i+1) rest
    | .text =>
      if isSep r then (.text, s.take i, i) else lexGo unq s .text (i+1) rest
    | .qtext q =>
      if r = q then lexGo unq s .qtextEnd (i+1) rest
      else if r = '\\' then lexGo unq s (.qtextEsc q) (i+1) rest
      else lexGo unq s (.qtext q) (i+1) rest
    | .qtextEsc q => lexGo unq s (.qtext q) (i+1) rest
    | .qtextEnd =>
      match unq (s.take i) with
      | none => (.error, "invalid escape sequence".toList, i)
      | some v => (.text, v, i)

def lex (unq : Str → Option Str) (s : Str) : Item × Str × Nat := lexGo unq s .start 0 s

/-- `unicode.IsSpace` -/
def isSpace (c : Char) : Bool :=
  let n := c.toNat
  n = 0x20 || (0x09 ≤ n && n ≤ 0x0d) || n = 0x85 || n = 0xa0 || n = 0x1680
  || (0x2000 ≤ n && n ≤ 0x200a) || n = 0x2028 || n = 0x2029 || n = 0x202f || n = 0x205f || n = 0x3000

def trimLeft : Str → Str
  | [] => []
  | c :: cs => if isSpace c then trimLeft cs else c :: cs

/-- `strings.TrimSpace` -/
def trimSpace (s : Str) : Str := (trimLeft (trimLeft s).reverse).reverse

inductive PState where
  | firstKey | afterFirstKey | key | equal | val
deriving Repr, DecidableEq

structure P where
  state : PState := .firstKey
  k : Str := []          -- keyOrFirstVal
  v : Str := []
  m : Map := []
  maps : List Map := []
deriving Repr

/-- `newMap()` -/
def P.newMap (p : P) : P := if p.m.length > 0 then { p with maps := p.maps ++ [p.m], m := [] } else p

/-- `if keyOrFirstVal != "" { m[""] = keyOrFirstVal }` -/
def P.putFirst (p : P) : P := if p.k ≠ [] then { p with m := p.m.put [] p.k } else p

/-- One pass through the parser's `switch state` for the item `(typ, val)`; `.error e` is `return nil, e`. -/
def pstep (p : P) (typ : Item) (val : Str) : Except Str P :=
  match p.state with
  | .firstKey =>
    match typ with
    | .text => .ok { p with k := trimSpace val, state := .afterFirstKey }
    | .comma | .semicolon => .ok p
    | _ => .error val
  | .afterFirstKey =>
    match typ with
    | .equal => .ok { p with state := .val }
    | .comma => .ok { p.putFirst.newMap with state := .firstKey }
    | .semicolon => .ok { p.putFirst with state := .key }
    | _ => .error val
  | .key =>
    match typ with
    | .text => .ok { p with k := trimSpace val, state := .equal }
    | .comma | .semicolon => .ok p
    | _ => .error val
  | .equal =>
    match typ with
    | .equal => .ok { p with state := .val }
    | _ => .error val
  | .val =>
    match typ with
    | .text | .equal => .ok { p with v := p.v ++ val }
    | .comma => .ok { ({ p with m := p.m.put p.k p.v, v := [] } : P).newMap with state := .firstKey }
    | .semicolon => .ok { p with m := p.m.put p.k p.v, v := [], state := .key }
    | _ => .error val

/-- The `for { if len(s) == 0 { break }; typ, val, n := lex(s); s = s[n:]; … }` loop.  The slice `s[n:]` is
checked; running out of `fuel` stands for a loop that does not terminate (each iteration must consume at
least one rune for the loop to end) — both are panic values that `kvslice_total` excludes. -/
def ploop (unq : Str → Option Str) : Nat → Str → P → Outcome (Except Str P)
  | _, [], p => .ok (.ok p)
  | 0, _ :: _, _ => .panic "parseKVSlice: loop does not terminate"
  | fuel+1, s@(_ :: _), p =>
    let (typ, val, n) := lex unq s
    if n ≤ s.length then
      match pstep p typ val with
      | .ok p' => ploop unq fuel (s.drop n) p'
      | .error e => .ok (.error e)
    else .panic "slice bounds out of range"

/-- The `switch state` after the loop and the final `append`. -/
def pfinish (p : P) : List Map :=
  let p' : P :=
    match p.state with
    | .val => { p with m := p.m.put p.k p.v }
    | .afterFirstKey => p.putFirst
    | _ => p
  if p'.m.length > 0 then p'.maps ++ [p'.m] else p'.maps

/-- `parseKVSlice(in)`; Go's `nil, nil` for "no maps" is the empty list. -/
def parseKVSlice (unq : Str → Option Str) (s : Str) : Outcome (Except Str (List Map)) :=
  match ploop unq (s.length + 1) s {} with
  | .ok (.ok p) => .ok (.ok (pfinish p))
  | .ok (.error e) => .ok (.error e)
  | .panic w => .panic w

/-! ### `strconv.Unquote`, fragment used by the driver

Double-quoted strings with the simple escapes `\a \b \f \n \r \t \v \\ \"`, `\xHH` with `HH < 0x80`,
`\uHHHH` (no surrogates); single-quoted literals of one rune — or none: Go accepts `''` as the empty
string — with the same escapes (`\'` instead of `\"`).
A raw newline is rejected.  Octal, `\U`, and byte escapes ≥ 0x80 are outside the fragment (`none` here; the
driver tags such inputs and compares only panic-freedom). -/

def hexVal (c : Char) : Option Nat :=
  if '0' ≤ c ∧ c ≤ '9' then some (c.toNat - 48)
  else if 'a' ≤ c ∧ c ≤ 'f' then some (c.toNat - 87)
  else if 'A' ≤ c ∧ c ≤ 'F' then some (c.toNat - 55)
  else none

def simpleEsc (q : Char) (c : Char) : Option Char :=
  if c = 'a' then some '\x07' else if c = 'b' then some '\x08' else if c = 'f' then some '\x0c'
  else if c = 'n' then some '\n' else if c = 'r' then some '\r' else if c = 't' then some '\t'
  else if c = 'v' then some '\x0b' else if c = '\\' then some '\\'
  else if c = q then some q else none

/-- body of a quoted literal up to (not including) the closing quote `q`; returns decoded runes and the rest
(starting at the closing quote) -/
def unqBody (q : Char) : Nat → Str → Option (Str × Str)
  | 0, _ => none
  | _, [] => some ([], [])
  | fuel+1, c :: cs =>
    if c = q then some ([], c :: cs)
    else if c = '\n' then none
    else if c = '\\' then
      match cs with
      | 'x' :: h1 :: h2 :: rest =>
        match hexVal h1, hexVal h2 with
        | some a, some b =>
          if a * 16 + b < 128 then (unqBody q fuel rest).map (fun (o, r) => (Char.ofNat (a*16+b) :: o, r)) else none
        | _, _ => none
      | 'u' :: h1 :: h2 :: h3 :: h4 :: rest =>
        match hexVal h1, hexVal h2, hexVal h3, hexVal h4 with
        | some a, some b, some c', some d =>
          let n := ((a * 16 + b) * 16 + c') * 16 + d
          if 0xd800 ≤ n ∧ n < 0xe000 then none
          else (unqBody q fuel rest).map (fun (o, r) => (Char.ofNat n :: o, r))
        | _, _, _, _ => none
      | e :: rest =>
        match simpleEsc q e with
        | some ch => (unqBody q fuel rest).map (fun (o, r) => (ch :: o, r))
        | none => none
      | [] => none
    else (unqBody q fuel cs).map (fun (o, r) => (c :: o, r))

def unquote (s : Str) : Option Str :=
  match s with
  | q :: body =>
    if q = '"' ∨ q = '\'' then
      match unqBody q (body.length + 1) body with
      | some (o, [q']) => if q' = q then (if q = '\'' then (if o.length ≤ 1 then some o else none) else some o) else none
      | _ => none
    else none
  | [] => none

/-- inputs on which `unquote` is not claimed to equal `strconv.Unquote`: octal escapes, `\U`, `\x` with a
byte ≥ 0x80, and the replacement character (an invalid byte in the Go string) -/
def outsideUnquoteFragment : Str → Bool
  | [] => false
  | '\\' :: c :: rest =>
    if ('0' ≤ c ∧ c ≤ '7') ∨ c = 'U' then true
    else if c = 'x' then
      match rest with
      | h :: _ => if ('0' ≤ h ∧ h ≤ '7') then outsideUnquoteFragment rest else true
      | [] => outsideUnquoteFragment rest
    else outsideUnquoteFragment rest
  | c :: rest => if c.toNat = 0xfffd then true else outsideUnquoteFragment rest

/-! ## 6. `load`: sources → resolved values → validations -/

inductive Err where
  | kvslice (flag : Str) (msg : Str)
  | uiAddrCount
  | strategy | matcher | uiAccess
  | globCacheSize
  | other (what : Str)
deriving Repr, DecidableEq

structure Resolved where
  name : Str
  src : Src
  raw : Str
deriving Repr

structure Cfg where
  values : List Resolved
  /-- `cfg.GlobCacheSize` -/
  globCacheSize : Int
deriving Repr

def rawOf (vals : List Resolved) (name : Str) : Str :=
  match vals.find? (fun r => r.name = name) with
  | some r => r.raw
  | none => []

def kvCheck (unq : Str → Option Str) (flag : Str) (raw : Str) : Outcome (Except Err (List Map)) :=
  match parseKVSlice unq raw with
  | .ok (.ok ms) => .ok (.ok ms)
  | .ok (.error e) => .ok (.error (.kvslice flag e))
  | .panic w => .panic w

/-- The checks on enumerated string options and on `glob.cache.size` (D21 repair), in source order. -/
def enumChecks (atoi : Str → Int) (vals : List Resolved) : Except Err Int :=
  if rawOf vals "proxy.strategy".toList ≠ "rr".toList ∧ rawOf vals "proxy.strategy".toList ≠ "rnd".toList then
    .error .strategy
  else if rawOf vals "proxy.matcher".toList ≠ "prefix".toList ∧ rawOf vals "proxy.matcher".toList ≠ "glob".toList
      ∧ rawOf vals "proxy.matcher".toList ≠ "iprefix".toList then
    .error .matcher
  else if rawOf vals "ui.access".toList ≠ "ro".toList ∧ rawOf vals "ui.access".toList ≠ "rw".toList then
    .error .uiAccess
  else if atoi (rawOf vals "glob.cache.size".toList) ≤ 0 then .error .globCacheSize
  else .ok (atoi (rawOf vals "glob.cache.size".toList))

/-- The post-parse section of `load`, in the order of the source: the four kvslice-valued options that can
reject a configuration (`proxy.cs`, `proxy.auth`, `ui.addr`, `proxy.addr`), the enumerated string options,
`glob.cache.size` (D21 repair), `bgp.peers`.  Everything else `load` checks (listener and certificate-source
field rules, `go-sockaddr` templates, the gzip regexp, the status-code range, the consul read-mode pair) is
the parameter `extra`: an arbitrary pure function of the resolved values. -/
def validate (unq : Str → Option Str) (atoi : Str → Int) (extra : List Resolved → Option Err)
    (vals : List Resolved) : Outcome (Except Err Cfg) :=
  match kvCheck unq "proxy.cs".toList (rawOf vals "proxy.cs".toList) with
  | .panic w => .panic w
  | .ok (.error e) => .ok (.error e)
  | .ok (.ok _) =>
  match kvCheck unq "proxy.auth".toList (rawOf vals "proxy.auth".toList) with
  | .panic w => .panic w
  | .ok (.error e) => .ok (.error e)
  | .ok (.ok _) =>
  match (if rawOf vals "ui.addr".toList ≠ [] then kvCheck unq "ui.addr".toList (rawOf vals "ui.addr".toList) else .ok (.ok [[]])) with
  | .panic w => .panic w
  | .ok (.error e) => .ok (.error e)
  | .ok (.ok ui) =>
  if ui.length ≠ 1 then .ok (.error .uiAddrCount) else
  -- cfg.UI.Listen, err = parseListen(kvs[0], …): the index is checked; it is in range only because of the
  -- count check just above (`len(kvs) != 1 ⇒ error`, pinned by the `indexGuards` fact)
  match ui[0]? with
  | none => .panic "index out of range [0] with length 0"
  | some _ =>
  match kvCheck unq "proxy.addr".toList (rawOf vals "proxy.addr".toList) with
  | .panic w => .panic w
  | .ok (.error e) => .ok (.error e)
  | .ok (.ok _) =>
  match extra vals with
  | some e => .ok (.error e)
  | none =>
  match enumChecks atoi vals with
  | .error e => .ok (.error e)
  | .ok g =>
  match kvCheck unq "bgp.peers".toList (rawOf vals "bgp.peers".toList) with
  | .panic w => .panic w
  | .ok (.error e) => .ok (.error e)
  | .ok (.ok _) => .ok (.ok { values := vals, globCacheSize := g })

/-- `load(cmdline, environ, envprefix, props)` over a flag table `(name, default)`. -/
def loadModel (unq : Str → Option Str) (atoi : Str → Int) (extra : List Resolved → Option Err)
    (flags : List (Str × Str)) (s : Sources) : Outcome (Except Err Cfg) :=
  match envMap [] s.environ with
  | .panic w => .panic w
  | .ok env =>
    validate unq atoi extra
      (flags.map (fun (n, d) => let r := resolveWith env n d s; { name := n, src := r.1, raw := r.2 }))

/-- What `flag`'s `intValue.Set` leaves in the variable for a decimal literal with optional sign (the fragment
the driver uses); anything else is `none` here ("outside the fragment"). -/
def atoiDec (s : Str) : Option Int :=
  let digits (ds : Str) : Option Nat :=
    if ds = [] ∨ ds.length > 18 then none
    else if ds.all (fun c => '0' ≤ c ∧ c ≤ '9') then
      if ds.length > 1 ∧ ds.head? = some '0' then none   -- base-0 parsing: a leading 0 means octal
      else some (ds.foldl (fun a c => a * 10 + (c.toNat - 48)) 0)
    else none
  match s with
  | '-' :: ds => (digits ds).map (fun n => - (n : Int))
  | '+' :: ds => (digits ds).map (fun n => (n : Int))
  | ds => (digits ds).map (fun n => (n : Int))

/-! ## 7. `route.GlobCache`: the index arithmetic of `NewGlobCache` and of a miss in `Get` -/

structure GC where
  size : Nat      -- len(c.l)
  n : Nat
  h : Nat
deriving Repr

/-- `NewGlobCache(size)`: `make([]string, size)` panics for a negative size. -/
def newGlobCache (size : Int) : Outcome GC :=
  if size < 0 then .panic "makeslice: len out of range" else .ok { size := size.toNat, n := 0, h := 0 }

/-- The slow path of `Get` for a pattern that is not cached (sequential use): every index and the modulus are
checked. -/
def gcMiss (c : GC) : Outcome GC :=
  if c.n < c.size then
    -- c.l[c.n] = pattern
    .ok { c with n := c.n + 1 }
  else if c.h < c.size then            -- c.l[c.h]
    if c.n = 0 then .panic "integer divide by zero" else .ok { c with h := (c.h + 1) % c.n }
  else .panic "index out of range"

def gcRun : GC → Nat → Outcome GC
  | c, 0 => .ok c
  | c, k+1 =>
    match gcMiss c with
    | .ok c' => gcRun c' k
    | .panic w => .panic w

/-- "the accepted configuration can be run": build the cache with the configured size and serve `k` misses -/
def runGlob (size : Int) (k : Nat) : Outcome GC :=
  match newGlobCache size with
  | .ok c => gcRun c k
  | .panic w => .panic w

end Fabio.Model.C15
