import Fabio.Model.C15
/-!
C15 — the list-valued options (`config/flagset.go`: `stringSliceValue.Set`, `floatSliceValue.Set`,
`newStringSliceValue`).  `StringSliceVar(&cfg.X, name, defaultConfig.X, …)` makes the flag's variable *share the
backing array* of the package-level default; what `Set` does to arrays it did not allocate is therefore part of
"loading is a function of its inputs".  The model has an explicit store of arrays.

A Go slice is `(array, len, cap)` (offset 0 is all this code needs); `append` writes in place while `len < cap`
and otherwise allocates a new array (growth policy: any capacity ≥ the new length — the parameter `grow`).
-/
namespace Fabio.Model.C15
open Fabio

structure SliceH where
  arr : Nat
  len : Nat
  cap : Nat
deriving Repr, DecidableEq

/-- the store: array id → cells (`cells.length` = capacity of the array) -/
abbrev Store (α : Type) := List (List α)

def Store.read {α} (h : Store α) (s : SliceH) : List α := ((h[s.arr]?).getD []).take s.len

def setAt {α} (l : List α) (i : Nat) (x : α) : List α :=
  match l, i with
  | [], _ => []
  | _ :: t, 0 => x :: t
  | a :: t, i+1 => a :: setAt t i x

def Store.write {α} (h : Store α) (a i : Nat) (x : α) : Store α :=
  match h, a with
  | [], _ => []
  | cells :: t, 0 => setAt cells i x :: t
  | c :: t, a+1 => c :: Store.write t a i x

/-- `append(s, x)`; `zero` fills the unused cells of a new array, `grow n` ≥ 0 extra cells beyond the new length -/
def appendH {α} (zero : α) (grow : Nat → Nat) (h : Store α) (s : SliceH) (x : α) : Store α × SliceH :=
  if s.len < s.cap then (h.write s.arr s.len x, { s with len := s.len + 1 })
  else
    let cells := h.read s ++ [x] ++ List.replicate (grow (s.len + 1)) zero
    (h ++ [cells], { arr := h.length, len := s.len + 1, cap := s.len + 1 + grow (s.len + 1) })

/-- `strings.Split(s, ",")` -/
def splitComma : Str → List Str
  | [] => [[]]
  | c :: cs =>
    if c = ',' then [] :: splitComma cs
    else match splitComma cs with
      | [] => [[c]]
      | f :: fs => (c :: f) :: fs

/-- the fields `Set` looks at: split at commas, blanks trimmed, empty ones skipped -/
def listFields (s : Str) : List Str := ((splitComma s).map trimSpace).filter (fun f => f ≠ [])

/-- the loop of `Set`: append parsed fields until one does not parse (`floatSliceValue`: the error is returned
with the fields before it already appended; `stringSliceValue`: `parse` never fails) -/
def setLoop {α} (zero : α) (grow : Nat → Nat) (parse : Str → Option α) :
    List Str → Store α → SliceH → Store α × SliceH × Bool
  | [], h, v => (h, v, true)
  | f :: fs, h, v =>
    match parse f with
    | none => (h, v, false)
    | some x =>
      let r := appendH zero grow h v x
      setLoop zero grow parse fs r.1 r.2

/-- `Set(s)`: `*v = []T{}` — a slice that shares no array with anything (`len = cap = 0`; `arr` is irrelevant
because a slice without capacity is never written through) — then the loop. -/
def sliceSet {α} (zero : α) (grow : Nat → Nat) (parse : Str → Option α) (h : Store α) (s : Str) :
    Store α × SliceH × Bool :=
  setLoop zero grow parse (listFields s) h { arr := h.length, len := 0, cap := 0 }

/-- the variant that truncates instead (`*v = (*v)[:0]`), for the negative example -/
def sliceSetTruncating {α} (zero : α) (grow : Nat → Nat) (parse : Str → Option α) (h : Store α) (v : SliceH)
    (s : Str) : Store α × SliceH × Bool :=
  setLoop zero grow parse (listFields s) h { v with len := 0 }

/-- the values `Set` leaves in the variable, without the store: the parsed fields up to the first that fails -/
def setValue {α} (parse : Str → Option α) : List Str → List α
  | [] => []
  | f :: fs => match parse f with
    | none => []
    | some x => x :: setValue parse fs

end Fabio.Model.C15
