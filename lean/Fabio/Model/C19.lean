import Fabio.Basic
/-!
C19 — configured upstream time limits are enforced: executable model (core Lean only).

What is modelled (Go source in parentheses):

* `Cell`            — the package-level variable `transport.cfg` (`transport/transport.go`), initialised to
                      `&config.Config{}`: every option zero.
* `setConfigWith`   — `transport.SetConfig`: one assignment whose left-hand side resolves either to the
                      package variable or (the defect D23: `func SetConfig(cfg …) { cfg = cfg }`) to the
                      parameter that shadows it.  `setConfig` is the intended function (`.packageVar`);
                      which of the two the source is today is a regenerated fact (`Props/C19Facts.lean`).
* `newTransport`    — `transport.NewTransport`: reads the five options from the cell.
* `Ev`, `run`       — the program order of `main`: `SetConfig`, then proxies (`newHTTPProxy` builds the default
                      and the skip-verify transport) and route tables (`Route.addTarget` builds a per-route
                      transport for `host=` override + https).
* `selectTransport` — the choice in `HTTPProxy.ServeHTTP`: per-route transport, else skip-verify, else default.
* `errorStatus`     — `httpProxyErrorHandler`'s classification of the round-trip error.
* `roundTrip`/`serve` — the timing contract of `net/http.Transport.RoundTrip` for the response-header timeout
                      (trusted base: net/http enforces the timeout it is given) and what the client of the proxy
                      then sees.

Durations are Go `time.Duration` values: signed nanoseconds (`Int`); `MaxConn` is a Go `int`.
-/
namespace Fabio.Model.C19

/-- The five `proxy.*` options the transports are built from (`config.Proxy`). -/
structure Cfg where
  dialTimeout : Int            -- proxy.dialtimeout
  responseHeaderTimeout : Int  -- proxy.responseheadertimeout
  keepAliveTimeout : Int       -- proxy.keepalivetimeout
  idleConnTimeout : Int        -- proxy.idleconntimeout
  maxConn : Int                -- proxy.maxconn
deriving DecidableEq, Repr, BEq, Inhabited

/-- `config.Config{}` as far as the five options go. -/
def Cfg.zero : Cfg := ⟨0, 0, 0, 0, 0⟩

/-- The package-level cell `transport.cfg`. -/
structure Cell where
  cfg : Cfg
deriving DecidableEq, Repr

/-- `var cfg *config.Config = &config.Config{}` -/
def Cell.init : Cell := ⟨Cfg.zero⟩

/-- What the left-hand side of the assignment in `SetConfig` resolves to. -/
inductive Lhs where
  | packageVar   -- the package-level `cfg`
  | parameter    -- the function's own parameter (it shadows the package variable when it has the same name)
deriving DecidableEq, Repr

/-- `SetConfig` with the binding of its assignment made explicit. -/
def setConfigWith : Lhs → Cell → Cfg → Cell
  | .packageVar, _, c => ⟨c⟩
  | .parameter, s, _ => s      -- the store goes to the parameter and dies with the call

/-- `transport.SetConfig` as intended (and as repaired). -/
def setConfig (s : Cell) (c : Cfg) : Cell := setConfigWith .packageVar s c

/-- The part of `*tls.Config` the three call sites set. -/
structure TLS where
  serverName : String
  insecureSkipVerify : Bool
deriving DecidableEq, Repr, BEq

/-- The observable fields of the `*http.Transport` (`dial*` are the `net.Dialer` behind `Dial`). -/
structure Transport where
  responseHeaderTimeout : Int
  idleConnTimeout : Int
  maxIdleConnsPerHost : Int
  dialTimeout : Int
  dialKeepAlive : Int
  tls : Option TLS             -- `TLSClientConfig` (`none` = nil)
deriving DecidableEq, Repr, BEq

/-- `transport.NewTransport(tlscfg)`. -/
def newTransport (s : Cell) (tls : Option TLS) : Transport :=
  { responseHeaderTimeout := s.cfg.responseHeaderTimeout
    idleConnTimeout := s.cfg.idleConnTimeout
    maxIdleConnsPerHost := s.cfg.maxConn
    dialTimeout := s.cfg.dialTimeout
    dialKeepAlive := s.cfg.keepAliveTimeout
    tls := tls }

/-- The specification: a transport carries a configuration's five values. -/
def Carries (c : Cfg) (t : Transport) : Prop :=
  t.responseHeaderTimeout = c.responseHeaderTimeout ∧ t.idleConnTimeout = c.idleConnTimeout ∧
  t.maxIdleConnsPerHost = c.maxConn ∧ t.dialTimeout = c.dialTimeout ∧ t.dialKeepAlive = c.keepAliveTimeout

instance (c : Cfg) (t : Transport) : Decidable (Carries c t) := by unfold Carries; exact inferInstance

/-! ### The three places transports are built -/

/-- `main.newHTTPProxy`: `Transport: NewTransport(nil)`, `InsecureTransport: NewTransport(&tls.Config{InsecureSkipVerify: true})`. -/
structure Proxy where
  transport : Transport
  insecureTransport : Transport
deriving Repr

def newHTTPProxy (s : Cell) : Proxy :=
  { transport := newTransport s none
    insecureTransport := newTransport s (some ⟨"", true⟩) }

/-- The options of a route target that matter here. -/
structure TargetOpts where
  host : String          -- `host=` option ("" when absent)
  https : Bool           -- `t.URL.Scheme == "https" || opts["proto"] == "https"`
  tlsSkipVerify : Bool   -- `tlsskipverify=true`
deriving DecidableEq, Repr

structure Target where
  opts : TargetOpts
  transport : Option Transport   -- `Target.Transport` (nil unless host override + https)
deriving Repr

/-- `Route.addTarget`, the lines that build the per-route transport (route/route.go). -/
def addTarget (s : Cell) (o : TargetOpts) : Target :=
  { opts := o
    transport :=
      if o.host ≠ "" ∧ o.host ≠ "dst" ∧ o.https then
        some (newTransport s (some ⟨o.host, o.tlsSkipVerify⟩))
      else none }

/-- `HTTPProxy.ServeHTTP`: `tr := p.Transport; if t.Transport != nil {…} else if t.TLSSkipVerify {…}`. -/
def selectTransport (p : Proxy) (t : Target) : Transport :=
  match t.transport with
  | some tr => tr
  | none => if t.opts.tlsSkipVerify then p.insecureTransport else p.transport

/-! ### Program order of `main` -/

/-- The events of `main` that touch the cell or read it. -/
inductive Ev where
  | setConfig (c : Cfg)          -- `transport.SetConfig(cfg)`
  | newProxy                     -- `newHTTPProxy` (from `startServers`, once per http/https listener)
  | addTarget (o : TargetOpts)   -- `route.NewTable` → `addRoute` → `addTarget` (from `watchBackend`)
  | other                        -- anything else (logging, metrics, backends)
deriving Repr

def Ev.builds : Ev → Bool
  | .newProxy => true
  | .addTarget _ => true
  | _ => false

def Ev.isSet : Ev → Bool
  | .setConfig _ => true
  | _ => false

/-- One event: the new cell and the transports it built. -/
def step (lhs : Lhs) (s : Cell) : Ev → Cell × List Transport
  | .setConfig c => (setConfigWith lhs s c, [])
  | .newProxy => (s, [(newHTTPProxy s).transport, (newHTTPProxy s).insecureTransport])
  | .addTarget o => (s, ((addTarget s o).transport).toList)
  | .other => (s, [])

/-- Run a program; collect every transport built, in order. -/
def run (lhs : Lhs) : Cell → List Ev → List Transport
  | _, [] => []
  | s, e :: es => (step lhs s e).2 ++ run lhs (step lhs s e).1 es

/-! ### The error handler -/

/-- The classes `httpProxyErrorHandler` distinguishes. -/
inductive Err where
  | netTimeout    -- `err.(net.Error)` with `Timeout() == true` (response-header timeout, dial timeout, deadline)
  | netOther      -- `net.Error` that is not a timeout (connection refused, reset)
  | eof           -- `err == io.EOF`
  | canceled      -- `err == context.Canceled` (client went away)
  | other         -- anything else
deriving DecidableEq, Repr

/-- `httpProxyErrorHandler`: the status written for a failed round trip. -/
def errorStatus : Err → Nat
  | .netTimeout => 504
  | .netOther => 502
  | .eof => 502
  | .canceled => 499
  | .other => 500

/-! ### Timing -/

/-- Result of `RoundTrip` as far as response headers go, with the time (ns after the request was written). -/
inductive RT where
  | response (status : Nat) (at_ : Int)   -- the upstream's response headers arrived
  | failed (e : Err) (at_ : Int)          -- the round trip returned an error
deriving DecidableEq, Repr

/-- The contract of `net/http.Transport.RoundTrip` for `ResponseHeaderTimeout = T` against an upstream that
sends its headers (status `st`) `d` after the request: no headers by `T` (> 0) ⇒ a timeout `net.Error` at `T`;
headers before `T`, or no limit (`T ≤ 0`), ⇒ that response at `d`. The instant `d = T` is a race in net/http and
is left open. This is the assumption the timing theorems are relative to. -/
structure RoundTripContract (rt : Int → Nat → Int → RT) : Prop where
  timeout : ∀ T st d, 0 < T → T < d → rt T st d = .failed .netTimeout T
  inTime : ∀ T st d, (T ≤ 0 ∨ d < T) → rt T st d = .response st d

/-- A reference round trip satisfying the contract (ties go to the response). -/
def roundTrip (T : Int) (st : Nat) (d : Int) : RT :=
  if 0 < T ∧ T < d then .failed .netTimeout T else .response st d

/-- What the client of the proxy sees: status and time. `ReverseProxy` copies the upstream's status on a
response and calls the error handler on an error. -/
def serve (rt : Int → Nat → Int → RT) (tr : Transport) (st : Nat) (d : Int) : Nat × Int :=
  match rt tr.responseHeaderTimeout st d with
  | .response s t => (s, t)
  | .failed e t => (errorStatus e, t)

/-! ### The handler `ServeHTTP` builds, and the whole response -/

/-- The three branches of the `switch` in `HTTPProxy.ServeHTTP`. -/
inductive Path where
  | websocket   -- `Upgrade: websocket`: a raw tunnel (`newWSHandler`), no `http.Transport` involved — outside C19
  | sse         -- `Accept: text/event-stream` exactly: reverse proxy with `proxy.flushinterval`
  | default     -- everything else: reverse proxy with `proxy.globalflushinterval`
deriving DecidableEq, Repr

/-- One character of `strings.EqualFold(s, t)` for an ASCII lower-case letter `t`: Unicode simple case folding.
The orbit of an ASCII letter is its two cases, plus U+017F (long s) for `s` and U+212A (Kelvin sign) for `k`. -/
def foldsTo (c t : Char) : Bool :=
  c == t || c.toLower == t || (t == 's' && c == '\u017F') || (t == 'k' && c == '\u212A')

/-- `strings.EqualFold(upgrade, "websocket")` -/
def equalFoldWebsocket (s : String) : Bool :=
  s.toList.length == 9 && (s.toList.zip "websocket".toList).all (fun ct => foldsTo ct.1 ct.2)

/-- `case strings.EqualFold(upgrade, "websocket")`, `case accept == "text/event-stream"`, `default`. -/
def handlerPath (upgrade accept : String) : Path :=
  if equalFoldWebsocket upgrade then .websocket
  else if accept = "text/event-stream" then .sse else .default

/-- What `proxy.newHTTPProxy(target, tr, flush)` is built from. -/
structure HTTPHandler where
  transport : Transport
  flush : Int
deriving Repr

/-- The handler of a request: both reverse-proxy branches receive the one selected transport `tr`; they differ
in the flush interval only. (Regenerated facts: the second argument of both `newHTTPProxy` calls is `tr`, `tr`
is only ever assigned `p.Transport`, `t.Transport`, `p.InsecureTransport`, and package proxy contains no other
construction or copy of an `http.Transport`.) -/
def handlerFor (p : Proxy) (flushInterval globalFlushInterval : Int) (t : Target) : Path → Option HTTPHandler
  | .websocket => none
  | .sse => some ⟨selectTransport p t, flushInterval⟩
  | .default => some ⟨selectTransport p t, globalFlushInterval⟩

/-- What the client finally has: status, when the headers were there, whether the body is complete, and when
the response ended. -/
structure Served where
  status : Nat
  headerAt : Int
  complete : Bool
  doneAt : Int
deriving DecidableEq, Repr

/-- The whole exchange. After headers that came in time the upstream streams its body for `body` more
nanoseconds. `deadline` is a deadline on the request context (`none` = the server's own request context, which
is what `ServeHTTP` passes on: regenerated fact `serveHTTP_keeps_the_request_context`); a context that ends
mid-body aborts the copy and the client sees a truncated response. The response-header timeout itself does not
limit the body (net/http: it "does not include the time to read the response body"). -/
def serveFull (rt : Int → Nat → Int → RT) (tr : Transport) (deadline : Option Int) (st : Nat) (d body : Int) : Served :=
  match rt tr.responseHeaderTimeout st d with
  | .failed e t => ⟨errorStatus e, t, true, t⟩
  | .response s t =>
    match deadline with
    | none => ⟨s, t, true, t + body⟩
    | some D => if t + body ≤ D then ⟨s, t, true, t + body⟩ else ⟨s, t, false, if D < t then t else D⟩

/-- `ServeHTTP` hands `h.ServeHTTP(rw, r)` the request it received: no derived context, no deadline. -/
def requestDeadline : Option Int := none

/-! ### The response writers between the reverse proxy and the client's connection; informational responses -/

/-- Go's `net/http` server response (`response.WriteHeader` in server.go) as far as the status line goes:
informational codes (100–199 except 101 Switching Protocols) are written at once and do not finalise the
response; the first other code is the status of the response; every later call is "superfluous" and ignored. -/
structure Wire where
  interims : List Nat     -- informational responses on the wire, in order
  final : Option Nat      -- the status line of the final response, once written
deriving DecidableEq, Repr

def Wire.empty : Wire := ⟨[], none⟩

/-- `code >= 100 && code <= 199 && code != StatusSwitchingProtocols` -/
def informational (code : Nat) : Bool := decide (100 ≤ code) && decide (code ≤ 199) && code != 101

def Wire.writeHeader (w : Wire) (code : Nat) : Wire :=
  match w.final with
  | some _ => w
  | none => if informational code then { w with interims := w.interims ++ [code] } else { w with final := some code }

/-- What the client reads as the status of the response: a handler that returns without a final `WriteHeader`
(and without a `Write`) gets net/http's implicit `200 OK`. -/
def Wire.status (w : Wire) : Nat := w.final.getD 200

/-- `proxy.responseWriter` (http_proxy.go): wraps the server's writer to record the status code for metrics and
the access log. `guard = false` is the source: every `WriteHeader` is passed through and the code recorded.
`guard = true` is the variant that ignores every call after the first (`if rw.code != 0 { return }`). -/
structure RW where
  wire : Wire
  code : Nat
deriving DecidableEq, Repr

def RW.new : RW := ⟨Wire.empty, 0⟩

def RW.writeHeaderWith (guard : Bool) (rw : RW) (code : Nat) : RW :=
  if guard && rw.code != 0 then rw else ⟨rw.wire.writeHeader code, code⟩

def RW.writeHeader : RW → Nat → RW := RW.writeHeaderWith false

/- `gzip.GzipResponseWriter.WriteHeader` (proxy/gzip) sits between `responseWriter` and the reverse proxy when
`proxy.gzip.contenttype` is configured: informational codes go straight through, the first other code decides
about compression and goes through as well. For the status line it is the identity; the timing streams run a
third of their cases with it. -/

/-- What an upstream does with one request: informational responses at once (`interims`), then — `delay` after the
request — the headers of the final response (`status`), then `body` more nanoseconds of body. -/
structure Upstream where
  interims : List Nat
  status : Nat
  delay : Int
  body : Int
deriving Repr

/-- What the client of the proxy has at the end of one exchange. -/
structure Exchange where
  served : Served
  interims : List Nat    -- informational responses it received before the final one
  recorded : Nat         -- the code `responseWriter` recorded (metrics, access log)
deriving DecidableEq, Repr

/-- One request through `httputil.ReverseProxy` and the writers: every informational response of the upstream is
forwarded with `WriteHeader` (ReverseProxy's `Got1xxResponse` hook) — they arrive before the final headers and do
not stop the response-header timer of `http.Transport` —, then either the upstream's status is copied or the
error handler writes the status of the error (`errorStatus`). The status the client reads is what reached the
wire, not what the handler meant to write. -/
def exchangeWith (guard : Bool) (rt : Int → Nat → Int → RT) (tr : Transport) (deadline : Option Int) (u : Upstream) : Exchange :=
  let rw₁ := (u.interims.filter informational).foldl (RW.writeHeaderWith guard) RW.new
  let s := serveFull rt tr deadline u.status u.delay u.body
  let rw₂ := RW.writeHeaderWith guard rw₁ s.status
  { served := { s with status := rw₂.wire.status }, interims := rw₂.wire.interims, recorded := rw₂.code }

def exchange := exchangeWith false

/-- A history of requests through the same proxy and transport (idle keep-alive connections of the earlier
requests are reused by the later ones): `http.Transport`'s response-header timer is per round trip, the proxy
keeps no state between requests and sends each request once, so each exchange is what it would be alone. -/
def serveHistory (rt : Int → Nat → Int → RT) (tr : Transport) (deadline : Option Int) (us : List Upstream) : List Exchange :=
  us.map (exchange rt tr deadline)

/-! ### The idle-connection pool of a transport (`MaxIdleConnsPerHost`, `IdleConnTimeout`) -/

/-- `http.Transport.maxIdleConnsPerHost()`: zero means `DefaultMaxIdleConnsPerHost` (2); a negative value keeps
no connection at all (`len(idles) >= max` is always true). -/
def effectiveMaxIdle (v : Int) : Nat := if v = 0 then 2 else v.toNat

/-- Of `n` connections to one upstream that become idle together, how many the transport keeps. -/
def poolKept (tr : Transport) (n : Nat) : Nat := min n (effectiveMaxIdle tr.maxIdleConnsPerHost)

/-- When a connection that became idle at `doneAt` is closed by the transport: `IdleConnTimeout` later, or never
when no idle timeout is set (`≤ 0`). -/
def idleCloseAt (tr : Transport) (doneAt : Int) : Option Int :=
  if 0 < tr.idleConnTimeout then some (doneAt + tr.idleConnTimeout) else none

/-- The fate of `n` connections that become idle at `doneAt`: the excess is closed at once, the kept ones at
`idleCloseAt` (`none` = stay open). net/http's contract for the two fields, sampled by the stream `c19.pool`. -/
def poolFate (tr : Transport) (n : Nat) (doneAt : Int) : List (Option Int) :=
  List.replicate (n - poolKept tr n) (some doneAt) ++ List.replicate (poolKept tr n) (idleCloseAt tr doneAt)

/-! ### The dial phase (`net.Dialer.Timeout` behind `Transport.Dial`) -/

/-- An upstream whose address accepts no connection (the connect neither succeeds nor is refused): the contract
of `net.Dialer` for `Timeout = D` is a timeout `net.Error` at `D` when `D > 0`; without a timeout the connect hangs
until the operating system gives up (`none`: no bound the proxy controls). The response-header timeout starts when
the request has been written and plays no part. What the client of the proxy sees: the error handler's status. -/
def serveUnreachable (tr : Transport) : Option (Nat × Int) :=
  if 0 < tr.dialTimeout then some (errorStatus .netTimeout, tr.dialTimeout) else none

end Fabio.Model.C19
