import Fabio.Basic
/-!
C19 — configured upstream time limits are enforced: executable model (core Lean only).

What is modelled (Go source in parentheses):

* `Cell`            — the package-level variable `transport.cfg` (`transport/transport.go`), initialised to
                      `&config.Config{}`: every option zero.
* `setConfigWith`   — `transport.SetConfig`: one assignment whose left-hand side resolves either to the
                      package variable or (the defect D23: `func SetConfig(cfg …) { cfg = cfg }`) to the
                      parameter that shadows it.  `setConfig` is the intended function (`.packageVar`);
                      which of the two the source is today is a regenerated fact (`Props/C19Facts.lean`).
* `newTransport`    — `transport.NewTransport`: reads the five options from the cell.
* `Ev`, `run`       — the program order of `main`: `SetConfig`, then proxies (`newHTTPProxy` builds the default
                      and the skip-verify transport) and route tables (`Route.addTarget` builds a per-route
                      transport for `host=` override + https).
* `selectTransport` — the choice in `HTTPProxy.ServeHTTP`: per-route transport, else skip-verify, else default.
* `errorStatus`     — `httpProxyErrorHandler`'s classification of the round-trip error.
* `roundTrip`/`serve` — the timing contract of `net/http.Transport.RoundTrip` for the response-header timeout
                      (trusted base: net/http enforces the timeout it is given) and what the client of the proxy
                      then sees.

Durations are Go `time.Duration` values: signed nanoseconds (`Int`); `MaxConn` is a Go `int`.
-/
namespace Fabio.Model.C19

/-- The five `proxy.*` options the transports are built from (`config.Proxy`). -/
structure Cfg where
  dialTimeout : Int            -- proxy.dialtimeout
  responseHeaderTimeout : Int  -- proxy.responseheadertimeout
  keepAliveTimeout : Int       -- proxy.keepalivetimeout
  idleConnTimeout : Int        -- proxy.idleconntimeout
  maxConn : Int                -- proxy.maxconn
deriving DecidableEq, Repr, BEq, Inhabited

/-- `config.Config{}` as far as the five options go. -/
def Cfg.zero : Cfg := ⟨0, 0, 0, 0, 0⟩

/-- The package-level cell `transport.cfg`. -/
structure Cell where
  cfg : Cfg
deriving DecidableEq, Repr

/-- `var cfg *config.Config = &config.Config{}` -/
def Cell.init : Cell := ⟨Cfg.zero⟩

/-- What the left-hand side of the assignment in `SetConfig` resolves to. -/
inductive Lhs where
  | packageVar   -- the package-level `cfg`
  | parameter    -- the function's own parameter (it shadows the package variable when it has the same name)
deriving DecidableEq, Repr

/-- `SetConfig` with the binding of its assignment made explicit. -/
def setConfigWith : Lhs → Cell → Cfg → Cell
  | .packageVar, _, c => ⟨c⟩
  | .parameter, s, _ => s      -- the store goes to the parameter and dies with the call

/-- `transport.SetConfig` as intended (and as repaired). -/
def setConfig (s : Cell) (c : Cfg) : Cell := setConfigWith .packageVar s c

/-- The part of `*tls.Config` the three call sites set. -/
structure TLS where
  serverName : String
  insecureSkipVerify : Bool
deriving DecidableEq, Repr, BEq

/-- The observable fields of the `*http.Transport` (`dial*` are the `net.Dialer` behind `Dial`). -/
structure Transport where
  responseHeaderTimeout : Int
  idleConnTimeout : Int
  maxIdleConnsPerHost : Int
  dialTimeout : Int
  dialKeepAlive : Int
  tls : Option TLS             -- `TLSClientConfig` (`none` = nil)
deriving DecidableEq, Repr, BEq

/-- `transport.NewTransport(tlscfg)`. -/
def newTransport (s : Cell) (tls : Option TLS) : Transport :=
  { responseHeaderTimeout := s.cfg.responseHeaderTimeout
    idleConnTimeout := s.cfg.idleConnTimeout
    maxIdleConnsPerHost := s.cfg.maxConn
    dialTimeout := s.cfg.dialTimeout
    dialKeepAlive := s.cfg.keepAliveTimeout
    tls := tls }

/-- The specification: a transport carries a configuration's five values. -/
def Carries (c : Cfg) (t : Transport) : Prop :=
  t.responseHeaderTimeout = c.responseHeaderTimeout ∧ t.idleConnTimeout = c.idleConnTimeout ∧
  t.maxIdleConnsPerHost = c.maxConn ∧ t.dialTimeout = c.dialTimeout ∧ t.dialKeepAlive = c.keepAliveTimeout

instance (c : Cfg) (t : Transport) : Decidable (Carries c t) := by unfold Carries; exact inferInstance

/-! ### The three places transports are built -/

/-- `main.newHTTPProxy`: `Transport: NewTransport(nil)`, `InsecureTransport: NewTransport(&tls.Config{InsecureSkipVerify: true})`. -/
structure Proxy where
  transport : Transport
  insecureTransport : Transport
deriving Repr

def newHTTPProxy (s : Cell) : Proxy :=
  { transport := newTransport s none
    insecureTransport := newTransport s (some ⟨"", true⟩) }

/-- The options of a route target that matter here. -/
structure TargetOpts where
  host : String          -- `host=` option ("" when absent)
  https : Bool           -- `t.URL.Scheme == "https" || opts["proto"] == "https"`
  tlsSkipVerify : Bool   -- `tlsskipverify=true`
deriving DecidableEq, Repr

structure Target where
  opts : TargetOpts
  transport : Option Transport   -- `Target.Transport` (nil unless host override + https)
deriving Repr

/-- `Route.addTarget`, the lines that build the per-route transport (route/route.go). -/
def addTarget (s : Cell) (o : TargetOpts) : Target :=
  { opts := o
    transport :=
      if o.host ≠ "" ∧ o.host ≠ "dst" ∧ o.https then
        some (newTransport s (some ⟨o.host, o.tlsSkipVerify⟩))
      else none }

/-- `HTTPProxy.ServeHTTP`: `tr := p.Transport; if t.Transport != nil {…} else if t.TLSSkipVerify {…}`. -/
def selectTransport (p : Proxy) (t : Target) : Transport :=
  match t.transport with
  | some tr => tr
  | none => if t.opts.tlsSkipVerify then p.insecureTransport else p.transport

/-! ### Program order of `main` -/

/-- The events of `main` that touch the cell or read it. -/
inductive Ev where
  | setConfig (c : Cfg)          -- `transport.SetConfig(cfg)`
  | newProxy                     -- `newHTTPProxy` (from `startServers`, once per http/https listener)
  | addTarget (o : TargetOpts)   -- `route.NewTable` → `addRoute` → `addTarget` (from `watchBackend`)
  | other                        -- anything else (logging, metrics, backends)
deriving Repr

def Ev.builds : Ev → Bool
  | .newProxy => true
  | .addTarget _ => true
  | _ => false

def Ev.isSet : Ev → Bool
  | .setConfig _ => true
  | _ => false

/-- One event: the new cell and the transports it built. -/
def step (lhs : Lhs) (s : Cell) : Ev → Cell × List Transport
  | .setConfig c => (setConfigWith lhs s c, [])
  | .newProxy => (s, [(newHTTPProxy s).transport, (newHTTPProxy s).insecureTransport])
  | .addTarget o => (s, ((addTarget s o).transport).toList)
  | .other => (s, [])

/-- Run a program; collect every transport built, in order. -/
def run (lhs : Lhs) : Cell → List Ev → List Transport
  | _, [] => []
  | s, e :: es => (step lhs s e).2 ++ run lhs (step lhs s e).1 es

/-! ### The error handler -/

/-- The classes `httpProxyErrorHandler` distinguishes. -/
inductive Err where
  | netTimeout    -- `err.(net.Error)` with `Timeout() == true` (response-header timeout, dial timeout, deadline)
  | netOther      -- `net.Error` that is not a timeout (connection refused, reset)
  | eof           -- `err == io.EOF`
  | canceled      -- `err == context.Canceled` (client went away)
  | other         -- anything else
deriving DecidableEq, Repr

/-- `httpProxyErrorHandler`: the status written for a failed round trip. -/
def errorStatus : Err → Nat
  | .netTimeout => 504
  | .netOther => 502
  | .eof => 502
  | .canceled => 499
  | .other => 500

/-! ### Timing -/

/-- Result of `RoundTrip` as far as response headers go, with the time (ns after the request was written). -/
inductive RT where
  | response (status : Nat) (at_ : Int)   -- the upstream's response headers arrived
  | failed (e : Err) (at_ : Int)          -- the round trip returned an error
deriving DecidableEq, Repr

/-- The contract of `net/http.Transport.RoundTrip` for `ResponseHeaderTimeout = T` against an upstream that
sends its headers (status `st`) `d` after the request: no headers by `T` (> 0) ⇒ a timeout `net.Error` at `T`;
headers before `T`, or no limit (`T ≤ 0`), ⇒ that response at `d`. The instant `d = T` is a race in net/http and
is left open. This is the assumption the timing theorems are relative to. -/
structure RoundTripContract (rt : Int → Nat → Int → RT) : Prop where
  timeout : ∀ T st d, 0 < T → T < d → rt T st d = .failed .netTimeout T
  inTime : ∀ T st d, (T ≤ 0 ∨ d < T) → rt T st d = .response st d

/-- A reference round trip satisfying the contract (ties go to the response). -/
def roundTrip (T : Int) (st : Nat) (d : Int) : RT :=
  if 0 < T ∧ T < d then .failed .netTimeout T else .response st d

/-- What the client of the proxy sees: status and time. `ReverseProxy` copies the upstream's status on a
response and calls the error handler on an error. -/
def serve (rt : Int → Nat → Int → RT) (tr : Transport) (st : Nat) (d : Int) : Nat × Int :=
  match rt tr.responseHeaderTimeout st d with
  | .response s t => (s, t)
  | .failed e t => (errorStatus e, t)

/-! ### The handler `ServeHTTP` builds, and the whole response -/

/-- The three branches of the `switch` in `HTTPProxy.ServeHTTP`. -/
inductive Path where
  | websocket   -- `Upgrade: websocket`: a raw tunnel (`newWSHandler`), no `http.Transport` involved — outside C19
  | sse         -- `Accept: text/event-stream` exactly: reverse proxy with `proxy.flushinterval`
  | default     -- everything else: reverse proxy with `proxy.globalflushinterval`
deriving DecidableEq, Repr

/-- `case upgrade == "websocket" || upgrade == "Websocket"`, `case accept == "text/event-stream"`, `default`. -/
def handlerPath (upgrade accept : String) : Path :=
  if upgrade = "websocket" ∨ upgrade = "Websocket" then .websocket
  else if accept = "text/event-stream" then .sse else .default

/-- What `proxy.newHTTPProxy(target, tr, flush)` is built from. -/
structure HTTPHandler where
  transport : Transport
  flush : Int
deriving Repr

/-- The handler of a request: both reverse-proxy branches receive the one selected transport `tr`; they differ
in the flush interval only. (Regenerated facts: the second argument of both `newHTTPProxy` calls is `tr`, `tr`
is only ever assigned `p.Transport`, `t.Transport`, `p.InsecureTransport`, and package proxy contains no other
construction or copy of an `http.Transport`.) -/
def handlerFor (p : Proxy) (flushInterval globalFlushInterval : Int) (t : Target) : Path → Option HTTPHandler
  | .websocket => none
  | .sse => some ⟨selectTransport p t, flushInterval⟩
  | .default => some ⟨selectTransport p t, globalFlushInterval⟩

/-- What the client finally has: status, when the headers were there, whether the body is complete, and when
the response ended. -/
structure Served where
  status : Nat
  headerAt : Int
  complete : Bool
  doneAt : Int
deriving DecidableEq, Repr

/-- The whole exchange. After headers that came in time the upstream streams its body for `body` more
nanoseconds. `deadline` is a deadline on the request context (`none` = the server's own request context, which
is what `ServeHTTP` passes on: regenerated fact `serveHTTP_keeps_the_request_context`); a context that ends
mid-body aborts the copy and the client sees a truncated response. The response-header timeout itself does not
limit the body (net/http: it "does not include the time to read the response body"). -/
def serveFull (rt : Int → Nat → Int → RT) (tr : Transport) (deadline : Option Int) (st : Nat) (d body : Int) : Served :=
  match rt tr.responseHeaderTimeout st d with
  | .failed e t => ⟨errorStatus e, t, true, t⟩
  | .response s t =>
    match deadline with
    | none => ⟨s, t, true, t + body⟩
    | some D => if t + body ≤ D then ⟨s, t, true, t + body⟩ else ⟨s, t, false, if D < t then t else D⟩

/-- `ServeHTTP` hands `h.ServeHTTP(rw, r)` the request it received: no derived context, no deadline. -/
def requestDeadline : Option Int := none

end Fabio.Model.C19
