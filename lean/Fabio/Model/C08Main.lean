import Fabio.Model.C08Serve
/-!
C08 — model of the start-up path that decides which header configuration a listener's proxy runs with:
`config.Load` for the eight header options (`config/load.go`: flag set with string / int / bool values filled
from command line, environment or properties file) and `main.startServers` (`main.go`: every `http` / `https`
listener serves `newHTTPProxy(cfg)`, whose `Config` is `cfg.Proxy`; `r.TLS` is set exactly on a listener with a
certificate source).

Before round 4 this part was covered by two source obligations only (`header_options_bound`,
`listeners_serve_configured_proxy`); the stream `c08.main` now runs the real `fabio` executable with generated
options (command line, environment, properties file) behind a plain and a TLS listener and compares what the
upstream receives with `mainServe`.
-/
namespace Fabio.Model.C08

/-- Where an option was written. `config.FlagSet.ParseFlags`: the command line wins, then the environment
(`FABIO_<NAME>` before the bare `<NAME>`, dots as underscores, any casing), then the properties file. -/
inductive Source where
  | arg
  | envFabio
  | envBare
  | file
deriving Repr, DecidableEq

/-- One option as the operator wrote it. -/
structure Opt where
  src : Source
  name : Str
  value : Str
deriving Repr

abbrev Opts := List Opt

/-- The last value written for `name` in source `src`. -/
def lastOf (src : Source) (name : Str) : Opts → Option Str
  | [] => none
  | e :: t =>
    match lastOf src name t with
    | some w => some w
    | none => if e.src == src && e.name == name then some e.value else none

/-- The value an option ends up with and the source it came from. -/
def optFind (name : Str) (o : Opts) : Option (Source × Str) :=
  match lastOf .arg name o with
  | some v => some (.arg, v)
  | none =>
    match lastOf .envFabio name o with
    | some v => some (.envFabio, v)
    | none =>
      match lastOf .envBare name o with
      | some v => some (.envBare, v)
      | none => (lastOf .file name o).map fun v => (.file, v)

def optGet (name : Str) (o : Opts) : Option Str := (optFind name o).map (·.2)

def optStr (name : Str) (o : Opts) : Str := (optGet name o).getD []

def optClientIP : Str := "proxy.header.clientip".toList
def optTLS : Str := "proxy.header.tls".toList
def optTLSValue : Str := "proxy.header.tls.value".toList
def optRequestID : Str := "proxy.header.requestid".toList
def optSTSMaxAge : Str := "proxy.header.sts.maxage".toList
def optSTSSubdomains : Str := "proxy.header.sts.subdomains".toList
def optSTSPreload : Str := "proxy.header.sts.preload".toList
def optLocalIP : Str := "proxy.localip".toList

/-! ### `strconv.ParseBool`, `strconv.ParseInt(s, 0, 64)` (what `flag.BoolVar` / `flag.IntVar` apply) -/

def parseBool (s : Str) : Option Bool :=
  if (["1", "t", "T", "TRUE", "true", "True"].map String.toList).contains s then some true
  else if (["0", "f", "F", "FALSE", "false", "False"].map String.toList).contains s then some false
  else none

def digitVal (c : Char) : Option Nat :=
  if '0' ≤ c ∧ c ≤ '9' then some (c.toNat - 48)
  else if 'a' ≤ c ∧ c ≤ 'z' then some (c.toNat - 87)
  else if 'A' ≤ c ∧ c ≤ 'Z' then some (c.toNat - 55)
  else none

/-- digits of one base, most significant first; `none`: empty or a character that is not a digit of the base -/
def parseNatBase (base : Nat) (s : Str) : Option Nat :=
  if s.isEmpty then none
  else s.foldl (fun acc c =>
    match acc, digitVal c with
    | some a, some d => if d < base then some (a * base + d) else none
    | _, _ => none) (some 0)

/-- base 0: `0x` / `0b` / `0o` prefixes, a leading `0` means octal, otherwise decimal (digit separators `_`
are not modelled and not generated). -/
def parseUnsigned0 (s : Str) : Option Nat :=
  match s with
  | '0' :: 'x' :: t => parseNatBase 16 t
  | '0' :: 'X' :: t => parseNatBase 16 t
  | '0' :: 'b' :: t => parseNatBase 2 t
  | '0' :: 'B' :: t => parseNatBase 2 t
  | '0' :: 'o' :: t => parseNatBase 8 t
  | '0' :: 'O' :: t => parseNatBase 8 t
  | '0' :: c :: t => parseNatBase 8 (c :: t)
  | _ => parseNatBase 10 s

/-- Result of `strconv.ParseInt(s, 0, 64)`: the value, or a range error with the saturated value, or a
syntax error (value 0). -/
inductive IntParse where
  | ok (v : Int)
  | range (v : Int)
  | syntax
deriving Repr, DecidableEq

/-- optional sign -/
def signSplit : Str → Bool × Str
  | '-' :: t => (true, t)
  | '+' :: t => (false, t)
  | s => (false, s)

def parseInt64 (s : Str) : IntParse :=
  match parseUnsigned0 (signSplit s).2 with
  | none => .syntax
  | some n =>
    let v : Int := if (signSplit s).1 then -(n : Int) else (n : Int)
    if v < -9223372036854775808 then .range (-9223372036854775808)
    else if v > 9223372036854775807 then .range 9223372036854775807
    else .ok v

/-- `flag.IntVar` fed by `ParseFlags`: a value from the command line must parse (`flag.ExitOnError`: `none`,
fabio exits); for a value from the environment or the properties file the error of `FlagSet.Set` is dropped and
the variable keeps what `intValue.Set` stored: 0 after a syntax error, the saturated value after a range error. -/
def optInt (name : Str) (o : Opts) : Option Int :=
  match optFind name o with
  | none => some 0
  | some (src, s) =>
    match parseInt64 s, src with
    | .ok v, _ => some v
    | _, .arg => none
    | .range v, _ => some v
    | .syntax, _ => some 0

/-- `flag.BoolVar` likewise (`boolValue.Set` stores `false` when the value does not parse). -/
def optBool (name : Str) (o : Opts) : Option Bool :=
  match optFind name o with
  | none => some false
  | some (src, s) =>
    match parseBool s, src with
    | some b, _ => some b
    | none, .arg => none
    | none, _ => some false

/-- `config.Load`, the header options: every option is bound to its field; the defaults switch nothing on
(`defaultLocalIP` = `config.LocalIPString()`, a fact about the machine). `none`: a command-line value does not
parse and fabio refuses to start. -/
def loadCfg (defaultLocalIP : Str) (o : Opts) : Option Cfg :=
  match optInt optSTSMaxAge o, optBool optSTSSubdomains o, optBool optSTSPreload o with
  | some age, some sub, some pre =>
    some { clientIPHeader := optStr optClientIP o
           tlsHeader := optStr optTLS o
           tlsHeaderValue := optStr optTLSValue o
           localIP := (optGet optLocalIP o).getD defaultLocalIP
           stsMaxAge := age
           stsSubdomains := sub
           stsPreload := pre
           requestID := optStr optRequestID o }
  | _, _, _ => none

/-! ### `startServers` -/

/-- The listener kinds of `proxy.addr` that serve HTTP (`startServers`: the three `case`s that call
`newHTTPProxy`): `proto=http` (no certificate source), `proto=https` (`cs=…`) and `proto=https+tcp+sni` (TLS
connections whose SNI matches no TCP route fall through to the HTTPS server). -/
inductive Listener where
  | http
  | https
  | httpsTcpSni
deriving Repr, DecidableEq

def Listener.tls : Listener → Bool
  | .http => false
  | .https => true
  | .httpsTcpSni => true

/-- The request as the listener's HTTP server hands it to the proxy: `r.TLS` is non-nil exactly on a listener
that terminates TLS (`st` = negotiated version and cipher suite). -/
def onListener (l : Listener) (st : TLS) (r : Req) : Req :=
  { r with tls := if l.tls then some st else none }

/-- `main`: `config.Load` → `startServers`: **every** HTTP listener, plain or TLS, serves an `HTTPProxy` whose
`Config` is the loaded one — in particular a plain listener runs with the TLS header configured, which is what
makes it *delete* the copies a client forged. `none`: fabio did not start. -/
def mainServe (defaultLocalIP : Str) (o : Opts) (l : Listener) (st : TLS) (uuid : Str)
    (route : Option Route) (r : Req) : Option Served :=
  (loadCfg defaultLocalIP o).map fun cfg => serveHTTP cfg uuid route (onListener l st r)

end Fabio.Model.C08
