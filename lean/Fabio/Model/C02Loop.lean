import Fabio.Model.C02
import Fabio.Model.Parse
/-!
C02, round 3 — the glue around the update loop that `Model/C02.lean` left out (core Lean only).

`Model/C02.lean` models one iteration of `watchBackend` as `recv; concatenate; skip; build; SetTable` with
`build : Text → Option T`. The real iteration (`main.go`) does more, all of it on the goroutine whose panic ends
the process, and all of it fed with the configuration text:

```
aliases, err := route.ParseAliases(nextTable)   -- error only logged, aliases = nil
registry.Default.Register(aliases)              -- result ignored
t, err := route.NewTable(tableBuffer)           -- error: log, continue
route.SetTable(t)
logRoutes(t, lastTable, nextTable, cfg.Log.RoutesFormat)
lastTable = nextTable
```

1. `parseAliases` — the model of `route.ParseAliases` (no scanner: `strings.Split` on "\n", no line limit; the
   same line parser as `Parse`; the `register` option of every definition, in order; `none` = error).
2. `Glue`, `stepO`, `runO` — the iteration with every call as an `Outcome`-valued parameter (panics are values)
   and the list of EFFECTS it performed in program order (`Eff`): what was registered, what was passed to
   `SetTable`, what `logRoutes` was called with. A panic stops the iteration where it happens; the effects
   performed before it stay performed (the table may already be swapped when `logRoutes` dies).
3. `Source` — where the text of the `svc` channel comes from for the backends that are not watchers: the static
   backend sends `registry.static.routes` once, the file backend the content of `registry.file.path` once
   (`registry/static/backend.go`, `registry/file/backend.go`); their manual channel never sends.
4. `commandLines` — the specification side of "the COMPLETE new table": the number of lines of a text that are
   commands (not blank, not a `#`/`//` comment), written from the documented grammar, independent of `parse`.
-/
namespace Fabio.Model.C02Loop
open Fabio Fabio.Model.C02 Fabio.Model.Parse Fabio.Model.Route

/-! ## 1. `route.ParseAliases` -/

def kRegister : Str := "register".toList

/-- one line of `ParseAliases` (after `strings.Split(in, "\n")`): `.error` = the line parser's error,
`.ok none` = comment, blank line or a definition without the option, `.ok (some name)` = `Opts["register"]`.
Go's line parsers accept a NaN/±Inf weight (the table code refuses it later), so such a line IS a definition
here although `Parse.parseLine` reports it as `nonFinite`. -/
def aliasOfLine (pf : ParseFloat) (line : Str) : Except Unit (Option Str) :=
  match parseLine pf line with
  | .ok none => .ok none
  | .ok (some d) => .ok (d.opts.lookup kRegister)
  | .error (.syn _) => .error ()
  | .error (.nonFinite _) =>
    match matchAdd (trimSpace line) with
    | some m => .ok ((parseOpts m.opts).lookup kRegister)
    | none => .ok none

def aliasesOfLines (pf : ParseFloat) : List Str → Option (List Str)
  | [] => some []
  | l :: ls =>
    match aliasOfLine pf l with
    | .error _ => none
    | .ok a =>
      match aliasesOfLines pf ls with
      | none => none
      | some as => some (a.toList ++ as)

/-- `route.ParseAliases`; `none` = `nil, err` -/
def parseAliases (pf : ParseFloat) (text : Str) : Option (List Str) := aliasesOfLines pf (splitOn '\n' text)

/-- the argument of `registry.Default.Register` in `watchBackend`: the error is logged, `aliases` stays nil -/
def registerArg (pf : ParseFloat) (text : Str) : List Str := (parseAliases pf text).getD []

/-! ## 2. one iteration with its glue; panics are values -/

/-- what one iteration did to the world, in program order -/
inductive Eff (T : Type) where
  | register (aliases : List Str)
  | setTable (t : T)
  | logRoutes (t : T) (last next : Text)
deriving DecidableEq, Repr

/-- the calls of the loop body as parameters. `build`: `.ok none` = `NewTable` returned an error. -/
structure Glue (T : Type) where
  aliases : Text → Outcome (List Str)
  register : List Str → Outcome Unit
  build : Text → Outcome (Option T)
  log : T → Text → Text → Outcome Unit

/-- `build` as the plain loop sees it when nothing panics -/
def Glue.buildOpt {T} (g : Glue T) (text : Text) : Option T :=
  match g.build text with
  | .ok o => o
  | .panic _ => none

/-- a glue none of whose calls ever panics -/
structure Glue.Total {T} (g : Glue T) : Prop where
  aliases : ∀ s, (g.aliases s).isPanic = false
  register : ∀ a, (g.register a).isPanic = false
  build : ∀ s, (g.build s).isPanic = false
  log : ∀ t a b, (g.log t a b).isPanic = false

/-- One iteration of the `default:` loop of `watchBackend`, statement by statement: the effects performed and
either the next state of the locals + active table or the panic that ended the process. -/
def stepO {T} (g : Glue T) (st : WB T) (e : Ev) : List (Eff T) × Outcome (WB T) :=
  let st1 := st.recv e
  let next := st1.nextText
  if next = st1.lastTable then ([], .ok st1) else
  match g.aliases next with
  | .panic w => ([], .panic w)
  | .ok al =>
  match g.register al with
  | .panic w => ([], .panic w)
  | .ok () =>
  match g.build next with
  | .panic w => ([.register al], .panic w)
  | .ok none => ([.register al], .ok st1)
  | .ok (some t) =>
    -- route.SetTable(t) happens BEFORE logRoutes; lastTable is assigned after it
    match g.log t st1.lastTable next with
    | .panic w => ([.register al, .setTable t], .panic w)
    | .ok () => ([.register al, .setTable t, .logRoutes t st1.lastTable next], .ok { st1 with active := t, lastTable := next })

/-- a history; the process ends with the first panic -/
def runO {T} (g : Glue T) : WB T → List Ev → List (Eff T) × Outcome (WB T)
  | st, [] => ([], .ok st)
  | st, e :: es =>
    match stepO g st e with
    | (effs, .panic w) => (effs, .panic w)
    | (effs, .ok st') => let r := runO g st' es; (effs ++ r.1, r.2)

/-- the tables passed to `route.SetTable` -/
def installsOf {T} : List (Eff T) → List T
  | [] => []
  | .setTable t :: es => t :: installsOf es
  | _ :: es => installsOf es

/-- the arguments of `registry.Default.Register` -/
def registeredOf {T} : List (Eff T) → List (List Str)
  | [] => []
  | .register a :: es => a :: registeredOf es
  | _ :: es => registeredOf es

/-- the glue of the real loop with the Lean models plugged in: `ParseAliases`, a `Register` and a `logRoutes`
that return, `NewTable` -/
def pureGlue {T} (pf : ParseFloat) (build : Text → Option T) : Glue T :=
  { aliases := fun s => .ok (registerArg pf s), register := fun _ => .ok (), build := fun s => .ok (build s),
    log := fun _ _ _ => .ok () }

/-- what the scripted backend of the correspondence records for one event: the `Register` calls of that event -/
def registeredTrace {T} (pf : ParseFloat) (build : Text → Option T) : WB T → List Ev → List (List (List Str))
  | _, [] => []
  | st, e :: es =>
    registeredOf (stepO (pureGlue pf build) st e).1 :: registeredTrace pf build (WB.step build st e) es

/-! ## 3. the sources that are not watchers -/

inductive Source where
  /-- `registry.backend = static`: `WatchServices` sends `registry.static.routes` once -/
  | static (routes : Text)
  /-- `registry.backend = file`: the content of the routes file, read once at start-up -/
  | file (content : Text)
deriving DecidableEq, Repr

/-- everything such a backend ever delivers: ONE service update; the manual channel never sends -/
def Source.events : Source → List Ev
  | .static routes => [.svc routes]
  | .file content => [.svc content]

def Source.text : Source → Text
  | .static routes => routes
  | .file content => content

/-! ## 4. specification: how many commands a text contains -/

/-- A line (terminated by "\n" or "\r\n") is a command unless, with surrounding white space removed, it is empty
or starts with `#` or `//` (the documented grammar of the route commands). -/
def isCommandLine (raw : Str) : Bool :=
  let s := trimSpace (dropCR raw)
  !(isComment s || isBlank s)

def commandLines (text : Str) : Nat := ((rawLines text).filter isCommandLine).length

end Fabio.Model.C02Loop
