import Fabio.Model.C20
import Fabio.Model.C20Capture
import Fabio.Model.C20Url
/-!
Model of the access-log side of `HTTPProxy.ServeHTTP` (`proxy/http_proxy.go`): which requests produce a
`logger.Event` at all, and what is in it — the request URL rebuilt from `scheme(r)`, `r.Host` and `r.URL`, the
target URL (strip / prepend / the escaped path carried alongside), the host override, the request id header
(`uuid.NewUUID` by default), status and size taken from the capturing `responseWriter`, `UpstreamAddr` =
`targetURL.Host` — and of the two response/request headers whose value goes through the hand-written
formatters: `Strict-Transport-Security: max-age=<i32toa>` and the `tlsver=` / `tlscipher=` parameters of
`Forwarded` (`uint16base16`).

Strings are byte strings (`List Nat`, as in `Model/C20Url.lean`). What the handler does with the wrapped
writer is a script of `RWOp`s (`Model/C20Capture.lean`); for the reverse proxy it is derived from what the
upstream answered (`upstreamOps`), the error handler included. Outside this model (other properties): access
rules and auth schemes (inputs `denied` / `authorized`), the headers `addHeaders` maintains (`Forwarded`,
`X-Forwarded-*`, `X-Real-Ip`, …: only the two formatter-backed parameters are modelled), gzip, the websocket
handler (no status is ever captured there: no event), tracing.
Core Lean only: this module is linked into the model driver.
-/
namespace Fabio.Model.C20Serve
open Fabio.Model.C20Url Fabio.Model.C20Capture

/-- ASCII text as bytes -/
def b (s : String) : Bytes := s.toList.map Char.toNat

/-! ## headers (`http.Header` with canonical keys) -/

abbrev Header := List (Bytes × List Bytes)

def hget (h : Header) (k : Bytes) : Bytes :=
  match h.lookup k with
  | some (v :: _) => v
  | _ => []

/-- `h.Set(k, v)` for an already canonical `k` (a map: the position of an entry means nothing) -/
def hset (h : Header) (k v : Bytes) : Header := (k, [v]) :: h.filter (·.1 != k)

def upperByte (c : Nat) : Nat := if 97 ≤ c ∧ c ≤ 122 then c - 32 else c
def lowerByte (c : Nat) : Nat := if 65 ≤ c ∧ c ≤ 90 then c + 32 else c

/-- `textproto.CanonicalMIMEHeaderKey` on names made of `[A-Za-z0-9_-]` -/
def canonKey : Bool → Bytes → Bytes
  | _, [] => []
  | upper, c :: cs =>
    let c' := if upper then upperByte c else lowerByte c
    c' :: canonKey (c' == 45) cs

/-! ## the request, the route target, the configuration -/

structure TLSState where
  version : Nat
  cipher : Nat
deriving DecidableEq, Repr

structure Req where
  remoteAddr : Bytes := []
  method : Bytes := []
  requestURI : Bytes := []
  proto : Bytes := []
  host : Bytes := []
  header : Header := []
  url : URL := {}
  tls : Option TLSState := none
deriving Repr

structure Target where
  scheme : Bytes := []       -- t.URL.Scheme
  host : Bytes := []         -- t.URL.Host
  rawQuery : Bytes := []     -- t.URL.RawQuery
  stripPath : Bytes := []
  prependPath : Bytes := []
  hostOpt : Bytes := []      -- t.Host ("", "dst" or a name)
  service : Bytes := []
  redirect : Bool := false   -- t.RedirectCode != 0 && t.RedirectURL != nil
  denied : Bool := false     -- t.AccessDeniedHTTP(r)
  authorized : Bool := true  -- t.Authorized(r, w, schemes)
deriving Repr

structure Cfg where
  requestID : Bytes := []
  stsMaxAge : Int := 0
  stsSubdomains : Bool := false
  stsPreload : Bool := false
deriving Repr

/-! ## `scheme(r)` -/

/-- text after the first occurrence of `pat` (`strings.SplitAfterN(s, pat, 2)[1]`), `none` if absent -/
def afterFirst (pat : Bytes) : Bytes → Option Bytes
  | [] => if pat = [] then some [] else none
  | c :: cs => if (c :: cs).take pat.length = pat then some ((c :: cs).drop pat.length) else afterFirst pat cs

def eqFoldASCII (s t : Bytes) : Bool := s.map lowerByte == t.map lowerByte

def schemeOf (r : Req) : Bytes :=
  let xfp := hget r.header (b "X-Forwarded-Proto")
  let fwd := hget r.header (b "Forwarded")
  let ws := eqFoldASCII (hget r.header (b "Upgrade")) (b "websocket")
  let fromConn : Bytes :=
    if ws ∧ r.tls.isSome then b "wss" else if ws then b "ws" else if r.tls.isSome then b "https" else b "http"
  if xfp ≠ [] ∧ fwd = [] then xfp
  else if fwd ≠ [] ∧ xfp = [] then
    match afterFirst (b "proto=") fwd with
    | none => fromConn
    | some rest => rest.takeWhile (· != 59)
  else fromConn

/-- the URL of the incoming request as handed to the logger: scheme and host from the request, path (with the
client's encoding of it) and query from `r.URL` -/
def requestURL (r : Req) : URL :=
  { scheme := schemeOf r, host := r.host, path := r.url.path, rawPath := r.url.rawPath,
    forceQuery := r.url.forceQuery, rawQuery := r.url.rawQuery }

/-! ## the target URL -/

def hasPrefix (s p : Bytes) : Bool := s.take p.length == p

/-- the loop of `escapedLen(s, n)`: bytes of the escaped text `s` that unescape to `n` bytes -/
def escapedLenLoop : Nat → Bytes → Nat
  | 0, _ => 0
  | _+1, [] => 0
  | n+1, c :: rest => if c = 37 then 3 + escapedLenLoop n (rest.drop 2) else 1 + escapedLenLoop n rest

def escapedLen (s : Bytes) (n : Nat) : Nat := min (escapedLenLoop n s) s.length

/-- after stripping / prepending: "ensure absolute path" on the path and on the escaped path alike -/
def ensureAbs (p : Bytes × Bytes) : Bytes × Bytes := if hasPrefix p.1 [47] then p else (47 :: p.1, 47 :: p.2)

def targetURL (r : Req) (t : Target) : URL :=
  let q := if t.rawQuery = [] ∨ r.url.rawQuery = [] then t.rawQuery ++ r.url.rawQuery else t.rawQuery ++ [38] ++ r.url.rawQuery
  let p0 : Bytes × Bytes := (r.url.path, escapedPath r.url)
  let p1 := if t.stripPath ≠ [] ∧ hasPrefix r.url.path t.stripPath = true then
      ensureAbs (p0.1.drop t.stripPath.length, p0.2.drop (escapedLen p0.2 t.stripPath.length))
    else p0
  let p2 := if t.prependPath ≠ [] then
      ensureAbs (t.prependPath ++ p1.1, escapedPath { path := t.prependPath } ++ p1.2)
    else p1
  { scheme := t.scheme, host := t.host, path := p2.1, rawPath := if hasPrefix p2.2 [47] then p2.2 else [], rawQuery := q }

/-! ## `net.SplitHostPort(r.RemoteAddr)` succeeds (otherwise `addHeaders` fails: 500, no event) -/

def lastIdx (c : Nat) (s : Bytes) : Option Nat :=
  let rec go (i : Nat) (best : Option Nat) : Bytes → Option Nat
    | [] => best
    | x :: xs => go (i+1) (if x = c then some i else best) xs
  go 0 none s

def firstIdx (c : Nat) (s : Bytes) : Option Nat :=
  let rec go (i : Nat) : Bytes → Option Nat
    | [] => none
    | x :: xs => if x = c then some i else go (i+1) xs
  go 0 s

def splitHostPortOk (hp : Bytes) : Bool :=
  match lastIdx 58 hp with
  | none => false
  | some i =>
    if hp.head? = some 91 then
      match firstIdx 93 hp with
      | none => false
      | some e =>
        if e + 1 = i then !(hp.drop 1).contains 91 && !(hp.drop (e+1)).contains 93 else false
    else
      !(hp.take i).contains 58 && !hp.contains 91 && !hp.contains 93

/-! ## what the handler writes -/

inductive UpErr where
  | timeout | net | eof | canceled | other
deriving DecidableEq, Repr

/-- the upstream's answer as seen by the reverse proxy -/
inductive Upstream where
  | response (info : List Nat) (status : Nat) (chunks : List Nat)
  | error (e : UpErr)
  /-- header and `chunks` arrive, then the connection to the upstream breaks in the middle of the body -/
  | cut (info : List Nat) (status : Nat) (chunks : List Nat)
deriving Repr

/-- `httpProxyErrorHandler` -/
def errStatus : UpErr → Nat
  | .timeout => 504 | .net => 502 | .eof => 502 | .canceled => 499 | .other => 500

/-- the calls `httputil.ReverseProxy` makes on the (wrapped) writer: every informational header, the final
status, one `Write` per chunk read from the body; or the error handler's single `WriteHeader` -/
def upstreamOps : Upstream → List RWOp
  | .response info status chunks => info.map .header ++ [.header status] ++ chunks.map fun n => .write n n
  | .error e => [.header (errStatus e)]
  | .cut info status chunks => info.map .header ++ [.header status] ++ chunks.map fun n => .write n n

/-! ## ServeHTTP -/

/-- the `logger.Event` (times aside: `Start`/`End` are the two readings of `p.Time`) -/
structure LogEvent where
  remoteAddr : Bytes
  method : Bytes
  requestURI : Bytes
  proto : Bytes
  host : Bytes          -- `r.Host` after the host option
  header : Header       -- `r.Header` after the request id (the headers `addHeaders` maintains are not modelled)
  requestURL : URL
  upstreamURL : URL
  upstreamAddr : Bytes
  upstreamService : Bytes
  status : Nat
  size : Nat
deriving DecidableEq, Repr

inductive Served where
  | noRoute | denied | unauthorized | redirect | badRemote   -- answered by the proxy itself: no event is built
  | noStatus                                                  -- the handler never wrote a header (`rw.code <= 0`)
  | logged (e : LogEvent)
  /-- the handler gave up with `panic(http.ErrAbortHandler)` (the upstream broke in the middle of the body): the
  panic passes through `ServeHTTP` to net/http, which tears the client connection down — that is how the client
  learns that the body it has is not the whole response. Nothing after `h.ServeHTTP` runs: no event. -/
  | aborted
deriving DecidableEq, Repr

/-- `r.Header.Set(p.Config.RequestID, id())` when a request id header is configured -/
def withRequestID (cfg : Cfg) (r : Req) (id : Bytes) : Req :=
  { r with header := if cfg.requestID ≠ [] then hset r.header (canonKey true cfg.requestID) id else r.header }

/-- `ops`: the handler's calls on the wrapped writer; `id`: what `p.UUID` / `uuid.NewUUID` returned -/
def serveOps (cfg : Cfg) (r : Req) (t : Option Target) (id : Bytes) (ops : List RWOp) : Served :=
  let r1 : Req := withRequestID cfg r id
  match t with
  | none => .noRoute
  | some t =>
    if t.denied then .denied
    else if !t.authorized then .unauthorized
    else if t.redirect then .redirect
    else
      let turl := targetURL r1 t
      if !splitHostPortOk r1.remoteAddr then .badRemote
      else
        let host' := if t.hostOpt = b "dst" then turl.host else if t.hostOpt ≠ [] then t.hostOpt else r1.host
        let c := captureRun true ops
        if c.code = 0 then .noStatus
        else .logged {
          remoteAddr := r1.remoteAddr, method := r1.method, requestURI := r1.requestURI, proto := r1.proto,
          host := host', header := r1.header,
          requestURL := requestURL r1, upstreamURL := turl, upstreamAddr := turl.host, upstreamService := t.service,
          status := c.code, size := c.size }

/-- did the request get as far as the handler (`h.ServeHTTP(rw, r)`)? -/
def reachedHandler : Served → Bool
  | .noStatus => true
  | .logged _ => true
  | .aborted => true
  | _ => false

def serve (cfg : Cfg) (r : Req) (t : Option Target) (id : Bytes) (up : Upstream) : Served :=
  match up with
  | .cut info st chunks =>
    -- the reverse proxy relays what it got, then aborts the handler
    if reachedHandler (serveOps cfg r t id (upstreamOps (.cut info st chunks))) then .aborted
    else serveOps cfg r t id (upstreamOps (.cut info st chunks))
  | up => serveOps cfg r t id (upstreamOps up)


/-! ## headers whose value goes through the hand-written formatters -/

open Fabio.Model.C20 in
/-- `addResponseHeaders`: the value of `Strict-Transport-Security` (`none`: header not set). The max-age is an
`int`; `i32toa` formats an int32: larger values are sent as the largest one. -/
def stsHeader (tls : Bool) (cfg : Cfg) : Option (Outcome (List Char)) :=
  if tls ∧ cfg.stsMaxAge > 0 then
    let n : Int := if cfg.stsMaxAge > 2147483647 then 2147483647 else cfg.stsMaxAge
    some ((i32toa n).map fun ds =>
      "max-age=".toList ++ ds ++ (if cfg.stsSubdomains then "; includeSubdomains".toList else []) ++
        (if cfg.stsPreload then "; preload".toList else []))
  else none

/-- The header as the client gets it with the final response. `httputil.ReverseProxy` relays an informational
response by writing it with the header map as it is and then clearing the map; since 3162882 (`fix:` of another
property's check) the capturing `responseWriter` remembers what the proxy had set before the handler ran and puts it
back before the final header is written: the header is there whatever the upstream sent first. -/
def clientSTS (tls : Bool) (cfg : Cfg) : Upstream → Option (Outcome (List Char))
  | _ => stsHeader tls cfg

/-- the `tlsver` table of `proxy/http_headers.go` -/
def tlsverName (v : Nat) : Option (List Char) :=
  if v = 0x0300 then some "ssl30".toList else if v = 0x0301 then some "tls10".toList
  else if v = 0x0302 then some "tls11".toList else if v = 0x0303 then some "tls12".toList else none

open Fabio.Model.C20 in
/-- what `addHeaders` appends to `Forwarded` for a TLS connection: `; tlsver=…` (version > 0) and
`; tlscipher=…` (cipher ≠ 0); versions outside the table and every cipher go through `uint16base16` -/
def forwardedTLS (t : TLSState) : Outcome (List Char) :=
  (if t.version > 0 then
      match tlsverName t.version with
      | some n => Outcome.ok ("; tlsver=".toList ++ n)
      | none => (uint16base16 t.version).map ("; tlsver=".toList ++ ·)
    else .ok []).bind fun v =>
  (if t.cipher ≠ 0 then (uint16base16 t.cipher).map ("; tlscipher=".toList ++ ·) else .ok []).bind fun c =>
  .ok (v ++ c)

/-! ## `uuid.NewUUID` (`ToString(generator.Next())`, generator = `fastuuid`) -/

/-- `binary.LittleEndian.PutUint64` -/
def le64 (x : Nat) : List UInt8 :=
  [UInt8.ofNat (x % 256), UInt8.ofNat (x / 256 % 256), UInt8.ofNat (x / 65536 % 256), UInt8.ofNat (x / 16777216 % 256),
   UInt8.ofNat (x / 4294967296 % 256), UInt8.ofNat (x / 1099511627776 % 256), UInt8.ofNat (x / 281474976710656 % 256),
   UInt8.ofNat (x / 72057594037927936 % 256)]

/-- The id for counter value `x` of a generator with the 24-byte `seed`: `Next()` copies the seed and overwrites
its first eight bytes with the counter (`atomic.AddUint64`: every call sees another value, modulo 2^64). -/
def newUUID (seed : List UInt8) (x : Nat) : Outcome (List Char) :=
  Fabio.Model.C20.uuidToString (le64 (x % 18446744073709551616) ++ seed.drop 8)

end Fabio.Model.C20Serve
