import Fabio.Model.C07
import Fabio.Model.C17
/-!
C07, second sentence ("the client receives the upstream's status, end-to-end headers and body bytes unchanged"):
the handler chain `ServeHTTP` builds around the reverse proxy, as an executable model (core Lean only).

```
h = newHTTPProxy(targetURL, tr, flush)                       -- httputil.ReverseProxy
if p.Config.GZIPContentTypes != nil { h = gzip.NewGzipHandler(h, …) }
rw := &responseWriter{w: w};  h.ServeHTTP(rw, r)
```

* `Reply` — the upstream's reply as `httputil.ReverseProxy.ServeHTTP` replays it on the `ResponseWriter` it was
  given: one `WriteHeader(1xx)` per informational response, `copyHeader` (one `Header().Add` per line), one
  `WriteHeader(status)`, one `Write` per buffer of the copy loop. `Reply.script` is that call sequence in the
  vocabulary of C17's model of the gzip handler (`C17.Op`), so the gzip layer is *C17's model itself*, not a copy.
* `respond` — what the client is shown: without `proxy.gzip.contenttype` the replayed reply as it is; with it,
  `C17.serve` (the handler returned by `NewGzipHandler`) run on the script.
* `gzipEngages` — the decision of that layer spelled out on a reply (executable; the driver predicts from it
  whether a reply arrives gzip-encoded by fabio).
* `Store` / `watch` — `noroute/store.go` and the loop of `main.watchNoRouteHTML` that feeds it: the page shown
  on a no-route answer is the last one the registry delivered.

`responseWriter` (outermost, status and size bookkeeping) is `Model.C07.RW`; it forwards every call.
-/
namespace Fabio.Model.C07Chain
open Fabio.Model

abbrev Hdr := C17.Hdr
abbrev Bytes := C17.Bytes

/-- the upstream's reply as the reverse proxy replays it -/
structure Reply where
  /-- codes of the informational responses, in order (`Got1xxResponse` → `rw.WriteHeader(code)`) -/
  interim : List Nat := []
  status : Nat
  /-- header lines in the order `copyHeader` adds them -/
  hdr : List (String × String) := []
  /-- the body, one element per `Write` of the copy loop -/
  chunks : List Bytes := []
deriving Repr, BEq, DecidableEq

def Reply.script (r : Reply) : List C17.Op :=
  r.interim.map C17.Op.wh ++ (r.hdr.map (fun kv => C17.Op.add kv.1 kv.2) ++ (C17.Op.wh r.status :: r.chunks.map C17.Op.w))

/-- the live header map after `copyHeader(rw.Header(), res.Header)` onto `h0` -/
def Reply.headersOn (r : Reply) (h0 : Hdr) : Hdr := r.hdr.foldl (fun h kv => C17.hadd h kv.1 kv.2) h0

/-- the informational responses are informational, the final status is not -/
def Reply.wellFormed (r : Reply) : Prop :=
  (∀ c ∈ r.interim, C17.informational c = true) ∧ C17.informational r.status = false

instance (r : Reply) : Decidable r.wellFormed := by unfold Reply.wellFormed; exact inferInstance

/-- the header map the gzip handler starts from: `w.Header().Add("Vary", "Accept-Encoding")` -/
def varyHdr : Hdr := C17.hadd [] C17.hVary C17.hAcceptEncoding

/-- the reply as it stands: status, header lines, bytes -/
def Reply.asIs (r : Reply) (h0 : Hdr) : C17.Obs :=
  { status := r.status, hdr := r.headersOn h0, body := r.chunks.flatten }

/-- what the client is shown of the final response. `gz = none`: `proxy.gzip.contenttype` is not configured, the
reverse proxy talks to `responseWriter` directly. `gz = some C`: the handler of `NewGzipHandler` sits in between
(`head`: the request is a HEAD; `req`: the request's header block; `dfl`: the writer below is a Flusher; `pool`: the
content of the gzip writer pool). -/
def respond {Z} (gz : Option (C17.Cfg Z)) (head dfl : Bool) (req : Hdr) (pool : List Z) (r : Reply) : C17.Obs :=
  match gz with
  | none => r.asIs []
  | some C => (C17.serve C head dfl req [] pool r.script).obs

/-- does the gzip layer compress this reply? (`acceptsGzip` ∧ not HEAD ∧ the status allows a body ∧ the reply
carries no Content-Encoding ∧ its Content-Type matches the configured expression) -/
def gzipEngages (typeOk : String → Bool) (head : Bool) (req : Hdr) (r : Reply) : Bool :=
  C17.acceptsGzip req && !head && C17.bodyAllowedForStatus r.status &&
    (C17.hget (r.headersOn varyHdr) C17.hContentEncoding == "") &&
    typeOk (C17.hget (r.headersOn varyHdr) C17.hContentType)

/-! ## the no-route page: `noroute/store.go` and `main.watchNoRouteHTML` -/

/-- `var store atomic.Value`, initialised with `""` -/
structure Store where
  html : String := ""
deriving Repr, BEq, DecidableEq

def Store.get (s : Store) : String := s.html
/-- `SetHTML`: the value is stored whatever it is — the empty page too -/
def Store.set (_ : Store) (h : String) : Store := { html := h }

/-- one round of `watchNoRouteHTML`: `next := <-html; if next == noroute.GetHTML() { continue }; noroute.SetHTML(next)` -/
def watchStep (s : Store) (next : String) : Store := if next = s.get then s else s.set next

/-- the watcher over everything the registry delivered -/
def watch (s : Store) (delivered : List String) : Store := delivered.foldl watchStep s

end Fabio.Model.C07Chain
