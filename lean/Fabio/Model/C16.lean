import Fabio.Basic
import Fabio.Model.Route
/-!
C16 — gRPC calls are proxied transparently to a matching backend: executable model (core Lean only).

What is modelled (`proxy/grpc_handler.go`):

* `GrpcProxyInterceptor.Stream` / `lookup` / `getDestinationHostFromMetadata`: the synthetic `http.Request`
  handed to `route.Table.Lookup` has `Host` = the value of the metadata key `dsthost` when that key carries
  **exactly one** value and `""` otherwise (zero values, or two and more), and `URL` =
  `url.ParseRequestURI(fullMethod)`; so the path the table sees is the *decoded path* of the full method name.
  `parsePath` is a parameter (`net/url` is in the trusted base); for method names made of
  `[-A-Za-z0-9._/]` it is the identity (`plainMethod`, checked differentially by the correspondence).
  The table lookup itself is a parameter `lookup : host → path → Option target` (it is `Table.Lookup`,
  property C03); what C16 states is *which* arguments it is called with and what happens with the answer.
* The connection pool `grpcConnectionPool` as a state machine over an association list
  key (`target.URL.String()`) ↦ connection (id, shutdown flag): `Get` (read under `RLock`), `newConnection`
  (= dial, a parameter that either yields a fresh connection or fails, then `Set` under `Lock`), one
  iteration of `cleanup` (under `Lock`: drop shut-down connections and those whose key is no target URL of
  the current table; the latter are handed to an asynchronous closer).
* Two first calls racing for the same key as a two-thread interleaving of the three micro-steps
  read / dial / set (`Race`).
* The specification of transparency as decidable predicates over what an instrumented backend and the
  caller recorded (`Spec`); the relay itself (mwitkow/grpc-proxy + grpc-go) is exercised, not modelled.
-/
namespace Fabio.Model.C16
open Fabio.Model.Route (Str Table)

/-! ## The interceptor -/

/-- gRPC metadata (`metadata.MD`, a Go map): key ↦ values. Keys are lower-case on the wire. -/
abbrev MD := List (Str × List Str)

/-- the metadata key read by `getDestinationHostFromMetadata` (pinned by a regenerated fact) -/
def dsthostKey : Str := "dsthost".toList

def mdGet (md : MD) (k : Str) : List Str :=
  match md with
  | [] => []
  | (k', vs) :: r => if k' = k then vs else mdGet r k

/-- `getDestinationHostFromMetadata`: the value iff there is exactly one. -/
def dstHost (md : MD) : Str :=
  match mdGet md dsthostKey with
  | [h] => h
  | _ => []

/-- characters for which `url.ParseRequestURI(m).Path = m` needs no argument -/
def plainChar (c : Char) : Bool :=
  ('a' ≤ c && c ≤ 'z') || ('A' ≤ c && c ≤ 'Z') || ('0' ≤ c && c ≤ '9') || c = '.' || c = '_' || c = '-' || c = '/'

/-- a full method name `/pkg.Service/Method` over `plainChar` -/
def plainMethod (m : Str) : Bool :=
  match m with
  | '/' :: _ => m.all plainChar
  | _ => false

/-- the synthetic request handed to the table -/
structure Req where
  host : Str
  path : Str
deriving DecidableEq, Repr

/-- gRPC status codes the interceptor itself produces (numbers as in `google.golang.org/grpc/codes`). -/
def codeNotFound : Nat := 5
def codeInternal : Nat := 13

/-- What `GrpcProxyInterceptor.Stream` does with a call. -/
inductive Intercept (T : Type) where
  /-- no metadata in the context or `url.ParseRequestURI` failed: `status.Error(codes.Internal, …)` -/
  | internal
  /-- lookup returned nil: `status.Error(codes.NotFound, "no route found")`, the handler is **not** called -/
  | notFound
  /-- the handler runs with the target stored in the context -/
  | forward (t : T)
deriving DecidableEq, Repr

/-- The request built by `lookup` (none = the error path). `hasMD` is `metadata.FromIncomingContext`'s ok. -/
def synthReq (parsePath : Str → Option Str) (hasMD : Bool) (md : MD) (method : Str) : Option Req :=
  if !hasMD then none else
  match parsePath method with
  | none => none
  | some p => some { host := dstHost md, path := p }

def intercept {T} (parsePath : Str → Option Str) (lookup : Str → Str → Option T)
    (hasMD : Bool) (md : MD) (method : Str) : Intercept T :=
  match synthReq parsePath hasMD md method with
  | none => .internal
  | some r =>
    match lookup r.host r.path with
    | none => .notFound
    | some t => .forward t

/-! ## The connection pool -/

structure Conn where
  id : Nat
  /-- `conn.GetState() == connectivity.Shutdown` -/
  shut : Bool := false
deriving DecidableEq, Repr

/-- `grpcConnectionPool.connections` -/
abbrev Pool := List (Str × Conn)

def Pool.keys (p : Pool) : List Str := p.map Prod.fst

def Pool.find (p : Pool) (k : Str) : Option Conn :=
  match p with
  | [] => none
  | (k', c) :: r => if k' = k then some c else Pool.find r k

/-- `p.connections[key] = conn` -/
def Pool.put (p : Pool) (k : Str) (c : Conn) : Pool :=
  match p with
  | [] => [(k, c)]
  | (k', c') :: r => if k' = k then (k, c) :: r else (k', c') :: Pool.put r k c

/-- the pooled connection of `k` turns to Shutdown (somebody closed it) -/
def Pool.shutKey (p : Pool) (k : Str) : Pool :=
  p.map fun kc => if kc.1 = k then (kc.1, { kc.2 with shut := true }) else kc

/-- every target URL string of a table (`hasTarget` walks hosts, routes, targets) -/
def tableURLs (t : Table) : List Str :=
  t.flatMap fun kv => kv.2.flatMap fun r => r.targets.map fun tg => tg.url

/-- one iteration of the `cleanup` loop body against the target URLs `urls` of the current table:
what stays in the pool … -/
def Pool.cleanup (p : Pool) (urls : List Str) : Pool :=
  p.filter fun kc => !kc.2.shut && urls.contains kc.1

/-- … and what is handed to the asynchronous closer (live, key not in the table). -/
def Pool.toClose (p : Pool) (urls : List Str) : List Conn :=
  (p.filter fun kc => !kc.2.shut && !urls.contains kc.1).map Prod.snd

/-- Outcome of `Get` as the caller can tell. -/
inductive GetRes where
  | reused (id : Nat)
  | dialled (id : Nat)
  | error
deriving DecidableEq, Repr

def GetRes.conn? : GetRes → Option Nat
  | .reused i => some i
  | .dialled i => some i
  | .error => none

/-- The world the pool lives in. `next` is the next fresh connection id (= number of successful dials),
`dialLog` every dial attempt, most recent first. -/
structure World where
  pool : Pool := []
  next : Nat := 0
  dialLog : List Str := []
  table : Table := []
deriving DecidableEq, Repr

/-- `Get` followed, on a miss, by `newConnection`. `dialOk` is what `grpc.DialContext` answers *if* it is
called (it is non-blocking: it fails only on bad options or a cancelled context). -/
def World.get (w : World) (k : Str) (dialOk : Bool) : World × GetRes :=
  match w.pool.find k with
  | some c =>
    if !c.shut then (w, .reused c.id)
    else if dialOk then
      ({ w with pool := w.pool.put k { id := w.next }, next := w.next + 1, dialLog := k :: w.dialLog }, .dialled w.next)
    else ({ w with dialLog := k :: w.dialLog }, .error)
  | none =>
    if dialOk then
      ({ w with pool := w.pool.put k { id := w.next }, next := w.next + 1, dialLog := k :: w.dialLog }, .dialled w.next)
    else ({ w with dialLog := k :: w.dialLog }, .error)

/-- What a caller of the proxy observes for one call, as far as routing and the pool go. -/
inductive CallRes where
  | status (code : Nat)          -- the interceptor answered by itself
  | proxied (key : Str) (r : GetRes)
deriving DecidableEq, Repr

/-- A call through interceptor and director. `lookup` is the table lookup under the *current* table and
returns the key (`URL.String()`) of the chosen target. -/
def World.call (parsePath : Str → Option Str) (lookup : Table → Str → Str → Option Str)
    (w : World) (hasMD : Bool) (md : MD) (method : Str) (dialOk : Bool) : World × CallRes :=
  match intercept parsePath (lookup w.table) hasMD md method with
  | .internal => (w, .status codeInternal)
  | .notFound => (w, .status codeNotFound)
  | .forward k =>
    let (w', r) := w.get k dialOk
    (w', .proxied k r)

/-- Events of a history. -/
inductive Event where
  | call (hasMD : Bool) (md : MD) (method : Str) (dialOk : Bool)
  | get (key : Str) (dialOk : Bool)        -- `pool.Get` directly (what the director does with a target)
  | shut (key : Str)
  | setTable (t : Table)
  | cleanup
deriving Repr

inductive Obs where
  | call (r : CallRes)
  | get (key : Str) (r : GetRes)
  | closed (cs : List Conn)
  | none
deriving DecidableEq, Repr

def World.step (parsePath : Str → Option Str) (lookup : Table → Str → Str → Option Str)
    (w : World) : Event → World × Obs
  | .call h md m d => let (w', r) := w.call parsePath lookup h md m d; (w', .call r)
  | .get k d => let (w', r) := w.get k d; (w', .get k r)
  | .shut k => ({ w with pool := w.pool.shutKey k }, .none)
  | .setTable t => ({ w with table := t }, .none)
  | .cleanup => ({ w with pool := w.pool.cleanup (tableURLs w.table) }, .closed (w.pool.toClose (tableURLs w.table)))

def World.run (parsePath : Str → Option Str) (lookup : Table → Str → Str → Option Str)
    (w : World) : List Event → World × List Obs
  | [] => (w, [])
  | e :: es =>
    let (w', o) := w.step parsePath lookup e
    let (w'', os) := World.run parsePath lookup w' es
    (w'', o :: os)

/-- the key of an observation that reached the pool, with its result -/
def Obs.poolRes : Obs → Option (Str × GetRes)
  | .call (.proxied k r) => some (k, r)
  | .get k r => some (k, r)
  | _ => Option.none

/-- "the backend `k` stays": at every cleanup in the history the then-current table still has `k`, and
nobody closes the pooled connection of `k`. (Table changes that remove `k` and put it back before a
cleanup looks are allowed — the code only looks at cleanup time.) -/
def keeps (parsePath : Str → Option Str) (lookup : Table → Str → Str → Option Str) (k : Str) :
    World → List Event → Prop
  | _, [] => True
  | w, e :: es =>
    (match e with
     | .cleanup => (tableURLs w.table).contains k = true
     | .shut k' => k' ≠ k
     | _ => True) ∧ keeps parsePath lookup k (w.step parsePath lookup e).1 es

/-! ## Two first calls racing for one key

`Get` is not atomic: it reads under the read lock, releases it, dials, then takes the write lock to store.
Per thread the micro-steps are `read` (→ hit: done; miss: go on), `dial`, `set`.  `Set` (as repaired by
`fix: concurrent first gRPC calls leaked a backend connection`) keeps a usable connection that a concurrent
caller stored meanwhile, closes the newcomer and hands the pooled one back; the original `Set` overwrote
unconditionally (`fixed := false`). -/
namespace Race

inductive TState where
  | start
  | missed
  | dialled (id : Nat)
  | done (r : GetRes)
deriving DecidableEq, Repr

structure State where
  pool : Pool := []
  next : Nat := 0
  /-- connections closed by `Set` -/
  closed : List Nat := []
  a : TState := .start
  b : TState := .start
deriving DecidableEq, Repr

/-- one micro-step of a thread working on key `k` (dial always succeeds here) -/
def tstep (fixed : Bool) (k : Str) (pool : Pool) (next : Nat) (closed : List Nat) : TState → Pool × Nat × List Nat × TState
  | .start =>
    match pool.find k with
    | some c => if !c.shut then (pool, next, closed, .done (.reused c.id)) else (pool, next, closed, .missed)
    | none => (pool, next, closed, .missed)
  | .missed => (pool, next + 1, closed, .dialled next)
  | .dialled id =>
    match pool.find k with
    | some c =>
      if fixed && !c.shut then (pool, next, closed ++ [id], .done (.reused c.id))
      else (pool.put k { id := id }, next, closed, .done (.dialled id))
    | none => (pool.put k { id := id }, next, closed, .done (.dialled id))
  | .done r => (pool, next, closed, .done r)

/-- `false` schedules thread a, `true` thread b -/
def step (fixed : Bool) (k : Str) (s : State) (who : Bool) : State :=
  if who then
    let (p, n, c, t) := tstep fixed k s.pool s.next s.closed s.b
    { s with pool := p, next := n, closed := c, b := t }
  else
    let (p, n, c, t) := tstep fixed k s.pool s.next s.closed s.a
    { s with pool := p, next := n, closed := c, a := t }

def run (fixed : Bool) (k : Str) (s : State) (sched : List Bool) : State := sched.foldl (step fixed k) s

/-- the state after running a schedule from the empty pool (current code) -/
def final (k : Str) (sched : List Bool) : State := run true k {} sched

/-- … and with the original, unconditional `Set` -/
def finalOld (k : Str) (sched : List Bool) : State := run false k {} sched

/-- all schedules of length `n` -/
def schedules : Nat → List (List Bool)
  | 0 => [[]]
  | n + 1 => (schedules n).flatMap fun s => [false :: s, true :: s]

def isDone : TState → Bool
  | .done _ => true
  | _ => false

def connOf : TState → Option Nat
  | .done r => r.conn?
  | _ => none

/-- connections that were dialled, are still open, and are not in the pool: nobody will ever close them -/
def orphans (s : State) : List Nat :=
  (List.range s.next).filter fun i => !(s.pool.any fun kc => kc.2.id == i) && !s.closed.contains i

end Race

/-! ## Specification of transparency over recorded observations

Metadata values are compared as text (binary `-bin` values hex-encoded by the harness on both sides);
messages are shipped as hex strings and compared as protobuf field sequences (`Wire`). -/
namespace Spec

abbrev SMD := List (String × List String)

def smdGet (md : SMD) (k : String) : List String :=
  match md with
  | [] => []
  | (k', vs) :: r => if k' = k then vs else smdGet r k

/-- every key of `sent` arrives with exactly the values sent, in order -/
def mdCarried (sent got : SMD) : Bool :=
  sent.all fun kv => smdGet got kv.1 == smdGet sent kv.1

structure BackendSaw where
  method : String
  md : SMD
  msgs : List String
deriving Repr

structure BackendDid where
  header : SMD
  msgs : List String
  trailer : SMD
  code : Nat
  message : String
deriving Repr

structure CallerSaw where
  header : SMD
  msgs : List String
  trailer : SMD
  code : Nat
  message : String
deriving Repr

/-! ### messages are compared as protobuf messages

A message is its sequence of fields — (field number, wire type, value) in order, unknown fields included.
Two encodings of the same sequence (a tag or a varint written with more bytes than necessary) are the same
message; a dropped, duplicated, reordered or altered field is not.  `canon` decodes the wire format into a
flat token list from which the field sequence can be read back: per field `num, wiretype,` then the varint's
numeric value / the 8 or 4 fixed bytes / `len, payload bytes…` / the tokens of the group's fields followed by
`num, 4`. -/
namespace Wire

def hexVal (c : Char) : Option Nat :=
  if '0' ≤ c ∧ c ≤ '9' then some (c.toNat - '0'.toNat)
  else if 'a' ≤ c ∧ c ≤ 'f' then some (c.toNat - 'a'.toNat + 10)
  else if 'A' ≤ c ∧ c ≤ 'F' then some (c.toNat - 'A'.toNat + 10)
  else none

def unhex : List Char → Option (List Nat)
  | [] => some []
  | [_] => none
  | a :: b :: r =>
    match hexVal a, hexVal b, unhex r with
    | some x, some y, some t => some ((16 * x + y) :: t)
    | _, _, _ => none

/-- base-128 varint, at most ten bytes; any number of leading-zero groups is accepted -/
def varintGo : Nat → Nat → Nat → List Nat → Option (Nat × List Nat)
  | 0, _, _, _ => none
  | _ + 1, _, _, [] => none
  | n + 1, shift, acc, b :: r =>
    let acc := acc + (b % 128) * 2 ^ shift
    if b < 128 then some (acc, r) else varintGo n (shift + 7) acc r

def varint (bs : List Nat) : Option (Nat × List Nat) := varintGo 10 0 0 bs

/-- fields up to the end of input (`grp = none`) or up to the end-group tag of field `g` (`grp = some g`) -/
def parse : Nat → List Nat → Option Nat → Option (List Nat × List Nat)
  | 0, _, _ => none
  | _ + 1, [], none => some ([], [])
  | _ + 1, [], some _ => none
  | fuel + 1, bs, grp =>
    match varint bs with
    | none => none
    | some (tag, r) =>
      let num := tag / 8
      let wt := tag % 8
      if num = 0 then none
      else if wt = 4 then (if grp = some num then some ([num, 4], r) else none)
      else
        let val : Option (List Nat × List Nat) :=
          if wt = 0 then (varint r).map fun vr => ([vr.1], vr.2)
          else if wt = 1 then (if 8 ≤ r.length then some (r.take 8, r.drop 8) else none)
          else if wt = 5 then (if 4 ≤ r.length then some (r.take 4, r.drop 4) else none)
          else if wt = 2 then
            match varint r with
            | none => none
            | some (n, r') => if n ≤ r'.length then some (n :: r'.take n, r'.drop n) else none
          else if wt = 3 then parse fuel r (some num)
          else none
        match val with
        | none => none
        | some (vt, r') =>
          match parse fuel r' grp with
          | none => none
          | some (rest, r'') => some (num :: wt :: vt ++ rest, r'')

/-- the field sequence of a hex-encoded message; `none` when it is not well-formed wire format -/
def canon (hex : String) : Option (List Nat) :=
  match unhex hex.toList with
  | none => none
  | some bs =>
    match parse (bs.length + 1) bs none with
    | some (toks, []) => some toks
    | _ => none

/-- same protobuf message (same field sequence); byte equality for anything that is not wire format -/
def sameMsg (a b : String) : Bool :=
  a == b ||
  match canon a, canon b with
  | some x, some y => x == y
  | _, _ => false

def sameMsgs : List String → List String → Bool
  | [], [] => true
  | a :: as, b :: bs => sameMsg a b && sameMsgs as bs
  | _, _ => false

end Wire

/-- the backend receives the caller's method, messages and custom metadata in order and unmodified -/
def forwardOK (method : String) (sentMD : SMD) (sentMsgs : List String) (b : BackendSaw) : Bool :=
  b.method == method && Wire.sameMsgs b.msgs sentMsgs && mdCarried sentMD b.md

/-- the caller receives the backend's messages, trailers, final status code and message, and its headers
whenever it sends at least one message -/
def backwardOK (d : BackendDid) (c : CallerSaw) : Bool :=
  Wire.sameMsgs c.msgs d.msgs && mdCarried d.trailer c.trailer && c.code == d.code && c.message == d.message
    && (d.msgs.isEmpty || mdCarried d.header c.header)

end Spec

end Fabio.Model.C16
