import Fabio.Model.C02
/-!
C02, round 4 — the custom backend's poll loop as the WRITER THREAD of the cell machine (core Lean).

`Model/C02.lean` has the poll loop as a sequential machine on the active table (`customStep`, `customRun`) and the
cell with readers and writers under every schedule, but the two were only connected for the text backends
(`WB.installs`, `Props/C02Compose.lean`). Here the `route.SetTable` calls of the poll loop are listed — INCLUDING the
`SetTable(nil)` calls the loop makes after a document that does not build or is `null` (it relies on `SetTable`
ignoring nil) — so that they can be handed to the cell machine as the program of its one writer.
-/
namespace Fabio.Model.C02Custom
open Fabio Fabio.Model.C02

/-- The `route.SetTable` call one poll of the repaired `customRoutes` ends with: `none` = no call (transport, status
or decode error: `continue`), `some none` = `SetTable(nil)` (`NewTableCustom` returned `nil, err`: the document was
`null` or did not build — the call is made unconditionally), `some (some t)` = `SetTable(t)`. -/
def callOf {T D} (buildDefs : D → Option T) : Poll D → Option (Option T)
  | .httpError => none
  | .decodeError => none
  | .null => some none
  | .defs ds => some (buildDefs ds)

/-- the `SetTable` calls of a poll history, in order: the program of the poll goroutine as a writer of the cell -/
def calls {T D} (buildDefs : D → Option T) (ps : List (Poll D)) : List (Option T) := ps.filterMap (callOf buildDefs)

/-- the specification of a poll history on the active table: the table of the last document that builds -/
def lastGoodPoll {T D} (buildDefs : D → Option T) (a : T) (ps : List (Poll D)) : T :=
  ps.foldl (fun a p => match p with
    | .defs ds => (buildDefs ds).getD a
    | _ => a) a

end Fabio.Model.C02Custom
