import Fabio.Model.C01
import Fabio.Lemmas.C01
/-!
C01 — "Routing table holds exactly the healthy, tagged service instances".

Theorems (all for every list of checks, both `checksRequired` modes, every accepted-status list, every
finite event history; no bounds):

* `passing_iff`, `passing_sublist`           — `passingServices` decides exactly the English rule `HealthyAt`.
* `filter_mem_iff`, `filter_keeps_node_checks`, `prefix_filter_keeps_node_checks`,
  `untagged_dropped`                         — `checksWithTagPrefix` does not change the verdict of a tagged instance.
* `keyDot_not_injective`, `keyDot_join_admits_unhealthy`, `keyDot_injective_partial`,
  `instance_key_injective`, `joined_iff`     — the join key (D01: the key of the code before the repair is not
                                               injective; the repaired key is).
* `instance_routed_iff`                      — composition: a catalog instance is handed to the route-command
                                               builder iff it has a service check and is `HealthyAt`.
* `keeps_last_good`, `next_valid_applied`, `run_inv`, `quiescent_table`, `installed_from_latest`,
  `unhealthy_absent_after`                   — the `watchBackend` step machine.
-/
namespace Fabio.Props.C01
open Fabio.Model.C01 Fabio.Lemmas.C01

/-! ### `passingServices` -/

/-- `passingServices` returns exactly the service checks of the instances that are healthy under the
configured rule. -/
theorem passing_iff (cs : List Check) (st : List Str) (strict : Bool) (c : Check) :
    c ∈ passingServices cs st strict ↔
      c ∈ cs ∧ isServiceCheck c = true ∧ HealthyAt cs st strict c.node c.serviceID := by
  unfold passingServices
  rw [List.mem_filter, keep_iff]

/-- … in input order, without duplication beyond the input's own. -/
theorem passing_sublist (cs : List Check) (st : List Str) (strict : Bool) :
    List.Sublist (passingServices cs st strict) cs := List.filter_sublist

example : passingServices
    [{ node := "n1".toList, checkID := "service:a".toList, serviceID := "a".toList, status := "passing".toList },
     { node := "n1".toList, checkID := "serfHealth".toList, serviceID := [], status := "passing".toList },
     { node := "n2".toList, checkID := "service:a".toList, serviceID := "a".toList, status := "passing".toList },
     { node := "n2".toList, checkID := "serfHealth".toList, serviceID := [], status := "critical".toList }]
    ["passing".toList] false =
    [{ node := "n1".toList, checkID := "service:a".toList, serviceID := "a".toList, status := "passing".toList }] := by
  decide

/-- the rule is satisfiable and refutable: strict mode rejects a service with one warning check that the
non-strict mode accepts -/
example :
    HealthyAt [{ node := "n".toList, checkID := "c1".toList, serviceID := "a".toList, status := "passing".toList },
               { node := "n".toList, checkID := "c2".toList, serviceID := "a".toList, status := "warning".toList }]
      ["passing".toList] false "n".toList "a".toList := by
  decide

example :
    ¬ HealthyAt [{ node := "n".toList, checkID := "c1".toList, serviceID := "a".toList, status := "passing".toList },
               { node := "n".toList, checkID := "c2".toList, serviceID := "a".toList, status := "warning".toList }]
      ["passing".toList] true "n".toList "a".toList :=
  fun h => absurd ((keep_iff _ _ true
      { node := "n".toList, checkID := "c1".toList, serviceID := "a".toList, status := "passing".toList }).2
      ⟨by decide, h⟩) (by decide)

/-! ### `checksWithTagPrefix` -/

theorem filter_mem_iff (pfx : Str) (cs : List Check) (c : Check) :
    c ∈ checksWithTagPrefix pfx cs ↔ c ∈ cs ∧ (isNodeOrMaint c = true ∨ hasTagPrefix pfx c = true) := by
  unfold checksWithTagPrefix
  rw [List.mem_filter, Bool.or_eq_true]

/-- serf, node-maintenance and service-maintenance checks are never dropped. -/
theorem filter_keeps_node_checks (pfx : Str) (cs : List Check) (c : Check) (hc : c ∈ cs)
    (h : c.checkID = serf ∨ c.checkID = nodeMaint ∨ ∃ id, c.checkID = svcMaintPfx ++ id) :
    c ∈ checksWithTagPrefix pfx cs := by
  rw [filter_mem_iff]
  refine ⟨hc, Or.inl ?_⟩
  unfold isNodeOrMaint
  rcases h with h | h | ⟨id, h⟩
  · simp [h]
  · simp [h]
  · have : svcMaintNoColon.isPrefixOf c.checkID = true := by
      have e : svcMaintPfx = svcMaintNoColon ++ [':'] := by decide
      rw [h, e, List.isPrefixOf_iff_prefix]
      exact ⟨':' :: id, by rw [List.append_assoc]; rfl⟩
    simp [this]

/-- The prefix filter does not change the verdict for an instance all of whose checks survive it.
The hypothesis `hT` is what "tagged service" has to mean for the filter to be harmless: every check of the
instance carries a tag with the prefix (Consul copies the *service's* tags into `ServiceTags` of each of its
checks, so all checks of one instance share them) or is a maintenance check. Without it the strict-mode
count would lose the dropped checks; that situation cannot arise from a Consul registry and is excluded by
this hypothesis, not by the code. -/
theorem prefix_filter_keeps_node_checks (pfx : Str) (cs : List Check) (st : List Str) (strict : Bool)
    (node id : Str)
    (hT : ∀ c ∈ cs, c.node = node → c.serviceID = id → isNodeOrMaint c = true ∨ hasTagPrefix pfx c = true) :
    HealthyAt (checksWithTagPrefix pfx cs) st strict node id ↔ HealthyAt cs st strict node id := by
  unfold HealthyAt
  have sub : ∀ c, c ∈ checksWithTagPrefix pfx cs → c ∈ cs := fun c h => ((filter_mem_iff pfx cs c).1 h).1
  constructor
  · rintro ⟨⟨c, hc, h1, h2, h3⟩, hs, ha, hb, hd⟩
    refine ⟨⟨c, sub c hc, h1, h2, h3⟩, ?_, ?_, ?_, ?_⟩
    · intro hstrict c hc h1 h2
      exact hs hstrict c ((filter_mem_iff pfx cs c).2 ⟨hc, hT c hc h1 h2⟩) h1 h2
    · intro c hc hn hcrit
      exact ha c (filter_keeps_node_checks pfx cs c hc (Or.inl hcrit.1)) hn hcrit
    · intro c hc hn hm
      exact hb c (filter_keeps_node_checks pfx cs c hc (Or.inr (Or.inl hm))) hn hm
    · intro c hc hn hcrit
      exact hd c (filter_keeps_node_checks pfx cs c hc (Or.inr (Or.inr ⟨id, hcrit.1⟩))) hn hcrit
  · rintro ⟨⟨c, hc, h1, h2, h3⟩, hs, ha, hb, hd⟩
    refine ⟨⟨c, (filter_mem_iff pfx cs c).2 ⟨hc, hT c hc h1 h2⟩, h1, h2, h3⟩, ?_, ?_, ?_, ?_⟩
    · intro hstrict c hc; exact hs hstrict c (sub c hc)
    · intro c hc; exact ha c (sub c hc)
    · intro c hc; exact hb c (sub c hc)
    · intro c hc; exact hd c (sub c hc)

/-- the passing check of an instance whose routing tag has a blank in front of the prefix -/
def d27Check : Check :=
  { node := "n1".toList, checkID := "service:web-1".toList, serviceID := "web-1".toList,
    serviceName := "web".toList, status := "passing".toList, tags := [" urlprefix-/web".toList] }

/-- **D27** (repaired): the filter of the code before the repair tested the tag as it stands. For an instance whose
only routing tag has a blank in front of the prefix — a tag `routecmd.build` reads as a routing tag, since it trims —
the passing check is dropped by that test, so the healthy, advertising instance is not healthy over the filtered
list; with the repaired test (`hasTagPrefix`, trimmed) it is. -/
theorem raw_prefix_test_drops_advertising_instance :
    let c : Check := d27Check
    hasTagPrefixRaw "urlprefix-".toList c = false ∧ hasTagPrefix "urlprefix-".toList c = true ∧
    HealthyAt [c] ["passing".toList] false c.node c.serviceID ∧
    ¬ HealthyAt ([c].filter (fun c => isNodeOrMaint c || hasTagPrefixRaw "urlprefix-".toList c))
        ["passing".toList] false c.node c.serviceID ∧
    HealthyAt (checksWithTagPrefix "urlprefix-".toList [c]) ["passing".toList] false c.node c.serviceID := by
  decide

/-- An instance none of whose checks carries the prefix (and none is a maintenance check) has no check left
after the filter, hence is not healthy over the filtered list: untagged services never reach `makeConfig`. -/
theorem untagged_dropped (pfx : Str) (cs : List Check) (st : List Str) (strict : Bool) (node id : Str)
    (hU : ∀ c ∈ cs, c.node = node → c.serviceID = id → isNodeOrMaint c = false ∧ hasTagPrefix pfx c = false) :
    ¬ HealthyAt (checksWithTagPrefix pfx cs) st strict node id := by
  rintro ⟨⟨c, hc, h1, h2, _⟩, _⟩
  obtain ⟨hc', hk⟩ := (filter_mem_iff pfx cs c).1 hc
  obtain ⟨u1, u2⟩ := hU c hc' h1 h2
  rcases hk with hk | hk
  · rw [u1] at hk; exact Bool.false_ne_true hk
  · rw [u2] at hk; exact Bool.false_ne_true hk

example : checksWithTagPrefix "urlprefix-".toList
    [{ node := "n".toList, checkID := "serfHealth".toList, serviceID := [], status := "passing".toList },
     { node := "n".toList, checkID := "c1".toList, serviceID := "a".toList, status := "passing".toList, tags := ["urlprefix-/a".toList] },
     { node := "n".toList, checkID := "c2".toList, serviceID := "b".toList, status := "passing".toList, tags := ["x".toList] }] =
    [{ node := "n".toList, checkID := "serfHealth".toList, serviceID := [], status := "passing".toList },
     { node := "n".toList, checkID := "c1".toList, serviceID := "a".toList, status := "passing".toList, tags := ["urlprefix-/a".toList] }] := by
  decide

/-! ### The join key (D01) -/

/-- FULL STATEMENT (false of the code before the repair of D01):
    `∀ n i n' i', keyDot n i = keyDot n' i' → n = n' ∧ i = i'`.
The key `node + "." + serviceID` does not identify the instance: -/
theorem keyDot_not_injective :
    ∃ n i n' i', keyDot n i = keyDot n' i' ∧ ¬ (n = n' ∧ i = i') :=
  ⟨"n1".toList, "x.y".toList, "n1.x".toList, "y".toList, by decide, by decide⟩

/-- … and the collision has the consequence D01 describes: with the dotted key, the join hands the *critical*
instance (`n1.x`, `y`) to the route builder because the passing instance (`n1`, `x.y`) has the same key. -/
theorem keyDot_join_admits_unhealthy :
    let cs : List Check :=
      [{ node := "n1".toList, checkID := "c1".toList, serviceID := "x.y".toList, serviceName := "s".toList, status := "passing".toList },
       { node := "n1.x".toList, checkID := "c2".toList, serviceID := "y".toList, serviceName := "s".toList, status := "critical".toList }]
    let bad : Instance := { node := "n1.x".toList, serviceID := "y".toList, serviceName := "s".toList }
    let catalog : Str → List Instance := fun _ => [{ node := "n1".toList, serviceID := "x.y".toList, serviceName := "s".toList }, bad]
    ¬ HealthyAt cs ["passing".toList] false bad.node bad.serviceID ∧
    bad ∈ joined keyDot (passingServices cs ["passing".toList] false) catalog "s".toList ∧
    bad ∉ joined keyPair (passingServices cs ["passing".toList] false) catalog "s".toList := by
  decide

/-- The dotted key is injective only under the forced hypothesis that node names contain no `.`. -/
theorem keyDot_injective_partial (n i n' i' : Str) (hn : '.' ∉ n) (hn' : '.' ∉ n')
    (h : keyDot n i = keyDot n' i') : n = n' ∧ i = i' := by
  unfold keyDot at h
  induction n generalizing n' with
  | nil =>
    cases n' with
    | nil => simpa using h
    | cons y ys =>
      simp only [List.nil_append, List.cons_append, List.cons.injEq] at h
      exact absurd (by rw [← h.1]; exact List.mem_cons_self) hn'
  | cons x xs ih =>
    cases n' with
    | nil =>
      simp only [List.nil_append, List.cons_append, List.cons.injEq] at h
      exact absurd (by rw [h.1]; exact List.mem_cons_self) hn
    | cons y ys =>
      simp only [List.cons_append, List.cons.injEq] at h
      have hx : '.' ∉ xs := fun hm => hn (List.mem_cons_of_mem _ hm)
      have hy : '.' ∉ ys := fun hm => hn' (List.mem_cons_of_mem _ hm)
      obtain ⟨r1, r2⟩ := ih ys hx hy h.2
      exact ⟨by rw [h.1, r1], r2⟩

/-- The repaired key (the pair) identifies the instance. -/
theorem instance_key_injective (n i n' i' : Str) (h : keyPair n i = keyPair n' i') : n = n' ∧ i = i' := by
  unfold keyPair at h
  exact ⟨congrArg Prod.fst h, congrArg Prod.snd h⟩

/-- With an injective key the join selects exactly the catalog entries that have a passing check. -/
theorem joined_iff {κ : Type} [BEq κ] [LawfulBEq κ] (key : Str → Str → κ)
    (hinj : ∀ n i n' i', key n i = key n' i' → n = n' ∧ i = i')
    (passing : List Check) (catalog : Str → List Instance) (name : Str) (i : Instance) :
    i ∈ joined key passing catalog name ↔
      name ≠ [] ∧ i ∈ catalog name ∧
      ∃ c ∈ passing, c.serviceName = name ∧ c.node = i.node ∧ c.serviceID = i.serviceID := by
  unfold joined
  by_cases hname : name = []
  · simp [hname]
  · have : name.isEmpty = false := by cases name <;> simp_all
    simp only [this, Bool.false_eq_true, if_false, List.mem_filter, List.contains_iff_mem, passingKeys,
      List.mem_map, beq_iff_eq, ne_eq, hname, not_false_eq_true, true_and]
    constructor
    · rintro ⟨hi, c, ⟨hc, hn⟩, hk⟩
      obtain ⟨k1, k2⟩ := hinj _ _ _ _ hk
      exact ⟨hi, c, hc, hn, k1, k2⟩
    · rintro ⟨hi, c, hc, hn, k1, k2⟩
      exact ⟨hi, c, ⟨hc, hn⟩, by rw [k1, k2]⟩

/-- Composition for the repaired tree: what `Watch` hands to the route-command builder for service `name`
is exactly the set of catalog entries that have a service check of that name and are healthy under the
rule evaluated on the *unfiltered* checks — for instances whose checks all carry the tag prefix
(hypothesis `hT`, see `prefix_filter_keeps_node_checks`). -/
theorem instance_routed_iff (pfx : Str) (cs : List Check) (st : List Str) (strict : Bool)
    (catalog : Str → List Instance) (name : Str) (i : Instance)
    (hT : ∀ c ∈ cs, c.node = i.node → c.serviceID = i.serviceID → hasTagPrefix pfx c = true) :
    i ∈ joined keyPair (passingServices (checksWithTagPrefix pfx cs) st strict) catalog name ↔
      name ≠ [] ∧ i ∈ catalog name ∧
      (∃ c ∈ cs, c.serviceName = name ∧ c.node = i.node ∧ c.serviceID = i.serviceID ∧ isServiceCheck c = true) ∧
      HealthyAt cs st strict i.node i.serviceID := by
  rw [joined_iff keyPair instance_key_injective]
  have hT' : ∀ c ∈ cs, c.node = i.node → c.serviceID = i.serviceID →
      isNodeOrMaint c = true ∨ hasTagPrefix pfx c = true := fun c hc h1 h2 => Or.inr (hT c hc h1 h2)
  have hpf := prefix_filter_keeps_node_checks pfx cs st strict i.node i.serviceID hT'
  constructor
  · rintro ⟨hn, hi, c, hc, hname, h1, h2⟩
    obtain ⟨hcf, hsc, hH⟩ := (passing_iff _ st strict c).1 hc
    rw [h1, h2] at hH
    exact ⟨hn, hi, ⟨c, ((filter_mem_iff pfx cs c).1 hcf).1, hname, h1, h2, hsc⟩, hpf.1 hH⟩
  · rintro ⟨hn, hi, ⟨c, hc, hname, h1, h2, hsc⟩, hH⟩
    refine ⟨hn, hi, c, ?_, hname, h1, h2⟩
    rw [passing_iff]
    refine ⟨(filter_mem_iff pfx cs c).2 ⟨hc, Or.inr (hT c hc h1 h2)⟩, hsc, ?_⟩
    rw [h1, h2]
    exact hpf.2 hH

example : joined keyPair
    [{ node := "n".toList, checkID := "c".toList, serviceID := "a-1".toList, serviceName := "a".toList, status := "passing".toList }]
    (fun _ => [{ node := "n".toList, serviceID := "a-1".toList, serviceName := "a".toList },
               { node := "m".toList, serviceID := "a-1".toList, serviceName := "a".toList }]) "a".toList =
    [{ node := "n".toList, serviceID := "a-1".toList, serviceName := "a".toList }] := by decide

/-! ### failing catalog lookups -/

theorem mem_insertDesc (x : Str) (l : List Str) (y : Str) : y ∈ insertDesc x l ↔ y = x ∨ y ∈ l := by
  induction l with
  | nil => simp [insertDesc]
  | cons z zs ih =>
    unfold insertDesc
    split
    · simp
    · simp only [List.mem_cons, ih]
      constructor
      · rintro (h | h | h)
        · exact .inr (.inl h)
        · exact .inl h
        · exact .inr (.inr h)
      · rintro (h | h | h)
        · exact .inr (.inl h)
        · exact .inl h
        · exact .inr (.inr h)

theorem mem_sortDesc (l : List Str) (y : Str) : y ∈ sortDesc l ↔ y ∈ l := by
  unfold sortDesc
  induction l with
  | nil => simp
  | cons x xs ih => rw [List.foldr_cons, mem_insertDesc, ih]; simp

/-- without failures the faulty round is the ordinary one -/
theorem watchOnceF_no_faults {κ : Type} [BEq κ] (key : Str → Str → κ) (cmds : Instance → List Str) (pfx : Str)
    (st : List Str) (strict : Bool) (checks : List Check) (catalog : Str → List Instance) :
    watchOnceF (fun _ => false) key cmds pfx st strict checks catalog =
      watchOnce key cmds pfx st strict checks catalog := rfl

/-- Whatever lookups fail, every line of the emitted text is a command of a catalog entry that the join selected
in *this* round, for a service whose lookup succeeded. -/
theorem fault_lines_from_joined {κ : Type} [BEq κ] (fails : Str → Bool) (key : Str → Str → κ)
    (cmds : Instance → List Str) (pfx : Str) (st : List Str) (strict : Bool) (checks : List Check)
    (catalog : Str → List Instance) (l : Str)
    (h : l ∈ watchOnceF fails key cmds pfx st strict checks catalog) :
    ∃ name i, fails name = false ∧
      i ∈ joined key (passingServices (checksWithTagPrefix pfx checks) st strict) catalog name ∧ l ∈ cmds i := by
  unfold watchOnceF makeConfigLinesF at h
  rw [mem_sortDesc, List.mem_flatMap] at h
  obtain ⟨name, _, h2⟩ := h
  rw [List.mem_flatMap] at h2
  obtain ⟨i, hi, hl⟩ := h2
  unfold joinedF at hi
  by_cases hf : fails name = true
  · simp [hf] at hi
  · have hf' : fails name = false := by simpa using hf
    rw [hf'] at hi
    exact ⟨name, i, hf', hi, hl⟩

/-- a failed lookup only removes lines -/
theorem fault_only_removes {κ : Type} [BEq κ] (fails : Str → Bool) (key : Str → Str → κ)
    (cmds : Instance → List Str) (pfx : Str) (st : List Str) (strict : Bool) (checks : List Check)
    (catalog : Str → List Instance) (l : Str)
    (h : l ∈ watchOnceF fails key cmds pfx st strict checks catalog) :
    l ∈ watchOnce key cmds pfx st strict checks catalog := by
  unfold watchOnceF makeConfigLinesF at h
  unfold watchOnce makeConfigLines
  rw [mem_sortDesc, List.mem_flatMap] at h ⊢
  obtain ⟨name, h1, h2⟩ := h
  refine ⟨name, h1, ?_⟩
  rw [List.mem_flatMap] at h2 ⊢
  obtain ⟨i, hi, hl⟩ := h2
  unfold joinedF at hi
  by_cases hf : fails name = true
  · simp [hf] at hi
  · have hf' : fails name = false := by simpa using hf
    rw [hf'] at hi
    exact ⟨i, hi, hl⟩

/-- **A failed catalog lookup never admits an unhealthy instance** (model level, any `routecmd.build`): every line
of the text emitted in a round — whatever lookups fail in it — is a command of a catalog entry that has a service
check and is `HealthyAt` in the registry state *this* text was built from (for tagged instances, hypothesis `hT`
as in `instance_routed_iff`). -/
theorem fault_never_admits_unhealthy_lines (fails : Str → Bool) (cmds : Instance → List Str) (pfx : Str)
    (st : List Str) (strict : Bool) (checks : List Check) (catalog : Str → List Instance)
    (hT : ∀ name, ∀ i ∈ catalog name, ∀ c ∈ checks, c.node = i.node → c.serviceID = i.serviceID →
      hasTagPrefix pfx c = true)
    (l : Str) (h : l ∈ watchOnceF fails keyPair cmds pfx st strict checks catalog) :
    ∃ name i, i ∈ catalog name ∧ l ∈ cmds i ∧
      (∃ c ∈ checks, c.serviceName = name ∧ c.node = i.node ∧ c.serviceID = i.serviceID ∧ isServiceCheck c = true) ∧
      HealthyAt checks st strict i.node i.serviceID := by
  obtain ⟨name, i, _, hj, hl⟩ := fault_lines_from_joined fails keyPair cmds pfx st strict checks catalog l h
  have hcat := ((joined_iff keyPair instance_key_injective _ catalog name i).1 hj).2.1
  obtain ⟨_, _, h3, h4⟩ := (instance_routed_iff pfx checks st strict catalog name i (hT name i hcat)).1 hj
  exact ⟨name, i, hcat, hl, h3, h4⟩

/-! ### `watchBackend` -/

section machine
variable {T : Type} (build : Str → Option T)

/-- the loop invariant: once a table text has been accepted, the active table is the one built from it -/
def Inv (s : State T) : Prop := s.lastTable = [] ∨ build s.lastTable = some s.active

/-- the text the iteration that consumes `e` in state `s` tries to build -/
def textAfter (s : State T) (e : Event) : Str := concatCfg (receive s e).svccfg (receive s e).mancfg

theorem concat_ne_nil (a b : Str) : concatCfg a b ≠ [] := by
  unfold concatCfg; cases a <;> simp

theorem init_inv (t0 : T) : Inv build (init t0) := Or.inl rfl

/-- A text that fails to build changes neither the active table nor the remembered text: the last good
table keeps serving. -/
theorem keeps_last_good (s : State T) (e : Event) (h : build (textAfter s e) = none) :
    (step build s e).active = s.active ∧ (step build s e).lastTable = s.lastTable ∧
    (stepOut build s e).2 = none := by
  unfold step stepOut
  unfold textAfter at h
  simp only
  split
  · cases e <;> simp [receive]
  · rw [h]; cases e <;> simp [receive]

theorem step_inv (s : State T) (e : Event) (hI : Inv build s) : Inv build (step build s e) := by
  unfold step stepOut
  simp only
  split
  · cases e <;> simpa [receive, Inv] using hI
  · split
    · cases e <;> simpa [receive, Inv] using hI
    · next t ht => right; simpa using ht

/-- An event whose concatenated text builds is always applied — whatever failed before, and also when the
text equals the one remembered (then the active table already is that table). -/
theorem next_valid_applied (s : State T) (e : Event) (t : T) (hI : Inv build s)
    (h : build (textAfter s e) = some t) : (step build s e).active = t := by
  unfold step stepOut
  unfold textAfter at h
  simp only
  split
  · next heq =>
    have heq' : concatCfg (receive s e).svccfg (receive s e).mancfg = (receive s e).lastTable := by
      simpa using heq
    have hl : (receive s e).lastTable = s.lastTable := by cases e <;> rfl
    have ha : (receive s e).active = s.active := by cases e <;> rfl
    rcases hI with h0 | hb
    · exact absurd (by rw [heq', hl, h0]) (concat_ne_nil _ _)
    · rw [heq', hl, hb] at h
      simp only [ha]
      exact Option.some.inj h
  · rw [h]

theorem run_inv (s : State T) (es : List Event) (hI : Inv build s) : Inv build (run build s es) := by
  unfold run
  induction es generalizing s with
  | nil => exact hI
  | cons e es ih => exact ih _ (step_inv build s e hI)

theorem step_svccfg (s : State T) (e : Event) : (step build s e).svccfg = (receive s e).svccfg := by
  unfold step stepOut
  simp only
  split
  · rfl
  · split <;> rfl

theorem step_mancfg (s : State T) (e : Event) : (step build s e).mancfg = (receive s e).mancfg := by
  unfold step stepOut
  simp only
  split
  · rfl
  · split <;> rfl

theorem run_svccfg_aux (s : State T) (es : List Event) (d : Str) (acc : Option Str)
    (h : acc.getD d = s.svccfg) :
    (es.foldl (fun acc e => match e with | .svc t => some t | .man _ => acc) acc).getD d =
      (run build s es).svccfg := by
  unfold run
  induction es generalizing s acc with
  | nil => exact h
  | cons e es ih =>
    simp only [List.foldl_cons]
    apply ih
    rw [step_svccfg]
    cases e with
    | svc t => rfl
    | man t => exact h

theorem run_mancfg_aux (s : State T) (es : List Event) (d : Str) (acc : Option Str)
    (h : acc.getD d = s.mancfg) :
    (es.foldl (fun acc e => match e with | .man t => some t | .svc _ => acc) acc).getD d =
      (run build s es).mancfg := by
  unfold run
  induction es generalizing s acc with
  | nil => exact h
  | cons e es ih =>
    simp only [List.foldl_cons]
    apply ih
    rw [step_mancfg]
    cases e with
    | man t => rfl
    | svc t => exact h

/-- after any history the two locals hold the texts of the last `svc` / `man` events -/
theorem run_svccfg (s : State T) (es : List Event) :
    (run build s es).svccfg = (lastSvc es).getD s.svccfg :=
  (run_svccfg_aux build s es s.svccfg none rfl).symm

theorem run_mancfg (s : State T) (es : List Event) :
    (run build s es).mancfg = (lastMan es).getD s.mancfg :=
  (run_mancfg_aux build s es s.mancfg none rfl).symm

/-- a state in which the current texts, if they build, are what is active -/
def Settled (s : State T) : Prop :=
  Inv build s ∧ ∀ t, build (concatCfg s.svccfg s.mancfg) = some t → s.active = t

theorem step_settled (s : State T) (e : Event) (hI : Inv build s) : Settled build (step build s e) := by
  refine ⟨step_inv build s e hI, ?_⟩
  intro t ht
  rw [step_svccfg, step_mancfg] at ht
  exact next_valid_applied build s e t hI ht

theorem run_settled (s : State T) (es : List Event) (hne : es ≠ []) (hI : Inv build s) :
    Settled build (run build s es) := by
  induction es generalizing s with
  | nil => exact absurd rfl hne
  | cons e es ih =>
    cases es with
    | nil => exact step_settled build s e hI
    | cons e' es' => exact ih (step build s e) (by simp) (step_inv build s e hI)

/-- **Quiescence.** For every finite event history (any interleaving, any stale or failing events before)
whose last `svc` event carries `S` and whose last `man` event carries `M` (an absent kind of event leaves
the start value), if `S ++ "\n" ++ M` builds, the active table is the table built from it: the service
routes with the operator's commands applied on top, in that order. -/
theorem quiescent_table (s0 : State T) (es : List Event) (S M : Str) (t : T)
    (hI : Inv build s0) (hne : es ≠ [])
    (hS : (lastSvc es).getD s0.svccfg = S) (hM : (lastMan es).getD s0.mancfg = M)
    (hb : build (concatCfg S M) = some t) :
    (run build s0 es).active = t := by
  obtain ⟨_, h⟩ := run_settled build s0 es hne hI
  apply h
  rw [run_svccfg, run_mancfg, hS, hM]
  exact hb

/-- Every table handed to `SetTable` by the iteration that follows history `es` and consumes `e` is built
from the most recent service text and the most recent manual text at that step, and is then active and
remembered. -/
theorem installed_from_latest (s0 : State T) (es : List Event) (e : Event) (t : T)
    (h : (stepOut build (run build s0 es) e).2 = some t) :
    build (concatCfg ((lastSvc (es ++ [e])).getD s0.svccfg) ((lastMan (es ++ [e])).getD s0.mancfg)) = some t ∧
    (run build s0 (es ++ [e])).active = t ∧
    (run build s0 (es ++ [e])).lastTable =
      concatCfg ((lastSvc (es ++ [e])).getD s0.svccfg) ((lastMan (es ++ [e])).getD s0.mancfg) := by
  rw [← run_svccfg build, ← run_mancfg build]
  have hrun : run build s0 (es ++ [e]) = step build (run build s0 es) e := by
    unfold run; rw [List.foldl_append]; rfl
  rw [hrun]
  generalize run build s0 es = s at h ⊢
  unfold step
  unfold stepOut at h ⊢
  simp only at h ⊢
  split at h
  · simp at h
  · next hne =>
    split at h
    · simp at h
    · next t' ht' =>
      simp only [Option.some.injEq] at h
      subst h
      simp only [hne, Bool.false_eq_true, if_false, ht']
      exact ⟨trivial, trivial, trivial⟩

/-- **An instance that has become unhealthy is absent from every table installed after that state was
observed.** Let `absent` be any property of tables that every table built from service text `S` has,
whatever the manual text (e.g. "no service route of instance i", which holds because `S` does not mention
`i`). Then every table installed by an iteration at or after the one that consumed `svc S`, up to the next
`svc` event (the history `later` contains manual events only), has the property. -/
theorem unhealthy_absent_after (absent : T → Prop) (s0 : State T) (before later : List Event) (e : Event)
    (S : Str) (t : T)
    (hS : ∀ M t, build (concatCfg S M) = some t → absent t)
    (hlater : lastSvc (before ++ [Event.svc S] ++ later ++ [e]) = some S)
    (h : (stepOut build (run build s0 (before ++ [Event.svc S] ++ later)) e).2 = some t) :
    absent t := by
  obtain ⟨hb, _, _⟩ := installed_from_latest build s0 _ e t h
  rw [hlater] at hb
  exact hS _ t hb

end machine

/-! non-vacuity of the machine theorems: a `build` that fails on some texts -/

/-- toy `NewTable`: fails on any text containing `!`, otherwise the table is the text itself -/
def toyBuild (s : Str) : Option Str := if s.contains '!' then none else some s

example :
    (run toyBuild (init []) [.svc "a".toList, .man "!".toList, .svc "b!".toList, .man "m".toList, .svc "c".toList]).active
      = "c\nm".toList := by decide

example :  -- a failing text keeps the last good table
    (run toyBuild (init []) [.svc "a".toList, .man "!".toList]).active = "a\n".toList := by decide

example : -- hypotheses of `quiescent_table` are satisfiable with stale and failing events before
    let es : List Event := [.svc "a!".toList, .man "x".toList, .svc "b".toList]
    es ≠ [] ∧ (lastSvc es).getD [] = "b".toList ∧ (lastMan es).getD [] = "x".toList ∧
    toyBuild (concatCfg "b".toList "x".toList) = some "b\nx".toList := by decide

example : -- `unhealthy_absent_after`: the hypothesis on `lastSvc` holds with manual events after the svc event
    lastSvc ([Event.svc "old".toList] ++ [Event.svc "S".toList] ++ [Event.man "m".toList] ++ [Event.man "k".toList])
      = some "S".toList := by decide

end Fabio.Props.C01
