import Fabio.Lemmas.C15
/-!
C15 — configuration means the same from every source, with fixed precedence: property theorems.

`resolveWith env name dflt s` is the body of `ParseFlags`' `VisitAll` callback for one flag, `envMap` its first
loop, `parseKVSlice` the lexer/parser of `kvslice.go`, `loadModel` = `load`, `runGlob` the index arithmetic of
`route.NewGlobCache` + `GlobCache.Get`.  Helper lemmas are in `Fabio/Lemmas/C15.lean`.
-/
namespace Fabio.Props.C15
open Fabio Fabio.Model.C15 Fabio.Lemmas.C15

/-- The specification of precedence for the prefix list `[p₁, p₂]`: the four candidate values in priority
order (command line, variable with the first prefix, variable with the second prefix, properties file),
the first one present wins, otherwise the default. -/
def expected (c e1 e2 p : Option Str) (dflt : Str) : Src × Str :=
  match c, e1, e2, p with
  | some v, _, _, _ => (.cmdline, v)
  | none, some v, _, _ => (.env 0, v)
  | none, none, some v, _ => (.env 1, v)
  | none, none, none, some v => (.props, v)
  | none, none, none, none => (.dflt, dflt)

/-- the last entry of the block whose name upper-cases to `key` (entries without `=` do not count) -/
def lastEntry (key : Str) : List Str → Option Str
  | [] => none
  | e :: es =>
    match lastEntry key es with
    | some v => some v
    | none =>
      match splitN2 e with
      | [k, v] => if upper k = key then some v else none
      | _ => none

/-- What the environment map answers: the value of the *last* entry with that (upper-cased) name. -/
theorem envMap_get (m m' : Map) (es : List Str) (key : Str) (h : envMap m es = .ok m') :
    m'.get key = (match lastEntry key es with | some v => some v | none => m.get key) := by
  induction es generalizing m with
  | nil => simp only [envMap] at h; cases h; simp [lastEntry]
  | cons e es ih =>
    obtain ⟨m1, h1⟩ := envStep_ok m e
    simp only [envMap, h1] at h
    rw [ih m1 h]
    simp only [lastEntry]
    cases hl : lastEntry key es with
    | some v => rfl
    | none =>
      simp only
      unfold envStep at h1
      simp only at h1
      match hs : splitN2 e with
      | [] => simp [hs] at h1; cases h1; rfl
      | [a] => simp [hs] at h1; cases h1; rfl
      | [k, v] =>
        simp [hs] at h1; cases h1
        by_cases hk : upper k = key
        · subst hk; simp [get_put_same]
        · simp [hk, get_put_other _ _ _ _ (fun e => hk e.symm)]
      | a :: b :: c :: t => simp [hs] at h1; cases h1; rfl

/-- **Precedence**, for every flag name, every default, every assignment of the sources: the value that
reaches the flag is the one of the highest-priority source that sets it — command line, then the variable
with the first prefix, then the variable with the second prefix, then the properties file, then the default. -/
theorem precedence (env : Map) (name dflt : Str) (s : Sources) (p1 p2 : Str) (hp : s.prefixes = [p1, p2]) :
    resolveWith env name dflt s =
      expected (cmdLookup name s.cmd) (env.get (envName p1 name)) (env.get (envName p2 name))
        (s.props.bind (fun p => p.get name)) dflt := by
  unfold resolveWith expected
  cases hc : cmdLookup name s.cmd with
  | some v => rfl
  | none =>
    simp only [hp, effPrefixes, List.isEmpty_cons]
    cases h1 : env.get (envName p1 name) with
    | some v => simp [envFirst, h1]
    | none =>
      cases h2 : env.get (envName p2 name) with
      | some v => simp [envFirst, h1, h2]
      | none =>
        cases hprops : s.props with
        | none => simp [envFirst, h1, h2]
        | some p =>
          cases hg : p.get name with
          | some v => simp [envFirst, h1, h2, hg]
          | none => simp [envFirst, h1, h2, hg]

/-- Precedence stated on the raw inputs of `Load`: the environment *block* is turned into the map first (never
a panic), a variable's value is that of its last entry, names compared after upper-casing. -/
theorem precedence_load (name dflt : Str) (s : Sources) (p1 p2 : Str) (hp : s.prefixes = [p1, p2]) :
    resolve name dflt s = .ok
      (expected (cmdLookup name s.cmd) (lastEntry (envName p1 name) s.environ)
        (lastEntry (envName p2 name) s.environ) (s.props.bind (fun p => p.get name)) dflt) := by
  obtain ⟨env, he⟩ := envMap_ok [] s.environ
  have hg : ∀ key, env.get key = lastEntry key s.environ := by
    intro key
    rw [envMap_get [] env s.environ key he]
    cases lastEntry key s.environ <;> simp [Map.get]
  simp only [resolve, he, precedence env name dflt s p1 p2 hp, hg]

/-- With an empty prefix list the plain variable name is used. -/
theorem no_prefix_means_plain (env : Map) (name dflt : Str) (s : Sources) (hp : s.prefixes = []) :
    resolveWith env name dflt s = resolveWith env name dflt { s with prefixes := [[]] } := by
  simp [resolveWith, hp, effPrefixes]

/-- **Letter case of the flag name does not matter for the environment.** -/
theorem env_case_insensitive (pfx pfx' name name' : Str) (hp : upper pfx = upper pfx')
    (hn : upper name = upper name') : envName pfx name = envName pfx' name' := by
  rw [envName_eq, envName_eq, hp, hn]

/-- two environment blocks that differ only in the letter case of the variable names -/
inductive SameUpToCase : List Str → List Str → Prop
  | nil : SameUpToCase [] []
  | cons (k k' v : Str) (es es' : List Str) (hk : '=' ∉ k) (hk' : '=' ∉ k') (hu : upper k = upper k')
      (t : SameUpToCase es es') : SameUpToCase ((k ++ '=' :: v) :: es) ((k' ++ '=' :: v) :: es')

/-- **Letter case of the variable's name in the environment block does not matter**: two blocks whose
entries differ only in the case of the names produce the same map, hence the same resolution. -/
theorem env_block_case_insensitive (m : Map) (es es' : List Str) (h : SameUpToCase es es') :
    envMap m es = envMap m es' := by
  induction h generalizing m with
  | nil => rfl
  | cons k k' v es es' hk hk' hu _ ih =>
    simp only [envMap, envStep_kv _ _ _ hk, envStep_kv _ _ _ hk', hu]
    exact ih _

/-- the variable name as the user may write it: any spelling whose upper-casing is the mangled name -/
theorem env_lookup_any_case (m : Map) (k v pfx name : Str) (hk : '=' ∉ k) (hu : upper k = envName pfx name) :
    ∃ env, envMap m [k ++ '=' :: v] = .ok env ∧ env.get (envName pfx name) = some v := by
  refine ⟨m.put (upper k) v, by simp [envMap, envStep_kv _ _ _ hk], ?_⟩
  rw [hu]; exact get_put_same _ _ _

/-- **Source equivalence.**  Give the value `v` to flag `name` through exactly one source — the command
line, an environment variable with the first or with the second prefix written in any letter case (`k₁`,
`k₂`), or the properties file — and the raw string handed to the flag's `Set` is `v` in every case (so the
flag's own parser sees the same input and the effect is the same). -/
theorem source_equivalence (name dflt v p1 p2 k1 k2 : Str)
    (hk1 : '=' ∉ k1) (hu1 : upper k1 = envName p1 name)
    (hk2 : '=' ∉ k2) (hu2 : upper k2 = envName p2 name) :
    let viaCmd : Sources := { cmd := [(name, v)], environ := [], prefixes := [p1, p2], props := none }
    let viaEnv1 : Sources := { cmd := [], environ := [k1 ++ '=' :: v], prefixes := [p1, p2], props := none }
    let viaEnv2 : Sources := { cmd := [], environ := [k2 ++ '=' :: v], prefixes := [p1, p2], props := none }
    let viaProps : Sources := { cmd := [], environ := [], prefixes := [p1, p2], props := some [(name, v)] }
    (resolve name dflt viaCmd).map (·.2) = .ok v ∧
    (resolve name dflt viaEnv1).map (·.2) = .ok v ∧
    (resolve name dflt viaEnv2).map (·.2) = .ok v ∧
    (resolve name dflt viaProps).map (·.2) = .ok v := by
  intro viaCmd viaEnv1 viaEnv2 viaProps
  refine ⟨?_, ?_, ?_, ?_⟩
  · rw [precedence_load name dflt viaCmd p1 p2 rfl]
    simp [viaCmd, cmdLookup, expected, Outcome.map]
  · rw [precedence_load name dflt viaEnv1 p1 p2 rfl]
    have : lastEntry (envName p1 name) viaEnv1.environ = some v := by
      simp [viaEnv1, lastEntry, splitN2_join _ _ hk1, hu1]
    simp [this, viaEnv1, cmdLookup, expected, Outcome.map]
  · rw [precedence_load name dflt viaEnv2 p1 p2 rfl]
    have h2 : lastEntry (envName p2 name) viaEnv2.environ = some v := by
      simp [viaEnv2, lastEntry, splitN2_join _ _ hk2, hu2]
    have hc : cmdLookup name viaEnv2.cmd = none := rfl
    rw [h2, hc]
    have h1 : lastEntry (envName p1 name) viaEnv2.environ = none ∨
        lastEntry (envName p1 name) viaEnv2.environ = some v := by
      simp only [viaEnv2, lastEntry, splitN2_join _ _ hk2]
      split <;> simp
    rcases h1 with h1 | h1 <;> simp [h1, expected, Outcome.map]
  · rw [precedence_load name dflt viaProps p1 p2 rfl]
    simp [viaProps, lastEntry, cmdLookup, expected, Outcome.map, Map.get, List.lookup]

/-! ### No two options share an environment variable -/

/-- boolean check "all elements distinct" -/
def allDistinct {β} [DecidableEq β] : List β → Bool
  | [] => true
  | x :: xs => !xs.contains x && allDistinct xs

/-- every (prefix, flag) pair with its environment-variable name -/
def envNames (prefixes names : List Str) : List ((Str × Str) × Str) :=
  prefixes.flatMap (fun p => names.map (fun n => ((p, n), envName p n)))

/-- a name packed into one number (base 2²¹, digit = code point + 1); only used as a fingerprint: distinct
fingerprints imply distinct names by congruence, no injectivity is needed -/
def enc (s : Str) : Nat := s.foldl (fun a c => a * 2097152 + c.toNat + 1) 0

/-- the decidable no-collision check, evaluated on the regenerated flag table in `C15Facts` -/
def noCollision (prefixes names : List Str) : Bool :=
  allDistinct ((envNames prefixes names).map (fun x => enc x.2))

theorem allDistinct_inj {α β} [DecidableEq β] (f : α → β) (l : List α) (h : allDistinct (l.map f) = true) :
    ∀ x ∈ l, ∀ y ∈ l, f x = f y → x = y := by
  induction l with
  | nil => intro x hx; cases hx
  | cons a t ih =>
    simp only [List.map_cons, allDistinct, Bool.and_eq_true, Bool.not_eq_true', List.contains_eq_mem,
      decide_eq_false_iff_not, List.mem_map, not_exists, not_and] at h
    intro x hx y hy e
    simp only [List.mem_cons] at hx hy
    rcases hx with rfl | hx <;> rcases hy with rfl | hy
    · rfl
    · exact absurd e.symm (h.1 y hy)
    · exact absurd e (h.1 x hx)
    · exact ih h.2 x hx y hy e

/-- **Environment names are injective** (generic form): for *any* prefix list and flag list that pass the
check, two (prefix, flag) pairs with the same environment-variable name are the same pair — so no variable
can ever feed two different options, under either prefix (this also excludes `FABIO_` + `x` colliding with a
flag literally called `fabio.x` read through the empty prefix). -/
theorem env_names_injective_generic (prefixes names : List Str) (h : noCollision prefixes names = true) :
    ∀ p ∈ prefixes, ∀ q ∈ prefixes, ∀ f ∈ names, ∀ g ∈ names,
      envName p f = envName q g → p = q ∧ f = g := by
  intro p hp q hq f hf g hg e
  have hmem : ∀ p ∈ prefixes, ∀ f ∈ names, ((p, f), envName p f) ∈ envNames prefixes names := by
    intro p hp f hf
    simp only [envNames, List.mem_flatMap, List.mem_map]
    exact ⟨p, hp, f, hf, rfl⟩
  have h' : allDistinct ((envNames prefixes names).map
      (fun (x : (Str × Str) × Str) => enc x.2)) = true := h
  have := allDistinct_inj (fun (x : (Str × Str) × Str) => enc x.2) (envNames prefixes names) h' _
    (hmem p hp f hf) _ (hmem q hq g hg) (by simp only [e])
  simp only [Prod.mk.injEq] at this
  exact this.1

/-! ### `parseKVSlice` -/

/-- **`parseKVSlice` is total**: for every rune string and whatever `strconv.Unquote` answers, the loop
terminates (each `lex` call consumes between 1 and `len(s)` runes), no slice expression is out of range, and
the result is a list of maps or an error — never a panic. -/
theorem kvslice_total (unq : Str → Option Str) (s : Str) : (parseKVSlice unq s).isPanic = false := by
  obtain ⟨r, hr⟩ := ploop_ok unq (s.length + 1) s {} (by omega)
  unfold parseKVSlice
  rw [hr]
  cases r <;> rfl

/-- **Shape of a successful parse**: every map returned is non-empty and has pairwise distinct keys (so "no
maps" is the only way to get an empty result, Go's `nil, nil`). -/
theorem kvslice_shape (unq : Str → Option Str) (s : Str) (ms : List Map)
    (h : parseKVSlice unq s = .ok (.ok ms)) : ∀ m ∈ ms, 0 < m.length ∧ (m.map (·.1)).Nodup := by
  unfold parseKVSlice at h
  split at h
  · rename_i p hp
    cases h
    exact good_pfinish p (inv_ploop unq _ s {} p inv_init hp)
  · cases h
  · cases h

/-! ### `load` -/

theorem kvCheck_total (unq : Str → Option Str) (flag raw : Str) : ∃ r, kvCheck unq flag raw = .ok r := by
  have := kvslice_total unq raw
  unfold kvCheck
  match h : parseKVSlice unq raw with
  | .ok (.ok ms) => exact ⟨_, rfl⟩
  | .ok (.error e) => exact ⟨_, rfl⟩
  | .panic w => rw [h] at this; cases this

theorem validate_total (unq : Str → Option Str) (atoi : Str → Int) (extra : List Resolved → Option Err)
    (vals : List Resolved) : ∃ r, validate unq atoi extra vals = .ok r := by
  unfold validate
  obtain ⟨r1, h1⟩ := kvCheck_total unq "proxy.cs".toList (rawOf vals "proxy.cs".toList)
  obtain ⟨r2, h2⟩ := kvCheck_total unq "proxy.auth".toList (rawOf vals "proxy.auth".toList)
  obtain ⟨r3, h3⟩ := kvCheck_total unq "ui.addr".toList (rawOf vals "ui.addr".toList)
  obtain ⟨r4, h4⟩ := kvCheck_total unq "proxy.addr".toList (rawOf vals "proxy.addr".toList)
  obtain ⟨r5, h5⟩ := kvCheck_total unq "bgp.peers".toList (rawOf vals "bgp.peers".toList)
  rw [h1, h2, h4, h5]
  cases r1 with
  | error e => exact ⟨_, rfl⟩
  | ok _ =>
  cases r2 with
  | error e => exact ⟨_, rfl⟩
  | ok _ =>
  simp only
  have h3' : ∃ r, (if rawOf vals "ui.addr".toList ≠ [] then kvCheck unq "ui.addr".toList (rawOf vals "ui.addr".toList)
      else Outcome.ok (Except.ok [[]])) = .ok r := by
    split
    · exact ⟨_, h3⟩
    · exact ⟨_, rfl⟩
  obtain ⟨r3', h3'⟩ := h3'
  rw [h3']
  cases r3' with
  | error e => exact ⟨_, rfl⟩
  | ok ui =>
  simp only
  split
  · exact ⟨_, rfl⟩
  · rename_i hlen
    have hlen' : ui.length = 1 := by simpa using hlen
    match ui, hlen' with
    | [u], _ =>
    simp only [List.getElem?_cons_zero]
    cases r4 with
    | error e => exact ⟨_, rfl⟩
    | ok _ =>
    simp only
    cases extra vals with
    | some e => exact ⟨_, rfl⟩
    | none =>
      simp only
      cases enumChecks atoi vals with
      | error e => exact ⟨_, rfl⟩
      | ok g => cases r5 <;> exact ⟨_, rfl⟩

/-- **Loading is total**: for every flag table, every command line, every environment block (entries
without `=`, empty names, duplicates, any letter case), every prefix list and every properties map, `load`
returns a configuration or an error — never a panic.  (False before the repair of D20: `["FOO"]`.) -/
theorem load_total (unq : Str → Option Str) (atoi : Str → Int) (extra : List Resolved → Option Err)
    (flags : List (Str × Str)) (s : Sources) : (loadModel unq atoi extra flags s).isPanic = false := by
  unfold loadModel
  obtain ⟨env, he⟩ := envMap_ok [] s.environ
  rw [he]
  obtain ⟨r, hr⟩ := validate_total unq atoi extra
    (flags.map (fun (n, d) => let r := resolveWith env n d s; { name := n, src := r.1, raw := r.2 }))
  simp only [hr]
  rfl

/-- what `validate` guarantees about an accepted configuration -/
theorem validate_glob (unq : Str → Option Str) (atoi : Str → Int) (extra : List Resolved → Option Err)
    (vals : List Resolved) (cfg : Cfg) (h : validate unq atoi extra vals = .ok (.ok cfg)) :
    1 ≤ cfg.globCacheSize := by
  have key : ∀ g, enumChecks atoi vals = .ok g → 1 ≤ g := by
    intro g hg
    unfold enumChecks at hg
    repeat' (split at hg)
    all_goals first
      | (cases hg; done)
      | (injection hg with hg; subst hg; omega)
  unfold validate at h
  repeat' (split at h)
  all_goals first
    | (cases h; done)
    | (rename_i g hg _ _ _; injection h with h; injection h with h; subst h; exact key g hg)

/-- **An accepted configuration can be run** as far as the glob cache is concerned: the accepted
`glob.cache.size` is at least 1 (D21 repair), `NewGlobCache` does not panic on it and no number of cache
misses ever indexes outside the ring or divides by zero. -/
theorem accepted_config_runnable (unq : Str → Option Str) (atoi : Str → Int)
    (extra : List Resolved → Option Err) (flags : List (Str × Str)) (s : Sources) (cfg : Cfg)
    (h : loadModel unq atoi extra flags s = .ok (.ok cfg)) :
    1 ≤ cfg.globCacheSize ∧ ∀ k, (runGlob cfg.globCacheSize k).isPanic = false := by
  have h1 : 1 ≤ cfg.globCacheSize := by
    unfold loadModel at h
    split at h
    · cases h
    · exact validate_glob _ _ _ _ _ h
  refine ⟨h1, fun k => ?_⟩
  unfold runGlob newGlobCache
  have : ¬ cfg.globCacheSize < 0 := by omega
  simp only [this, if_false]
  obtain ⟨c', hc⟩ := gcRun_ok { size := cfg.globCacheSize.toNat, n := 0, h := 0 } k
    ⟨by simp only; omega, by simp, by simp only; omega, fun _ => rfl⟩
  rw [hc]; rfl

/-- the validation is needed: a cache of size 0 panics on the first miss, a negative size in `make` -/
theorem glob_size_zero_panics : (runGlob 0 1).isPanic = true ∧ (runGlob (-1) 0).isPanic = true := by
  constructor <;> decide

/-! ### Non-vacuity -/

section Examples
def pfx : List Str := ["FABIO_".toList, []]
def nm : Str := "proxy.maxconn".toList

example : envName "FABIO_".toList nm = "FABIO_PROXY_MAXCONN".toList := by decide
example : envName [] "registry.consul.register.checkInterval".toList =
    "REGISTRY_CONSUL_REGISTER_CHECKINTERVAL".toList := by decide

/-- all four sources set: the command line wins -/
example : resolve nm "10000".toList
    { cmd := [(nm, "1".toList)], environ := ["FABIO_PROXY_MAXCONN=2".toList, "proxy_maxconn=3".toList],
      prefixes := pfx, props := some [(nm, "4".toList)] } = .ok (.cmdline, "1".toList) := by decide
/-- prefixed variable over plain variable over file; mixed case, duplicate (the later entry counts), an
entry without `=` and an entry with an empty name in the block -/
example : resolve nm "10000".toList
    { cmd := [], environ := ["junk".toList, "=x".toList, "proxy_maxconn=3".toList, "Fabio_Proxy_MaxConn=2".toList,
        "FABIO_PROXY_MAXCONN=5".toList],
      prefixes := pfx, props := some [(nm, "4".toList)] } = .ok (.env 0, "5".toList) := by decide
example : resolve nm "10000".toList
    { cmd := [], environ := ["proxy_maxconn=3=x".toList], prefixes := pfx, props := some [(nm, "4".toList)] }
    = .ok (.env 1, "3=x".toList) := by decide
example : resolve nm "10000".toList
    { cmd := [], environ := ["other=3".toList], prefixes := pfx, props := some [(nm, "4".toList)] }
    = .ok (.props, "4".toList) := by decide
example : resolve nm "10000".toList { cmd := [], environ := [], prefixes := pfx, props := none }
    = .ok (.dflt, "10000".toList) := by decide
/-- the dotless i and the long s upper-case to ASCII letters, as in Go -/
example : upper "proxy_maxconn".toList = upper "proxy_maxconn".toList ∧ upperChar 'ı' = 'I' ∧ upperChar 'ſ' = 'S' := by decide

example : noCollision pfx ["proxy.addr".toList, "proxy.cs".toList, "ui.addr".toList] = true := by decide
/-- the check does reject colliding tables: `a.b` / `a_b`, and `fabio.x` (plain) against `x` (prefixed) -/
example : noCollision pfx ["a.b".toList, "a_b".toList] = false := by decide
example : noCollision pfx ["fabio.x".toList, "x".toList] = false := by decide

example : parseKVSlice unquote "a=b;c=d,e=f".toList =
    .ok (.ok [[("a".toList, "b".toList), ("c".toList, "d".toList)], [("e".toList, "f".toList)]]) := by rfl
example : parseKVSlice unquote ":9999;cs=x;a=\"b;c\"".toList =
    .ok (.ok [[([], ":9999".toList), ("cs".toList, "x".toList), ("a".toList, "b;c".toList)]]) := by rfl
example : parseKVSlice unquote "a=\"b".toList = .ok (.error "unbalanced quotes".toList) := by rfl
example : parseKVSlice unquote "a;=".toList = .ok (.error "=".toList) := by rfl
example : parseKVSlice unquote ",;,".toList = .ok (.ok []) := by rfl

def tinyFlags : List (Str × Str) :=
  [("proxy.strategy".toList, "rnd".toList), ("proxy.matcher".toList, "prefix".toList),
   ("ui.access".toList, "rw".toList), ("ui.addr".toList, ":9998".toList), ("proxy.addr".toList, ":9999".toList),
   ("glob.cache.size".toList, "1000".toList)]
def atoiD (s : Str) : Int := (atoiDec s).getD 0

/-- the default configuration is accepted with cache size 1000 … -/
example : (loadModel unquote atoiD (fun _ => none) tinyFlags
    { cmd := [], environ := ["FOO".toList], prefixes := pfx, props := none }).map (·.map (·.globCacheSize))
    = .ok (.ok 1000) := by rfl
/-- … and `glob.cache.size=0` from any source is rejected -/
example : (loadModel unquote atoiD (fun _ => none) tinyFlags
    { cmd := [], environ := ["fabio_glob_cache_size=0".toList], prefixes := pfx, props := none }).map (·.map (·.globCacheSize))
    = .ok (.error .globCacheSize) := by rfl
/-- a `ui.addr` made only of separators parses to zero maps and is rejected by the count check (it must not
reach `kvs[0]`) -/
example : (loadModel unquote atoiD (fun _ => none) tinyFlags
    { cmd := [("ui.addr".toList, ",;".toList)], environ := [], prefixes := pfx, props := none }).map (·.map (·.globCacheSize))
    = .ok (.error .uiAddrCount) := by rfl
example : (runGlob 3 10).isPanic = false := by decide
end Examples

end Fabio.Props.C15
