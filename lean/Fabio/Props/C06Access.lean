import Fabio.Lemmas.C06Access
import Fabio.Props.C06
/-!
C06 — the published table is only read: target and access decision depend on the request and the table alone.

`TState` holds the ring of a route and the rule list of a target as SHARED memory next to the core state of
`Model/C06.lean`; requests read them one element per micro-step (`ringRead`, `scanBegin`/`scanIter`), interleaved
with any core micro-steps (`liftCore`: picks, cache, redirect, table replacement) and with the readers of the
published table (`tableRead`: `Table.Dump`, `Table.String`, the admin API).  Every `∀ sch` is over ALL schedules.
That the code has no other kind of step on this memory is the regenerated obligation
`C06Facts.lookup_writes_pinned` / `published_table_readers_analysed`.
-/
namespace Fabio.Props.C06Access
open Fabio.Model.C06 Fabio.Lemmas.C06

/-- **The published table is read-only, and what a request reads is what was published.**  Any number of goroutines
made of `TableStep`s, any schedule: ring and rules are unchanged; every target handed out is the one the published
ring holds at the index the picker produced; every completed scan of the rule list found a matching block iff the
published list contains one for that address — whatever other requests, lookups, table replacements and readers
did in between. -/
theorem published_table_any_schedule (ring0 : List Nat) (rules0 : List Block) (ts : List TTh) (s : TState)
    (sch : List Nat) (hsteps : ∀ t ∈ ts, ∀ f ∈ t.steps, TableStep f)
    (hs : s.ring = ring0 ∧ s.rules = rules0) (hJ : ∀ t ∈ ts, TLocalInv ring0 rules0 t.loc) :
    let r := run sch ts s
    r.1.ring = ring0 ∧ r.1.rules = rules0 ∧
    ∀ t ∈ r.2, (∀ e ∈ t.loc.targets, e.2 = ring0[e.1]?.getD 0) ∧
               (∀ e ∈ t.loc.scans, e.2 = rules0.any (·.contains e.1)) := by
  have h := run_inv (fun s : TState => s.ring = ring0 ∧ s.rules = rules0) (TLocalInv ring0 rules0) TableStep
    (fun f hf s l hI hJ => table_step_inv ring0 rules0 f hf s l hI hJ) sch ts s hsteps hs hJ
  exact ⟨h.1.1, h.1.2, fun t ht => ⟨(h.2.1 t ht).2.1, (h.2.1 t ht).2.2⟩⟩

/-- **The access decision depends only on the request and the table.**  For an allow list the address is denied iff
the scan found no block, for a deny list iff it found one — and by `published_table_any_schedule` the scan's result
is a function of the address and the published list: the decision every request observes is `denyByIP` of the
published rules, under every interleaving. -/
theorem access_decision_any_schedule (rules0 : List Block) (ts : List TTh) (s : TState) (sch : List Nat)
    (hsteps : ∀ t ∈ ts, ∀ f ∈ t.steps, TableStep f) (hs : s.rules = rules0)
    (hJ : ∀ t ∈ ts, TLocalInv s.ring rules0 t.loc) :
    ∀ t ∈ (run sch ts s).2, ∀ e ∈ t.loc.scans,
      denyByIP (.allow rules0) (some e.1) = !e.2 ∧ denyByIP (.deny rules0) (some e.1) = e.2 := by
  intro t ht e he
  have h := ((published_table_any_schedule s.ring rules0 ts s sch hsteps ⟨rfl, hs⟩ hJ).2.2 t ht).2 e he
  simp only [denyByIP, h, and_self]

/-- **End to end: whole requests on a published table, any interleaving.**  Goroutine `i` serves the requests of the
clients `ass[i]`, each one the atomic pick, the plain read of the ring slot and the element-by-element scan of the
target's rule list (`requestThread`); next to them any number of readers of the published table (`readerThread`:
`Dump`, `String`, the admin API).  For EVERY schedule (also one that stops half-way), from any core state `s`:
ring and rules are what was published; the ring indices handed out are exactly `{c, …, c+K-1} mod N` for the `K`
picks performed (so every target gets its exact share — `rr_target_share_any_schedule`); every target read is the
one the published ring holds at the index its request was handed; every completed scan decided by the published
rules alone.  Proof: the run projects onto a run of the core model (`run_proj`: the reads and scans are stutter
steps of the core state), to which `rr_exact_share_any_schedule` applies; the rest is
`published_table_any_schedule`. -/
theorem requests_on_published_table (ring0 : List Nat) (hN : 0 < ring0.length) (rules0 : List Block)
    (ass : List (List Addr)) (readers : List Nat) (s : State) (sch : List Nat) :
    let N := ring0.length
    let ts := ass.map (requestThread N rules0.length) ++ readers.map readerThread
    let r := run sch (ts.map STh.toT) { core := s, ring := ring0, rules := rules0 }
    let K := r.1.core.total - s.total
    r.1.ring = ring0 ∧ r.1.rules = rules0 ∧ s.total ≤ r.1.core.total ∧
    (allPicksT r.2).Perm ((List.range' s.total K).map (· % N)) ∧
    (∀ t ∈ r.2, (∀ e ∈ t.loc.targets, e.2 = ring0[e.1]?.getD 0) ∧
                (∀ e ∈ t.loc.scans, e.2 = rules0.any (·.contains e.1))) ∧
    K ≤ (ass.map List.length).sum ∧ (finished r.2 = true → K = (ass.map List.length).sum) := by
  intro N ts r K
  have hzero : ∀ l : List Nat, (l.map (fun _ => 0)).sum = 0 := by
    intro l; induction l with
    | nil => rfl
    | cons a l ih => simp only [List.map_cons, List.sum_cons, ih]
  have hpub := published_table_any_schedule ring0 rules0 (ts.map STh.toT)
    { core := s, ring := ring0, rules := rules0 } sch ?_ ⟨rfl, rfl⟩ ?_
  · refine ⟨hpub.1, hpub.2.1, ?_, ?_, hpub.2.2, ?_, ?_⟩
    all_goals
      obtain ⟨sch', ts', e1, e2⟩ := run_proj sch ts { core := s, ring := ring0, rules := rules0 }
      have hproj : ts.map STh.proj = (ass.map List.length ++ readers.map (fun _ => 0)).map (rrThreadRepaired N) := by
        simp only [ts, List.map_append, List.map_map]
        congr 1
        · apply List.map_congr_left; intro as _; exact requestThread_proj N rules0.length as
        · apply List.map_congr_left; intro k _; exact readerThread_proj N k
      have hrr := Fabio.Props.C06.rr_exact_share_any_schedule N hN (ass.map List.length ++ readers.map (fun _ => 0)) s sch'
      rw [← hproj, e2] at hrr
      simp only [] at hrr
    · exact hrr.1
    · have hp := hrr.2.2.2
      rw [allPicks_proj, ← e1] at hp
      exact hp
    · have := hrr.2.1
      rw [List.sum_append, hzero, Nat.add_zero] at this
      exact this
    · intro hfin
      have hf : finished (ts'.map STh.proj) = true := by
        have e1' : r.2 = ts'.map STh.toT := e1
        rw [e1'] at hfin
        simp only [finished, List.all_eq_true, List.mem_map, forall_exists_index, and_imp,
          forall_apply_eq_imp_iff₂] at hfin ⊢
        intro t ht
        have := hfin t ht
        have ho : t.ops = [] := by simpa [STh.toT] using this
        simp [STh.proj, ho]
      have := hrr.2.2.1 hf
      rw [List.sum_append, hzero, Nat.add_zero] at this
      exact this
  · intro t ht f hf
    simp only [List.mem_map] at ht
    obtain ⟨st, _, rfl⟩ := ht
    simp only [STh.toT, List.mem_map] at hf
    obtain ⟨op, _, rfl⟩ := hf
    exact sem_tableStep op
  · intro t ht
    simp only [List.mem_map] at ht
    obtain ⟨st, hst, rfl⟩ := ht
    simp only [ts, List.mem_append, List.mem_map] at hst
    rcases hst with ⟨as, _, rfl⟩ | ⟨k, _, rfl⟩ <;> exact tLocalInv_init ring0 rules0

/-- **Each target its exact share, end to end.**  In the setting of `requests_on_published_table`, once every goroutine
has finished: the number of times target `tg` was actually READ from the shared ring and handed to a request equals
`targetShare ring0 c K tg` — its exact share of the `K` lookups performed — for every schedule.  (Linkage: every
index a goroutine is handed is read from the ring by its very next table operation, `Lemmas.C06.Linked`; the reads
see the published ring, `published_table_any_schedule`; the indices are `{c..c+K-1} mod N`, projection.) -/
theorem target_share_on_published_table (ring0 : List Nat) (hN : 0 < ring0.length) (rules0 : List Block)
    (ass : List (List Addr)) (readers : List Nat) (s : State) (sch : List Nat) (tg : Nat) :
    let N := ring0.length
    let ts := ass.map (requestThread N rules0.length) ++ readers.map readerThread
    let r := run sch (ts.map STh.toT) { core := s, ring := ring0, rules := rules0 }
    let K := r.1.core.total - s.total
    finished r.2 = true →
      ((allTargetsT r.2).map (·.2)).count tg = targetShare ring0 s.total K tg := by
  intro N ts r K hfin
  have hE := requests_on_published_table ring0 hN rules0 ass readers s sch
  obtain ⟨_, _, _, hperm, hpub, _, _⟩ := hE
  -- linkage
  obtain ⟨ts', e1, hl⟩ := run_syn Linked linked_step sch ts { core := s, ring := ring0, rules := rules0 } (by
    intro t ht
    simp only [ts, List.mem_append, List.mem_map] at ht
    rcases ht with ⟨as, _, rfl⟩ | ⟨k, _, rfl⟩
    · exact linked_request N rules0.length hN as
    · exact linked_reader k)
  have e1' : r.2 = ts'.map STh.toT := e1
  have hops : ∀ t ∈ ts', t.ops = [] := by
    intro t ht
    have hf : finished (ts'.map STh.toT) = true := by rw [← e1']; exact hfin
    simp only [finished, List.all_eq_true, List.mem_map, forall_exists_index, and_imp,
      forall_apply_eq_imp_iff₂] at hf
    have := hf t ht
    simpa [STh.toT] using this
  have hA : allPicksT r.2 = (allTargetsT r.2).map (·.1) := by
    rw [e1']
    simp only [allPicksT, allTargetsT, List.flatMap_map, List.map_flatMap]
    have hcongr : ∀ (l : List STh), (∀ t ∈ l, t.loc.core.picks = t.loc.targets.map (·.1)) →
        l.flatMap (fun t => t.toT.loc.core.picks) = l.flatMap (fun t => t.toT.loc.targets.map (·.1)) := by
      intro l
      induction l with
      | nil => intro _; rfl
      | cons a l ih =>
        intro h
        rw [List.flatMap_cons, List.flatMap_cons, ih (fun t ht => h t (List.mem_cons_of_mem _ ht))]
        congr 1
        exact h a List.mem_cons_self
    exact hcongr ts' (fun t ht => linked_finished t (hl t ht) (hops t ht))
  have hB : (allTargetsT r.2).map (·.2) = (allTargetsT r.2).map (fun e => ring0[e.1]?.getD 0) := by
    apply List.map_congr_left
    intro e he
    simp only [allTargetsT, List.mem_flatMap] at he
    obtain ⟨t, ht, het⟩ := he
    exact (hpub t ht).1 e het
  have hC : (allTargetsT r.2).map (fun e => ring0[e.1]?.getD 0)
      = (allPicksT r.2).map (fun i => ring0[i]?.getD 0) := by
    rw [hA, List.map_map]; rfl
  rw [hB, hC]
  have := (hperm.map (fun i => ring0[i]?.getD 0)).count_eq tg
  rw [List.map_map] at this
  exact this

/-- the scan over the whole list and the closed form agree sequentially (one goroutine, its own schedule) -/
theorem scan_alone (rules0 : List Block) (a : Addr) (ring : List Nat) :
    let r := run (List.replicate (rules0.length + 2) 0) [mkTThread (scanProg a rules0.length)] { ring := ring, rules := rules0 }
    ∀ t ∈ r.2, ∀ e ∈ t.loc.scans, e.2 = rules0.any (·.contains e.1) := by
  intro r t ht
  refine ((published_table_any_schedule ring rules0 _ _ _ ?_ ⟨rfl, rfl⟩ ?_).2.2 t ht).2
  · intro t ht f hf
    simp only [List.mem_singleton] at ht
    subst ht
    simp only [mkTThread, scanProg, List.mem_cons, List.mem_replicate] at hf
    rcases hf with hf | ⟨_, hf⟩
    · subst hf; exact .begin a
    · subst hf; exact .iter
  · intro t ht
    simp only [List.mem_singleton] at ht
    subst ht
    exact tLocalInv_init ring rules0

/-- **A self-organising rule list breaks it** (seeded change m11, the form an independent author wrote): the block
that decided a request is swapped to the front of the SHARED list.  Two clients of the second block of an allow
list `[A, B]`: the first has passed index 0 when the second one matches `B` at index 1 and swaps; the first now
reads `A` again at index 1, reaches the end, and is denied although `B` contains it.  (The swap is even modelled as
one uninterrupted step.) -/
theorem access_promote_crosstalk :
    let bA : Block := ⟨8, 0x10, 4⟩
    let bB : Block := ⟨8, 0x20, 4⟩
    let x : Addr := ⟨8, 0x21⟩
    let y : Addr := ⟨8, 0x22⟩
    ∃ sch : List Nat,
      let r := run sch [mkTThread (scanProgPromote x 2), mkTThread (scanProgPromote y 2)] { rules := [bA, bB] }
      finished r.2 = true ∧ (outputs r).map (·.scans) = [[(x, false)], [(y, true)]] ∧
      [bA, bB].any (·.contains x) = true ∧ denyByIP (.allow [bA, bB]) (some x) = false ∧ r.1.rules = [bB, bA] :=
  ⟨[0, 0, 1, 1, 1, 0, 0, 1, 0, 1], by decide⟩

/-- **A reader that sorts the target slice in place breaks the share** (seeded change m12): for a route without
fixed weights the slice is the ring.  One goroutine picks three times on the ring `[2, 0, 1]` (one whole cycle: each
target exactly once); a reader sorts the ring after the first pick: target 2 is handed out twice, target 0 never —
with atomics only, without any data race between the picks. -/
theorem dump_sort_loses_share :
    ∃ sch : List Nat,
      let r := run sch [mkTThread (pickTarget 3 ++ pickTarget 3 ++ pickTarget 3), mkTThread [dumpSort]] { ring := [2, 0, 1] }
      finished r.2 = true ∧ r.1.core.total = 3 ∧
      (outputs r).map (fun l => l.targets.map (·.2)) = [[2, 1, 2], []] ∧ r.1.ring = [0, 1, 2] :=
  ⟨[0, 0, 1, 0, 0, 0, 0], by decide⟩

/-! ## non-vacuity -/

/-- the hypotheses of `published_table_any_schedule` are met by whole requests (pick + slot read + scan of the rule
list) next to a goroutine replacing the table and a reader, for every schedule -/
example (sch : List Nat) (a b : Addr) :
    let rules0 : List Block := [⟨32, 167772160, 8⟩, ⟨32, 3232235520, 16⟩]
    let ts := [mkTThread (pickTarget 3 ++ scanProg a 2), mkTThread (scanProg b 2 ++ pickTarget 3),
               mkTThread [liftCore (tblSet 1), tableRead, liftCore (tblSet 2)]]
    (run sch ts { ring := [2, 0, 1], rules := rules0 }).1.ring = [2, 0, 1] := by
  intro rules0 ts
  refine (published_table_any_schedule [2, 0, 1] rules0 ts _ sch ?_ ⟨rfl, rfl⟩ ?_).1
  · intro t ht f hf
    simp only [ts, List.mem_cons, List.mem_nil_iff, or_false] at ht
    rcases ht with h | h | h <;> subst h <;>
      simp only [mkTThread, pickTarget, scanProg, List.mem_append, List.mem_cons, List.mem_replicate,
        List.mem_nil_iff, or_false] at hf
    · rcases hf with (hf | hf) | hf | ⟨_, hf⟩ <;> subst hf
      · exact .core _
      · exact .ring
      · exact .begin a
      · exact .iter
    · rcases hf with (hf | ⟨_, hf⟩) | hf | hf <;> subst hf
      · exact .begin b
      · exact .iter
      · exact .core _
      · exact .ring
    · rcases hf with hf | hf | hf <;> subst hf
      · exact .core _
      · exact .read
      · exact .core _
  · intro t ht
    simp only [ts, List.mem_cons, List.mem_nil_iff, or_false] at ht
    rcases ht with h | h | h <;> subst h <;> exact tLocalInv_init _ _

/-- a concrete interleaving of two whole requests: own targets, own decisions (10.1.2.3 is in 10/8, 198.51.100.9 in
no block), ring and rules untouched -/
example :
    let rules0 : List Block := [⟨32, 167772160, 8⟩, ⟨32, 3232235520, 16⟩]
    let a : Addr := ⟨32, 167838211⟩
    let b : Addr := ⟨32, 3325256713⟩
    let ts := [mkTThread (pickTarget 3 ++ scanProg a 2), mkTThread (pickTarget 3 ++ scanProg b 2)]
    let r := run ((List.replicate 6 [0, 1]).flatten) ts { ring := [2, 0, 1], rules := rules0 }
    finished r.2 = true ∧ (outputs r).map (·.targets) = [[(0, 2)], [(1, 0)]] ∧
      (outputs r).map (·.scans) = [[(a, true)], [(b, false)]] ∧
      accessDenied (.allow rules0) { remote := some a } = false ∧
      accessDenied (.allow rules0) { remote := some b } = true ∧
      accessDenied (.deny rules0) { remote := some b, xff := [(false, some a)] } = true := by
  decide

/-- `requests_on_published_table` instantiated: two goroutines serving three requests on a ring of three and a list of
two blocks, next to a reader, from cursor 7 — for every schedule -/
example (sch : List Nat) (a b : Addr) :
    let ts := [requestThread 3 2 [a, b], requestThread 3 2 [b], readerThread 2]
    let r := run sch (ts.map STh.toT)
      { core := { total := 7 }, ring := [2, 0, 1], rules := [⟨32, 167772160, 8⟩, ⟨32, 3232235520, 16⟩] }
    r.1.ring = [2, 0, 1] ∧ (allPicksT r.2).Perm ((List.range' 7 (r.1.core.total - 7)).map (· % 3)) := by
  intro ts r
  have h := requests_on_published_table [2, 0, 1] (by decide) [⟨32, 167772160, 8⟩, ⟨32, 3232235520, 16⟩]
    [[a, b], [b]] [2] { total := 7 } sch
  exact ⟨h.1, h.2.2.2.1⟩

/-- and on one concrete interleaving: indices 7,8,9 mod 3, the targets of the published ring, own decisions -/
example :
    let a : Addr := ⟨32, 167838211⟩
    let b : Addr := ⟨32, 3325256713⟩
    let ts := [requestThread 3 2 [a, b], requestThread 3 2 [b], readerThread 2]
    let r := run ((List.replicate 12 [0, 1, 2]).flatten) (ts.map STh.toT)
      { core := { total := 7 }, ring := [2, 0, 1], rules := [⟨32, 167772160, 8⟩, ⟨32, 3232235520, 16⟩] }
    finished r.2 = true ∧ r.1.core.total = 10 ∧
      (outputs r).map (·.targets) = [[(1, 0), (0, 2)], [(2, 1)], []] ∧
      (outputs r).map (·.scans) = [[(a, true), (b, false)], [(b, false)], []] := by
  decide

/-- `target_share_on_published_table` instantiated: three requests on the ring `[2, 0, 1]` are one whole cycle — target
0 is read and handed out exactly once, for every schedule that completes -/
example (sch : List Nat) (a b : Addr) :
    let ts := [requestThread 3 2 [a, b], requestThread 3 2 [b], readerThread 2]
    let r := run sch (ts.map STh.toT)
      { core := { total := 7 }, ring := [2, 0, 1], rules := [⟨32, 167772160, 8⟩, ⟨32, 3232235520, 16⟩] }
    finished r.2 = true → ((allTargetsT r.2).map (·.2)).count 0 = 1 := by
  intro ts r hfin
  have hK := (requests_on_published_table [2, 0, 1] (by decide) [⟨32, 167772160, 8⟩, ⟨32, 3232235520, 16⟩]
    [[a, b], [b]] [2] { total := 7 } sch).2.2.2.2.2.2 hfin
  have h := target_share_on_published_table [2, 0, 1] (by decide) [⟨32, 167772160, 8⟩, ⟨32, 3232235520, 16⟩]
    [[a, b], [b]] [2] { total := 7 } sch 0 hfin
  simp only [] at hK h
  rw [hK] at h
  have e : targetShare [2, 0, 1] 7 (List.map List.length [[a, b], [b]]).sum 0 = 1 := by
    show targetShare [2, 0, 1] 7 3 0 = 1
    decide
  exact h.trans e

end Fabio.Props.C06Access
