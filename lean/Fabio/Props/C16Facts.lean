import Fabio.Generated.C16
import Fabio.Model.C16
/-!
Obligations over the facts regenerated from `/repo` on every run (C16): what the model of the interceptor,
the director and the connection pool silently assumes about `proxy/grpc_handler.go` and `main.go`.

The facts are *event lists in role names* (see the header of `tools/factgen/c16.go`): the source is normalised
(named constants inlined, switch → if chains), calls to unexported helpers are followed into their bodies with
the arguments bound to the parameters, and variables are named by role — `recv` the receiver, `p<i>` the i-th
parameter of the anchored function, `c<i>` parameters of a function literal, `looked`/`lookedErr` the result
of the route lookup, `<callee>#<i>` the i-th result of a multi-value call, `lit#T` a composite literal,
`made#T` the result of a constructor-like helper, `rk<n>`/`rv<n>` range variables; `[g₁ && g₂] e` reads "event
e happens under the conditions g₁, g₂" (an early `return`/`continue` under `c` contributes `!(c)` to what
follows).  Renaming locals, parameters, receivers or unexported helpers, extracting or inlining helpers,
introducing named constants and turning if-chains into switches leave these lists unchanged.
-/
namespace Fabio.Props.C16Facts
open Fabio Fabio.Generated.C16

/-- The destination host is read from the metadata key the model uses; the function returns the first value
of that key exactly when the key has one value, and the empty string otherwise. -/
theorem dsthost_key_pinned :
    dsthostKey.toList = Model.C16.dsthostKey ∧
    dsthostResults = ["[!(len(p0[\"dsthost\"]) == 1)] ret \"\"", "[len(p0[\"dsthost\"]) == 1] ret p0[\"dsthost\"][0]"] := ⟨by decide, rfl⟩

/-- **Link to C03.** The interceptor builds the request from `getDestinationHostFromMetadata(md)` (Host) and
`url.ParseRequestURI(info.FullMethod)` (URL), where `md` is the incoming metadata of the stream's context. -/
theorem lookup_request_pinned :
    lookupRequest = ["lit http.Request {Header=_; Host=recv.getDestinationHostFromMetadata(FromIncomingContext#0); URL=ParseRequestURI#0}", "lit http.Request {Header=_}}"] ∧
    lookupInputs = ["call metadata.FromIncomingContext(p1.Context())", "call url.ParseRequestURI(p2.FullMethod)", "call metadata.FromIncomingContext(p1.Context())"] := ⟨rfl, rfl⟩

/-- The synthetic request sets `Host`, `URL` and `Header` only (`lookup_request_pinned` lists the fields of
the literal) and nothing stores into its `TLS` field (such a store would be a further entry of the list): `TLS`
stays nil, so the routing model (C03) is applied with `tls := false` (`Props/C16Compose.lean: grpcReq`). The second
entry is the header-only request handed to the route's auth scheme (C12, repair of D31); it comes after the
lookup and is not the lookup's argument (`lookup_calls_table_lookup_once`: the argument is the first literal). -/
theorem synthetic_request_has_no_tls :
    lookupRequest.length = 2 := by decide

/-- The flow of `Stream`: the table is consulted exactly once, through `Table.Lookup` on the current table
with the configured picker and matcher; a lookup error is `codes.Internal`; a nil target is answered
`codes.NotFound` and the function returns there; a target whose access rules deny the peer is answered
`codes.PermissionDenied`, a target whose auth scheme rejects the call's `authorization` metadata
`codes.Unauthenticated` (C12); only then the (single) call of the handler, which alone leads to director and
pool. -/
theorem lookup_calls_table_lookup_once :
    streamFlow = ["call route.GetTable().Lookup(lit#http.Request, lit#http.Request.Header.Get(\"trace\"), route.Picker[recv.Config.Proxy.Strategy], route.Matcher[recv.Config.Proxy.Matcher], recv.GlobCache, recv.Config.GlobMatchingDisabled)", "[lookedErr != nil] ret status.Error(codes.Internal, \"internal error\")", "[!(lookedErr != nil) && looked == nil] ret status.Error(codes.NotFound, \"no route found\")", "[!(lookedErr != nil) && !(looked == nil) && looked.AccessDeniedAddr(remote)] ret status.Error(codes.PermissionDenied, \"access denied\")", "[!(lookedErr != nil) && !(looked == nil) && !(looked.AccessDeniedAddr(remote)) && looked.AuthScheme != \"\" && !looked.Authorized(lit#http.Request, nopResponseWriter{http.Header{}}, recv.AuthSchemes)] ret status.Error(codes.Unauthenticated, \"unauthorized\")", "[!(lookedErr != nil) && !(looked == nil) && !(looked.AccessDeniedAddr(remote))] call p3"] := rfl

theorem nil_target_returns_notfound_before_handler :
    streamHandlerCalls = 1 ∧ streamFlow.length = 6 := by decide

/-- The director (the function literal `GetGRPCDirector` returns) copies the incoming metadata unchanged to
the outgoing context and asks the pool — built once per director by the constructor — for the target the
interceptor stored in the context; nothing else is called. The pool key is `URL.String()`. -/
theorem director_copies_metadata_and_uses_pool :
    directorCalls = ["call metadata.FromIncomingContext(c0)", "call FromIncomingContext#0.Copy()", "call metadata.NewOutgoingContext(c0, FromIncomingContext#0.Copy())", "call c0.Value(key{})", "call made#*grpcConnectionPool.Get(metadata.NewOutgoingContext(c0, FromIncomingContext#0.Copy()), c0.Value(key{}).(*route.Target))"] ∧
    targetKeyReturns = ["ret p0.URL.String()"] := ⟨rfl, rfl⟩

/-- `Get`: read under the read lock; a pooled connection that is not Shutdown is returned; otherwise exactly
one `DialContext` to the target's host, and on success one `Set`, whose result is what the caller gets. -/
theorem pool_get_shape :
    poolGet = ["call recv.lock.RLock()", "call recv.lock.RUnlock()", "call recv.connections[makeGRPCTargetKey(p1)].GetState()", "[recv.connections[makeGRPCTargetKey(p1)] != nil && recv.connections[makeGRPCTargetKey(p1)].GetState() != connectivity.Shutdown] ret recv.connections[makeGRPCTargetKey(p1)], nil", "[!(recv.connections[makeGRPCTargetKey(p1)] != nil && recv.connections[makeGRPCTargetKey(p1)].GetState() != connectivity.Shutdown)] call grpc.DialContext(p0, p1.URL.Host)", "[!(recv.connections[makeGRPCTargetKey(p1)] != nil && recv.connections[makeGRPCTargetKey(p1)].GetState() != connectivity.Shutdown) && DialContext#1 == nil] call recv.Set(p1, DialContext#0)", "[!(recv.connections[makeGRPCTargetKey(p1)] != nil && recv.connections[makeGRPCTargetKey(p1)].GetState() != connectivity.Shutdown)] ret recv.Set(p1, DialContext#0), DialContext#1", "[!(recv.connections[makeGRPCTargetKey(p1)] != nil && recv.connections[makeGRPCTargetKey(p1)].GetState() != connectivity.Shutdown)] ret <inlined>"] := rfl

/-- `Set`: under the write lock; a usable connection stored meanwhile is kept, the newcomer closed and the
pooled one returned (the repaired race); otherwise the newcomer is stored and returned. -/
theorem pool_set_shape :
    poolSet = ["call recv.lock.Lock()", "defer recv.lock.Unlock()", "call recv.connections[makeGRPCTargetKey(p0)].GetState()", "[recv.connections[makeGRPCTargetKey(p0)] != nil && recv.connections[makeGRPCTargetKey(p0)] != p1 && recv.connections[makeGRPCTargetKey(p0)].GetState() != connectivity.Shutdown] call p1.Close()", "[recv.connections[makeGRPCTargetKey(p0)] != nil && recv.connections[makeGRPCTargetKey(p0)] != p1 && recv.connections[makeGRPCTargetKey(p0)].GetState() != connectivity.Shutdown] ret recv.connections[makeGRPCTargetKey(p0)]", "[!(recv.connections[makeGRPCTargetKey(p0)] != nil && recv.connections[makeGRPCTargetKey(p0)] != p1 && recv.connections[makeGRPCTargetKey(p0)].GetState() != connectivity.Shutdown)] store recv.connections[makeGRPCTargetKey(p0)] = p1", "[!(recv.connections[makeGRPCTargetKey(p0)] != nil && recv.connections[makeGRPCTargetKey(p0)] != p1 && recv.connections[makeGRPCTargetKey(p0)].GetState() != connectivity.Shutdown)] ret p1"] := rfl

/-- The cleanup loop: under the write lock, against the current table, deleting exactly on "Shutdown" and on
"no target of the table", closing (after `WaitForStateChange`, unconditionally) only in the second case, then
sleeping for the interval, which is 5 seconds; the loop is started once per pool. `hasTarget` compares the key
with `makeGRPCTargetKey` of every target of every route of every host. -/
theorem cleanup_shape :
    poolCleanup = ["call recv.lock.Lock()", "call route.GetTable()", "range recv.connections", "call rv1.GetState()", "[rv1.GetState() == connectivity.Shutdown] call delete(recv.connections, rk1)", "[!(rv1.GetState() == connectivity.Shutdown)] range route.GetTable()", "[!(rv1.GetState() == connectivity.Shutdown)] range rv2", "[!(rv1.GetState() == connectivity.Shutdown)] range rv3.Targets", "[!(rv1.GetState() == connectivity.Shutdown) && !hasTarget(rk1, route.GetTable())] call rv1.WaitForStateChange(WithTimeout#0, rv1.GetState())", "[!(rv1.GetState() == connectivity.Shutdown) && !hasTarget(rk1, route.GetTable())] call rv1.Close()", "[!(rv1.GetState() == connectivity.Shutdown) && !hasTarget(rk1, route.GetTable())] call delete(recv.connections, rk1)", "call recv.lock.Unlock()", "call time.Sleep(recv.cleanupInterval)"] ∧
    hasTargetReturns = ["range p1", "range rv1", "range rv2.Targets", "[p0 == makeGRPCTargetKey(rv3)] ret true", "ret false"] ∧
    cleanupIntervalSeconds = 5 ∧
    cleanupGoroutinesStarted = 1 := ⟨rfl, rfl, rfl, rfl⟩

/-- `main.newGrpcProxy` wires codec, unknown-service handler (the transparent handler over the director),
interceptor (configuration, stats handler, glob cache, the loaded auth schemes) and the two message limits — each from its own
configuration value, unconditionally — as the harness (`harness/c16/call.go: newProxyServer`) replicates them;
`ListenAndServeGRPC` passes the options unchanged to `grpc.NewServer`. -/
theorem proxy_wiring_pinned :
    grpcServerOptions = ["grpc.CustomCodec(grpc_proxy.Codec())", "grpc.MaxRecvMsgSize(p0.Proxy.GRPCMaxRxMsgSize)", "grpc.MaxSendMsgSize(p0.Proxy.GRPCMaxTxMsgSize)", "grpc.StatsHandler(p2)", "grpc.StreamInterceptor(lit#proxy.GrpcProxyInterceptor.Stream)", "grpc.UnknownServiceHandler(grpc_proxy.TransparentHandler(proxy.GetGRPCDirector(p1, p0)))"] ∧
    grpcInterceptorLit = ["lit proxy.GrpcProxyInterceptor {AuthSchemes=LoadAuthSchemes#0; Config=p0; GlobCache=route.NewGlobCache(p0.GlobCacheSize); StatsHandler=p2}"] ∧
    grpcNewServer = ["[!(ListenTCP#1 != nil)] call grpc.NewServer(p1...)"] := ⟨rfl, rfl, rfl⟩

end Fabio.Props.C16Facts
