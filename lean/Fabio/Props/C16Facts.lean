import Fabio.Generated.C16
import Fabio.Model.C16
/-!
OBLIGATIONS over the facts regenerated from `/repo` on every run (`tools/factgen/c16.go`): statements the proof
chain of C16 needs and that no correspondence stream establishes by running the code. Each names the breaking
change it is there to exclude and is stated over the weakest observation that still excludes it — an order
relation, a count, a membership — not over a spelled-out event list. Pins of sequential code whose behaviour
the streams compare with the model on every run live in `C16Pins.lean` (change detectors). Core only, `decide`.
-/
namespace Fabio.Props.C16Facts
open Fabio Fabio.Generated.C16

/-- **Lock discipline of the pool.** Every function that touches the pool's connection map does so inside a
lock: no read without a lock, no store or delete without the *write* lock (walked in source order over every
function of the package that mentions the map; goroutine bodies start without a lock). The pool model reads
and writes the map in single steps; the race theorem's micro-steps `read` and `set` and the cleanup step are
atomic because of this.
Excludes: dropping the `RLock` around `Get`'s read, downgrading `cleanup`'s `Lock` to `RLock`, a store outside
`Set`'s critical section: data races on a Go map that show only under an unlucky interleaving (`c16.race` runs
without the race detector and would see them by luck at best). -/
theorem pool_map_only_touched_under_its_lock :
    poolUnlockedAccesses = [] ∧ poolWritesUnderReadLock = [] := by decide

/-- … and every such function has exactly **one** critical section (one lock acquisition), at least the three
the model knows (`Get`, `Set`, the cleanup loop): `Set`'s check-and-store is one atomic step (the repaired race,
`race_outcomes`), one iteration of the cleanup loop is atomic with respect to `Get` and `Set` (`Pool.cleanup` is
one step of `World.step`; `c16.pool` sequences the real loop through the mutex on that assumption).
Excludes: releasing and re-taking the lock between `Set`'s check and its store, or between cleanup's scan and
its deletes — every access still under a lock, atomicity gone. -/
theorem pool_critical_sections_are_single :
    poolLockScopeKinds.all (fun k => k.length == 1) = true ∧ 3 ≤ poolAccessorCount := by decide

/-- **Gates before the handler.** In `GrpcProxyInterceptor.Stream` (helpers followed) the table is consulted
exactly once and first, the handler — which alone leads to director, pool and dialler — is called exactly once,
in the function's own flow (not in a goroutine, a deferred call or a closure), and it is the *last* of these
events: every status the interceptor answers by itself (`Internal`, `NotFound`, `PermissionDenied`,
`Unauthenticated`) is returned before the handler can run. Hypothesis of `noroute_notfound_no_backend` and of
`Props.C16Serve.gate_rejects_no_backend` ("rejected ⇒ state unchanged").
Excludes: starting the handler (or the dial) before the access/auth decision is known. C16's streams exercise
`NotFound`, `Internal` and the access gate; the auth gate's order is exercised by C12's `c12.grpc` only. -/
theorem stream_gates_precede_the_handler :
    streamOrder.head? = some "lookup" ∧ streamOrder.count "lookup" = 1 ∧
    streamOrder.getLast? = some "handler" ∧ streamOrder.count "handler" = 1 ∧
    ["go-handler", "defer-handler", "handler-in-closure"].all (fun e => !streamOrder.contains e) = true ∧
    ["status:NotFound", "status:PermissionDenied", "status:Unauthenticated"].all (streamOrder.contains ·) = true := by
  decide

/-- **Link to C03.** The synthetic request the interceptor hands to `Table.Lookup` sets no `TLS` field — not in
the composite literal, not by a later store — so the routing model is applied with `tls := false`
(`Props/C16Compose.lean: grpcReq`), and it does set `Host` and `URL`.
Excludes: filling `TLS` for calls that arrive on a `grpcs` listener (C03 then strips `:443` instead of `:80`
from the host): invisible to `c16.call`, whose in-process proxy has a plain listener and whose `dsthost`
values carry no port. -/
theorem synthetic_request_has_no_tls :
    lookupRequestFields.contains "TLS" = false ∧ lookupRequestTLSStores = 0 ∧
    lookupRequestFields.contains "Host" = true ∧ lookupRequestFields.contains "URL" = true := by decide

/-- **What the interceptor decides for a call travels in that call's own context.** On the call path —
`Stream`, `lookup`, `getDestinationHostFromMetadata`, the closure `GetGRPCDirector` returns, and every
unexported helper of the package they call — no package-level variable is read, called or written, nothing is
stored through the interceptor's receiver, and nothing is stored into a variable the director's closure
captures: target and metadata reach the director only through `context.WithValue` / the stream's context, which
belong to one call. The models (`World.call`, `Serve.LWorld.call`, `Relay.init`) and `grpc_call_end_to_end` treat
a call as a function of *its own* method, metadata and the table; the per-call relay theorems are about one
call's four streams.
Excludes: parking the chosen target (or the copied metadata) in a package variable or a field between
interceptor and director — two calls in flight at the same time then exchange their backends, but only when a
second call's store falls between the first call's store and its director's read (microseconds): the
concurrent calls of `c16.call`'s "par" steps hit that window by luck at best (hand edit Mp: 246 cases, quiet). -/
theorem call_path_keeps_no_shared_state : callPathSharedState = [] := by decide

end Fabio.Props.C16Facts
