import Fabio.Generated.C16
import Fabio.Model.C16
/-!
Obligations over the facts regenerated from `/repo` on every run (C16): what the model of the interceptor,
the director and the connection pool silently assumes about `proxy/grpc_handler.go` and `main.go`.
-/
namespace Fabio.Props.C16Facts
open Fabio Fabio.Generated.C16

/-- The destination host is read from the metadata key the model uses, and only when it has exactly one value. -/
theorem dsthost_key_pinned :
    dsthostKey.toList = Model.C16.dsthostKey ∧ dsthostCond = "len(hosts) == 1" := by decide

/-- **Link to C03.** `lookup` builds the request from `getDestinationHostFromMetadata(md)` (Host) and
`url.ParseRequestURI(fullMethodName)` (URL) and consults the table exactly once, through `Table.Lookup` on
the current table with the configured picker and matcher. -/
theorem lookup_calls_table_lookup_once :
    reqHostInit = "g.getDestinationHostFromMetadata(md)" ∧
    reqURLInit = "url.ParseRequestURI(fullMethodName)" ∧
    tableLookupCalls = ["route.GetTable().Lookup(req, req.Header.Get(\"trace\"), pick, match, g.GlobCache, g.Config.GlobMatchingDisabled)"] ∧
    lookupPicker = "route.Picker[g.Config.Proxy.Strategy]" ∧
    lookupMatcher = "route.Matcher[g.Config.Proxy.Matcher]" ∧
    streamLookupArgs = "ctx, info.FullMethod" := by decide

/-- The synthetic request sets `Host`, `URL` and `Header` only: `TLS` stays nil, so the routing model (C03)
is applied with `tls := false` (`Props/C16Compose.lean: grpcReq`). -/
theorem synthetic_request_has_no_tls : reqFields = ["Host", "URL", "Header"] := by decide

/-- The interceptor looks up first, answers a nil target with `codes.NotFound` and returns there — before
the (single) call of the handler, which alone leads to director and pool. A lookup error is `codes.Internal`. -/
theorem nil_target_returns_notfound_before_handler :
    streamOrderLookupNilHandler = true ∧ streamNilTargetReturns = true ∧
    streamNilTargetCode = "codes.NotFound" ∧ streamNilTargetMessage = "no route found" ∧
    streamLookupErrorCode = "codes.Internal" ∧ streamHandlerCalls = 1 := by decide

/-- The director copies the incoming metadata to the outgoing context and asks the pool for the target the
interceptor stored in the context; the pool key is `URL.String()`. -/
theorem director_copies_metadata_and_uses_pool :
    directorOutgoingContextArgs = "ctx, md.Copy()" ∧ directorPoolGetArgs = "outCtx, target" ∧
    directorTargetInit = "ctx.Value(targetKey{}).(*route.Target)" ∧
    directorPoolInit = "newGrpcConnectionPool(tlscfg, cfg)" ∧
    targetKeyExpr = "t.URL.String()" ∧ hasTargetCond = "tKey == makeGRPCTargetKey(t)" := by decide

/-- Lock kinds and the shape of `Get` / `newConnection` / `Set` the pool model relies on: `Get` reads under
the read lock and reuses a non-Shutdown connection, otherwise dials once and stores once; `Set` runs under
the write lock and keeps a usable connection stored meanwhile (the repaired race). -/
theorem pool_get_set_shape :
    getLockCalls = ["RLock", "RUnlock"] ∧
    getHitCond = "conn != nil && conn.GetState() != connectivity.Shutdown" ∧
    getNewConnectionCalls = 1 ∧ newConnectionDials = 1 ∧ newConnectionSets = 1 ∧
    dialTarget = "target.URL.Host" ∧
    setLockCalls = ["Lock", "Unlock"] ∧
    setKeepsPooledCond = "cur != nil && cur != conn && cur.GetState() != connectivity.Shutdown" := by decide

/-- The cleanup loop: under the write lock, against the current table, deleting exactly on "Shutdown" and on
"no target of the table", closing only in the second case, every 5 seconds, started once per pool. -/
theorem cleanup_shape :
    cleanupLockCalls = ["Lock", "Unlock"] ∧ cleanupTableInit = "route.GetTable()" ∧
    cleanupDeleteConds = ["state == connectivity.Shutdown", "!hasTarget(tKey, table)"] ∧
    cleanupCloses = 1 ∧ cleanupSleepArg = "p.cleanupInterval" ∧
    cleanupIntervalSeconds = 5 ∧ cleanupGoroutinesStarted = 1 := by decide

/-- `main.newGrpcProxy` wires codec, unknown-service handler, interceptor and limits as the harness
(`harness/c16/call.go: newProxyServer`) replicates them; `ListenAndServeGRPC` passes the options unchanged. -/
theorem proxy_wiring_pinned :
    grpcServerOptions = ["grpc.CustomCodec(grpc_proxy.Codec())", "grpc.UnknownServiceHandler(handler)",
      "grpc.StreamInterceptor(proxyInterceptor.Stream)", "grpc.StatsHandler(statsHandler)",
      "grpc.MaxRecvMsgSize(cfg.Proxy.GRPCMaxRxMsgSize)", "grpc.MaxSendMsgSize(cfg.Proxy.GRPCMaxTxMsgSize)"] ∧
    grpcHandlerInit = "grpc_proxy.TransparentHandler(proxy.GetGRPCDirector(tlscfg, cfg))" ∧
    grpcNewServerArgs = "opts..." := by decide

end Fabio.Props.C16Facts
