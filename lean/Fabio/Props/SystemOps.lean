import Fabio.Props.System
/-!
System-level composition, with the operator's commands (round 4).

`System.forwarded_after_history` covers a manual text without commands. Here the manual text is arbitrary: by C01's
`operator_on_top` the active table is the operator's parsed commands applied, in order, by C05's specification
machine to the service table — and an invariant of that machine says where a target can come from:

* `ident`                         — what no command changes about a target: service, URL, tags, options (`route weight`
                                    rewrites the fixed weight, every command recomputes the effective weight);
* `specApply_origin`              — one command: a target of the result is a target of the spec before (same `ident`,
                                    same (host, path)) or — only for `route add` — the command's own new target, stored
                                    under the command's (host, path);
* `specFold_origin`               — any command list: a target of the result is a target of the initial spec or the
                                    new target of one of the list's `route add` commands;
* `forwarded_to_eligible_or_operator` — after ANY finite history of service/manual events whose last service text is
                                    that of registry state R and whose last manual text parses to commands `dsM` that
                                    apply: a forwarded request goes to a target that is, up to weights, the `route add`
                                    of a routing tag of an instance eligible in R, or the `route add` of one of the
                                    operator's own commands. Nothing else can receive traffic — in particular no instance
                                    that is unhealthy in R, unless the operator names its URL explicitly.
-/
namespace Fabio.Props.SystemOps
open Fabio Fabio.Model Fabio.Model.ServeHTTP
open Fabio.Model.Route (Env RouteDef Table Target Route Err Cmd weigh)
open Fabio.Model.C05Spec
open Fabio.Model.C01 Fabio.Model.C01Compose Fabio.Props.C01Compose
open Fabio.Model.C14 (Intent intents wantDef)
open Fabio.Model.Parse (loadTable ParseFloat parse)
open Fabio.Lemmas.C14 (core)
open Fabio.Props.System (selected_target_in_abs inv_of_loadTable)

/-- what no command changes about a target -/
def ident (t : Target) : List Char × List Char × List (List Char) × List (List Char × List Char) :=
  (t.service, t.url, t.tags, t.opts)

theorem ident_wfun (n nf : Nat) (sf : Rat) (t : Target) : ident (Fabio.Lemmas.C05Del.wfun n nf sf t) = ident t := by
  unfold Fabio.Lemmas.C05Del.wfun ident
  split
  · rfl
  · split <;> rfl

theorem mem_weigh {ts : List Target} {y : Target} (h : y ∈ weigh ts) : ∃ y0 ∈ ts, ident y0 = ident y := by
  rw [Fabio.Lemmas.C05Del.weigh_eq] at h
  obtain ⟨y0, h0, rfl⟩ := List.mem_map.1 h
  exact ⟨y0, h0, (ident_wfun _ _ _ y0).symm⟩

/-- where a target of the spec after one command comes from -/
def Origin (env : Env) (S : Spec) (d : RouteDef) (h p : List Char) (y : Target) : Prop :=
  (∃ y0 ∈ S h p, ident y0 = ident y) ∨
  (d.cmd = .add ∧ ∃ u, env.normURL d.dst = some u ∧ key d.src = (h, p) ∧ ident y = ident (newTarget d u))

theorem upd_mem {S : Spec} {h p h' p' : List Char} {ts : List Target} {y : Target} (hy : y ∈ upd S h p ts h' p') :
    (h' = h ∧ p' = p ∧ y ∈ ts) ∨ y ∈ S h' p' := by
  unfold upd at hy
  split at hy
  · rename_i hc; exact Or.inl ⟨hc.1, hc.2, hy⟩
  · exact Or.inr hy

theorem specAdd_origin (env : Env) (S S' : Spec) (d : RouteDef) (hcmd : d.cmd = .add)
    (h : specAdd env S d = .ok S') (h' p' : List Char) (y : Target) (hy : y ∈ S' h' p') : Origin env S d h' p' y := by
  unfold specAdd at h
  simp only at h
  split at h
  · cases h
  · split at h
    · cases h
    · split at h
      · cases h
      · rename_i url hu
        split at h
        · cases h
        · split at h
          · cases h
          · split at h
            · cases h; exact Or.inl ⟨y, hy, rfl⟩
            · cases h
              rcases upd_mem hy with ⟨e1, e2, hm⟩ | hm
              · subst e1; subst e2
                obtain ⟨y0, h0, hi⟩ := mem_weigh hm
                rcases List.mem_append.1 h0 with hin | hnew
                · exact Or.inl ⟨y0, hin, hi⟩
                · have : y0 = newTarget d url := by simpa using hnew
                  subst this
                  exact Or.inr ⟨hcmd, url, hu, rfl, hi.symm⟩
              · exact Or.inl ⟨y, hm, rfl⟩

theorem mem_dropSel {sel : Target → Bool} {ts : List Target} {y : Target} (h : y ∈ dropSel sel ts) :
    ∃ y0 ∈ ts, ident y0 = ident y := by
  unfold dropSel at h
  obtain ⟨y0, h0, hi⟩ := mem_weigh h
  exact ⟨y0, (List.mem_filter.1 h0).1, hi⟩

theorem specDel_origin (env : Env) (S S' : Spec) (d : RouteDef)
    (h : specDel env S d = .ok S') (h' p' : List Char) (y : Target) (hy : y ∈ S' h' p') :
    ∃ y0 ∈ S h' p', ident y0 = ident y := by
  unfold specDel at h
  simp only at h
  split at h
  · cases h; exact mem_dropSel hy
  · split at h
    · cases h; exact mem_dropSel hy
    · split at h
      · cases h
        rcases upd_mem hy with ⟨e1, e2, hm⟩ | hm
        · subst e1; subst e2; exact mem_dropSel hm
        · exact ⟨y, hm, rfl⟩
      · split at h
        · cases h
        · cases h
          rcases upd_mem hy with ⟨e1, e2, hm⟩ | hm
          · subst e1; subst e2; exact mem_dropSel hm
          · exact ⟨y, hm, rfl⟩

theorem specWeigh_origin (S S' : Spec) (d : RouteDef)
    (h : specWeigh S d = .ok S') (h' p' : List Char) (y : Target) (hy : y ∈ S' h' p') :
    ∃ y0 ∈ S h' p', ident y0 = ident y := by
  unfold specWeigh at h
  simp only at h
  split at h
  · cases h
  · split at h
    · cases h
    · cases h
      rcases upd_mem hy with ⟨e1, e2, hm⟩ | hm
      · subst e1; subst e2
        obtain ⟨y1, h1, hi⟩ := mem_weigh hm
        obtain ⟨y0, h0, rfl⟩ := List.mem_map.1 h1
        refine ⟨y0, h0, ?_⟩
        rw [← hi]
        split <;> rfl
      · exact ⟨y, hm, rfl⟩

/-- **specApply_origin.** -/
theorem specApply_origin (env : Env) (S S' : Spec) (d : RouteDef)
    (h : specApply env S d = .ok S') (h' p' : List Char) (y : Target) (hy : y ∈ S' h' p') : Origin env S d h' p' y := by
  unfold specApply at h
  split at h
  · rename_i hc; exact specAdd_origin env S S' d hc h h' p' y hy
  · exact Or.inl (specDel_origin env S S' d h h' p' y hy)
  · exact Or.inl (specWeigh_origin S S' d h h' p' y hy)
  · cases h

/-- **specFold_origin.** -/
theorem specFold_origin (env : Env) : ∀ (ds : List RouteDef) (S S' : Spec),
    ds.foldlM (specApply env) S = .ok S' → ∀ h' p' y, y ∈ S' h' p' →
      (∃ y0 ∈ S h' p', ident y0 = ident y) ∨
      (∃ d ∈ ds, d.cmd = .add ∧ ∃ u, env.normURL d.dst = some u ∧ key d.src = (h', p') ∧ ident y = ident (newTarget d u)) := by
  intro ds
  induction ds with
  | nil =>
    intro S S' h h' p' y hy
    simp only [List.foldlM_nil, pure, Except.pure] at h
    cases h
    exact Or.inl ⟨y, hy, rfl⟩
  | cons d ds ih =>
    intro S S' h h' p' y hy
    simp only [List.foldlM_cons, bind, Except.bind] at h
    cases h1 : specApply env S d with
    | error e => rw [h1] at h; cases h
    | ok S1 =>
      rw [h1] at h
      rcases ih S1 S' h h' p' y hy with ⟨y1, hy1, hi⟩ | ⟨d', hd', hc, u, hu, hk, hi⟩
      · rcases specApply_origin env S S1 d h1 h' p' y1 hy1 with ⟨y0, hy0, hi0⟩ | ⟨hc, u, hu, hk, hi0⟩
        · exact Or.inl ⟨y0, hy0, hi0.trans hi⟩
        · exact Or.inr ⟨d, List.mem_cons_self, hc, u, hu, hk, hi.symm.trans hi0⟩
      · exact Or.inr ⟨d', List.mem_cons_of_mem _ hd', hc, u, hu, hk, hi⟩

theorem ident_of_core {a b : Target} (h : core a = core b) : ident a = ident b := by
  have h1 := congrArg Target.service h
  have h2 := congrArg Target.url h
  have h3 := congrArg Target.tags h
  have h4 := congrArg Target.opts h
  simp only [core] at h1 h2 h3 h4
  unfold ident
  rw [h1, h2, h3, h4]

section
variable (env : Env) (pf : ParseFloat) (ccfg : Fabio.Model.C14.Cfg) (st : List (List Char)) (strict : Bool)
variable (checks : List Check) (catalog : List Char → List Instance)

/-- **forwarded_to_eligible_or_operator.** -/
theorem forwarded_to_eligible_or_operator (wf : WellFormed ccfg checks catalog)
    (es : List Event) (M : List Char) (dsM : List RouteDef) (S' : Spec) (hne : es ≠ [])
    (hsvc : (lastSvc es).getD [] = svcText env pf ccfg st strict checks catalog)
    (hman : (lastMan es).getD [] = M) (hM : parse pf M = .ok dsM)
    (pcfg : ServeHTTP.Cfg) (hpick : Props.C03.PickOK pcfg.lookup.pick) (r : Request) {f : Forward}
    (hf : serveHTTP pcfg (run (loadOpt env pf) (init ([] : Table)) es).active r = .forward f)
    (tS : Table) (hS : loadTable env pf (svcText env pf ccfg st strict checks catalog) = .ok tS)
    (hfold : dsM.foldlM (specApply env) (abs tS) = .ok S') :
    ∃ h ro tg, select pcfg (run (loadOpt env pf) (init ([] : Table)) es).active r = some (h, ro, tg) ∧
      f.upstream = targetHost pcfg tg ∧
      ((∃ i, Eligible st strict checks catalog i ∧
          ∃ it ∈ intents ccfg (regOf i), ∃ d u, wantDef pf it = some d ∧ env.normURL d.dst = some u ∧
            key d.src = (lowerL h, ro.path) ∧ ident tg = ident (newTarget d u)) ∨
       (∃ d ∈ dsM, d.cmd = .add ∧ ∃ u, env.normURL d.dst = some u ∧ key d.src = (lowerL h, ro.path) ∧
            ident tg = ident (newTarget d u))) := by
  obtain ⟨ta, hta, habs⟩ := operator_on_top_loads env pf _ M tS hS dsM S' hM hfold
  have hact := Fabio.Props.C01.quiescent_table (loadOpt env pf) (init ([] : Table)) es _ M ta
    (Fabio.Props.C01.init_inv _ _) hne hsvc hman ((loadOpt_some env pf _ ta).2 hta)
  rw [hact] at hf ⊢
  obtain ⟨h, ro, tg, hsel, ⟨_, hro, _, htg, _⟩, _⟩ := Props.ServeHTTP.upstream_contacted_only_if pcfg ta r hpick hf
  obtain ⟨h', ro', tg', hsel', hup, _⟩ := Props.ServeHTTP.forward_fields pcfg ta r hf
  rw [hsel] at hsel'
  cases hsel'
  have hin := selected_target_in_abs (inv_of_loadTable hta) hro htg
  rw [habs] at hin
  refine ⟨h, ro, tg, hsel, hup, ?_⟩
  rcases specFold_origin env dsM (abs tS) S' hfold (lowerL h) ro.path tg hin with ⟨y0, hy0, hi⟩ | hop
  · left
    obtain ⟨i, he, it, hit, d, u, hw, hu, hk, hc⟩ :=
      table_sound env pf ccfg st strict checks catalog wf tS hS (lowerL h) ro.path y0 hy0
    exact ⟨i, he, it, hit, d, u, hw, hu, hk, hi.symm.trans (ident_of_core hc)⟩
  · right; exact hop

end

/-! ### non-vacuity: the two-node registry, the operator adds a route to a third machine and deletes nothing -/
namespace Demo
open Fabio.Props.C14 (envW pfW cfgW)
open Fabio.Props.C01Compose (checksW catalogW stW wellFormedW)
open Fabio.Props.System.Demo (pcfgW reqW)

def manW : List Char := "route add ops foo.com/ops http://10.0.0.9:9000/".toList

def esW : List Event :=
  [.svc "route add old /old http://1.1.1.1:1/".toList, .man "rubbish".toList,
   .svc (svcText envW pfW cfgW stW false checksW catalogW), .man manW]

/-- the manual text parses to one `route add`, and it applies on top of the service table -/
example : (parse pfW manW).toOption.map (fun ds => ds.map (fun d => (d.cmd == Cmd.add, d.src, d.dst))) =
    some [(true, "foo.com/ops".toList, "http://10.0.0.9:9000/".toList)] := by decide +kernel

/-- a request under the operator's prefix is forwarded on the table the loop serves after that history (the demo
`parseURL` maps every target URL to one host, so only the outcome class is shown) -/
example : (serveHTTP pcfgW (run (loadOpt envW pfW) (init ([] : Table)) esW).active
    (Props.ServeHTTP.Demo.req "foo.com" "/ops/1")).cls = "forward" := by decide +kernel

/-- and the selected target is the operator's -/
example : ((select pcfgW (run (loadOpt envW pfW) (init ([] : Table)) esW).active
    (Props.ServeHTTP.Demo.req "foo.com" "/ops/1")).map (fun x => x.2.2.url)) = some "http://10.0.0.9:9000/".toList := by
  decide +kernel

/-- while a request outside it still goes to the healthy instance -/
example : ((select pcfgW (run (loadOpt envW pfW) (init ([] : Table)) esW).active reqW).map (fun x => x.2.2.url)) =
    some "http://10.0.0.1:8000/".toList := by decide +kernel

end Demo

end Fabio.Props.SystemOps
