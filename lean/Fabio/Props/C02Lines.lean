import Fabio.Lemmas.C02Lines
import Fabio.Lemmas.C02Drain
import Fabio.Props.C02Buf
/-!
C02, round 4 — `bufio.Scanner` reads the raw lines of the parser model.

`Model/Parse.lean` (the model of `route.Parse` used by every theorem about `loadTable`) reads a text as
`rawLines text` — the pieces between newlines, a final empty piece dropped — and reports `ErrTooLong` at the first
raw line of 65536 bytes or more. Until this round that reading of `bufio.Scanner` was an assumption listed in the
trusted base. `Model/C02Buf.lean` models `Scanner.Scan` on a `bytes.Buffer` statement by statement (compared with the
real one per case by stream `c02.buffer`); this file proves that the two models agree:

```
scanAll goCfg (nlFlags text)      all tokens of the chunked scanner        Lemmas/C02Scan.lean (one call: next_spec)
   =  segs (nlFlags text) 65536   maximal newline-free byte segments       Lemmas/C02ScanAll.lean (scanAll_eq_segs)
   =  cutLens 65536 ((rawLines text).map byteLen)                         Lemmas/C02Lines.lean (segs_are_rawLines)
```
-/
namespace Fabio.Props.C02Lines
open Fabio Fabio.Model.C02Buf Fabio.Model.Parse Fabio.Model.Route
open Fabio.Lemmas.C02Scan Fabio.Lemmas.C02ScanAll Fabio.Lemmas.C02Lines

/-- **The chunked scanner delivers the raw lines.** For every text: the tokens `bufio.Scanner` (4096-byte start buffer
doubling to 64 KiB, shifts, reads of whatever fits) delivers over all its calls have the byte lengths of
`Parse.rawLines text`, in order, up to the first raw line of 65536 bytes or more, and the scanner ends with
`ErrTooLong` exactly when there is such a line (`cutLens`). Since tokens and raw lines are consecutive pieces of the
same text separated by single newlines, equal lengths mean equal content. -/
theorem scanner_reads_the_raw_lines (text : Str) (n : Nat) (hn : byteLen text < n) :
    ((scanAll goCfg (nlFlags text) n {}).1.map (·.2), (scanAll goCfg (nlFlags text) n {}).2.tooLong) =
      cutLens 65536 ((rawLines text).map byteLen) := by
  have hsize : (nlFlags text).size = byteLen text := Fabio.Props.C02Buf.nlFlags_size text
  have hflags : byteLenFlags text = byteLen text := by
    have := nlFlags_eq text
    unfold byteLenFlags
    rw [← hsize, this]
    simp
  have h1 := scanAll_eq_segs goCfg (nlFlags text) (by decide) (by decide) n {} (Ok.init _ _)
    (by show (nlFlags text).size - 0 < n; omega)
  have h2 := segs_are_rawLines text 65536 n (by omega)
  have hb : ({} : Scan).base = 0 := rfl
  rw [hb] at h1
  rw [h1.1, h1.2]
  exact h2

/-- what `parseLines` does with the lengths: the over-long check of the parser model is `cutLens` -/
theorem cutLens_is_the_parser_check (ls : List Str) :
    (cutLens maxToken (ls.map byteLen)).2 = ls.any (fun r => decide (maxToken ≤ byteLen r)) := by
  induction ls with
  | nil => rfl
  | cons r rs ih =>
    simp only [List.map_cons, cutLens, List.any_cons]
    by_cases h : maxToken ≤ byteLen r
    · simp [h]
    · simp [h, ih]

/-- **An accepted text is read to its end.** When the parser model accepts a text, the model of `bufio.Scanner` has taken
every byte out of the buffer it was handed: nothing of an accepted configuration stays behind in `tableBuffer`. This is
the statement stream `c02.buffer` evaluates on the real `route.NewTable` per case (`accepted-text-not-read-to-end`), and
the reason the loop without `Reset` (`noReset_refines_when_drained`) goes wrong only after a REJECTED text. -/
theorem accepted_text_is_read_to_end (pf : ParseFloat) (text : Str) (ds : List RouteDef) (h : parse pf text = .ok ds) :
    leftAfterParse pf text = 0 :=
  Fabio.Lemmas.C02Drain.accepted_text_is_read_to_end pf text ds h

/-- the same for `route.NewTable`: whenever `loadTable` gets as far as the table code (a table, or an error of the
table code), the buffer is empty afterwards -/
theorem loadTable_past_parse_drains (env : Env) (pf : ParseFloat) (text : Str)
    (h : ∀ e, loadTable env pf text ≠ .error (.parse e)) : leftAfterParse pf text = 0 := by
  unfold loadTable at h
  cases hp : parse pf text with
  | error e => exact absurd (by simp [hp]) (h e)
  | ok ds => exact accepted_text_is_read_to_end pf text ds hp

/-! ## non-vacuity -/
section examples

/-- a text the parser accepts (a comment and a blank line): hypothesis of `accepted_text_is_read_to_end` satisfiable -/
example : ∃ ds, parse (fun _ => none) "# c\n\n".toList = .ok ds := ⟨[], by rfl⟩

/-- three lines and an empty one, CRLF untouched at this level; a text ending in a newline has no extra line -/
example : cutLens 65536 ((rawLines "ab\r\ncd\n\nx".toList).map byteLen) = ([3, 2, 0, 1], false) := by decide
example : (rawLines "ab\n".toList).map byteLen = [2] := by decide
/-- with an 8-byte limit the second line is too long: both sides stop after the first -/
example : cutLens 8 ((rawLines "ab\n0123456789\nzz".toList).map byteLen) = ([2], true) := by decide

end examples

end Fabio.Props.C02Lines
