import Fabio.Lemmas.C02
import Fabio.Model.Parse
/-!
C02 — table replacement is atomic, keeps the last good table, never crashes: the property theorems.

Model: `Fabio/Model/C02.lean` (the atomic cell with readers and writers under every schedule; the
`watchBackend` loop; the custom backend poll). Proofs of the invariants: `Fabio/Lemmas/C02.lean`.
The table type `T`, the pure lookup `lookupPure : T → Req → Ans`, the number `k req` of internal steps of a
lookup and the table constructor `build : Text → Option T` are PARAMETERS of the concurrency and history
theorems (they hold for every such choice); the last section instantiates `build` with the Lean model of
`route.NewTable` (`Fabio.Model.Parse.loadTable`).

What the theorems do not say: that Go's `atomic.Value` is one micro-step (trusted semantics of
`sync/atomic`), that a published table is never written again (fact `lookupWrites` of C06 + race detector,
stream `c02.swap`), and that the real `NewTable`/`Lookup` cannot panic (see `build_total` and the stream
`c02.nopanic`).
-/
namespace Fabio.Props.C02
open Fabio Fabio.Model.C02 Fabio.Lemmas.C02

section cell
variable {T Req Ans : Type}

/-! ## every lookup is answered from exactly one table the cell held -/

/-- **Linearizability of lookups.** For every schedule of any number of readers and writers (each reader
serving any list of requests, each writer making any list of `SetTable` calls, `nil` included), every
completed lookup `r` was answered as `lookupPure t r.req` from ONE table `t` — entry `r.idx` of the history of
the cell's contents — never from a mixture. (`r.idx` is recorded by the load step as the index of the value
the cell holds at that step: see `lookup_answered_from_table_at_load`.) -/
theorem lookup_linearizable (lk : Lk T Req Ans) (t0 : T) (ths : List (Thread T Req Ans))
    (hfresh : ∀ th ∈ ths, th.fresh = true) (sch : List Nat) :
    ∀ th ∈ (Sys.run lk sch (Sys.start t0 ths)).threads, ∀ r ∈ th.results,
      ∃ t, (Sys.run lk sch (Sys.start t0 ths)).cell.hist[r.idx]? = some t ∧ r.ans = lk.lookupPure t r.req := by
  intro th hth r hr
  have inv := (Inv.run sch (Inv.start lk t0 ths hfresh)).1
  have ok := inv.thr th hth
  cases th with
  | writer todo => simp [Thread.results] at hr
  | reader todo cur done => exact ok.2.1 r hr

/-- **… and that table is the cell's content at the reader's load step.** Split any schedule as
`pre ++ [i] ++ post` where step `i` is the load of reader `i` for request `req` (the reader is between two
lookups, `done` are its earlier results). Whatever runs afterwards — stores by writers, other readers, the
reader's own internal steps — the reader's next result, once it exists, is
`lookupPure (content of the cell after pre) req`, tagged with the index of that content in the history. -/
theorem lookup_answered_from_table_at_load (lk : Lk T Req Ans) (s : Sys T Req Ans) (i : Nat) (req : Req)
    (todo : List Req) (done : List (Result Req Ans))
    (hload : s.threads[i]? = some (.reader (req :: todo) none done)) (post : List Nat) :
    ∃ th, (Sys.run lk post (s.stepAt lk i)).threads[i]? = some th ∧
      (th.results.length ≤ done.length ∨
       th.results[done.length]? = some { req := req, idx := s.cell.hist.length - 1, ans := lk.lookupPure s.cell.val req }) := by
  have hlt : i < s.threads.length := (List.getElem?_eq_some_iff.mp hload).1
  have h0 : ∃ th, (s.stepAt lk i).threads[i]? = some th ∧
      Fut lk { req := req, snap := s.cell.val, idx := s.cell.hist.length - 1, left := lk.k req } done th := by
    refine ⟨(Thread.step lk s.cell (.reader (req :: todo) none done)).2, ?_, Or.inl ⟨todo, lk.k req, ?_⟩⟩
    · unfold Sys.stepAt; rw [hload]; simp [hlt]
    · simp [Thread.step, Cell.load]
  obtain ⟨th, hth, hf⟩ := Fut.run lk i post _ h0
  refine ⟨th, hth, ?_⟩
  rcases hf with ⟨todo', n, rfl⟩ | ⟨todo', cur, more, rfl⟩
  · left; simp [Thread.results]
  · right; simp [Thread.results, answerOf]

/-- The table a lookup was answered from is the initial table or one a writer passed to `SetTable`. -/
theorem readers_see_initial_or_stored (lk : Lk T Req Ans) (t0 : T) (ths : List (Thread T Req Ans))
    (hfresh : ∀ th ∈ ths, th.fresh = true) (sch : List Nat) :
    ∀ th ∈ (Sys.run lk sch (Sys.start t0 ths)).threads, ∀ r ∈ th.results,
      ∃ t, (t = t0 ∨ t ∈ ths.flatMap Thread.stores) ∧ r.ans = lk.lookupPure t r.req := by
  intro th hth r hr
  have inv := (Inv.run sch (Inv.start lk t0 ths hfresh)).1
  obtain ⟨t, ht, ha⟩ := lookup_linearizable lk t0 ths hfresh sch th hth r hr
  exact ⟨t, inv.mem t (List.mem_of_getElem? ht), ha⟩

/-- A reader never goes back in time: the tables behind its successive lookups appear in store order. -/
theorem reader_loads_monotone (lk : Lk T Req Ans) (t0 : T) (ths : List (Thread T Req Ans))
    (hfresh : ∀ th ∈ ths, th.fresh = true) (sch : List Nat) :
    ∀ th ∈ (Sys.run lk sch (Sys.start t0 ths)).threads, List.Pairwise (· ≤ ·) (th.results.map (·.idx)) := by
  intro th hth
  have ok := (Inv.run sch (Inv.start lk t0 ths hfresh)).1.thr th hth
  cases th with
  | writer todo => simp [Thread.results]
  | reader todo cur done => exact ok.2.2

/-- The history of the cell only grows: what was entry `j` after a prefix of the schedule is entry `j` after
the whole schedule (so an index denotes the same table at load time and at the end). -/
theorem history_is_append_only (lk : Lk T Req Ans) (t0 : T) (ths : List (Thread T Req Ans))
    (hfresh : ∀ th ∈ ths, th.fresh = true) (pre post : List Nat) :
    ∃ l, (Sys.run lk (pre ++ post) (Sys.start t0 ths)).cell.hist = (Sys.run lk pre (Sys.start t0 ths)).cell.hist ++ l := by
  rw [run_append]
  exact (Inv.run post (Inv.run pre (Inv.start lk t0 ths hfresh)).1).2

/-- The cell's value is always the newest entry of the history: a load reads the complete table of the
latest store (or the initial one), nothing in between. -/
theorem cell_holds_latest_store (lk : Lk T Req Ans) (t0 : T) (ths : List (Thread T Req Ans))
    (hfresh : ∀ th ∈ ths, th.fresh = true) (sch : List Nat) :
    (Sys.run lk sch (Sys.start t0 ths)).cell.hist.getLast? = some (Sys.run lk sch (Sys.start t0 ths)).cell.val := by
  have h := (Inv.run sch (Inv.start lk t0 ths hfresh)).1.cell
  unfold CellOk at h
  rw [List.getLast?_eq_getElem?]; exact h

/-- `SetTable(nil)` leaves the cell untouched (value and history). -/
theorem setTable_nil_ignored (c : Cell T) : c.setTable none = c := rfl

end cell

/-! ## the update loop keeps the last good table and applies the next valid one -/

section wb
variable {T : Type}

/-- **Keeps the last good table.** After any sequence of service/manual updates the active table is the
table of the LAST event whose concatenated text (`svccfg + "\n" + mancfg` at that event) built; if none built
it is still the initial table. -/
theorem keeps_last_good (build : Text → Option T) (t0 : T) (es : List Ev) :
    (WB.run build (WB.init t0) es).active = lastGood build t0 (texts es) :=
  run_active build es (WB.init t0) (WBInv.init build t0)

/-- **The next valid configuration is applied**, whatever failed (or was skipped) before it. -/
theorem next_valid_applied (build : Text → Option T) (t0 : T) (es : List Ev) (e : Ev) (t : T)
    (hb : build ((WB.run build (WB.init t0) es).recv e).nextText = some t) :
    (WB.run build (WB.init t0) (es ++ [e])).active = t := by
  have inv := WBInv.run build es _ (WBInv.init build t0)
  simp only [WB.run, List.foldl_append, List.foldl_cons, List.foldl_nil] at *
  rw [(step_active build _ e inv).1, hb]; rfl

/-- **An invalid configuration changes nothing**: the previously active table keeps serving. -/
theorem invalid_keeps_previous (build : Text → Option T) (t0 : T) (es : List Ev) (e : Ev)
    (hb : build ((WB.run build (WB.init t0) es).recv e).nextText = none) :
    (WB.run build (WB.init t0) (es ++ [e])).active = (WB.run build (WB.init t0) es).active := by
  have inv := WBInv.run build es _ (WBInv.init build t0)
  simp only [WB.run, List.foldl_append, List.foldl_cons, List.foldl_nil] at *
  rw [(step_active build _ e inv).1, hb]; rfl

/-- The `nextTable == lastTable` shortcut is harmless: the loop with it and the loop that always rebuilds go
through the same states. (`lastTable` is only ever the text the active table was built from; the initial
`""` can never equal a concatenation, which contains `"\n"`.) -/
theorem unchanged_text_skipped_is_harmless (build : Text → Option T) (t0 : T) (es : List Ev) :
    WB.run build (WB.init t0) es = WB.runNoSkip build (WB.init t0) es := by
  suffices h : ∀ st, WBInv build st → WB.run build st es = WB.runNoSkip build st es from h _ (WBInv.init build t0)
  induction es with
  | nil => intro st _; rfl
  | cons e es ih =>
    intro st inv
    simp only [WB.run, WB.runNoSkip, List.foldl_cons]
    rw [← step_eq_noSkip build st e inv]
    exact ih _ (step_active build st e inv).2

/-- Delivering the same update twice is the same as delivering it once (used by stream `c02.history`, which
sends every event twice: the second send returns only when the loop has finished the first). -/
theorem event_idempotent (build : Text → Option T) (st : WB T) (e : Ev) :
    WB.step build (WB.step build st e) e = WB.step build st e := by
  have hr : ∀ x : WB T, (x.recv e).recv e = x.recv e := by intro x; cases e <;> rfl
  have sd : ∀ x : WB T, WB.step build x e =
      (if (x.recv e).nextText = (x.recv e).lastTable then x.recv e
       else match build (x.recv e).nextText with
         | none => x.recv e
         | some t => { x.recv e with active := t, lastTable := (x.recv e).nextText }) := fun _ => rfl
  by_cases h : (st.recv e).nextText = (st.recv e).lastTable
  · have h1 : WB.step build st e = st.recv e := by rw [sd, if_pos h]
    rw [h1, sd, hr, if_pos h]
  · cases hb : build (st.recv e).nextText with
    | none =>
      have h1 : WB.step build st e = st.recv e := by rw [sd, if_neg h, hb]
      rw [h1, sd, hr, if_neg h, hb]
    | some t =>
      have h1 : WB.step build st e = { st.recv e with active := t, lastTable := (st.recv e).nextText } := by
        rw [sd, if_neg h, hb]
      have h2 : ({ st.recv e with active := t, lastTable := (st.recv e).nextText } : WB T).recv e =
          { st.recv e with active := t, lastTable := (st.recv e).nextText } := by cases e <;> rfl
      rw [h1, sd, h2]
      exact if_pos rfl

/-- The per-event trace the driver compares with the real loop is the last-good specification, event by
event. -/
theorem trace_last (build : Text → Option T) (t0 : T) (es : List Ev) (e : Ev) :
    (WB.trace build (WB.init t0) (es ++ [e])).getLast? = some (lastGood build t0 (texts (es ++ [e]))) := by
  rw [← keeps_last_good]
  suffices h : ∀ st : WB T, (WB.trace build st (es ++ [e])).getLast? = some (WB.run build st (es ++ [e])).active from h _
  induction es with
  | nil => intro st; simp [WB.trace, WB.run]
  | cons x xs ih =>
    intro st
    have hne : WB.trace build (WB.step build st x) (xs ++ [e]) ≠ [] := by
      cases xs <;> simp [WB.trace]
    simp only [List.cons_append, WB.trace, WB.run, List.foldl_cons]
    rw [List.getLast?_cons_of_ne_nil hne]  -- the tail is non-empty
    exact ih _

end wb

/-! ## the custom backend -/

section custom
variable {T D : Type}

/-- `route.SetTable(nil)` keeps the active table (the custom backend relies on it). -/
theorem setTable_nil_keeps_active (a : T) : setTable a none = a := rfl

/-- A poll that fails at any stage — transport, decoding, a `null` document, a definition list that does not
build — leaves the active table in place (with the repaired `NewTableCustom`). -/
theorem custom_error_keeps_table (buildDefs : D → Option T) (a : T) :
    customStep (newTableCustom buildDefs) a .httpError = .ok a ∧
    customStep (newTableCustom buildDefs) a .decodeError = .ok a ∧
    customStep (newTableCustom buildDefs) a .null = .ok a ∧
    ∀ ds, buildDefs ds = none → customStep (newTableCustom buildDefs) a (.defs ds) = .ok a := by
  refine ⟨rfl, rfl, rfl, fun ds h => ?_⟩
  simp [customStep, newTableCustom, h, Outcome.map, setTable]

/-- A definition list that builds is installed, whatever came before. -/
theorem custom_valid_applied (buildDefs : D → Option T) (a : T) (ds : D) (t : T) (h : buildDefs ds = some t) :
    customStep (newTableCustom buildDefs) a (.defs ds) = .ok t := by
  simp [customStep, newTableCustom, h, Outcome.map, setTable]

/-- No sequence of polls makes the (repaired) poll loop panic. -/
theorem custom_never_panics (buildDefs : D → Option T) (ps : List (Poll D)) :
    ∀ a, ∃ a', customRun (newTableCustom buildDefs) a ps = .ok a' := by
  induction ps with
  | nil => intro a; exact ⟨a, rfl⟩
  | cons p ps ih =>
    intro a
    have h : ∃ a1, customStep (newTableCustom buildDefs) a p = .ok a1 := by
      cases p with
      | httpError => exact ⟨a, rfl⟩
      | decodeError => exact ⟨a, rfl⟩
      | null => exact ⟨a, rfl⟩
      | defs ds => exact ⟨setTable a (buildDefs ds), rfl⟩
    obtain ⟨a1, h1⟩ := h
    obtain ⟨a', h'⟩ := ih a1
    exact ⟨a', by simp [customRun, h1, h']⟩

/-- D27 as found: with the unrepaired `NewTableCustom` the document `null` panics the polling goroutine —
whatever the active table, after any number of good polls. (Replayed on the real code from
`corpus/c02.custom.jsonl`; repaired by the `fix:` commit listed in `checks/C02.findings.json`.) -/
theorem custom_null_panicked_before_repair (buildDefs : D → Option T) (a : T) :
    (customStep (newTableCustomOld buildDefs) a .null).isPanic = true := rfl

end custom

/-! ## `build` instantiated with the model of `route.NewTable` -/

section build
open Fabio.Model.Route Fabio.Model.Parse

/-- `route.NewTable` as the `build` parameter: the table, or `none` for any error -/
def buildText (env : Env) (pf : ParseFloat) (text : Text) : Option Table := (loadTable env pf text).toOption

/-- `loadTable` (scanner, tokenizer, the three command parsers, `addRoute`/`delRoute`/`weighRoute`,
`weighTargets` over ℚ, the final sort) is a total function: every text — any characters, any length, any
`strconv.ParseFloat`/`url.Parse`/`glob.Compile` behaviour — yields a table or an error.

This is true by construction in Lean (every definition is structurally recursive and no partial operation
is used; weights are rationals, so there is no overflow to speak of). It proves that the *algorithm* has no
undefined case for any input; it does NOT by itself prove that the Go code cannot panic (float64 overflow,
slice indexing, `MustCompile`). That claim is carried by (i) the correspondence of the real `NewTable` and
`Lookup` with this total model on hostile inputs (`c02.nopanic`, outcome ∈ {table, error, panic}), (ii) the
panic-point facts in `Props/C02Facts.lean` (non-finite weights rejected, host pattern compiled when added, no
`MustCompile` on the request path, scanner error returned), (iii) the ring/picker theorems of C04. -/
theorem build_total (env : Env) (pf : ParseFloat) (text : Text) :
    (∃ t, loadTable env pf text = .ok t) ∨ (∃ e, loadTable env pf text = .error e) := by
  cases h : loadTable env pf text with
  | ok t => exact Or.inl ⟨t, rfl⟩
  | error e => exact Or.inr ⟨e, rfl⟩

/-- A failing command yields an error and NO table (never a partial one): the only table `loadTable` can
return is the one built from *all* commands. -/
theorem no_partial_table (env : Env) (pf : ParseFloat) (text : Text) (t : Table)
    (h : loadTable env pf text = .ok t) :
    ∃ defs, parse pf text = .ok defs ∧ newTable env defs = .ok t := by
  unfold loadTable at h
  cases hp : parse pf text with
  | error e => simp [hp] at h
  | ok defs =>
    refine ⟨defs, rfl, ?_⟩
    simp only [hp] at h
    cases hn : newTable env defs with
    | error e => simp [hn] at h
    | ok t' => simp only [hn] at h; cases h; rfl

/-- The history theorem for the real table constructor: after any update sequence the active table is the
one `NewTable` builds from the last configuration text it accepts. -/
theorem keeps_last_good_newTable (env : Env) (pf : ParseFloat) (es : List Ev) :
    (WB.run (buildText env pf) (WB.init ([] : Table)) es).active = lastGood (buildText env pf) [] (texts es) :=
  keeps_last_good _ _ es

/-
`ring_no_panic` and `pickers_no_panic` (every route of every table `loadTable` returns: the ring fill, `rrPicker`
and `rndPicker` never reach a panic point, the ring is non-empty) are proved in `Props/C02Ring.lean` from C04's
`every_route_ring`; they live there because that module imports Mathlib-backed proofs.

`lookup_no_panic`: C03's model `C03.Lookup` is a total function into `Option`, with a host pattern that does not
compile (or whose `Match` panics inside gobwas/glob — repair of D33) matching nothing; there is no `Outcome.panic`
in its signature to exclude, so no theorem is stated. The Go-side claim is carried by `c02.nopanic` (every built
table is looked up with all matchers and pickers) and the facts `panic_points_closed` /
`no_recover_is_relied_upon`.
-/

end build

/-! ## non-vacuity: the hypotheses are satisfiable on non-trivial values -/

section examples

/-- tables are numbers, the answer names the table and the request -/
def exLk : Lk Nat Nat (Nat × Nat) := { lookupPure := fun t r => (t, r), k := fun r => r % 3 }

def exThreads : List (Thread Nat Nat (Nat × Nat)) :=
  [.reader [1, 2, 5] none [], .writer [some 10, none, some 20], .reader [7, 8] none []]

example : ∀ th ∈ exThreads, th.fresh = true := by decide

/-- an interleaving in which reader 0 loads before the first store (and answers after it) and after the last,
reader 2 between the stores and after them; the writer's `SetTable(nil)` leaves no trace -/
def exSched : List Nat := [0, 1, 0, 0, 2, 1, 1, 0, 0, 0, 0, 2, 2, 0, 0, 0, 2, 2, 2, 2, 0, 0, 0, 0]

example : ((Sys.run exLk exSched (Sys.start 0 exThreads)).threads.map Thread.results) =
    [[⟨1, 0, (0, 1)⟩, ⟨2, 2, (20, 2)⟩, ⟨5, 2, (20, 5)⟩], [], [⟨7, 1, (10, 7)⟩, ⟨8, 2, (20, 8)⟩]] := by decide

example : (Sys.run exLk exSched (Sys.start 0 exThreads)).cell.hist = [0, 10, 20] := by decide

/-- `build`: a text builds iff it contains no '!'; the table is the text itself -/
def exBuild : Text → Option Text := fun s => if s.contains '!' then none else some s

def exEvents : List Ev := [.svc "a".toList, .man "!".toList, .svc "b".toList, .man "m".toList, .man "m".toList, .svc "!".toList]

example : WB.trace exBuild (WB.init []) exEvents =
    ["a\n".toList, "a\n".toList, "a\n".toList, "b\nm".toList, "b\nm".toList, "b\nm".toList] := by decide

example : texts exEvents = ["a\n".toList, "a\n!".toList, "b\n!".toList, "b\nm".toList, "b\nm".toList, "!\nm".toList] := by decide

example : lastGood exBuild [] (texts exEvents) = "b\nm".toList := by decide

/-- hypothesis of `next_valid_applied` after two failures -/
example : exBuild ((WB.run exBuild (WB.init []) (exEvents.take 3)).recv (.man "m".toList)).nextText = some "b\nm".toList := by
  decide

/-- hypothesis of `invalid_keeps_previous` -/
example : exBuild ((WB.run exBuild (WB.init []) (exEvents.take 1)).recv (.man "!".toList)).nextText = none := by decide

/-- custom backend: good, null, good; the repaired loop survives, the old one dies on `null` -/
def exPolls : List (Poll Nat) := [.defs 3, .null, .decodeError, .defs 0, .defs 4]
def exBuildDefs : Nat → Option Nat := fun n => if n = 0 then none else some (n * 10)

example : customTrace (newTableCustom exBuildDefs) 1 exPolls = [some 30, some 30, some 30, some 30, some 40] := by decide
example : customTrace (newTableCustomOld exBuildDefs) 1 exPolls = [some 30, none, none, none, none] := by decide

end examples

end Fabio.Props.C02
