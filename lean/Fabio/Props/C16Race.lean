import Fabio.Lemmas.C16Race
/-!
C16, round 4 — any number of callers racing for one backend's connection (`Model/C16Race.lean`).

`Props/C16.lean: race_outcomes` evaluates the 64 schedules of two callers.  Here: `n` callers, `n` arbitrary, any
schedule of any length, any pool to start from — by invariant (`Lemmas/C16Race.lean: J`), for the repaired
`Set`.  The stream `c16.race` runs 2–8 real goroutines against the real pool.
-/
namespace Fabio.Props.C16Race
open Fabio.Model.Route (Str)
open Fabio.Model.C16 Fabio.Model.C16.RaceN Fabio.Lemmas.C16 Fabio.Lemmas.C16Race
open Fabio.Model.C16.Race (TState isDone)

/-- the state `n` racing callers reach under schedule `sched` from pool `p0` with dial counter `next0` -/
def reach (p0 : Pool) (next0 n : Nat) (k : Str) (sched : List Nat) : NState :=
  run true k (start p0 next0 n) sched

theorem reach_inv (p0 : Pool) (next0 n : Nat) (k : Str) (sched : List Nat)
    (hp : ∀ c, p0.find k = some c → c.id < next0) : J p0 next0 k (reach p0 next0 n k sched) :=
  j_run p0 next0 k _ sched (j_start p0 next0 n k hp)

/-- **No connection is left open outside the pool — for any number of concurrent callers, at every moment of
every schedule.** Every connection dialled in the race is the live pooled connection of the key, or has been
closed by `Set`, or is still held by the caller that dialled it and has its `Set` before it. -/
theorem raceN_no_orphans (p0 : Pool) (next0 n : Nat) (k : Str) (sched : List Nat)
    (hp : ∀ c, p0.find k = some c → c.id < next0) :
    orphans next0 (reach p0 next0 n k sched) = [] := by
  have inv := reach_inv p0 next0 n k sched hp
  unfold orphans
  rw [List.filter_eq_nil_iff]
  intro i hi hb
  simp only [Bool.and_eq_true, decide_eq_true_eq, Bool.not_eq_true'] at hb
  obtain ⟨⟨⟨h0, hpool⟩, hclosed⟩, hheld⟩ := hb
  rcases inv.acct i h0 (List.mem_range.mp hi) with ⟨c, hc, hid, _⟩ | a | ⟨j, hj⟩
  · have hm := find_mem hc
    have : ((reach p0 next0 n k sched).pool.any fun kc => kc.2.id == i) = true :=
      List.any_eq_true.mpr ⟨(k, c), hm, by simp [hid]⟩
    rw [this] at hpool; cases hpool
  · have : (reach p0 next0 n k sched).closed.contains i = true := by simpa using a
    rw [this] at hclosed; cases hclosed
  · have : (reach p0 next0 n k sched).ts.contains (TState.dialled i) = true := by
      simpa using List.mem_of_getElem? hj
    rw [this] at hheld; cases hheld

/-- **Every caller that has returned holds the one live pooled connection**; in particular any two of them hold
the same one. -/
theorem raceN_all_share_the_pooled_connection (p0 : Pool) (next0 n : Nat) (k : Str) (sched : List Nat)
    (hp : ∀ c, p0.find k = some c → c.id < next0) :
    (∀ (j : Nat) (r : GetRes), (reach p0 next0 n k sched).ts[j]? = some (TState.done r) →
      ∃ c, (reach p0 next0 n k sched).pool.find k = some c ∧ c.shut = false ∧ r.conn? = some c.id) ∧
    (∀ (j j' : Nat) (r r' : GetRes), (reach p0 next0 n k sched).ts[j]? = some (TState.done r) →
      (reach p0 next0 n k sched).ts[j']? = some (TState.done r') → r.conn? = r'.conn? ∧ r.conn?.isSome = true) := by
  have inv := reach_inv p0 next0 n k sched hp
  refine ⟨inv.done, ?_⟩
  intro j j' r r' h h'
  obtain ⟨c, hc, _, e⟩ := inv.done j r h
  obtain ⟨c', hc', _, e'⟩ := inv.done j' r' h'
  rw [hc] at hc'; injection hc' with hc'; subst hc'
  exact ⟨e.trans e'.symm, by rw [e]; rfl⟩

/-- At most one dial per caller, the other keys of the pool are not touched, and pooled ids stay below the
dial counter. -/
theorem raceN_bounds (p0 : Pool) (next0 n : Nat) (k : Str) (sched : List Nat)
    (hp : ∀ c, p0.find k = some c → c.id < next0) :
    next0 ≤ (reach p0 next0 n k sched).next ∧ (reach p0 next0 n k sched).next ≤ next0 + n ∧
    (∀ k', k' ≠ k → (reach p0 next0 n k sched).pool.find k' = p0.find k') ∧
    (∀ c, (reach p0 next0 n k sched).pool.find k = some c → c.id < (reach p0 next0 n k sched).next) := by
  have inv := reach_inv p0 next0 n k sched hp
  refine ⟨inv.mono, ?_, inv.others, inv.pooled⟩
  have hl : (reach p0 next0 n k sched).ts.length = n := by
    unfold reach; rw [run_length]; simp [start]
  have := inv.budget
  rw [hl] at this; omega

/-- **Once all callers have returned**, every connection dialled in the race except the pooled one has been
closed: the backend is served by one connection, and when it leaves the table the cleanup finds and closes
that one (`dropped_once_removed`) — nothing else is open. -/
theorem raceN_done_all_but_one_closed (p0 : Pool) (next0 n : Nat) (k : Str) (sched : List Nat)
    (hp : ∀ c, p0.find k = some c → c.id < next0) (hd : allDone (reach p0 next0 n k sched) = true) :
    ∀ i, next0 ≤ i → i < (reach p0 next0 n k sched).next →
      (∃ c, (reach p0 next0 n k sched).pool.find k = some c ∧ c.id = i ∧ c.shut = false) ∨
      i ∈ (reach p0 next0 n k sched).closed := by
  have inv := reach_inv p0 next0 n k sched hp
  intro i h0 h1
  rcases inv.acct i h0 h1 with a | a | ⟨j, hj⟩
  · exact Or.inl a
  · exact Or.inr a
  · have hm := List.mem_of_getElem? hj
    have := List.all_eq_true.mp hd _ hm
    simp [isDone] at this

/-! ### non-vacuity -/

/-- three callers, all dial before any of them stores: one connection pooled, two closed, all three hold 0 -/
example :
    let s := reach [] 0 3 "k".toList [0, 1, 2, 0, 1, 2, 0, 1, 2]
    allDone s = true ∧ s.pool = [("k".toList, { id := 0 })] ∧ s.closed = [1, 2] ∧ s.next = 3 ∧
    s.ts = [.done (.dialled 0), .done (.reused 0), .done (.reused 0)] ∧ orphans 0 s = [] := by decide

/-- five callers on a pool that holds a shut-down connection for the key and a live one for another key -/
example :
    let p0 : Pool := [("k".toList, { id := 0, shut := true }), ("other".toList, { id := 1 })]
    let s := reach p0 2 5 "k".toList [4, 4, 0, 1, 0, 3, 4, 1, 2, 0, 1, 3, 3, 7, 2]
    allDone s = true ∧ s.pool.find "k".toList = some { id := 2 } ∧ s.pool.find "other".toList = some { id := 1 } ∧
    s.closed = [3, 4, 5] ∧ orphans 2 s = [] := by decide

/-- with the original unconditional `Set` the statement fails for three callers as it does for two
(`Props/C16.lean: race_unfixed_orphan`): two connections stay open outside the pool -/
example :
    let s := run false "k".toList (start [] 0 3) [0, 1, 2, 0, 1, 2, 0, 1, 2]
    allDone s = true ∧ orphans 0 s = [0, 1] := by decide

end Fabio.Props.C16Race
