import Fabio.Model.C19
/-!
C19 — configured upstream time limits are enforced: property theorems.

Statement (properties.jsonl): the five transport options an operator configures are the ones the HTTP proxy
uses — for the default, the skip-verify and the per-route (host override) transport alike —, an upstream that
does not answer within the response-header timeout produces a 504 within that time, and the same upstream is
served normally when it answers in time.

The theorems are about `Fabio.Model.C19`.  `setConfig` is `SetConfig` with its assignment bound to the package
variable; that the source really is that function is the regenerated obligation
`Fabio.Props.C19Facts.setConfig_assigns_package_variable` (false on the tree before the D23 repair, where the
assignment was `cfg = cfg` with `cfg` the parameter: `self_assignment_*` below say what that program does).
The timing theorems are relative to `RoundTripContract` (net/http enforces the timeout it is given: trusted base).
-/
namespace Fabio.Props.C19
open Fabio.Model.C19

/-! ### The configuration reaches the transport -/

/-- `NewTransport` after `SetConfig cfg` carries cfg's five values, whatever the cell held before and whatever
TLS configuration is asked for; the TLS configuration is passed through untouched. -/
theorem transport_uses_config (s : Cell) (cfg : Cfg) (tls : Option TLS) :
    Carries cfg (newTransport (setConfig s cfg) tls) ∧ (newTransport (setConfig s cfg) tls).tls = tls := by
  simp [Carries, newTransport, setConfig, setConfigWith]

/-- Field by field (the pairing of option and `http.Transport`/`net.Dialer` field is part of the claim). -/
theorem transport_fields (s : Cell) (cfg : Cfg) (tls : Option TLS) :
    newTransport (setConfig s cfg) tls =
      { responseHeaderTimeout := cfg.responseHeaderTimeout, idleConnTimeout := cfg.idleConnTimeout,
        maxIdleConnsPerHost := cfg.maxConn, dialTimeout := cfg.dialTimeout,
        dialKeepAlive := cfg.keepAliveTimeout, tls := tls } := rfl

/-- The last `SetConfig` wins; the cell has no memory. -/
theorem setConfig_overwrites (s : Cell) (c₁ c₂ : Cfg) : setConfig (setConfig s c₁) c₂ = setConfig s c₂ := rfl

/-- D23: with the assignment bound to the parameter, `SetConfig` is the identity on the cell … -/
theorem self_assignment_is_noop (s : Cell) (cfg : Cfg) : setConfigWith .parameter s cfg = s := rfl

/-- … so starting from `&config.Config{}` a transport carries the operator's values only if they are all zero:
for every other configuration `transport_uses_config` fails for that program. -/
theorem self_assignment_loses_config (cfg : Cfg) (tls : Option TLS) :
    Carries cfg (newTransport (setConfigWith .parameter Cell.init cfg) tls) ↔ cfg = Cfg.zero := by
  cases cfg
  simp only [Carries, newTransport, setConfigWith, Cell.init, Cfg.zero, Cfg.mk.injEq]
  constructor
  · rintro ⟨h1, h2, h3, h4, h5⟩; exact ⟨h4.symm, h1.symm, h5.symm, h2.symm, h3.symm⟩
  · rintro ⟨h1, h2, h3, h4, h5⟩; exact ⟨h2.symm, h4.symm, h5.symm, h1.symm, h3.symm⟩

/-- The witness of DESIGN.md §8 row D23: response-header timeout 3 s, 7 idle connections → 0 s, 0. -/
theorem self_assignment_witness :
    let cfg : Cfg := { Cfg.zero with responseHeaderTimeout := 3000000000, maxConn := 7 }
    (newTransport (setConfigWith .parameter Cell.init cfg) none).responseHeaderTimeout = 0 ∧
    (newTransport (setConfigWith .parameter Cell.init cfg) none).maxIdleConnsPerHost = 0 ∧
    ¬ Carries cfg (newTransport (setConfigWith .parameter Cell.init cfg) none) := by decide

/-! ### Every transport of the running program -/

private theorem run_after_set (c : Cfg) (post : List Ev) (hpost : ∀ e ∈ post, e.isSet = false) :
    ∀ t ∈ run .packageVar ⟨c⟩ post, Carries c t := by
  induction post with
  | nil => intro t ht; simp [run] at ht
  | cons e es ih =>
    have he : e.isSet = false := hpost e (by simp)
    have hes : ∀ e' ∈ es, e'.isSet = false := fun e' h => hpost e' (by simp [h])
    intro t ht
    cases e with
    | setConfig c' => simp [Ev.isSet] at he
    | newProxy =>
      simp only [run, step, List.mem_append, List.mem_cons, List.not_mem_nil, or_false] at ht
      rcases ht with (rfl | rfl) | ht
      · simp [Carries, newHTTPProxy, newTransport]
      · simp [Carries, newHTTPProxy, newTransport]
      · exact ih hes t ht
    | addTarget o =>
      simp only [run, step, List.mem_append] at ht
      rcases ht with ht | ht
      · simp only [addTarget] at ht
        split at ht
        · simp only [Option.toList, List.mem_cons, List.not_mem_nil, or_false] at ht
          subst ht; simp [Carries, newTransport]
        · simp [Option.toList] at ht
      · exact ih hes t ht
    | other =>
      simp only [run, step, List.nil_append] at ht
      exact ih hes t ht

private theorem run_no_builds (lhs : Lhs) (s : Cell) (pre rest : List Ev) (hpre : ∀ e ∈ pre, e.builds = false ∧ e.isSet = false) :
    run lhs s (pre ++ rest) = run lhs s rest := by
  induction pre with
  | nil => rfl
  | cons e es ih =>
    have he := hpre e (by simp)
    have hes : ∀ e' ∈ es, e'.builds = false ∧ e'.isSet = false := fun e' h => hpre e' (by simp [h])
    cases e with
    | setConfig c => simp [Ev.isSet] at he
    | newProxy => simp [Ev.builds] at he
    | addTarget o => simp [Ev.builds] at he
    | other => simp only [List.cons_append, run, step, List.nil_append]; exact ih hes

/-- The order fact of `main` (regenerated: `Props/C19Facts.lean`) is: nothing that builds a transport runs
before the single `SetConfig`. Under it every transport the program ever builds — the default and skip-verify
transports of every proxy, the per-route transport of every host-override target of every table — carries the
operator's configuration, whatever the cell held at start. -/
theorem all_transports_use_config (s : Cell) (c : Cfg) (pre post : List Ev)
    (hpre : ∀ e ∈ pre, e.builds = false ∧ e.isSet = false) (hpost : ∀ e ∈ post, e.isSet = false) :
    ∀ t ∈ run .packageVar s (pre ++ Ev.setConfig c :: post), Carries c t := by
  rw [run_no_builds _ _ _ _ hpre]
  simp only [run, step, List.nil_append, setConfigWith]
  exact run_after_set c post hpost

/-- The order matters: a proxy built before `SetConfig` keeps the zero configuration for good. -/
theorem build_before_set_misses_config :
    ∃ (c : Cfg) (t : Transport), t ∈ run .packageVar Cell.init [Ev.newProxy, Ev.setConfig c] ∧ ¬ Carries c t :=
  ⟨{ Cfg.zero with responseHeaderTimeout := 1 }, newTransport Cell.init none, by simp [run, step, newHTTPProxy], by decide⟩

/-- The transport `ServeHTTP` picks for a request — per-route, skip-verify or default — carries the configuration. -/
theorem selected_transport_uses_config (s : Cell) (c : Cfg) (o : TargetOpts) :
    Carries c (selectTransport (newHTTPProxy (setConfig s c)) (addTarget (setConfig s c) o)) := by
  by_cases h : o.host ≠ "" ∧ o.host ≠ "dst" ∧ o.https
  · simp [selectTransport, addTarget, h, Carries, newTransport, setConfig, setConfigWith]
  · by_cases h2 : o.tlsSkipVerify <;>
      simp [selectTransport, addTarget, h, h2, Carries, newHTTPProxy, newTransport, setConfig, setConfigWith]

/-- Which TLS settings the selected transport has: host override + https ⇒ SNI = the override and the target's
skip-verify flag; otherwise skip-verify ⇒ the insecure transport; otherwise the default (nil TLS config). -/
theorem selected_transport_tls (s : Cell) (o : TargetOpts) :
    (selectTransport (newHTTPProxy s) (addTarget s o)).tls =
      if o.host ≠ "" ∧ o.host ≠ "dst" ∧ o.https then some ⟨o.host, o.tlsSkipVerify⟩
      else if o.tlsSkipVerify then some ⟨"", true⟩ else none := by
  by_cases h : o.host ≠ "" ∧ o.host ≠ "dst" ∧ o.https
  · simp [selectTransport, addTarget, h, newTransport]
  · by_cases h2 : o.tlsSkipVerify <;> simp [selectTransport, addTarget, h, h2, newHTTPProxy, newTransport]

/-! ### The error handler -/

/-- A timeout of the round trip — and nothing else — is answered with 504 Gateway Timeout. -/
theorem timeout_maps_to_504 (e : Err) : errorStatus e = 504 ↔ e = .netTimeout := by
  cases e <;> simp [errorStatus]

/-- The full table: 502 for other network errors and EOF, 499 for a client that went away, 500 otherwise. -/
theorem error_status_table (e : Err) :
    errorStatus e = (match e with | .netTimeout => 504 | .netOther => 502 | .eof => 502 | .canceled => 499 | .other => 500) := by
  cases e <;> rfl

/-- Only a client that went away is reported as 499 (and is the only class that is not logged). -/
theorem canceled_maps_to_499 (e : Err) : errorStatus e = 499 ↔ e = .canceled := by
  cases e <;> simp [errorStatus]

/-! ### Timing: slow upstream ⇒ 504 at the timeout, fast upstream ⇒ its own response -/

/-- The reference round trip satisfies the contract (the contract is satisfiable). -/
theorem roundTrip_contract : RoundTripContract roundTrip := by
  constructor
  · intro T st d h1 h2; simp [roundTrip, h1, h2]
  · intro T st d h
    have : ¬ (0 < T ∧ T < d) := by omega
    simp [roundTrip, this]

/-- An upstream that sends its headers later than the configured response-header timeout `T > 0`: the client
gets 504 at time `T` — not at `d`, however late the upstream is — on whichever transport the request takes. -/
theorem slow_upstream_504 (rt : Int → Nat → Int → RT) (hrt : RoundTripContract rt)
    (s : Cell) (c : Cfg) (o : TargetOpts) (st : Nat) (d : Int)
    (hT : 0 < c.responseHeaderTimeout) (hd : c.responseHeaderTimeout < d) :
    serve rt (selectTransport (newHTTPProxy (setConfig s c)) (addTarget (setConfig s c) o)) st d
      = (504, c.responseHeaderTimeout) := by
  have h := (selected_transport_uses_config s c o).1
  simp only [serve, h, hrt.timeout _ st d hT hd, errorStatus]

/-- The same upstream answering before the timeout is served normally: its status, at its own time. -/
theorem fast_upstream_served (rt : Int → Nat → Int → RT) (hrt : RoundTripContract rt)
    (s : Cell) (c : Cfg) (o : TargetOpts) (st : Nat) (d : Int) (hd : d < c.responseHeaderTimeout) :
    serve rt (selectTransport (newHTTPProxy (setConfig s c)) (addTarget (setConfig s c) o)) st d = (st, d) := by
  have h := (selected_transport_uses_config s c o).1
  simp only [serve, h, hrt.inTime _ st d (Or.inr hd)]

/-- The time the client waits is bounded by the configured timeout whenever one is configured. -/
theorem client_wait_bounded (rt : Int → Nat → Int → RT) (hrt : RoundTripContract rt)
    (s : Cell) (c : Cfg) (o : TargetOpts) (st : Nat) (d : Int)
    (hT : 0 < c.responseHeaderTimeout) (hne : d ≠ c.responseHeaderTimeout) :
    (serve rt (selectTransport (newHTTPProxy (setConfig s c)) (addTarget (setConfig s c) o)) st d).2
      ≤ c.responseHeaderTimeout := by
  rcases Int.lt_or_gt_of_ne hne with h | h
  · rw [fast_upstream_served rt hrt s c o st d h]; exact Int.le_of_lt h
  · rw [slow_upstream_504 rt hrt s c o st d hT h]; exact Int.le_refl _

/-- D23 seen by a client: with the self-assignment the proxy has no response-header limit at all — whatever the
operator configured, an upstream that takes `d` holds the client for `d`. -/
theorem self_assignment_holds_client (rt : Int → Nat → Int → RT) (hrt : RoundTripContract rt)
    (c : Cfg) (o : TargetOpts) (st : Nat) (d : Int) :
    let s := setConfigWith .parameter Cell.init c
    serve rt (selectTransport (newHTTPProxy s) (addTarget s o)) st d = (st, d) := by
  have h : (selectTransport (newHTTPProxy (setConfigWith .parameter Cell.init c))
      (addTarget (setConfigWith .parameter Cell.init c) o)).responseHeaderTimeout = 0 := by
    by_cases h : o.host ≠ "" ∧ o.host ≠ "dst" ∧ o.https
    · simp [selectTransport, addTarget, h, newTransport, setConfigWith, Cell.init, Cfg.zero]
    · by_cases h2 : o.tlsSkipVerify <;>
        simp [selectTransport, addTarget, h, h2, newHTTPProxy, newTransport, setConfigWith, Cell.init, Cfg.zero]
  simp only [serve, h, hrt.inTime 0 st d (Or.inl (Int.le_refl 0))]

/-! ### Non-vacuity: the hypotheses above are satisfiable on non-trivial values -/

/-- a typical operator configuration: 30 s dial, 100 ms header timeout, 10 s keep-alive, 15 s idle, 10000 conns -/
def cfgEx : Cfg := ⟨30000000000, 100000000, 10000000000, 15000000000, 10000⟩
/-- a host-override https target that also skips verification -/
def optsEx : TargetOpts := ⟨"foo.com", true, true⟩
/-- main's order: logging, SetConfig, backends, a table with two targets, two proxies -/
def progEx : List Ev :=
  [.other, .setConfig cfgEx, .other, .addTarget optsEx, .addTarget ⟨"", false, true⟩, .newProxy, .newProxy]

example : Carries cfgEx (newTransport (setConfig Cell.init cfgEx) (some ⟨"foo.com", false⟩)) := by decide
example : (run .packageVar Cell.init progEx).length = 5 := by decide
example : ∀ t ∈ run .packageVar Cell.init progEx, Carries cfgEx t :=
  all_transports_use_config Cell.init cfgEx [.other] _ (by decide) (by decide)
example : ¬ ∀ t ∈ run .parameter Cell.init progEx, Carries cfgEx t := by decide
example : (selectTransport (newHTTPProxy (setConfig Cell.init cfgEx)) (addTarget (setConfig Cell.init cfgEx) optsEx)).tls
    = some ⟨"foo.com", true⟩ := by decide
example : serve roundTrip (selectTransport (newHTTPProxy (setConfig Cell.init cfgEx)) (addTarget (setConfig Cell.init cfgEx) optsEx))
    200 500000000 = (504, 100000000) :=
  slow_upstream_504 roundTrip roundTrip_contract _ _ _ _ _ (by decide) (by decide)
example : serve roundTrip (selectTransport (newHTTPProxy (setConfig Cell.init cfgEx)) (addTarget (setConfig Cell.init cfgEx) optsEx))
    201 20000000 = (201, 20000000) :=
  fast_upstream_served roundTrip roundTrip_contract _ _ _ _ _ (by decide)
example : serve roundTrip (newTransport (setConfigWith .parameter Cell.init cfgEx) none) 200 500000000 = (200, 500000000) := by decide
example : errorStatus .netTimeout = 504 ∧ errorStatus .netOther = 502 ∧ errorStatus .canceled = 499 := by decide

end Fabio.Props.C19
