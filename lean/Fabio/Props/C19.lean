import Fabio.Model.C19
import Fabio.Model.C19Load
/-!
C19 — configured upstream time limits are enforced: property theorems.

Statement (properties.jsonl): the five transport options an operator configures are the ones the HTTP proxy
uses — for the default, the skip-verify and the per-route (host override) transport alike —, an upstream that
does not answer within the response-header timeout produces a 504 within that time, and the same upstream is
served normally when it answers in time.

The theorems are about `Fabio.Model.C19`.  `setConfig` is `SetConfig` with its assignment bound to the package
variable; that the source really is that function is the regenerated obligation
`Fabio.Props.C19Facts.setConfig_assigns_package_variable` (false on the tree before the D23 repair, where the
assignment was `cfg = cfg` with `cfg` the parameter: `self_assignment_*` below say what that program does).
The timing theorems are relative to `RoundTripContract` (net/http enforces the timeout it is given: trusted base).
-/
namespace Fabio.Props.C19
open Fabio.Model.C19

/-! ### The configuration reaches the transport -/

/-- `NewTransport` after `SetConfig cfg` carries cfg's five values, whatever the cell held before and whatever
TLS configuration is asked for; the TLS configuration is passed through untouched. -/
theorem transport_uses_config (s : Cell) (cfg : Cfg) (tls : Option TLS) :
    Carries cfg (newTransport (setConfig s cfg) tls) ∧ (newTransport (setConfig s cfg) tls).tls = tls := by
  simp [Carries, newTransport, setConfig, setConfigWith]

/-- Field by field (the pairing of option and `http.Transport`/`net.Dialer` field is part of the claim). -/
theorem transport_fields (s : Cell) (cfg : Cfg) (tls : Option TLS) :
    newTransport (setConfig s cfg) tls =
      { responseHeaderTimeout := cfg.responseHeaderTimeout, idleConnTimeout := cfg.idleConnTimeout,
        maxIdleConnsPerHost := cfg.maxConn, dialTimeout := cfg.dialTimeout,
        dialKeepAlive := cfg.keepAliveTimeout, tls := tls } := rfl

/-- The last `SetConfig` wins; the cell has no memory. -/
theorem setConfig_overwrites (s : Cell) (c₁ c₂ : Cfg) : setConfig (setConfig s c₁) c₂ = setConfig s c₂ := rfl

/-- D23: with the assignment bound to the parameter, `SetConfig` is the identity on the cell … -/
theorem self_assignment_is_noop (s : Cell) (cfg : Cfg) : setConfigWith .parameter s cfg = s := rfl

/-- … so starting from `&config.Config{}` a transport carries the operator's values only if they are all zero:
for every other configuration `transport_uses_config` fails for that program. -/
theorem self_assignment_loses_config (cfg : Cfg) (tls : Option TLS) :
    Carries cfg (newTransport (setConfigWith .parameter Cell.init cfg) tls) ↔ cfg = Cfg.zero := by
  cases cfg
  simp only [Carries, newTransport, setConfigWith, Cell.init, Cfg.zero, Cfg.mk.injEq]
  constructor
  · rintro ⟨h1, h2, h3, h4, h5⟩; exact ⟨h4.symm, h1.symm, h5.symm, h2.symm, h3.symm⟩
  · rintro ⟨h1, h2, h3, h4, h5⟩; exact ⟨h2.symm, h4.symm, h5.symm, h1.symm, h3.symm⟩

/-- The witness of DESIGN.md §8 row D23: response-header timeout 3 s, 7 idle connections → 0 s, 0. -/
theorem self_assignment_witness :
    let cfg : Cfg := { Cfg.zero with responseHeaderTimeout := 3000000000, maxConn := 7 }
    (newTransport (setConfigWith .parameter Cell.init cfg) none).responseHeaderTimeout = 0 ∧
    (newTransport (setConfigWith .parameter Cell.init cfg) none).maxIdleConnsPerHost = 0 ∧
    ¬ Carries cfg (newTransport (setConfigWith .parameter Cell.init cfg) none) := by decide

/-! ### Every transport of the running program -/

private theorem run_after_set (c : Cfg) (post : List Ev) (hpost : ∀ e ∈ post, e.isSet = false) :
    ∀ t ∈ run .packageVar ⟨c⟩ post, Carries c t := by
  induction post with
  | nil => intro t ht; simp [run] at ht
  | cons e es ih =>
    have he : e.isSet = false := hpost e (by simp)
    have hes : ∀ e' ∈ es, e'.isSet = false := fun e' h => hpost e' (by simp [h])
    intro t ht
    cases e with
    | setConfig c' => simp [Ev.isSet] at he
    | newProxy =>
      simp only [run, step, List.mem_append, List.mem_cons, List.not_mem_nil, or_false] at ht
      rcases ht with (rfl | rfl) | ht
      · simp [Carries, newHTTPProxy, newTransport]
      · simp [Carries, newHTTPProxy, newTransport]
      · exact ih hes t ht
    | addTarget o =>
      simp only [run, step, List.mem_append] at ht
      rcases ht with ht | ht
      · simp only [addTarget] at ht
        split at ht
        · simp only [Option.toList, List.mem_cons, List.not_mem_nil, or_false] at ht
          subst ht; simp [Carries, newTransport]
        · simp [Option.toList] at ht
      · exact ih hes t ht
    | other =>
      simp only [run, step, List.nil_append] at ht
      exact ih hes t ht

private theorem run_no_builds (lhs : Lhs) (s : Cell) (pre rest : List Ev) (hpre : ∀ e ∈ pre, e.builds = false ∧ e.isSet = false) :
    run lhs s (pre ++ rest) = run lhs s rest := by
  induction pre with
  | nil => rfl
  | cons e es ih =>
    have he := hpre e (by simp)
    have hes : ∀ e' ∈ es, e'.builds = false ∧ e'.isSet = false := fun e' h => hpre e' (by simp [h])
    cases e with
    | setConfig c => simp [Ev.isSet] at he
    | newProxy => simp [Ev.builds] at he
    | addTarget o => simp [Ev.builds] at he
    | other => simp only [List.cons_append, run, step, List.nil_append]; exact ih hes

/-- The order fact of `main` (regenerated: `Props/C19Facts.lean`) is: nothing that builds a transport runs
before the single `SetConfig`. Under it every transport the program ever builds — the default and skip-verify
transports of every proxy, the per-route transport of every host-override target of every table — carries the
operator's configuration, whatever the cell held at start. -/
theorem all_transports_use_config (s : Cell) (c : Cfg) (pre post : List Ev)
    (hpre : ∀ e ∈ pre, e.builds = false ∧ e.isSet = false) (hpost : ∀ e ∈ post, e.isSet = false) :
    ∀ t ∈ run .packageVar s (pre ++ Ev.setConfig c :: post), Carries c t := by
  rw [run_no_builds _ _ _ _ hpre]
  simp only [run, step, List.nil_append, setConfigWith]
  exact run_after_set c post hpost

/-- The order matters: a proxy built before `SetConfig` keeps the zero configuration for good. -/
theorem build_before_set_misses_config :
    ∃ (c : Cfg) (t : Transport), t ∈ run .packageVar Cell.init [Ev.newProxy, Ev.setConfig c] ∧ ¬ Carries c t :=
  ⟨{ Cfg.zero with responseHeaderTimeout := 1 }, newTransport Cell.init none, by simp [run, step, newHTTPProxy], by decide⟩

/-- The transport `ServeHTTP` picks for a request — per-route, skip-verify or default — carries the configuration. -/
theorem selected_transport_uses_config (s : Cell) (c : Cfg) (o : TargetOpts) :
    Carries c (selectTransport (newHTTPProxy (setConfig s c)) (addTarget (setConfig s c) o)) := by
  by_cases h : o.host ≠ "" ∧ o.host ≠ "dst" ∧ o.https
  · simp [selectTransport, addTarget, h, Carries, newTransport, setConfig, setConfigWith]
  · by_cases h2 : o.tlsSkipVerify <;>
      simp [selectTransport, addTarget, h, h2, Carries, newHTTPProxy, newTransport, setConfig, setConfigWith]

/-- Which TLS settings the selected transport has: host override + https ⇒ SNI = the override and the target's
skip-verify flag; otherwise skip-verify ⇒ the insecure transport; otherwise the default (nil TLS config). -/
theorem selected_transport_tls (s : Cell) (o : TargetOpts) :
    (selectTransport (newHTTPProxy s) (addTarget s o)).tls =
      if o.host ≠ "" ∧ o.host ≠ "dst" ∧ o.https then some ⟨o.host, o.tlsSkipVerify⟩
      else if o.tlsSkipVerify then some ⟨"", true⟩ else none := by
  by_cases h : o.host ≠ "" ∧ o.host ≠ "dst" ∧ o.https
  · simp [selectTransport, addTarget, h, newTransport]
  · by_cases h2 : o.tlsSkipVerify <;> simp [selectTransport, addTarget, h, h2, newHTTPProxy, newTransport]

/-! ### The error handler -/

/-- A timeout of the round trip — and nothing else — is answered with 504 Gateway Timeout. -/
theorem timeout_maps_to_504 (e : Err) : errorStatus e = 504 ↔ e = .netTimeout := by
  cases e <;> simp [errorStatus]

/-- The full table: 502 for other network errors and EOF, 499 for a client that went away, 500 otherwise. -/
theorem error_status_table (e : Err) :
    errorStatus e = (match e with | .netTimeout => 504 | .netOther => 502 | .eof => 502 | .canceled => 499 | .other => 500) := by
  cases e <;> rfl

/-- Only a client that went away is reported as 499 (and is the only class that is not logged). -/
theorem canceled_maps_to_499 (e : Err) : errorStatus e = 499 ↔ e = .canceled := by
  cases e <;> simp [errorStatus]

/-! ### Timing: slow upstream ⇒ 504 at the timeout, fast upstream ⇒ its own response -/

/-- The reference round trip satisfies the contract (the contract is satisfiable). -/
theorem roundTrip_contract : RoundTripContract roundTrip := by
  constructor
  · intro T st d h1 h2; simp [roundTrip, h1, h2]
  · intro T st d h
    have : ¬ (0 < T ∧ T < d) := by omega
    simp [roundTrip, this]

/-- An upstream that sends its headers later than the configured response-header timeout `T > 0`: the client
gets 504 at time `T` — not at `d`, however late the upstream is — on whichever transport the request takes. -/
theorem slow_upstream_504 (rt : Int → Nat → Int → RT) (hrt : RoundTripContract rt)
    (s : Cell) (c : Cfg) (o : TargetOpts) (st : Nat) (d : Int)
    (hT : 0 < c.responseHeaderTimeout) (hd : c.responseHeaderTimeout < d) :
    serve rt (selectTransport (newHTTPProxy (setConfig s c)) (addTarget (setConfig s c) o)) st d
      = (504, c.responseHeaderTimeout) := by
  have h := (selected_transport_uses_config s c o).1
  simp only [serve, h, hrt.timeout _ st d hT hd, errorStatus]

/-- The same upstream answering before the timeout is served normally: its status, at its own time. -/
theorem fast_upstream_served (rt : Int → Nat → Int → RT) (hrt : RoundTripContract rt)
    (s : Cell) (c : Cfg) (o : TargetOpts) (st : Nat) (d : Int) (hd : d < c.responseHeaderTimeout) :
    serve rt (selectTransport (newHTTPProxy (setConfig s c)) (addTarget (setConfig s c) o)) st d = (st, d) := by
  have h := (selected_transport_uses_config s c o).1
  simp only [serve, h, hrt.inTime _ st d (Or.inr hd)]

/-- The time the client waits is bounded by the configured timeout whenever one is configured. -/
theorem client_wait_bounded (rt : Int → Nat → Int → RT) (hrt : RoundTripContract rt)
    (s : Cell) (c : Cfg) (o : TargetOpts) (st : Nat) (d : Int)
    (hT : 0 < c.responseHeaderTimeout) (hne : d ≠ c.responseHeaderTimeout) :
    (serve rt (selectTransport (newHTTPProxy (setConfig s c)) (addTarget (setConfig s c) o)) st d).2
      ≤ c.responseHeaderTimeout := by
  rcases Int.lt_or_gt_of_ne hne with h | h
  · rw [fast_upstream_served rt hrt s c o st d h]; exact Int.le_of_lt h
  · rw [slow_upstream_504 rt hrt s c o st d hT h]; exact Int.le_refl _

/-- D23 seen by a client: with the self-assignment the proxy has no response-header limit at all — whatever the
operator configured, an upstream that takes `d` holds the client for `d`. -/
theorem self_assignment_holds_client (rt : Int → Nat → Int → RT) (hrt : RoundTripContract rt)
    (c : Cfg) (o : TargetOpts) (st : Nat) (d : Int) :
    let s := setConfigWith .parameter Cell.init c
    serve rt (selectTransport (newHTTPProxy s) (addTarget s o)) st d = (st, d) := by
  have h : (selectTransport (newHTTPProxy (setConfigWith .parameter Cell.init c))
      (addTarget (setConfigWith .parameter Cell.init c) o)).responseHeaderTimeout = 0 := by
    by_cases h : o.host ≠ "" ∧ o.host ≠ "dst" ∧ o.https
    · simp [selectTransport, addTarget, h, newTransport, setConfigWith, Cell.init, Cfg.zero]
    · by_cases h2 : o.tlsSkipVerify <;>
        simp [selectTransport, addTarget, h, h2, newHTTPProxy, newTransport, setConfigWith, Cell.init, Cfg.zero]
  simp only [serve, h, hrt.inTime 0 st d (Or.inl (Int.le_refl 0))]

/-! ### Every handler path; the whole response -/

/-- Both reverse-proxy branches of `ServeHTTP` (server-sent events and default) get the selected transport
itself — not a copy, not a variant —, whatever the flush intervals; only a websocket upgrade gets none. -/
theorem all_handler_paths_use_selected_transport (p : Proxy) (fi gfi : Int) (t : Target) (path : Path)
    (hws : path ≠ .websocket) :
    ∃ h, handlerFor p fi gfi t path = some h ∧ h.transport = selectTransport p t := by
  cases path with
  | websocket => exact absurd rfl hws
  | sse => exact ⟨_, rfl, rfl⟩
  | default => exact ⟨_, rfl, rfl⟩

/-- Which path a request takes depends on `Upgrade` and `Accept` only; unless `Upgrade` is `websocket` in some
casing (`strings.EqualFold`) it is one of the two reverse-proxy branches. -/
theorem handlerPath_no_upgrade (upgrade accept : String) (h : equalFoldWebsocket upgrade = false) :
    handlerPath upgrade accept = (if accept = "text/event-stream" then .sse else .default) ∧
    handlerPath upgrade accept ≠ .websocket := by
  unfold handlerPath
  rw [h]
  refine ⟨by simp, ?_⟩
  simp only [Bool.false_eq_true, if_false]
  split <;> simp

/-- Every ASCII casing of `websocket` is the websocket path, and nothing of another length is. -/
theorem handlerPath_websocket_casings (upgrade accept : String) :
    (upgrade.toList.map Char.toLower = "websocket".toList → handlerPath upgrade accept = .websocket) ∧
    (upgrade.toList.length ≠ 9 → handlerPath upgrade accept ≠ .websocket) := by
  constructor
  · intro h
    have hlen : upgrade.toList.length = 9 := by
      have := congrArg List.length h; simpa using this
    have hall : (upgrade.toList.zip "websocket".toList).all (fun ct => foldsTo ct.1 ct.2) = true := by
      rw [← h, List.all_eq_true]
      intro ct hct
      obtain ⟨i, hi, rfl⟩ := List.mem_iff_getElem.mp hct
      simp [foldsTo]
    have he : equalFoldWebsocket upgrade = true := by
      unfold equalFoldWebsocket
      rw [hall, hlen]; rfl
    simp only [handlerPath, he, if_true]
  · intro h
    have : equalFoldWebsocket upgrade = false := by simp [equalFoldWebsocket, h]
    exact (handlerPath_no_upgrade upgrade accept this).2

/-- Hence on every handler path the transport carries the operator's configuration … -/
theorem every_path_uses_config (s : Cell) (c : Cfg) (o : TargetOpts) (fi gfi : Int) (path : Path) (hws : path ≠ .websocket) :
    ∃ h, handlerFor (newHTTPProxy (setConfig s c)) fi gfi (addTarget (setConfig s c) o) path = some h ∧
      Carries c h.transport := by
  obtain ⟨h, h1, h2⟩ := all_handler_paths_use_selected_transport (newHTTPProxy (setConfig s c)) fi gfi
    (addTarget (setConfig s c) o) path hws
  exact ⟨h, h1, h2 ▸ selected_transport_uses_config s c o⟩

/-- … and a slow upstream is answered with 504 at the timeout on every handler path, for every accept header,
flush interval, transport kind and body the upstream might have sent later. -/
theorem slow_upstream_504_every_path (rt : Int → Nat → Int → RT) (hrt : RoundTripContract rt)
    (s : Cell) (c : Cfg) (o : TargetOpts) (fi gfi : Int) (path : Path) (hws : path ≠ .websocket)
    (st : Nat) (d body : Int) (hT : 0 < c.responseHeaderTimeout) (hd : c.responseHeaderTimeout < d) :
    ∃ h, handlerFor (newHTTPProxy (setConfig s c)) fi gfi (addTarget (setConfig s c) o) path = some h ∧
      serveFull rt h.transport requestDeadline st d body
        = ⟨504, c.responseHeaderTimeout, true, c.responseHeaderTimeout⟩ := by
  obtain ⟨h, h1, h2⟩ := every_path_uses_config s c o fi gfi path hws
  refine ⟨h, h1, ?_⟩
  simp only [serveFull, h2.1, hrt.timeout _ st d hT hd, errorStatus]

/-- "The same upstream is served normally when it answers in time": headers before the timeout ⇒ the upstream's
status and its complete body, however long the body streams (`body` is unconstrained: it may exceed every
configured limit), on every handler path. -/
theorem in_time_response_complete (rt : Int → Nat → Int → RT) (hrt : RoundTripContract rt)
    (s : Cell) (c : Cfg) (o : TargetOpts) (fi gfi : Int) (path : Path) (hws : path ≠ .websocket)
    (st : Nat) (d body : Int) (hd : d < c.responseHeaderTimeout ∨ c.responseHeaderTimeout ≤ 0) :
    ∃ h, handlerFor (newHTTPProxy (setConfig s c)) fi gfi (addTarget (setConfig s c) o) path = some h ∧
      serveFull rt h.transport requestDeadline st d body = ⟨st, d, true, d + body⟩ := by
  obtain ⟨h, h1, h2⟩ := every_path_uses_config s c o fi gfi path hws
  refine ⟨h, h1, ?_⟩
  have hin : rt c.responseHeaderTimeout st d = .response st d :=
    hrt.inTime _ st d (by rcases hd with h | h; exact Or.inr h; exact Or.inl h)
  simp only [serveFull, h2.1, hin, requestDeadline]

/-- Why the request context matters (the hypothesis `requestDeadline = none` is a regenerated fact): a deadline
on the context that falls inside the body truncates an answer that came in time. -/
theorem context_deadline_truncates (rt : Int → Nat → Int → RT) (hrt : RoundTripContract rt)
    (tr : Transport) (D : Int) (st : Nat) (d body : Int)
    (hd : d < tr.responseHeaderTimeout) (hD : D < d + body) :
    (serveFull rt tr (some D) st d body).complete = false := by
  have hin : rt tr.responseHeaderTimeout st d = .response st d := hrt.inTime _ st d (Or.inr hd)
  have : ¬ (d + body ≤ D) := by omega
  simp only [serveFull, hin, this, if_false]

/-- A transport that differs from the selected one in its response-header timeout (e.g. a copy with the limit
removed) does hold the client: the previous theorems need the *same* transport on every path. -/
theorem copied_transport_without_limit_holds_client (rt : Int → Nat → Int → RT) (hrt : RoundTripContract rt)
    (tr : Transport) (st : Nat) (d body : Int) :
    serveFull rt { tr with responseHeaderTimeout := 0 } requestDeadline st d body = ⟨st, d, true, d + body⟩ := by
  simp only [serveFull, hrt.inTime 0 st d (Or.inl (Int.le_refl 0)), requestDeadline]

/-! ### Informational responses, the response writers, and histories of requests -/

private theorem fold_informational (cs : List Nat) (hcs : ∀ c ∈ cs, informational c = true) :
    ∀ rw : RW, rw.wire.final = none →
      (cs.foldl (RW.writeHeaderWith false) rw).wire = ⟨rw.wire.interims ++ cs, none⟩ := by
  induction cs with
  | nil => intro rw h; cases rw with | mk w c => cases w with | mk i f => simp_all
  | cons c cs ih =>
    intro rw h
    have hc : informational c = true := hcs c (by simp)
    have hrest : ∀ c' ∈ cs, informational c' = true := fun c' h' => hcs c' (by simp [h'])
    have hstep : (RW.writeHeaderWith false rw c).wire = ⟨rw.wire.interims ++ [c], none⟩ := by
      simp [RW.writeHeaderWith, Wire.writeHeader, h, hc]
    rw [List.foldl_cons, ih hrest _ (by rw [hstep]), hstep]
    simp

private theorem filter_informational_all (cs : List Nat) : ∀ c ∈ cs.filter informational, informational c = true := by
  intro c hc; exact (List.mem_filter.mp hc).2

/-- What reaches the client of one exchange through the source's writers (`guard = false`): the upstream's
informational responses in order, and as final status whatever `serveFull` says, provided that is a final status
(not 1xx; the statuses the error handler writes never are). -/
theorem exchange_status (rt : Int → Nat → Int → RT) (tr : Transport) (dl : Option Int) (u : Upstream)
    (hfinal : informational (serveFull rt tr dl u.status u.delay u.body).status = false) :
    exchange rt tr dl u =
      { served := serveFull rt tr dl u.status u.delay u.body
        interims := u.interims.filter informational
        recorded := (serveFull rt tr dl u.status u.delay u.body).status } := by
  have hf := fold_informational (u.interims.filter informational) (filter_informational_all _) RW.new rfl
  simp only [exchange, exchangeWith]
  generalize (u.interims.filter informational).foldl (RW.writeHeaderWith false) RW.new = rw₁ at hf
  cases rw₁ with
  | mk w code =>
    simp only at hf
    subst hf
    simp [RW.writeHeaderWith, Wire.writeHeader, hfinal, Wire.status, RW.new, Wire.empty]

/-- The property's second sentence with an upstream that first sends informational responses (103 Early Hints,
102 Processing, any number of them) and then stalls: on every handler path the client still gets 504 at `T`; the
informational responses were forwarded; 504 is what the metrics and the access log record. -/
theorem interim_then_timeout_504 (rt : Int → Nat → Int → RT) (hrt : RoundTripContract rt)
    (s : Cell) (c : Cfg) (o : TargetOpts) (fi gfi : Int) (path : Path) (hws : path ≠ .websocket)
    (u : Upstream) (hT : 0 < c.responseHeaderTimeout) (hd : c.responseHeaderTimeout < u.delay) :
    ∃ h, handlerFor (newHTTPProxy (setConfig s c)) fi gfi (addTarget (setConfig s c) o) path = some h ∧
      exchange rt h.transport requestDeadline u =
        { served := ⟨504, c.responseHeaderTimeout, true, c.responseHeaderTimeout⟩
          interims := u.interims.filter informational, recorded := 504 } := by
  obtain ⟨h, h1, h2⟩ := slow_upstream_504_every_path rt hrt s c o fi gfi path hws u.status u.delay u.body hT hd
  refine ⟨h, h1, ?_⟩
  rw [exchange_status rt h.transport requestDeadline u (by rw [h2]; show informational 504 = false; decide), h2]

/-- … and the same upstream sending its final headers in time is served normally: informational responses,
then its own (final, i.e. non-1xx) status and the complete body. -/
theorem interim_then_in_time_served (rt : Int → Nat → Int → RT) (hrt : RoundTripContract rt)
    (s : Cell) (c : Cfg) (o : TargetOpts) (fi gfi : Int) (path : Path) (hws : path ≠ .websocket)
    (u : Upstream) (hst : informational u.status = false)
    (hd : u.delay < c.responseHeaderTimeout ∨ c.responseHeaderTimeout ≤ 0) :
    ∃ h, handlerFor (newHTTPProxy (setConfig s c)) fi gfi (addTarget (setConfig s c) o) path = some h ∧
      exchange rt h.transport requestDeadline u =
        { served := ⟨u.status, u.delay, true, u.delay + u.body⟩
          interims := u.interims.filter informational, recorded := u.status } := by
  obtain ⟨h, h1, h2⟩ := in_time_response_complete rt hrt s c o fi gfi path hws u.status u.delay u.body hd
  refine ⟨h, h1, ?_⟩
  rw [exchange_status rt h.transport requestDeadline u (by rw [h2]; exact hst), h2]

private theorem guarded_stuck (cs : List Nat) : ∀ rw : RW, rw.code ≠ 0 → cs.foldl (RW.writeHeaderWith true) rw = rw := by
  induction cs with
  | nil => intro rw _; rfl
  | cons c cs ih =>
    intro rw h
    have : RW.writeHeaderWith true rw c = rw := by simp [RW.writeHeaderWith, h]
    rw [List.foldl_cons, this]; exact ih rw h

/-- Why `responseWriter.WriteHeader` must pass every call through: a writer that ignores the calls after the
first one turns "informational response, then stall" into net/http's implicit `200 OK` — for every upstream
that sends at least one informational response, whatever the transport and the timeout. -/
theorem first_call_only_writer_loses_504 (rt : Int → Nat → Int → RT) (tr : Transport) (dl : Option Int)
    (u : Upstream) (c : Nat) (cs : List Nat) (hu : u.interims = c :: cs) (hc : informational c = true) :
    (exchangeWith true rt tr dl u).served.status = 200 ∧ (exchangeWith true rt tr dl u).recorded = c := by
  have hc0 : c ≠ 0 := by
    intro h; subst h; simp [informational] at hc
  have h1 : RW.writeHeaderWith true RW.new c = ⟨⟨[c], none⟩, c⟩ := by
    simp [RW.writeHeaderWith, RW.new, Wire.writeHeader, Wire.empty, hc]
  have hfold : (u.interims.filter informational).foldl (RW.writeHeaderWith true) RW.new = ⟨⟨[c], none⟩, c⟩ := by
    rw [hu, List.filter_cons_of_pos (by simpa using hc), List.foldl_cons, h1]
    exact guarded_stuck _ _ hc0
  have hlast : ∀ st, RW.writeHeaderWith true ⟨⟨[c], none⟩, c⟩ st = ⟨⟨[c], none⟩, c⟩ := by
    intro st; simp [RW.writeHeaderWith, hc0]
  simp only [exchangeWith, hfold, hlast, Wire.status, Option.getD_none, and_self]

/-- A history of requests through the same proxy: whatever was served before (and whichever connections are
idle in the transport's pool), every request whose upstream misses the limit gets its 504 at `T`, and every
request answered in time is served normally. -/
theorem every_request_of_a_history (rt : Int → Nat → Int → RT) (hrt : RoundTripContract rt)
    (s : Cell) (c : Cfg) (o : TargetOpts) (us : List Upstream) (hT : 0 < c.responseHeaderTimeout) :
    let tr := selectTransport (newHTTPProxy (setConfig s c)) (addTarget (setConfig s c) o)
    (serveHistory rt tr requestDeadline us).length = us.length ∧
    ∀ (i : Nat) (hi : i < us.length) (hi' : i < (serveHistory rt tr requestDeadline us).length),
      (c.responseHeaderTimeout < us[i].delay →
        ((serveHistory rt tr requestDeadline us)[i]).served = ⟨504, c.responseHeaderTimeout, true, c.responseHeaderTimeout⟩) ∧
      (us[i].delay < c.responseHeaderTimeout → informational us[i].status = false →
        ((serveHistory rt tr requestDeadline us)[i]).served = ⟨us[i].status, us[i].delay, true, us[i].delay + us[i].body⟩) := by
  intro tr
  refine ⟨by simp [serveHistory], ?_⟩
  intro i hi hi'
  have hcar : tr.responseHeaderTimeout = c.responseHeaderTimeout := (selected_transport_uses_config s c o).1
  simp only [serveHistory, List.getElem_map]
  constructor
  · intro hd
    have hs : serveFull rt tr requestDeadline us[i].status us[i].delay us[i].body
        = ⟨504, c.responseHeaderTimeout, true, c.responseHeaderTimeout⟩ := by
      simp only [serveFull, hcar, hrt.timeout _ us[i].status us[i].delay hT hd, errorStatus]
    rw [exchange_status rt tr requestDeadline us[i] (by rw [hs]; show informational 504 = false; decide), hs]
  · intro hd hst
    have hs : serveFull rt tr requestDeadline us[i].status us[i].delay us[i].body
        = ⟨us[i].status, us[i].delay, true, us[i].delay + us[i].body⟩ := by
      simp only [serveFull, hcar, hrt.inTime _ us[i].status us[i].delay (Or.inr hd), requestDeadline]
    rw [exchange_status rt tr requestDeadline us[i] (by rw [hs]; exact hst), hs]

/-! ### The idle-connection limits (`proxy.maxconn`, `proxy.idleconntimeout`) -/

/-- "… idle timeouts, idle connections per host … are the ones the HTTP proxy uses": of `n` connections to an
upstream that become idle together the selected transport — default, skip-verify or per-route — keeps
`min n proxy.maxconn` (zero standing for net/http's default of 2, a negative value for none), closes the others at
once, and closes the kept ones `proxy.idleconntimeout` later (never, if none is configured). Relative to
net/http's contract for the two fields (`poolFate`), sampled on real connections by the stream `c19.pool`. -/
theorem pool_uses_configured_limits (s : Cell) (c : Cfg) (o : TargetOpts) (n : Nat) (doneAt : Int) :
    let tr := selectTransport (newHTTPProxy (setConfig s c)) (addTarget (setConfig s c) o)
    poolKept tr n = min n (effectiveMaxIdle c.maxConn) ∧
    idleCloseAt tr doneAt = (if 0 < c.idleConnTimeout then some (doneAt + c.idleConnTimeout) else none) ∧
    poolFate tr n doneAt =
      List.replicate (n - min n (effectiveMaxIdle c.maxConn)) (some doneAt) ++
      List.replicate (min n (effectiveMaxIdle c.maxConn))
        (if 0 < c.idleConnTimeout then some (doneAt + c.idleConnTimeout) else none) ∧
    (poolFate tr n doneAt).length = n := by
  intro tr
  obtain ⟨_, h2, h3, _, _⟩ := selected_transport_uses_config s c o
  have hk : poolKept tr n = min n (effectiveMaxIdle c.maxConn) := by simp only [poolKept, tr, h3]
  have hi : idleCloseAt tr doneAt = (if 0 < c.idleConnTimeout then some (doneAt + c.idleConnTimeout) else none) := by
    simp only [idleCloseAt, tr, h2]
  refine ⟨hk, hi, by simp only [poolFate, hk, hi], ?_⟩
  simp only [poolFate, hk, List.length_append, List.length_replicate]
  omega

/-- D23 seen at the pool: with the self-assignment the operator's two values never arrive — two idle connections
per upstream, kept for ever, whatever was configured. -/
theorem self_assignment_pool (c : Cfg) (o : TargetOpts) (n : Nat) (doneAt : Int) :
    let s := setConfigWith .parameter Cell.init c
    poolKept (selectTransport (newHTTPProxy s) (addTarget s o)) n = min n 2 ∧
    idleCloseAt (selectTransport (newHTTPProxy s) (addTarget s o)) doneAt = none := by
  by_cases h : o.host ≠ "" ∧ o.host ≠ "dst" ∧ o.https
  · simp [selectTransport, addTarget, h, newTransport, setConfigWith, Cell.init, Cfg.zero, poolKept, idleCloseAt, effectiveMaxIdle]
  · by_cases h2 : o.tlsSkipVerify <;>
      simp [selectTransport, addTarget, h, h2, newHTTPProxy, newTransport, setConfigWith, Cell.init, Cfg.zero, poolKept,
        idleCloseAt, effectiveMaxIdle]

/-- `proxy.dialtimeout` is the one the proxy uses: an upstream that accepts no connection gets the client a 504
after the configured dial timeout on whichever transport is selected, whatever the response-header timeout. -/
theorem unreachable_upstream_504_at_dial_timeout (s : Cell) (c : Cfg) (o : TargetOpts) (hD : 0 < c.dialTimeout) :
    serveUnreachable (selectTransport (newHTTPProxy (setConfig s c)) (addTarget (setConfig s c) o)) = some (504, c.dialTimeout) := by
  obtain ⟨_, _, _, h4, _⟩ := selected_transport_uses_config s c o
  simp only [serveUnreachable, h4, hD, if_true, errorStatus]

/-- D23 at the dial phase: the self-assignment leaves the proxy without a dial timeout. -/
theorem self_assignment_dial_unbounded (c : Cfg) (o : TargetOpts) :
    let s := setConfigWith .parameter Cell.init c
    serveUnreachable (selectTransport (newHTTPProxy s) (addTarget s o)) = none := by
  by_cases h : o.host ≠ "" ∧ o.host ≠ "dst" ∧ o.https
  · simp [selectTransport, addTarget, h, newTransport, setConfigWith, Cell.init, Cfg.zero, serveUnreachable]
  · by_cases h2 : o.tlsSkipVerify <;>
      simp [selectTransport, addTarget, h, h2, newHTTPProxy, newTransport, setConfigWith, Cell.init, Cfg.zero, serveUnreachable]

/-! ### From what the operator wrote to the transports (`config.Load` → `SetConfig` → `NewTransport`) -/

/-- What `load` returns, option by option. -/
theorem load_fields (src : Sources) (cfg : Cfg) (h : load src = some cfg) :
    flagValue parseDuration src "proxy.dialtimeout" Cfg.defaults.dialTimeout = some cfg.dialTimeout ∧
    flagValue parseDuration src "proxy.responseheadertimeout" Cfg.defaults.responseHeaderTimeout = some cfg.responseHeaderTimeout ∧
    flagValue parseDuration src "proxy.keepalivetimeout" Cfg.defaults.keepAliveTimeout = some cfg.keepAliveTimeout ∧
    flagValue parseDuration src "proxy.idleconntimeout" Cfg.defaults.idleConnTimeout = some cfg.idleConnTimeout ∧
    flagValue parseInt src "proxy.maxconn" Cfg.defaults.maxConn = some cfg.maxConn := by
  unfold load at h
  cases h1 : flagValue parseDuration src "proxy.dialtimeout" Cfg.defaults.dialTimeout <;> simp [h1] at h
  cases h2 : flagValue parseDuration src "proxy.responseheadertimeout" Cfg.defaults.responseHeaderTimeout <;> simp [h2] at h
  cases h3 : flagValue parseDuration src "proxy.keepalivetimeout" Cfg.defaults.keepAliveTimeout <;> simp [h3] at h
  cases h4 : flagValue parseDuration src "proxy.idleconntimeout" Cfg.defaults.idleConnTimeout <;> simp [h4] at h
  cases h5 : flagValue parseInt src "proxy.maxconn" Cfg.defaults.maxConn <;> simp [h5] at h
  subst h
  simp

/-- Precedence: a flag given on the command line (its last occurrence) is what counts, whatever the environment
and the properties file say … -/
theorem flagValue_cmdline (parse : String → Option Int) (src : Sources) (n v : String) (d : Int)
    (h : lookupLast src.cmdline n = some v) : flagValue parse src n d = parse v := by
  simp [flagValue, rawValue, h]

/-- … otherwise the environment with the `FABIO_` prefix, then without it, then the properties file (a text that
does not parse is stored as zero there) … -/
theorem flagValue_env (parse : String → Option Int) (src : Sources) (n v : String) (d : Int)
    (hc : lookupLast src.cmdline n = none) (h : lookupLast src.env (envName "FABIO_" n) = some v) :
    flagValue parse src n d = some ((parse v).getD 0) := by
  simp [flagValue, rawValue, hc, h]

theorem flagValue_props (parse : String → Option Int) (src : Sources) (n v : String) (d : Int)
    (hc : lookupLast src.cmdline n = none) (he : lookupLast src.env (envName "FABIO_" n) = none)
    (he' : lookupLast src.env (envName "" n) = none) (h : lookupLast src.props n = some v) :
    flagValue parse src n d = some ((parse v).getD 0) := by
  simp [flagValue, rawValue, hc, he, he', h]

/-- … and a flag nobody set keeps its default. -/
theorem flagValue_default (parse : String → Option Int) (src : Sources) (n : String) (d : Int)
    (h : rawValue src n = none) : flagValue parse src n d = some d := by
  simp [flagValue, h]

def fiveNames : List String :=
  ["proxy.dialtimeout", "proxy.responseheadertimeout", "proxy.keepalivetimeout", "proxy.idleconntimeout", "proxy.maxconn"]

/-- The five options depend on nothing but their own five flags: two configurations that agree on them — and
differ in listeners, listener read/write timeouts, flush intervals, anything else — load the same five values. -/
theorem load_depends_on_the_five_only (a b : Sources) (h : ∀ n ∈ fiveNames, rawValue a n = rawValue b n) :
    load a = load b := by
  have e : ∀ parse n d, n ∈ fiveNames → flagValue parse a n d = flagValue parse b n d := by
    intro parse n d hn; simp only [flagValue, h n hn]
  unfold load
  rw [e _ "proxy.dialtimeout" _ (by decide), e _ "proxy.responseheadertimeout" _ (by decide),
    e _ "proxy.keepalivetimeout" _ (by decide), e _ "proxy.idleconntimeout" _ (by decide),
    e _ "proxy.maxconn" _ (by decide)]

/-- The first sentence of the property, end to end: whatever `config.Load` made of command line, environment
and properties file is what every transport the program ever builds carries (main's order: nothing built before
the one `SetConfig`, which receives `Load`'s result — regenerated facts). -/
theorem loaded_limits_reach_every_transport (src : Sources) (cfg : Cfg) (hl : load src = some cfg)
    (s : Cell) (pre post : List Ev)
    (hpre : ∀ e ∈ pre, e.builds = false ∧ e.isSet = false) (hpost : ∀ e ∈ post, e.isSet = false) :
    ∀ t ∈ run .packageVar s (pre ++ Ev.setConfig cfg :: post),
      some t.dialTimeout = flagValue parseDuration src "proxy.dialtimeout" Cfg.defaults.dialTimeout ∧
      some t.responseHeaderTimeout = flagValue parseDuration src "proxy.responseheadertimeout" Cfg.defaults.responseHeaderTimeout ∧
      some t.dialKeepAlive = flagValue parseDuration src "proxy.keepalivetimeout" Cfg.defaults.keepAliveTimeout ∧
      some t.idleConnTimeout = flagValue parseDuration src "proxy.idleconntimeout" Cfg.defaults.idleConnTimeout ∧
      some t.maxIdleConnsPerHost = flagValue parseInt src "proxy.maxconn" Cfg.defaults.maxConn := by
  intro t ht
  obtain ⟨c1, c2, c3, c4, c5⟩ := all_transports_use_config s cfg pre post hpre hpost t ht
  obtain ⟨l1, l2, l3, l4, l5⟩ := load_fields src cfg hl
  rw [l1, l2, l3, l4, l5, c1, c2, c3, c4, c5]
  exact ⟨rfl, rfl, rfl, rfl, rfl⟩

/-- Both sentences together, as an operator reads them: `-proxy.responseheadertimeout v` on the command line,
`v` a duration `T > 0` in Go's syntax; then an upstream that sends informational responses and misses `T` gets
the client a 504 at `T` on every handler path and every kind of transport, and one that answers before `T` is
served normally — whatever else the configuration holds. -/
theorem operator_timeout_is_enforced (rt : Int → Nat → Int → RT) (hrt : RoundTripContract rt)
    (src : Sources) (cfg : Cfg) (hl : load src = some cfg) (v : String) (T : Int)
    (hv : lookupLast src.cmdline "proxy.responseheadertimeout" = some v) (hp : parseDuration v = some T) (hT : 0 < T)
    (s : Cell) (o : TargetOpts) (fi gfi : Int) (path : Path) (hws : path ≠ .websocket) (u : Upstream) :
    ∃ h, handlerFor (newHTTPProxy (setConfig s cfg)) fi gfi (addTarget (setConfig s cfg) o) path = some h ∧
      (T < u.delay → exchange rt h.transport requestDeadline u =
          { served := ⟨504, T, true, T⟩, interims := u.interims.filter informational, recorded := 504 }) ∧
      (u.delay < T → informational u.status = false → exchange rt h.transport requestDeadline u =
          { served := ⟨u.status, u.delay, true, u.delay + u.body⟩, interims := u.interims.filter informational,
            recorded := u.status }) := by
  have hT' : cfg.responseHeaderTimeout = T := by
    have := (load_fields src cfg hl).2.1
    rw [flagValue_cmdline _ _ _ _ _ hv, hp] at this
    exact (Option.some.inj this).symm
  obtain ⟨h, h1, h2⟩ := every_path_uses_config s cfg o fi gfi path hws
  refine ⟨h, h1, ?_, ?_⟩
  · intro hd
    obtain ⟨h', h1', h2'⟩ := interim_then_timeout_504 rt hrt s cfg o fi gfi path hws u (by omega) (by omega)
    rw [h1] at h1'; cases h1'; rw [h2', hT']
  · intro hd hst
    obtain ⟨h', h1', h2'⟩ := interim_then_in_time_served rt hrt s cfg o fi gfi path hws u hst (Or.inl (by omega))
    rw [h1] at h1'; cases h1'; exact h2'

/-- What the obligation `load_does_not_rewrite_the_five_options` excludes: a step after the flag parser that
lowers the response-header timeout to a listener's write timeout makes an upstream that answers within the
configured limit a 504 (configured 2 s, listener write timeout 300 ms, answer after 700 ms). -/
theorem lowered_timeout_fails_in_time_upstream :
    let cfg : Cfg := { Cfg.defaults with responseHeaderTimeout := 2000000000 }
    let lowered : Cfg := { cfg with responseHeaderTimeout := 300000000 }
    (exchange roundTrip (newTransport (setConfig Cell.init cfg) none) requestDeadline ⟨[], 200, 700000000, 0⟩).served.status = 200 ∧
    (exchange roundTrip (newTransport (setConfig Cell.init lowered) none) requestDeadline ⟨[], 200, 700000000, 0⟩).served.status = 504 := by
  decide

/-! ### Non-vacuity: the hypotheses above are satisfiable on non-trivial values -/

/-- a typical operator configuration: 30 s dial, 100 ms header timeout, 10 s keep-alive, 15 s idle, 10000 conns -/
def cfgEx : Cfg := ⟨30000000000, 100000000, 10000000000, 15000000000, 10000⟩
/-- a host-override https target that also skips verification -/
def optsEx : TargetOpts := ⟨"foo.com", true, true⟩
/-- main's order: logging, SetConfig, backends, a table with two targets, two proxies -/
def progEx : List Ev :=
  [.other, .setConfig cfgEx, .other, .addTarget optsEx, .addTarget ⟨"", false, true⟩, .newProxy, .newProxy]

example : Carries cfgEx (newTransport (setConfig Cell.init cfgEx) (some ⟨"foo.com", false⟩)) := by decide
example : (run .packageVar Cell.init progEx).length = 5 := by decide
example : ∀ t ∈ run .packageVar Cell.init progEx, Carries cfgEx t :=
  all_transports_use_config Cell.init cfgEx [.other] _ (by decide) (by decide)
example : ¬ ∀ t ∈ run .parameter Cell.init progEx, Carries cfgEx t := by decide
example : (selectTransport (newHTTPProxy (setConfig Cell.init cfgEx)) (addTarget (setConfig Cell.init cfgEx) optsEx)).tls
    = some ⟨"foo.com", true⟩ := by decide
example : serve roundTrip (selectTransport (newHTTPProxy (setConfig Cell.init cfgEx)) (addTarget (setConfig Cell.init cfgEx) optsEx))
    200 500000000 = (504, 100000000) :=
  slow_upstream_504 roundTrip roundTrip_contract _ _ _ _ _ (by decide) (by decide)
example : serve roundTrip (selectTransport (newHTTPProxy (setConfig Cell.init cfgEx)) (addTarget (setConfig Cell.init cfgEx) optsEx))
    201 20000000 = (201, 20000000) :=
  fast_upstream_served roundTrip roundTrip_contract _ _ _ _ _ (by decide)
example : serve roundTrip (newTransport (setConfigWith .parameter Cell.init cfgEx) none) 200 500000000 = (200, 500000000) := by decide
example : handlerPath "" "text/event-stream" = .sse ∧ handlerPath "" "text/event-stream, */*" = .default ∧
    handlerPath "websocket" "text/event-stream" = .websocket ∧ handlerPath "WebSocket" "" = .websocket ∧
    handlerPath "websoc\u212Aet" "" = .websocket ∧ handlerPath "web\u017Focket" "" = .websocket ∧ handlerPath "websockets" "text/event-stream" = .sse := by decide
example : (handlerFor (newHTTPProxy (setConfig Cell.init cfgEx)) 1000000000 0 (addTarget (setConfig Cell.init cfgEx) optsEx) .sse).map
    (·.transport.responseHeaderTimeout) = some 100000000 := by decide
-- headers after 20 ms, then a 5 s body with a 100 ms response-header timeout: complete, at 5.02 s
example : serveFull roundTrip (newTransport (setConfig Cell.init cfgEx) none) requestDeadline 200 20000000 5000000000
    = ⟨200, 20000000, true, 5020000000⟩ := by decide
-- the same with a context deadline of dial + header timeout (30.1 s) and a 40 s body: cut off
example : (serveFull roundTrip (newTransport (setConfig Cell.init cfgEx) none) (some 30100000000) 200 20000000 40000000000).complete
    = false := by decide
-- 103 Early Hints, then nothing for 500 ms with a 100 ms limit: 103 forwarded, 504 at 100 ms, 504 recorded
example : exchange roundTrip (newTransport (setConfig Cell.init cfgEx) none) requestDeadline ⟨[103], 200, 500000000, 0⟩
    = ⟨⟨504, 100000000, true, 100000000⟩, [103], 504⟩ := by decide
-- the same through a writer that ignores every call after the first: the client reads 200, the log says 103
example : exchangeWith true roundTrip (newTransport (setConfig Cell.init cfgEx) none) requestDeadline ⟨[103], 200, 500000000, 0⟩
    = ⟨⟨200, 100000000, true, 100000000⟩, [103], 103⟩ := by decide
-- two requests answered at once, then a stalled one, through the same transport
example : (serveHistory roundTrip (newTransport (setConfig Cell.init cfgEx) none) requestDeadline
    [⟨[], 200, 0, 0⟩, ⟨[], 200, 0, 0⟩, ⟨[], 200, 500000000, 0⟩]).map (·.served.status) = [200, 200, 504] := by decide
-- a command line, an environment and a properties file: command line over FABIO_ environment over properties
def srcEx : Sources :=
  { cmdline := [("proxy.responseheadertimeout", "2s"), ("proxy.addr", ":9999,:9998;wt=300ms"), ("proxy.responseheadertimeout", "1.5s")]
    env := [("FABIO_PROXY_DIALTIMEOUT", "250ms"), ("PROXY_DIALTIMEOUT", "9s"), ("FABIO_PROXY_RESPONSEHEADERTIMEOUT", "1h")]
    props := [("proxy.maxconn", "12"), ("proxy.dialtimeout", "3s"), ("proxy.keepalivetimeout", "1m30s")] }
example : load srcEx = some ⟨250000000, 1500000000, 90000000000, 15000000000, 12⟩ := by decide
example : parseDuration "1h2m3.004s" = some 3723004000000 ∧ parseDuration "-1.5ms" = some (-1500000) ∧
    parseDuration "3sec" = none ∧ parseDuration "5" = none ∧ parseDuration "9223372036854775808ns" = none := by decide
example : splitArgs ["-proxy.dialtimeout", "-5s", "--proxy.maxconn=7"] = some [("proxy.dialtimeout", "-5s"), ("proxy.maxconn", "7")] := by decide
example : load { cmdline := [], env := [("FABIO_PROXY_DIALTIMEOUT", "3sec")], props := [] } = some { Cfg.defaults with dialTimeout := 0 } := by decide
example : load { cmdline := [("proxy.dialtimeout", "3sec")], env := [], props := [] } = none := by decide
-- five connections become idle at 1 s; proxy.maxconn = 3, idle timeout 15 s: two closed at once, three at 16 s
example : poolFate (newTransport (setConfig Cell.init { cfgEx with maxConn := 3 }) none) 5 1000000000
    = [some 1000000000, some 1000000000, some 16000000000, some 16000000000, some 16000000000] := by decide
example : serveUnreachable (newTransport (setConfig Cell.init cfgEx) none) = some (504, 30000000000) := by decide
example : errorStatus .netTimeout = 504 ∧ errorStatus .netOther = 502 ∧ errorStatus .canceled = 499 := by decide

end Fabio.Props.C19
