import Fabio.Lemmas.C16Relay
import Fabio.Props.C16Compose
/-!
C16, round 4 — the relay: theorems about `Model/C16Relay.lean`, for **every** event list (every schedule of the
proxy's two forwarding goroutines and its `select` loop, every behaviour of caller and backend), and the
end-to-end statement composed of interceptor (C16), routing (C03), pool (C16) and relay.
-/
namespace Fabio.Props.C16Relay
open Fabio.Model.C16 Fabio.Model.C16.Spec Fabio.Model.C16.Relay Fabio.Lemmas.C16Relay

/-- every state the relay can reach for a call with this method and metadata -/
def reach (method : String) (md : SMD) (es : List Ev) : St := run (init method md) es

theorem reach_inv (method : String) (md : SMD) (es : List Ev) : Inv (reach method md es) :=
  inv_run _ es (inv_init method md)

/-! ### 1. what the backend is called with -/

theorem step_keeps_call (s : St) (e : Ev) : (step s e).bMethod = s.bMethod ∧ (step s e).bMD = s.bMD := by
  cases e <;> simp only [step] <;> (repeat' split) <;> simp

/-- **The backend's stream is opened for the caller's full method name with the caller's metadata**, and
nothing that happens later changes that. -/
theorem backend_called_with_callers_method_and_metadata (method : String) (md : SMD) (es : List Ev) :
    (reach method md es).bMethod = method ∧ (reach method md es).bMD = md := by
  unfold reach
  suffices h : ∀ s : St, (run s es).bMethod = s.bMethod ∧ (run s es).bMD = s.bMD from h (init method md)
  induction es with
  | nil => intro s; exact ⟨rfl, rfl⟩
  | cons e es ih =>
    intro s
    obtain ⟨h1, h2⟩ := ih (step s e)
    obtain ⟨h3, h4⟩ := step_keeps_call s e
    exact ⟨h1.trans h3, h2.trans h4⟩

/-! ### 2. caller → backend -/

/-- **The backend receives the caller's messages in order and unmodified**: at every moment of every history
what the backend has received is a prefix of what the caller has sent; the rest is in flight, in order
(`∃ rest`: second stream, the forwarder's hands, first stream). -/
theorem backend_receives_callers_messages_in_order (method : String) (md : SMD) (es : List Ev) :
    ∃ rest, (reach method md es).cSent = (reach method md es).bGot ++ rest := by
  have h := (reach_inv method md es).fwd
  exact ⟨(reach method md es).qB ++ (reach method md es).s2c.held ++ (reach method md es).qA, by
    rw [h]; simp only [List.append_assoc]⟩

/-- … and a backend that has read to the end of the stream has received **all** of them, after the caller has
half-closed: the end of the stream is not reported early and overtakes no message. -/
theorem backend_at_eof_has_everything (method : String) (md : SMD) (es : List Ev)
    (h : (reach method md es).bEOF = true) :
    (reach method md es).bGot = (reach method md es).cSent ∧ (reach method md es).cClosed = true := by
  have inv := reach_inv method md es
  obtain ⟨hq, hc⟩ := inv.eofB h
  have he := inv.closedB hc
  obtain ⟨ha, hcl⟩ := inv.eofA he
  refine ⟨?_, hcl⟩
  rw [inv.fwd, hq, ha, he]; simp [S2C.held]

/-! ### 3. backend → caller -/

/-- **The caller receives the backend's messages in order and unmodified** (prefix at every moment). -/
theorem caller_receives_backends_messages_in_order (method : String) (md : SMD) (es : List Ev) :
    ∃ rest, (reach method md es).bSent = (reach method md es).cGot ++ rest := by
  have h := (reach_inv method md es).bwd
  exact ⟨msgsOf (reach method md es).qD ++ (reach method md es).c2s.held ++ (reach method md es).qC, by
    rw [h]; simp only [List.append_assoc]⟩

/-- The caller sees no header before the backend has sent a message, and never another header than the
backend's. -/
theorem caller_header_is_backends (method : String) (md : SMD) (es : List Ev) (h : SMD)
    (hh : (reach method md es).cHdr = some h) :
    h = (reach method md es).bHdr ∧ (reach method md es).bSent ≠ [] := by
  have inv := reach_inv method md es
  rcases Bool.eq_false_or_eq_true (reach method md es).first with hf | hf
  · rw [(inv.hdr1 hf).2.2.1] at hh; cases hh
  · obtain ⟨hne, _, hc⟩ := inv.hdr0 hf
    rcases hc with ⟨h1, _⟩ | ⟨h1, _⟩
    · rw [h1] at hh; injection hh with hh; exact ⟨hh.symm, hne⟩
    · rw [h1] at hh; cases hh

/-- **A finished call.** When the caller has seen the end of the call, then the backend has finished, and the
caller has received *all* the backend's messages, the backend's trailers, its status code and message
(`norm`: OK carries no message), and the backend's header exactly when the backend sent at least one message. -/
theorem finished_call_is_transparent (method : String) (md : SMD) (es : List Ev) (tr : SMD) (st : Status)
    (h : (reach method md es).cFin = some (tr, st)) :
    ∃ st0, (reach method md es).bFin = some (tr, st0) ∧ st = st0.norm ∧
      (reach method md es).cGot = (reach method md es).bSent ∧
      ((reach method md es).bSent ≠ [] → (reach method md es).cHdr = some (reach method md es).bHdr) ∧
      ((reach method md es).bSent = [] → (reach method md es).cHdr = none) := by
  have inv := reach_inv method md es
  obtain ⟨hd, hq⟩ := inv.cfin _ h
  obtain ⟨tr0, st0, hc, hf⟩ := inv.dfin _ hd
  injection hf with e1 e2
  subst e1
  obtain ⟨hb, hqc⟩ := inv.done _ _ hc
  have hall : (reach method md es).cGot = (reach method md es).bSent := by
    rw [inv.bwd, hq, hc, hqc]; simp [C2S.held]
  refine ⟨st0, hb, e2, hall, ?_, ?_⟩
  · intro hne
    rcases Bool.eq_false_or_eq_true (reach method md es).first with hf | hf
    · exact absurd (by rw [← hall]; exact (inv.hdr1 hf).2.1) hne
    · rcases (inv.hdr0 hf).2.2 with ⟨h1, _⟩ | ⟨_, _, r, hr, _⟩
      · exact h1
      · rw [hq] at hr; cases hr
  · intro he
    rcases Bool.eq_false_or_eq_true (reach method md es).first with hf | hf
    · exact (inv.hdr1 hf).2.2.1
    · exact absurd he (inv.hdr0 hf).1

/-- The proxy never ends a call by itself (in this model: no cancellation, no transport failure): an outcome
reaches the caller only after the backend has produced one. -/
theorem no_outcome_before_the_backends (method : String) (md : SMD) (es : List Ev)
    (h : (reach method md es).bFin = none) : (reach method md es).cFin = none := by
  cases hc : (reach method md es).cFin with
  | none => rfl
  | some f =>
    obtain ⟨_, hb, _⟩ := finished_call_is_transparent method md es f.1 f.2 hc
    rw [h] at hb; cases hb

/-! ### 4. the specification predicates of `Model/C16.lean` hold of the model -/

theorem smdGet_beq_self (a : SMD) (k : String) : (smdGet a k == smdGet a k) = true := by simp

theorem mdCarried_self (a : SMD) : mdCarried a a = true := by
  simp [mdCarried]

theorem sameMsgs_self (l : List String) : Wire.sameMsgs l l = true := by
  induction l with
  | nil => rfl
  | cons a l ih => simp [Wire.sameMsgs, Wire.sameMsg, ih]

/-- what the backend did, read off a state -/
def didOf (s : St) (tr : SMD) (st : Status) : BackendDid :=
  { header := s.bHdr, msgs := s.bSent, trailer := tr, code := st.norm.code, message := st.norm.message }

/-- what the caller saw, read off a state -/
def sawOf (s : St) (tr : SMD) (st : Status) : CallerSaw :=
  { header := s.cHdr.getD [], msgs := s.cGot, trailer := tr, code := st.code, message := st.message }

/-- The predicate the correspondence evaluates on the real proxy's recorded observations (`Spec.backwardOK`)
holds of every finished call of the model. -/
theorem finished_call_satisfies_backwardOK (method : String) (md : SMD) (es : List Ev) (tr : SMD) (st : Status)
    (h : (reach method md es).cFin = some (tr, st)) :
    ∃ st0, (reach method md es).bFin = some (tr, st0) ∧
      backwardOK (didOf (reach method md es) tr st0) (sawOf (reach method md es) tr st) = true := by
  obtain ⟨st0, hb, hst, hall, hh1, _⟩ := finished_call_is_transparent method md es tr st h
  refine ⟨st0, hb, ?_⟩
  subst hst
  simp only [backwardOK, didOf, sawOf, hall, sameMsgs_self, mdCarried_self, Bool.true_and, Bool.and_true, beq_self_eq_true]
  cases hs : (reach method md es).bSent with
  | nil => simp
  | cons a l =>
    have := hh1 (by rw [hs]; simp)
    rw [this]; simp [mdCarried_self]

/-- … and `Spec.forwardOK` of every backend that has read to the end of the stream. -/
theorem drained_backend_satisfies_forwardOK (method : String) (md : SMD) (es : List Ev)
    (h : (reach method md es).bEOF = true) :
    forwardOK method md (reach method md es).cSent
      { method := (reach method md es).bMethod, md := (reach method md es).bMD, msgs := (reach method md es).bGot } = true := by
  obtain ⟨h1, h2⟩ := backend_called_with_callers_method_and_metadata method md es
  obtain ⟨h3, _⟩ := backend_at_eof_has_everything method md es h
  simp [forwardOK, h1, h2, h3, sameMsgs_self, mdCarried_self]

/-! ### 5. end to end: interceptor ∘ routing (C03) ∘ pool ∘ relay -/

section EndToEnd
open Fabio.Model.Route (Str Table Route Target)
open Fabio.Model.C03 Fabio.Props.C16Compose
open Fabio.Props.C03 (PickOK)

/-- the metadata as the interceptor's model reads it -/
def mdOf (m : SMD) : MD := m.map fun e => (e.1.toList, e.2.map String.toList)

/-- **The property, sentence by sentence, for one call** with metadata `md` and full method name `method`
(path `p`) arriving in world `w` (table, pool), with the routing of C03 as the table lookup:

1. if no route is a candidate for (dsthost value, method path) the call is answered `NotFound` and table,
   pool, dial log and dial counter are untouched — no backend is contacted;
2. if the call reaches the pool, it does so for the URL of a target of a candidate route, and the pool answers
   as `World.get` says (a live pooled connection is reused, otherwise one dial);
3. for **every** history of the relay that then runs on that connection: the backend was called with the
   caller's method and metadata; what it has received is a prefix of the caller's messages, all of them once it
   has read to the end; what the caller has received is a prefix of the backend's messages; and once the
   caller has seen the end of the call it has all the backend's messages, its trailers, its status code and
   message, and its header iff the backend sent a message. -/
theorem grpc_call_end_to_end (cfg : Cfg) (pp : Str → Option Str) (w : World) (md : SMD)
    (method : String) (p : Str) (d : Bool) (hp : pp method.toList = some p) (hpick : PickOK cfg.pick) :
    ((¬ ∃ k r, Candidate cfg w.table (mdOf md) p k r) →
      w.call pp (lookupKey cfg) true (mdOf md) method.toList d = (w, .status codeNotFound)) ∧
    (∀ w' k res, w.call pp (lookupKey cfg) true (mdOf md) method.toList d = (w', .proxied k res) →
      (∃ h r tg, Candidate cfg w.table (mdOf md) p h r ∧ tg ∈ r.targets ∧ k = tg.url ∧ (w', res) = w.get k d) ∧
      ∀ es : List Ev,
        (reach method md es).bMethod = method ∧ (reach method md es).bMD = md ∧
        (∃ rest, (reach method md es).cSent = (reach method md es).bGot ++ rest) ∧
        ((reach method md es).bEOF = true → (reach method md es).bGot = (reach method md es).cSent) ∧
        (∃ rest, (reach method md es).bSent = (reach method md es).cGot ++ rest) ∧
        (∀ tr st, (reach method md es).cFin = some (tr, st) →
          ∃ st0, (reach method md es).bFin = some (tr, st0) ∧ st = st0.norm ∧
            (reach method md es).cGot = (reach method md es).bSent ∧
            ((reach method md es).bSent ≠ [] → (reach method md es).cHdr = some (reach method md es).bHdr) ∧
            ((reach method md es).bSent = [] → (reach method md es).cHdr = none))) := by
  refine ⟨fun hno => grpc_no_candidate_notfound_no_backend cfg pp w (mdOf md) method.toList p d hp hpick hno, ?_⟩
  intro w' k res hc
  refine ⟨grpc_call_reaches_matching_backend cfg pp w (mdOf md) method.toList p d hp hpick hc, ?_⟩
  intro es
  obtain ⟨h1, h2⟩ := backend_called_with_callers_method_and_metadata method md es
  exact ⟨h1, h2, backend_receives_callers_messages_in_order method md es,
    fun h => (backend_at_eof_has_everything method md es h).1,
    caller_receives_backends_messages_in_order method md es,
    fun tr st h => finished_call_is_transparent method md es tr st h⟩

/-- the hypotheses of `grpc_call_end_to_end` are satisfiable and its second part is not vacuous: on the table of
`Props/C16Compose.lean` a call with `dsthost: beta.example` reaches the pool for that host's backend … -/
example :
    (({ table := Ex.T } : World).call some (lookupKey Ex.cfg) true (mdOf [("dsthost", ["beta.example"])])
      "/svc.A/M".toList true).2 = .proxied "grpc://b".toList (.dialled 0) := by decide
/-- … and a call without candidate route does not -/
example : ¬ ∃ k r, Candidate Ex.cfg Ex.T (mdOf []) "/svc.B/M".toList k r := by
  intro h
  have := (grpc_notfound_iff_no_candidate Ex.cfg Ex.T some (mdOf []) "/svc.B/M".toList "/svc.B/M".toList rfl
    (by intro r hr; cases h : r.targets with
        | nil => exact absurd h hr
        | cons a as => simp [Ex.cfg, h]) rfl (Props.C03.noEmptyRoutes_of_all Ex.T (by decide))).1 (by decide)
  exact this h

end EndToEnd

/-! ### non-vacuity: concrete histories -/
namespace Ex

def hdr : SMD := [("x-h", ["1", "2"])]
def trl : SMD := [("x-t", ["end"]), ("t-bin", ["00ff"])]

/-- a streaming call, ping-pong: two messages up, two down, status 9 "boom" with trailers -/
def pingpong : List Ev :=
  [.callerSend "0801", .s2cStep, .s2cStep, .backendRecv, .backendHeader hdr, .backendSend "0a00", .c2sStep, .c2sStep,
   .c2sStep, .callerRecv, .callerRecv, .callerSend "0802", .callerClose, .s2cStep, .s2cStep, .s2cStep, .selS2C,
   .backendRecv, .backendSend "0a01", .backendRecv, .backendFinish trl { code := 9, message := "boom" },
   .c2sStep, .c2sStep, .c2sStep, .selC2S, .callerRecv, .callerRecv]

example :
    let s := reach "/svc.A/M" [("x-a", ["1"])] pingpong
    s.cFin = some (trl, { code := 9, message := "boom" }) ∧ s.cGot = ["0a00", "0a01"] ∧ s.cHdr = some hdr ∧
    s.bGot = ["0801", "0802"] ∧ s.bEOF = true ∧ s.bMethod = "/svc.A/M" ∧ s.bMD = [("x-a", ["1"])] := by decide

/-- a backend that answers early, without reading and without a message: its header is not forwarded (the
property promises headers only when a message is sent), trailers and status are; the caller's message stays in
flight -/
example :
    let s := reach "/svc.A/M" [] ([.backendHeader hdr, .backendFinish trl { code := 14, message := "later" },
      .callerSend "0801"] ++ settle 3)
    s.cFin = some (trl, { code := 14, message := "later" }) ∧ s.cHdr = none ∧ s.cGot = [] ∧ s.bGot = [] ∧ s.bEOF = false := by decide

/-- OK carries no message -/
example :
    let s := reach "/svc.A/M" [] ([.callerClose, .backendSend "00", .backendFinish [] { code := 0, message := "ignored" }] ++ settle 4)
    s.cFin = some ([], {}) ∧ s.cGot = ["00"] ∧ s.cHdr = some [] := by decide

/-- a blocked goroutine stutters: events that are not enabled change nothing -/
example : reach "/m" [] [.s2cStep, .c2sStep, .selS2C, .selC2S, .callerRecv, .backendRecv] = init "/m" [] := by decide

end Ex
end Fabio.Props.C16Relay
