import Fabio.Props.C16Relay
import Fabio.Props.C03Compose
/-!
C16, round 4 — hypotheses discharged: the C16 ∘ C03 theorems of `Props/C16Compose.lean` carry the hypotheses
`NoEmptyRoutes t` ("every route of the table has a target") and `TableSorted t` ("a host's routes stand in
`newTable`'s order").  Every table fabio ever routes with is built by the command language
(`route.NewTable` on a configuration text / `NewTableCustom` on a definition list), and for those C05 and C03
prove both (`Props/C03Compose.lean: built_loadTable`, `built_newTable`).  Here the gRPC statements are restated
for **every configuration text that loads and every definition list**, without hypotheses on the table.
-/
namespace Fabio.Props.C16Built
open Fabio Fabio.Model.Route Fabio.Model.Parse Fabio.Model.C05Spec Fabio.Model.C03 Fabio.Model.C16
open Fabio.Props.C03 (PickOK NoSkip)
open Fabio.Props.C03Compose (Built built_loadTable built_newTable)
open Fabio.Props.C16Compose

/-- **NotFound ⇔ no candidate route**, for every built table. -/
theorem grpc_notfound_iff_no_candidate_built (cfg : Cfg) (t : Table) (hb : Built t) (pp : Str → Option Str) (md : MD)
    (method p : Str) (hp : pp method = some p) (hpick : PickOK cfg.pick) (hns : NoSkip cfg) :
    grpcIntercept cfg t pp md method = .notFound ↔ ¬ ∃ k r, Candidate cfg t md p k r :=
  grpc_notfound_iff_no_candidate cfg t pp md method p hp hpick hns hb.noEmpty

/-- … for every configuration text that loads (`route.NewTable`) -/
theorem grpc_notfound_iff_no_candidate_text (env : Env) (pf : ParseFloat) (text : Str) (t : Table)
    (hl : loadTable env pf text = .ok t) (cfg : Cfg) (pp : Str → Option Str) (md : MD)
    (method p : Str) (hp : pp method = some p) (hpick : PickOK cfg.pick) (hns : NoSkip cfg) :
    grpcIntercept cfg t pp md method = .notFound ↔ ¬ ∃ k r, Candidate cfg t md p k r :=
  grpc_notfound_iff_no_candidate_built cfg t (built_loadTable hl) pp md method p hp hpick hns

/-- … and for every definition list of the custom backend (`route.NewTableCustom`) -/
theorem grpc_notfound_iff_no_candidate_defs (env : Env) (defs : List RouteDef) (t : Table)
    (hl : newTable env defs = .ok t) (cfg : Cfg) (pp : Str → Option Str) (md : MD)
    (method p : Str) (hp : pp method = some p) (hpick : PickOK cfg.pick) (hns : NoSkip cfg) :
    grpcIntercept cfg t pp md method = .notFound ↔ ¬ ∃ k r, Candidate cfg t md p k r :=
  grpc_notfound_iff_no_candidate_built cfg t (built_newTable hl) pp md method p hp hpick hns

/-- **Longest path wins**, for every built table: under the prefix and iprefix matchers no matching route of
the answer's host has a longer path than the route a call is forwarded to. -/
theorem grpc_longest_path_wins_built (cfg : Cfg) (t : Table) (hb : Built t) (pp : Str → Option Str) (md : MD)
    (method p : Str) (hp : pp method = some p) (hns : NoSkip cfg)
    (pg : Str → Str → Bool) (kind : MatcherKind) (hkind : kind ≠ .glob) (hcfg : cfg.pathMatch = pathMatch pg kind)
    {h : Str} {r : Route} {tg : Target}
    (hf : grpcIntercept cfg t pp md method = .forward (h, r, tg)) :
    ∀ r' ∈ t.get (lowerL h), cfg.pathMatch p r'.path = true → r'.path.length ≤ r.path.length :=
  (grpc_most_specific cfg t pp md method p hp hns hf).2.2.2 pg kind hkind hcfg hb.sorted

/-- **A call is forwarded iff a candidate route exists**, for every built table: with `NotFound ⇔ no candidate`
and the fact that a parsable call is answered `NotFound` or forwarded. -/
theorem grpc_forwarded_iff_candidate_built (cfg : Cfg) (t : Table) (hb : Built t) (pp : Str → Option Str) (md : MD)
    (method p : Str) (hp : pp method = some p) (hpick : PickOK cfg.pick) (hns : NoSkip cfg) :
    (∃ a, grpcIntercept cfg t pp md method = .forward a) ↔ ∃ k r, Candidate cfg t md p k r := by
  have hnf := grpc_notfound_iff_no_candidate_built cfg t hb pp md method p hp hpick hns
  rw [grpcIntercept_eq cfg t pp md method p hp] at hnf ⊢
  cases hl : Lookup cfg t (grpcReq md p) with
  | none =>
    rw [hl] at hnf
    constructor
    · rintro ⟨a, ha⟩; cases ha
    · intro hc; exact absurd hc (hnf.1 rfl)
  | some a =>
    rw [hl] at hnf
    constructor
    · intro _
      by_cases hc : ∃ k r, Candidate cfg t md p k r
      · exact hc
      · have := hnf.2 hc; cases this
    · intro _; exact ⟨a, rfl⟩

/-- **End to end on a built table**: the first part of `Props.C16Relay.grpc_call_end_to_end` as an equivalence —
in a world whose table was loaded from a configuration text, a call with a parsable method is answered
`NotFound` with the world unchanged **iff** no candidate route exists, and otherwise reaches the pool. -/
theorem grpc_call_notfound_iff_text (env : Env) (pf : ParseFloat) (text : Str) (w : World)
    (hl : loadTable env pf text = .ok w.table) (cfg : Cfg) (pp : Str → Option Str) (md : MD)
    (method p : Str) (d : Bool) (hp : pp method = some p) (hpick : PickOK cfg.pick) (hns : NoSkip cfg) :
    (w.call pp (lookupKey cfg) true md method d = (w, .status codeNotFound) ↔ ¬ ∃ k r, Candidate cfg w.table md p k r) ∧
    ((∃ k r, Candidate cfg w.table md p k r) →
      ∃ k res, (w.call pp (lookupKey cfg) true md method d).2 = .proxied k res) := by
  have hb := built_loadTable hl
  have hfw := grpc_forwarded_iff_candidate_built cfg w.table hb pp md method p hp hpick hns
  have ha := (Props.C16.grpc_lookup_args (T := Str) pp md method p hp).1 (lookupKey cfg w.table)
  have hcall : ∀ a, Lookup cfg w.table (grpcReq md p) = some a →
      w.call pp (lookupKey cfg) true md method d = ((w.get a.2.2.url d).1, .proxied a.2.2.url (w.get a.2.2.url d).2) := by
    intro a hla
    have hk : lookupKey cfg w.table (dstHost md) p = some a.2.2.url := by
      simp only [lookupKey, lookupFull]; simp only [grpcReq] at hla; rw [hla]; rfl
    simp only [World.call, ha, hk]
  refine ⟨⟨?_, fun hno => grpc_no_candidate_notfound_no_backend cfg pp w md method p d hp hpick hno⟩, ?_⟩
  · intro hnf hc
    obtain ⟨a, hfa⟩ := hfw.2 hc
    rw [grpcIntercept_eq cfg w.table pp md method p hp] at hfa
    cases hla : Lookup cfg w.table (grpcReq md p) with
    | none => rw [hla] at hfa; cases hfa
    | some a' =>
      rw [hcall a' hla] at hnf
      injection hnf with _ e2; cases e2
  · intro hc
    obtain ⟨a, hfa⟩ := hfw.2 hc
    rw [grpcIntercept_eq cfg w.table pp md method p hp] at hfa
    cases hla : Lookup cfg w.table (grpcReq md p) with
    | none => rw [hla] at hfa; cases hfa
    | some a' => exact ⟨a'.2.2.url, (w.get a'.2.2.url d).2, by rw [hcall a' hla]⟩

/-! ### non-vacuity: a table built by a script -/
namespace Ex

def defs : List RouteDef :=
  [{ cmd := .add, service := "svc-a".toList, src := "/svc.A".toList, dst := "grpc://b0".toList, opts := [("proto".toList, "grpc".toList)] },
   { cmd := .add, service := "svc-b".toList, src := "beta.example/svc.A".toList, dst := "grpc://b1".toList, tags := ["b".toList] },
   { cmd := .add, service := "svc-c".toList, src := "/svc.A/M".toList, dst := "grpc://b2".toList, tags := ["c".toList] },
   { cmd := .del, service := "svc-c".toList, tags := ["c".toList] }]

def env : Env := { normURL := some, globOK := fun _ => true }

/-- the script builds a table (so `built_newTable` applies to it); the route `/svc.A/M` it added and emptied
again with `route del … tags "c"` is gone, and the call is served by the general route — what seeded change m1
broke -/
def holds : Bool :=
  match newTable env defs with
  | .ok t =>
    Props.C16Compose.Ex.ans (grpcIntercept Props.C16Compose.Ex.cfg t some [] "/svc.A/M".toList)
        == some ("", "/svc.A", "grpc://b0") &&
      Props.C16Compose.Ex.ans (grpcIntercept Props.C16Compose.Ex.cfg t some
        [("dsthost".toList, ["Beta.Example".toList])] "/svc.A/M".toList) == some ("beta.example", "/svc.A", "grpc://b1") &&
      (match grpcIntercept Props.C16Compose.Ex.cfg t some [] "/svc.B/M".toList with
       | .notFound => true
       | _ => false)
  | .error _ => false

example : holds = true := by decide

end Ex
end Fabio.Props.C16Built
