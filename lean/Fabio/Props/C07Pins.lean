import Fabio.Generated.C07
import Fabio.Props.C07Xlate
/-!
CHANGE DETECTORS for C07 (`"pins_module"` in checks/C07.json): the shape of sequential, deterministic code whose
input/output behaviour a correspondence stream compares with the model on every run. When one of these stops
building nothing is claimed broken — the streams run at the widened budget with a second seed and decide. Each
statement names the stream that carries the tie. (Until round 3 these were obligations in `C07Facts.lean`; every
archived breaking change that broke one of them is also exposed by the named stream with a concrete input.)
-/
namespace Fabio.Props.C07Pins
open Fabio Fabio.Generated.C07

def idx (k : String) : Option Nat := (serveOrder.zipIdx.find? (·.1 = k)).map (·.2)
def before (a b : String) : Bool :=
  serveOrder.count a = 1 && serveOrder.count b = 1 &&
  match idx a, idx b with
  | some i, some j => i < j
  | _, _ => false

/-- order inside the URL construction: raw path taken first, strip before prepend, `RawPath` set last; query
merge, Host override and `addHeaders` before the handler is chosen — `c07.url` (strip+prepend classes, `+enc`),
`c07.serve` (forwarding headers against the Host override) -/
theorem url_construction_order :
    before "url-build" "rawpath-init" ∧ before "url-build" "query-merge" ∧ before "rawpath-init" "strip" ∧
    before "strip" "prepend" ∧ before "prepend" "rawpath-set" ∧ before "rawpath-set" "handler-choice" ∧
    before "query-merge" "handler-choice" ∧ before "noroute-return" "host-override" ∧
    before "host-override" "handler-choice" ∧ before "noroute-return" "addHeaders" ∧
    before "addHeaders" "handler-choice" ∧ before "redirect" "url-build" := by decide

/-- the no-route branch, statement by statement — `c07.noroute` (statuses at and around both bounds, pages, HEAD) -/
theorem noroute_branch :
    noRouteEvents = ["store status = recv.Config.NoRouteStatus",
      "status < 100 || status > 999 ⊢ store status = http.StatusNotFound",
      "call w.WriteHeader(status)", "store html = noroute.GetHTML()",
      "nonempty(html) ⊢ call io.WriteString(w, html)", "return"] := by
  decide

/-- the returns in front of the target-URL literal — `c07.serve` (outcome class per gate) -/
theorem url_built_past_the_gates :
    gatePrefix = ["past:!(recv.Lookup == nil)", "past:!(target == nil)", "past:!(target.AccessDeniedHTTP(req))",
      "past:!(!target.Authorized(req, w, recv.AuthSchemes))",
      "past:!(target.RedirectCode != 0 && target.RedirectURL != nil)"] := by decide

/-- every store to the target URL, the escaped path, the request's Host and URL with its guards — `c07.url`
(strip × prepend × host × target query × encodings × http/websocket, `Upgrade` in mixed case), `c07.serve` -/
theorem url_construction :
    urlEvents = [
      "store turl = &url.URL{Scheme: target.URL.Scheme, Host: target.URL.Host, Path: req.URL.Path}",
      "store raw = req.URL.EscapedPath()",
      "empty(target.URL.RawQuery) || empty(req.URL.RawQuery) ⊢ store turl.RawQuery = target.URL.RawQuery + req.URL.RawQuery",
      "!(empty(target.URL.RawQuery) || empty(req.URL.RawQuery)) ⊢ store turl.RawQuery = target.URL.RawQuery + \"&\" + req.URL.RawQuery",
      "nonempty(target.StripPath) && strings.HasPrefix(req.URL.Path, target.StripPath) ⊢ store turl.Path = turl.Path[len(target.StripPath):]",
      "nonempty(target.StripPath) && strings.HasPrefix(req.URL.Path, target.StripPath) ⊢ store raw = raw[helper(raw, len(target.StripPath)):]",
      "nonempty(target.StripPath) && strings.HasPrefix(req.URL.Path, target.StripPath), !strings.HasPrefix(turl.Path, \"/\") ⊢ store turl.Path = \"/\" + turl.Path",
      "nonempty(target.StripPath) && strings.HasPrefix(req.URL.Path, target.StripPath), !strings.HasPrefix(turl.Path, \"/\") ⊢ store raw = \"/\" + raw",
      "nonempty(target.PrependPath) ⊢ store turl.Path = target.PrependPath + turl.Path",
      "nonempty(target.PrependPath) ⊢ store raw = (&url.URL{Path: target.PrependPath}).EscapedPath() + raw",
      "nonempty(target.PrependPath), !strings.HasPrefix(turl.Path, \"/\") ⊢ store turl.Path = \"/\" + turl.Path",
      "nonempty(target.PrependPath), !strings.HasPrefix(turl.Path, \"/\") ⊢ store raw = \"/\" + raw",
      "strings.HasPrefix(raw, \"/\") ⊢ store turl.RawPath = raw",
      "target.Host == \"dst\" ⊢ store req.Host = turl.Host",
      "!(target.Host == \"dst\"), nonempty(target.Host) ⊢ store req.Host = target.Host",
      "strings.EqualFold(upgrade, \"websocket\") ⊢ store req.URL = turl"] := by
  decide +kernel

/-- the director's stores as a list (their being the *only* effects is the obligation `director_touches_only_the_url`)
— `c07.url` (request line and Host at the upstream), `c07.body` (body and length at the upstream) -/
theorem director_stores :
    directorStores = ["store out.URL.Scheme = turl.Scheme", "store out.URL.Host = turl.Host",
      "store out.URL.Path = turl.Path", "store out.URL.RawPath = turl.RawPath",
      "store out.URL.RawQuery = turl.RawQuery"] := by decide

/-- `responseWriter.WriteHeader`: it ends with the two statements the model `RW` transcribes — the call is handed on,
the code recorded — `c07.body` (interim responses, every final status of the universe). What stands in front of them
since /repo 3162882 (C08's repair: before a final header, fabio's own response headers that `httputil.ReverseProxy`
cleared with a relayed 1xx are put back where they are missing) skips nothing — obligation `response_writer_forwards` —
and writes header names only that were in the map before the handler ran and are absent now. -/
theorem response_writer_write_header :
    (rwWriteHeaderEvents.drop (rwWriteHeaderEvents.length - 2)) = ["call recv.w.WriteHeader(code)", "store recv.code = code"] ∧
    (rwWriteHeaderEvents.take (rwWriteHeaderEvents.length - 2)).all
      (fun e => !(["call recv.w.WriteHeader(code)", "store recv.code = code", "return"].contains e)) = true := by decide

/-- the `Lookup` closure of `main.newHTTPProxy` and the watcher loop, statement by statement (the obligations
`main_wiring`/`noroute_page_wiring` keep what matters of them) — `c07.serve` drives the same `Table.Lookup` call,
`c07.noroute` the same `SetHTML`/`GetHTML` -/
theorem main_lookup_closure :
    mainLookupEvents = ["store target = route.GetTable().Lookup(req, req.Header.Get(\"trace\"), pick, match, globCache, cfg.GlobMatchingDisabled)",
      "target == nil ⊢ call statsHandler.Noroute.Add(1)",
      "target == nil ⊢ call log.Print(\"[WARN] No route for \", req.Host, req.URL)", "return target"] := by decide

end Fabio.Props.C07Pins
