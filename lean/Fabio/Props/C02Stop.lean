import Fabio.Props.C02Lines
/-!
C02, round 4 — where the scanner loop of `Parse` stops, tied to the parser model.

`Model/C02Buf.lean` computes what `route.NewTable` leaves in its buffer from `stopLine pf text`: the first line Go's LINE
parser rejects (a NaN/±Inf weight is accepted by Go's line parser, so `stopLine` looks past such lines although the
Lean `parse` reports them as `nonFinite`). These theorems tie `stopLine` to `Parse.parse`, the model every other theorem
about `loadTable` uses: the two can never disagree about a syntax error or an over-long line.
-/
namespace Fabio.Props.C02Stop
open Fabio Fabio.Model.C02Buf Fabio.Model.Parse Fabio.Model.Route

/-- **A syntax error of the parser model is where the scanner loop stops**: `parse` reports `line j: <syntax error>` ⇒
`stopLine = some j`. -/
theorem stopLine_of_syntax_error (pf : ParseFloat) : ∀ (ls : List Str) (i j : Nat) (e : SynErr),
    parseLines pf i ls = .error (.syn j e) → stopLineAux pf i ls = some j := by
  intro ls
  induction ls with
  | nil => intro i j e h; simp [parseLines] at h
  | cons raw rest ih =>
    intro i j e h
    unfold parseLines at h
    unfold stopLineAux
    by_cases hlong : maxToken ≤ byteLen raw
    · simp [hlong] at h
    · simp only [hlong, if_false] at h ⊢
      cases hp : parseLine pf (dropCR raw) with
      | error e' =>
        cases e' with
        | syn s =>
          simp only [hp, Except.error.injEq, ParseErr.syn.injEq] at h
          simp [h.1]
        | nonFinite v => simp [hp] at h
      | ok o =>
        cases o with
        | none =>
          simp only [hp] at h ⊢
          exact ih (i + 1) j e h
        | some d =>
          simp only [hp] at h ⊢
          cases hr : parseLines pf (i + 1) rest with
          | error e' =>
            simp only [hr, Except.error.injEq] at h
            subst h
            exact ih (i + 1) j e hr
          | ok ds => simp [hr] at h

theorem stopLine_of_parse_syntax_error (pf : ParseFloat) (text : Str) (j : Nat) (e : SynErr)
    (h : parse pf text = .error (.syn j e)) : stopLine pf text = some j :=
  stopLine_of_syntax_error pf (rawLines text) 1 j e h

/-- **An over-long line of the parser model is not a stopping line**: the scanner gives up by itself there
(`scanner_reads_the_raw_lines`), `Parse` never sees a later line. -/
theorem stopLine_of_tooLong (pf : ParseFloat) : ∀ (ls : List Str) (i j : Nat),
    parseLines pf i ls = .error (.tooLong j) → stopLineAux pf i ls = none := by
  intro ls
  induction ls with
  | nil => intro i j h; simp [parseLines] at h
  | cons raw rest ih =>
    intro i j h
    unfold parseLines at h
    unfold stopLineAux
    by_cases hlong : maxToken ≤ byteLen raw
    · simp [hlong]
    · simp only [hlong, if_false] at h ⊢
      cases hp : parseLine pf (dropCR raw) with
      | error e' =>
        cases e' with
        | syn s => simp [hp] at h
        | nonFinite v => simp [hp] at h
      | ok o =>
        cases o with
        | none =>
          simp only [hp] at h ⊢
          exact ih (i + 1) j h
        | some d =>
          simp only [hp] at h ⊢
          cases hr : parseLines pf (i + 1) rest with
          | error e' =>
            simp only [hr, Except.error.injEq] at h
            subst h
            exact ih (i + 1) j hr
          | ok ds => simp [hr] at h

/-! ## non-vacuity -/
section examples

/-- a text whose second line is a syntax error: `parse` says line 2, `stopLine` says 2 -/
example : ∃ e, parse (fun _ => none) "# c\nroute ad\nroute add a /x http://a:1/".toList = .error (.syn 2 e) :=
  ⟨_, by rfl⟩
example : stopLine (fun _ => none) "# c\nroute ad\nroute add a /x http://a:1/".toList = some 2 := by decide

end examples

end Fabio.Props.C02Stop
