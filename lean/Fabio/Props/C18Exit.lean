import Fabio.Model.C18Exit
/-!
# C18 — how a shutdown begins: package `exit`

"After shutdown begins …" presupposes that the shutdown *does* begin: whichever way the process is told to stop
(SIGINT, SIGTERM, or `exit.Exit`/`Fatal`/`Fatalf` from inside — main.go's reaction to a failing listener), the exit
handler (deregister, grace period, `proxy.Shutdown(wait)`) must be started, exactly once, whatever ignored SIGHUPs
came before; and `exit.Exit` must get past its `wg.Wait()` once the handlers have returned. The theorems are about
the state machine of `Fabio.Model.C18Exit`; the stream `c18.exit` runs the same histories against the real package
in a child process, `C18Facts.exit_listen_keeps_signals_caught` pins the select the contract was read from.
-/
namespace Fabio.Props.C18Exit
open Fabio.Model.C18Exit

/-! ### the run, listener by listener -/

def runListener (c : ListenContract) (l : LState) (es : List Ev) : LState :=
  es.foldl (fun l e => stepListener c e l) l

theorem run_eq (c : ListenContract) (es : List Ev) : ∀ (ls : List LState) (q : Bool),
    run c { listeners := ls, quitClosed := q } es =
      { listeners := ls.map (fun l => runListener c l es), quitClosed := q || es.any (fun e => decide (e = .exitCall)) } := by
  induction es with
  | nil => intro ls q; simp [run, runListener]
  | cons e es ih =>
    intro ls q
    have := ih (ls.map (stepListener c e)) (q || decide (e = .exitCall))
    simp only [run, List.foldl_cons, step] at this ⊢
    rw [this]
    simp [runListener, List.map_map, Function.comp_def, Bool.or_assoc]

theorem ran_absorbing (c : ListenContract) (s : Option Sig) (es : List Ev) : runListener c (.ran s) es = .ran s := by
  induction es with
  | nil => rfl
  | cons e es ih => simpa [runListener, stepListener] using ih

theorem hups_keep_waiting (c : ListenContract) (n : Nat) (b : Bool) :
    runListener c (.waiting b) (List.replicate n .hup) = .waiting (b || decide (0 < n)) := by
  induction n generalizing b with
  | zero => simp [runListener]
  | succ n ih =>
    have := ih true
    simp only [runListener, List.replicate_succ, List.foldl_cons, stepListener] at this ⊢
    rw [this]
    simp

theorem runListener_append (c : ListenContract) (l : LState) (a b : List Ev) :
    runListener c l (a ++ b) = runListener c (runListener c l a) b := by
  simp [runListener, List.foldl_append]

/-! ### SIGHUP is ignored -/

/-- **hups_are_ignored.** Any number of SIGHUPs, under either contract: no handler has been called, `quit` is open,
every listener is still waiting. -/
theorem hups_are_ignored (c : ListenContract) (k n : Nat) :
    (run c (initial k) (List.replicate n .hup)).quitClosed = false ∧
    ∀ l ∈ (run c (initial k) (List.replicate n .hup)).listeners, handlerRan l = false := by
  simp only [initial, run_eq]
  refine ⟨by simp, ?_⟩
  intro l hl
  simp only [List.mem_map, List.mem_replicate] at hl
  obtain ⟨l0, ⟨_, rfl⟩, rfl⟩ := hl
  rw [hups_keep_waiting]
  rfl

/-! ### the shutdown begins on the first terminating event, whatever came before -/

/-- one listener, `n` SIGHUPs, then a terminating event: the handler is called with that event's signal -/
theorem listener_reacts (n : Nat) (last : Ev) (h : last ≠ .hup) :
    runListener .reselects (.waiting false) (history n last) = .ran (sigOf last) := by
  rw [history, runListener_append, hups_keep_waiting]
  cases last with
  | hup => exact absurd rfl h
  | sig s => simp [runListener, stepListener, sigOf]
  | exitCall => simp [runListener, stepListener, sigOf, watchesQuit]

/-- **shutdown_begins.** For every number `k` of registered handlers and every number `n` of earlier SIGHUPs, the
first SIGINT, SIGTERM or `exit.Exit`/`Fatal` call makes every handler run, with that signal (`nil` for `Exit`). -/
theorem shutdown_begins (k n : Nat) (last : Ev) (h : last ≠ .hup) :
    calledWith (run .reselects (initial k) (history n last)) (sigOf last) = true := by
  simp only [initial, run_eq, calledWith, List.all_eq_true, List.mem_map, List.mem_replicate]
  rintro l ⟨l0, ⟨_, rfl⟩, rfl⟩
  rw [listener_reacts n last h]
  simp

/-- **exit_completes.** `exit.Exit` (or `Fatal`/`Fatalf`) after any number of SIGHUPs gets past `wg.Wait()`: `quit`
is closed and every handler has been called — the process ends once they have returned. -/
theorem exit_completes (k n : Nat) :
    exitCompletes (run .reselects (initial k) (history n .exitCall)) = true := by
  have h := shutdown_begins k n .exitCall (by decide)
  simp only [initial, run_eq, calledWith, exitCompletes, List.all_eq_true, Bool.and_eq_true] at h ⊢
  refine ⟨by simp [history], ?_⟩
  intro l hl
  have := h l hl
  simp only [decide_eq_true_eq] at this
  rw [this]; rfl

/-- **handlers_run_once.** Once every handler has been called, nothing that arrives later (a second SIGTERM, ^C
twice, an `exit.Fatal` from a listener that failed meanwhile) calls one again or changes what it was called with. -/
theorem handlers_run_once (c : ListenContract) (p : PState) (hp : p.listeners.all handlerRan = true) (es : List Ev) :
    (run c p es).listeners = p.listeners := by
  cases p with
  | mk ls q =>
    simp only [run_eq]
    simp only [List.all_eq_true] at hp
    have : ∀ l ∈ ls, runListener c l es = l := by
      intro l hl
      have := hp l hl
      cases l with
      | waiting b => simp [handlerRan] at this
      | ran s => exact ran_absorbing c s es
    exact (List.map_congr_left this).trans (List.map_id ls)

/-! ### the contract is forced: a listener that stops watching `quit` after a SIGHUP never shuts down -/

theorem listener_deaf_after_hup (n m : Nat) (hn : 0 < n) :
    runListener .signalsOnly (.waiting false) (List.replicate n .hup ++ List.replicate m .exitCall) = .waiting true := by
  rw [runListener_append, hups_keep_waiting]
  simp only [Bool.false_or, hn, decide_true]
  induction m with
  | zero => rfl
  | succ m ih =>
    simp only [runListener, List.replicate_succ, List.foldl_cons, stepListener, watchesQuit] at ih ⊢
    simpa using ih

/-- **signals_only_never_exits.** Under the `signalsOnly` contract (wait for the next *signal* after a SIGHUP), one
earlier SIGHUP is enough: however often `exit.Exit`/`Fatal` is called afterwards, no handler is ever called — no
deregistration, no `proxy.Shutdown`, the listeners keep accepting — and `Exit` never gets past `wg.Wait()`. -/
theorem signals_only_never_exits (k n m : Nat) (hk : 0 < k) (hn : 0 < n) :
    let p := run .signalsOnly (initial k) (List.replicate n .hup ++ List.replicate m .exitCall)
    (∀ l ∈ p.listeners, handlerRan l = false) ∧ exitCompletes p = false := by
  intro p
  have hl : ∀ l ∈ p.listeners, l = .waiting true := by
    intro l hl
    simp only [p, initial, run_eq, List.mem_map, List.mem_replicate] at hl
    obtain ⟨l0, ⟨_, rfl⟩, rfl⟩ := hl
    exact listener_deaf_after_hup n m hn
  refine ⟨fun l h => by rw [hl l h]; rfl, ?_⟩
  have hne : p.listeners ≠ [] := by
    simp only [p, initial, run_eq]
    intro h
    simp only [List.map_eq_nil_iff, List.replicate_eq_nil_iff] at h
    omega
  cases hp : p.listeners with
  | nil => exact absurd hp hne
  | cons l ls =>
    have : l = .waiting true := hl l (by rw [hp]; simp)
    simp [exitCompletes, hp, this, handlerRan]

/-- the statement `exit_completes` is therefore false of the `signalsOnly` contract (witness: one handler, one
SIGHUP, then `exit.Exit` — the second line of `corpus/c18.exit.jsonl`) -/
theorem exit_completes_needs_reselect :
    ¬ ∀ (k n : Nat), exitCompletes (run .signalsOnly (initial k) (history n .exitCall)) = true := by
  intro h
  have := h 1 1
  simp [history, run, step, initial, stepListener, watchesQuit, exitCompletes, handlerRan] at this

/-- without a SIGHUP the two contracts cannot be told apart — why a history of two steps is needed -/
theorem contracts_agree_without_hup (k : Nat) (last : Ev) :
    run .signalsOnly (initial k) [last] = run .reselects (initial k) [last] := by
  cases last <;> simp [run, step, initial, stepListener, watchesQuit]

/-! ### which signals a listener receives: the channel of capacity 1 -/

/-- **sequential_delivery_is_the_event_machine.** If the goroutine gets to run between any two arrivals, a channel
of capacity ≥ 1 loses nothing: the delivery-level machine does exactly what the event-level one does, for every
history. (The hypothesis under which `shutdown_begins` speaks about the process.) -/
theorem sequential_delivery_is_the_event_machine (c : ListenContract) (cap : Nat) (hcap : 0 < cap) (es : List Ev) :
    ∀ l : LState, (sequential es).foldl (stepAct c cap) (l, []) = (runListener c l es, []) := by
  induction es with
  | nil => intro l; rfl
  | cons e es ih =>
    intro l
    have hd : deliver cap [] e = [e] := by
      unfold deliver
      by_cases h : e = .exitCall
      · simp [h]
      · simp [h, hcap]
    simp only [sequential, List.flatMap_cons, List.cons_append, List.nil_append, List.foldl_cons, stepAct, hd,
      List.foldl_nil]
    have ih' := ih (stepListener c e l)
    simp only [sequential] at ih'
    rw [ih']
    simp [runListener]

/-- **shutdown_begins_if_handled_in_turn_partial.** Full statement (false — `signal_right_after_sighup_is_lost`): for
every schedule of arrivals and runs of the goroutine in which `n` SIGHUPs are followed by a terminating event, the
handler is called. Forced hypothesis: the schedule is `sequential` — every signal is handled before the next one
arrives. -/
theorem shutdown_begins_if_handled_in_turn_partial (cap : Nat) (hcap : 0 < cap) (n : Nat) (last : Ev) (h : last ≠ .hup) :
    runActs .reselects cap (sequential (history n last)) = (.ran (sigOf last), []) := by
  simp only [runActs]
  rw [sequential_delivery_is_the_event_machine .reselects cap hcap]
  rw [listener_reacts n last h]

/-- **Negation with witness (D32, fixed by 5d789c0).** Capacity 1, as in `exit.Listen` as shipped: a SIGTERM that arrives before the
goroutine has handled the preceding SIGHUP is dropped — when the goroutine runs it sees the SIGHUP only, goes back to
waiting, and the shutdown never begins. With capacity 2 the same schedule calls the handler. `exit.Exit` in the same
position is not lost. Replayed by `corpus/c18.exit.jsonl` (class `sigterm-right-after-sighup`). -/
theorem signal_right_after_sighup_is_lost :
    runActs .reselects 1 [.arrives .hup, .arrives (.sig .term), .runs] = (.waiting true, []) ∧
    runActs .reselects 2 [.arrives .hup, .arrives (.sig .term), .runs] = (.ran (some .term), []) ∧
    runActs .reselects 1 [.arrives .hup, .arrives .exitCall, .runs] = (.ran none, []) := by decide

theorem shutdown_begins_full_statement_fails :
    ¬ ∀ (acts : List Act), acts = [.arrives .hup, .arrives (.sig .term), .runs] →
        handlerRan (runActs .reselects 1 acts).1 = true := by
  intro h
  have := h _ rfl
  revert this
  decide

example : runActs .reselects 1 (sequential (history 2 (.sig .int))) = (.ran (some .int), []) := by decide

/-! ### after the repair (5d789c0): one channel with room for a burst -/

/-- a schedule in bursts: the signals of each burst arrive before the goroutine runs once -/
def bursts (bs : List (List Ev)) : List Act := bs.flatMap (fun b => b.map Act.arrives ++ [.runs])

theorem deliver_burst (cap : Nat) (b : List Ev) : ∀ q : List Ev, q.length + b.length ≤ cap →
    b.foldl (deliver cap) q = q ++ b := by
  induction b with
  | nil => intro q _; simp
  | cons e es ih =>
    intro q h
    simp only [List.length_cons] at h
    have hd : deliver cap q e = q ++ [e] := by
      unfold deliver
      by_cases he : e = .exitCall
      · simp [he]
      · have : q.length < cap := by omega
        simp [he, this]
    simp only [List.foldl_cons, hd]
    rw [ih (q ++ [e]) (by simp; omega)]
    simp

theorem arrivals_fold (c : ListenContract) (cap : Nat) (b : List Ev) (l : LState) (q : List Ev) :
    (b.map Act.arrives).foldl (stepAct c cap) (l, q) = (l, b.foldl (deliver cap) q) := by
  induction b generalizing q with
  | nil => rfl
  | cons e es ih => simp only [List.map_cons, List.foldl_cons, stepAct]; exact ih _

/-- **bursts_within_capacity_lose_nothing.** After the repair (one channel of capacity `cap`, registered once): as long
as no more than `cap` signals arrive between two runs of the listener goroutine, the delivery-level machine does exactly
what the event-level one does with all of them, in order — for every schedule in bursts. With `cap = 16` a SIGTERM
right after a SIGHUP (a burst of two) is received. -/
theorem bursts_within_capacity_lose_nothing (c : ListenContract) (cap : Nat) (bs : List (List Ev))
    (h : ∀ b ∈ bs, b.length ≤ cap) :
    ∀ l : LState, (bursts bs).foldl (stepAct c cap) (l, []) = (runListener c l bs.flatten, []) := by
  induction bs with
  | nil => intro l; rfl
  | cons b bs ih =>
    intro l
    have hb : b.length ≤ cap := h b (by simp)
    have ih' := ih (fun b' hb' => h b' (by simp [hb']))
    simp only [bursts, List.flatMap_cons, List.foldl_append, List.foldl_cons, List.foldl_nil, arrivals_fold,
      deliver_burst cap b [] (by simpa using hb), List.nil_append, stepAct, List.flatten_cons] at ih' ⊢
    rw [ih']
    simp [runListener, List.foldl_append]

/-- the shutdown begins for a SIGHUP and a terminating signal arriving in one burst, capacity ≥ 2 -/
theorem signal_right_after_sighup_is_received (cap : Nat) (hcap : 2 ≤ cap) (last : Ev) (h : last ≠ .hup) :
    runActs .reselects cap (bursts [[.hup, last]]) = (.ran (sigOf last), []) := by
  simp only [runActs]
  rw [bursts_within_capacity_lose_nothing .reselects cap [[.hup, last]] (by simpa using hcap)]
  have := listener_reacts 1 last h
  simpa [history] using this

/-! ### non-vacuity -/
example : run .reselects (initial 2) (history 3 (.sig .term)) =
    { listeners := [.ran (some .term), .ran (some .term)], quitClosed := false } := by decide
example : exitCompletes (run .reselects (initial 2) (history 3 .exitCall)) = true := by decide
example : exitCompletes (run .signalsOnly (initial 2) (history 3 .exitCall)) = false := by decide
example : exitCompletes (run .signalsOnly (initial 2) (history 0 .exitCall)) = true := by decide
example : (run .reselects (run .reselects (initial 1) (history 1 (.sig .term))) [.sig .int, .exitCall]).listeners =
    [.ran (some .term)] := by decide

end Fabio.Props.C18Exit
