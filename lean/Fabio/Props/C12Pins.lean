import Fabio.Generated.C12
import Fabio.Props.C12
/-!
CHANGE DETECTORS for C12 (`"pins_module"` in checks/C12.json): the shape of sequential, deterministic code whose
input/output behaviour a correspondence stream compares with the model on every run. When one of these stops
building nothing is claimed broken — the streams run at the widened budget with a second seed and decide. Each
line names the stream that carries the tie.
-/
namespace Fabio.Props.C12Pins
open Fabio Fabio.Model.C12 Fabio.Generated.C12

/-- the literal event lists of the five entry points — `c12.gate`, `c12.multi` (HTTP, TCP, SNI, dynamic TCP) and
`c12.grpc` compare reply and upstream counters with `runGate` / `serveHTTP` / `serveTCP` on these very orders -/
theorem orders_pinned :
    httpOrder = ["lookup", "access", "auth", "redirect", "upstream"] ∧
    tcpOrder = ["lookup", "access", "upstream"] ∧ sniOrder = ["lookup", "access", "upstream"] ∧
    dynOrder = ["lookup", "access", "upstream"] ∧ grpcOrder = ["lookup", "access", "auth", "upstream"] := by decide

/-- 403 / 401 / PermissionDenied — `c12.gate`, `c12.multi` (status seen by the client), `c12.grpc` (status code) -/
theorem statuses_pinned :
    httpDeniedStatus = "403" ∧ httpUnauthorizedStatus = "401" ∧ grpcDeniedCode = "PermissionDenied" := by decide

/-- `defer <conn>.Close()` ahead of every return of the three `ServeTCP` — `c12.gate` / `c12.multi` wait for the
end of the connection (outcome `closed`; a connection left open runs into the client's deadline) -/
theorem tcp_defer_close : (tcpDeferClose && sniDeferClose && dynDeferClose) = true := by decide

/-- `AccessDeniedTCP` decides by calling `AccessDeniedAddr`, the function the gRPC interceptor uses — `c12.tcp`
and `c12.grpc` compare both with the same model function `accessDeniedTCP` -/
theorem tcp_and_grpc_share_decision : tcpDelegatesToAddr = true := by decide

/-- the auth scheme type: a string and the htpasswd file handle; `Authorized` calls `BasicAuth`, `Header`, `Set`,
`Match`, and — since the repair of D32 — `recover` and `log.Printf` in a deferred guard around `Match` — `c12.auth`, `c12.authseq` (histories on one long-lived instance), `c12.gate`, `c12.grpc` -/
theorem auth_scheme_shape_pinned :
    authSchemeTypes = 1 ∧ authSchemeFieldTypes = ["*htpasswd.File", "string"] ∧
    authorizedCallees = ["BasicAuth", "Header", "Match", "Printf", "Set", "recover"] := by decide

/-- the keys of the rule map — `c12.decide` compares the dumped map (the hook reads the same constants) -/
theorem tags_pinned : ipAllowTag = "allow:ip" ∧ ipDenyTag = "deny:ip" := by decide

/-- `addTarget` processes the options of every target, and the functions storing into the rule map are the item
parser and the fail-closed helper — `c12.decide`, `c12.tcp`, `c12.race` build every target through `addTarget`
and compare the rule map it leaves -/
theorem add_target_processes_rules :
    addTargetProcessesRules = true ∧ ruleMapWriters = ["denyAll", "parseAccessRule"] := by decide

/-- every error return of `ProcessAccessRules` is directly preceded by the installation of an allow list without
blocks (D16) — `c12.decide` / `c12.tcp` / `c12.gate` / `c12.grpc` / `c12.multi`: malformed options of every error
class at every position of the list, judged by "denies everybody" -/
theorem process_fails_closed :
    processErrorReturns = processErrorReturnsFailClosed ∧ 0 < processErrorReturns ∧
    denyAllInstallsEmptyAllowList = true := by decide

end Fabio.Props.C12Pins
