import Fabio.Props.C03
import Fabio.Props.C13
import Fabio.Model.C13Table
/-!
C13 ∘ C03 — the redirect a request receives, stated on C03's model of `Table.Lookup`.

C03's `Lookup` (Model/C03.lean) takes the redirect self-skip as the parameter `Cfg.skip`. Here it is
instantiated with C13's predicate — the per-request redirect URL (`buildRedirectURL`) has the request's own
scheme (`reqScheme`: `X-Forwarded-Proto`, else the connection), host and path — and the two loops
(`C03.lookupHosts`, `C13.lookupLoop`) are shown to be the same loop.

What a table target looks like to the redirect code (its parsed URL, `strip`, `prepend`, the redirect code)
is the parameter `view : Route.Target → C13.RTarget` (`url.Parse` of the target URL and `addTarget`'s
option handling; `Model.C13.redirectCode` is the code part).
-/
namespace Fabio.Props.C13Compose
open Fabio Fabio.Model

/-! The definitions (`CReq`, `scheme`, `skipFor`, `cfgFor`, `Lookup`, `answer`, `cands`) live in
`Model/C13Table.lean` since round 4: the driver of `c13.http` executes them on the dumped table of every case. -/
export Fabio.Model.C13Table (CReq scheme skipFor cfgFor Lookup answer cands)

/-! ### the two loops are one loop -/

theorem lookupHosts_refines (view : Route.Target → C13.RTarget) (q : CReq)
    (look : Route.Str → Option (Route.Route × Route.Target)) (hs : List Route.Str) :
    (C03.lookupHosts look (skipFor view q) hs none).map (fun x => view x.2.2) =
      (C13.lookupLoop (scheme q) q.url (hs.map (fun h => (look h).map (fun p => view p.2)))).map (·.1) := by
  induction hs with
  | nil => simp [C03.lookupHosts, C13.lookupLoop]
  | cons h hs ih =>
    simp only [C03.lookupHosts, List.map_cons]
    cases hl : look h with
    | none => simpa [C13.lookupLoop] using ih
    | some p =>
      obtain ⟨r, tg⟩ := p
      simp only [Option.map_some, C13.lookupLoop]
      by_cases hc : (view tg).code = 0
      · simp [skipFor, hc]
      · by_cases hs' : C13.selfRedirect (C13.buildRedirectURL (view tg) q.url) (scheme q) q.url = true
        · simpa [skipFor, hc, hs'] using ih
        · simp [skipFor, hc, hs']

/-- **C03's `Lookup` with C13's skip selects the target C13's `lookup` selects** on the candidate list built
from C03's host list and C03's per-host `lookup`. -/
theorem lookup_refines (cfg : C03.Cfg) (view : Route.Target → C13.RTarget) (t : Route.Table) (q : CReq) :
    (Lookup cfg view t q).map (fun x => view x.2.2) =
      (C13.lookup (scheme q) q.url (cands cfg view t q)).map (·.1) := by
  unfold Lookup C03.Lookup C13.lookup cands
  exact lookupHosts_refines view q _ _

/-! ### the redirect comes from a matching route -/

/-- **redirect_answer_is_from_matching_route.** A request that is answered with a redirect gets the status
and the `Location` of a target that `Lookup` selected from a route which matches the request in C03's
sense: the route's host key is empty or matches the request host, the route belongs to that key, its path
matches under the configured matcher, the target is one of the route's targets — and that target is a
redirect target whose URL does not point back at the request. -/
theorem redirect_answer_is_from_matching_route (cfg : C03.Cfg) (view : Route.Target → C13.RTarget)
    (t : Route.Table) (q : CReq) (hpick : Props.C03.PickOK cfg.pick) {code : Int} {loc : C13.Str}
    (ha : answer cfg view t q = some (code, loc)) :
    ∃ h r tg, Lookup cfg view t q = some (h, r, tg) ∧
      (h = [] ∨ Props.C03.HostMatches cfg t q.r03 h) ∧ r ∈ t.get (lowerL h) ∧
      cfg.pathMatch q.r03.path r.path = true ∧ tg ∈ r.targets ∧
      code = (view tg).code ∧ code ≠ 0 ∧ loc = C13.location (view tg) q.url ∧
      C13.selfRedirect (C13.buildRedirectURL (view tg) q.url) (scheme q) q.url = false := by
  unfold answer at ha
  split at ha
  · rename_i h r tg hres
    split at ha
    · rename_i hc
      simp only [Option.some.injEq, Prod.mk.injEq] at ha
      obtain ⟨rfl, rfl⟩ := ha
      have hs := Props.C03.lookup_sound (cfgFor cfg view q) t q.r03 hpick hres
      have hk := Props.C03.skipped_redirect_never_returned (cfgFor cfg view q) t q.r03 hres
      refine ⟨h, r, tg, hres, hs.1, hs.2.1, hs.2.2.1, hs.2.2.2, rfl, hc, rfl, ?_⟩
      have : skipFor view q tg = false := hk
      simpa [skipFor, hc] using this
    · cases ha
  · cases ha

/-! ### a self-redirect falls to the next matching host -/

/-- every host in `pre` has no matching route or its route is a skipped self-redirect -/
def AllSkippedOrNone (look : Route.Str → Option (Route.Route × Route.Target)) (skip : Route.Target → Bool)
    (pre : List Route.Str) : Prop :=
  ∀ x ∈ pre, look x = none ∨ ∃ r tg, look x = some (r, tg) ∧ skip tg = true

theorem lookupHosts_first_unskipped {look : Route.Str → Option (Route.Route × Route.Target)} {skip : Route.Target → Bool}
    (pre : List Route.Str) (k : Route.Str) (post : List Route.Str) {r : Route.Route} {tg : Route.Target}
    (hpre : AllSkippedOrNone look skip pre) (hk : look k = some (r, tg)) (hns : skip tg = false) :
    C03.lookupHosts look skip (pre ++ k :: post) none = some (k, r, tg) := by
  induction pre with
  | nil => simp [C03.lookupHosts, hk, hns]
  | cons x xs ih =>
    have ih := ih (fun y hy => hpre y (List.mem_cons_of_mem _ hy))
    rcases hpre x (by simp) with hx | ⟨r', tg', hx, hsk⟩
    · simp only [List.cons_append, C03.lookupHosts, hx]; exact ih
    · simp only [List.cons_append, C03.lookupHosts, hx, hsk, if_true]; exact ih

theorem lookupHosts_all_skipped {look : Route.Str → Option (Route.Route × Route.Target)} {skip : Route.Target → Bool}
    (hs : List Route.Str) (h : AllSkippedOrNone look skip hs) : C03.lookupHosts look skip hs none = none := by
  induction hs with
  | nil => rfl
  | cons x xs ih =>
    have ih := ih (fun y hy => h y (List.mem_cons_of_mem _ hy))
    rcases h x (by simp) with hx | ⟨r', tg', hx, hsk⟩
    · simp only [C03.lookupHosts, hx]; exact ih
    · simp only [C03.lookupHosts, hx, hsk, if_true]; exact ih

/-- **self_redirect_falls_to_next_matching_host.** Let the matched host keys, in C03's specificity order, be
`pre ++ k :: post`, where every key of `pre` either has no route for the request path or its route is a
redirect back to the request itself, and `k` has a route whose target is not such a self-redirect. Then the
request is answered by `k`'s route — the *next host in the host list that has a matching route* — and `k`
stands after every skipped key in the specificity order (`hostOrd`: exact before wildcard, then C03's
reverse-host order). -/
theorem self_redirect_falls_to_next_matching_host (cfg : C03.Cfg) (view : Route.Target → C13.RTarget)
    (t : Route.Table) (q : CReq) (pre post : List Route.Str) (k : Route.Str) {r : Route.Route} {tg : Route.Target}
    (hm : Props.C03.matched cfg t q.r03 = pre ++ k :: post)
    (hpre : AllSkippedOrNone (Props.C03.look cfg t q.r03) (skipFor view q) pre)
    (hk : Props.C03.look cfg t q.r03 k = some (r, tg)) (hns : skipFor view q tg = false) :
    Lookup cfg view t q = some (k, r, tg) ∧ ∀ x ∈ pre, Lemmas.C03.hostOrd x k := by
  constructor
  · unfold Lookup C03.Lookup
    have hl : C03.hostList (cfgFor cfg view q) t q.r03 = pre ++ k :: (post ++ [[]]) := by
      have := Props.C03.hostList_eq (cfgFor cfg view q) t q.r03
      rw [this]
      have hm' : Props.C03.matched (cfgFor cfg view q) t q.r03 = pre ++ k :: post := hm
      rw [hm']; simp
    rw [hl]
    exact lookupHosts_first_unskipped pre k _ hpre hk hns
  · intro x hx
    have hp := Props.C03.matched_pairwise cfg t q.r03
    rw [hm] at hp
    exact (List.pairwise_append.1 hp).2.2 x hx k (by simp)

/-- …and when every matched host key is skipped or has no route, the host-less routes (the trailing `""` of
the host list) answer, if they hold a target that is not itself a self-redirect. -/
theorem self_redirect_falls_to_hostless_routes (cfg : C03.Cfg) (view : Route.Target → C13.RTarget)
    (t : Route.Table) (q : CReq) {r : Route.Route} {tg : Route.Target}
    (hpre : AllSkippedOrNone (Props.C03.look cfg t q.r03) (skipFor view q) (Props.C03.matched cfg t q.r03))
    (hk : Props.C03.look cfg t q.r03 [] = some (r, tg)) (hns : skipFor view q tg = false) :
    Lookup cfg view t q = some ([], r, tg) := by
  unfold Lookup C03.Lookup
  have hl : C03.hostList (cfgFor cfg view q) t q.r03 = Props.C03.matched cfg t q.r03 ++ [] :: [] :=
    Props.C03.hostList_eq (cfgFor cfg view q) t q.r03
  rw [hl]
  exact lookupHosts_first_unskipped _ [] [] hpre hk hns

/-! ### a matching host that is no self-redirect is never passed over (round 4) -/

theorem lookupHosts_some_of_mem {look : Route.Str → Option (Route.Route × Route.Target)} {skip : Route.Target → Bool}
    (hs post : List Route.Str) {k : Route.Str} {r : Route.Route} {tg : Route.Target}
    (hk : k ∈ hs) (hl : look k = some (r, tg)) (hns : skip tg = false) :
    ∃ h r' tg', C03.lookupHosts look skip (hs ++ post) none = some (h, r', tg') ∧ h ∈ hs ∧
      look h = some (r', tg') ∧ skip tg' = false := by
  induction hs with
  | nil => cases hk
  | cons x xs ih =>
    simp only [List.cons_append, C03.lookupHosts]
    cases hx : look x with
    | none =>
      have hk' : k ∈ xs := by
        rcases List.mem_cons.1 hk with rfl | h
        · rw [hx] at hl; cases hl
        · exact h
      obtain ⟨h, r', tg', e, hm, hl', hs'⟩ := ih hk'
      exact ⟨h, r', tg', e, List.mem_cons_of_mem _ hm, hl', hs'⟩
    | some p =>
      obtain ⟨r0, t0⟩ := p
      by_cases hsk : skip t0 = true
      · have hk' : k ∈ xs := by
          rcases List.mem_cons.1 hk with rfl | h
          · rw [hx] at hl; cases hl; rw [hns] at hsk; cases hsk
          · exact h
        obtain ⟨h, r', tg', e, hm, hl', hs'⟩ := ih hk'
        simp only [hsk, if_true]
        exact ⟨h, r', tg', e, List.mem_cons_of_mem _ hm, hl', hs'⟩
      · have hsk' : skip t0 = false := by simpa using hsk
        simp only [hsk', Bool.false_eq_true, if_false]
        exact ⟨x, r0, t0, rfl, by simp, hx, hsk'⟩

/-- **next_matching_host_is_tried.** The property's last sentence read the other way round: if *some* host key that
matches the request (a key of C03's host list, whatever its position) has a route for the request path whose
target is no redirect back to the request itself, the request is answered from a matching host key — never by
the host-less routes and never with "no route" — and the answering target is itself no self-redirect. (This is
the statement `Model.C13Table.specAnswered` evaluates on the real proxy's answer in `c13.http`; the seeded change
that made `matchingHostNoGlob` return only the first matching key breaks exactly this.) -/
theorem next_matching_host_is_tried (cfg : C03.Cfg) (view : Route.Target → C13.RTarget) (t : Route.Table) (q : CReq)
    {k : Route.Str} {r : Route.Route} {tg : Route.Target}
    (hk : k ∈ Props.C03.matched cfg t q.r03) (hl : Props.C03.look cfg t q.r03 k = some (r, tg))
    (hns : skipFor view q tg = false) :
    ∃ h r' tg', Lookup cfg view t q = some (h, r', tg') ∧ h ∈ Props.C03.matched cfg t q.r03 ∧
      Props.C03.look cfg t q.r03 h = some (r', tg') ∧ skipFor view q tg' = false := by
  unfold Lookup C03.Lookup
  have hl' : C03.hostList (cfgFor cfg view q) t q.r03 = Props.C03.matched cfg t q.r03 ++ [[]] :=
    Props.C03.hostList_eq (cfgFor cfg view q) t q.r03
  rw [hl']
  exact lookupHosts_some_of_mem (Props.C03.matched cfg t q.r03) [[]] hk hl hns

/-- … in particular a plain (non-redirect) route under a matching host key always wins over the host-less routes,
whatever redirects stand before it -/
theorem plain_route_under_matching_host_is_reached (cfg : C03.Cfg) (view : Route.Target → C13.RTarget) (t : Route.Table)
    (q : CReq) {k : Route.Str} {r : Route.Route} {tg : Route.Target}
    (hk : k ∈ Props.C03.matched cfg t q.r03) (hl : Props.C03.look cfg t q.r03 k = some (r, tg))
    (hplain : (view tg).code = 0) :
    ∃ h r' tg', Lookup cfg view t q = some (h, r', tg') ∧ h ∈ Props.C03.matched cfg t q.r03 :=
  let ⟨h, r', tg', e, hm, _, _⟩ := next_matching_host_is_tried cfg view t q hk hl (by simp [skipFor, hplain])
  ⟨h, r', tg', e, hm⟩

/-! ### no redirect loop -/

/-- **no_redirect_loop_for_single_route.** If every route that matches the request — under any key of the
host list, the host-less fallback included — redirects to the request's own scheme, host and path (in
particular: a table whose only matching route does), the request is *not* redirected: `Lookup` yields no
target and the proxy answers with the no-route status (404 by default).

Before the repair b42ae83 this held only when the self-redirecting route sat under a matched host key;
a host-less route (`route add r / https://$host$path opts "redirect=301"`, HTTPS request) was still
answered and the client looped. -/
theorem no_redirect_loop_for_single_route (cfg : C03.Cfg) (view : Route.Target → C13.RTarget)
    (t : Route.Table) (q : CReq)
    (hall : AllSkippedOrNone (Props.C03.look cfg t q.r03) (skipFor view q) (C03.hostList cfg t q.r03)) :
    Lookup cfg view t q = none ∧ answer cfg view t q = none := by
  have h1 : Lookup cfg view t q = none := by
    unfold Lookup C03.Lookup
    exact lookupHosts_all_skipped _ hall
  exact ⟨h1, by simp [answer, h1]⟩

/-- A redirect is never answered with the request's own scheme, host and path (as the code compares them:
on the URL record, whose path is absolute since 391a8b7). -/
theorem answered_redirect_is_not_a_self_redirect (cfg : C03.Cfg) (view : Route.Target → C13.RTarget)
    (t : Route.Table) (q : CReq) {h : Route.Str} {r : Route.Route} {tg : Route.Target}
    (hres : Lookup cfg view t q = some (h, r, tg)) (hc : (view tg).code ≠ 0) :
    C13.selfRedirect (C13.buildRedirectURL (view tg) q.url) (scheme q) q.url = false := by
  have hk : skipFor view q tg = false :=
    Props.C03.skipped_redirect_never_returned (cfgFor cfg view q) t q.r03 hres
  simpa [skipFor, hc] using hk

/-! ### non-vacuity: a two-route table, the HTTPS redirect of the documentation and a fallback -/

namespace Ex
open Fabio.Model.Route

def redirectTg : Target := { service := "redir".toList, tags := [], opts := [("redirect".toList, "301".toList)], url := "https://example.com/".toList, fixedWeight := 0 }
def appTg : Target := { service := "app".toList, tags := [], opts := [], url := "http://127.0.0.1:3000/".toList, fixedWeight := 0 }

/-- `route add redir example.com/ https://example.com/ opts "redirect=301"` and `route add app / http://127.0.0.1:3000/` -/
def T : Table :=
  [("example.com".toList, [{ host := "example.com".toList, path := "/".toList, targets := [redirectTg] }]),
   ([], [{ host := [], path := "/".toList, targets := [appTg] }])]

def view (tg : Target) : C13.RTarget :=
  if tg.service == "redir".toList then
    { url := { scheme := C13.lit "https", host := C13.lit "example.com", path := C13.lit "/" }, code := C13.redirectCode (C13.lit "301") }
  else { url := { scheme := C13.lit "http", host := C13.lit "127.0.0.1:3000", path := C13.lit "/" } }

def cfg : C03.Cfg :=
  { globMatch := fun p s => p == s, pathMatch := fun uri p => p.isPrefixOf uri, pick := fun r => r.targets.headD appTg, globDisabled := true }

def q (tls : Bool) : CReq :=
  { r03 := { host := "example.com".toList, tls := tls, path := "/".toList }, url := { host := C13.lit "example.com", path := C13.lit "/" }, xfp := [] }

/-- plain HTTP: redirected to HTTPS -/
example : answer cfg view T (q false) = some (301, C13.lit "https://example.com/") := by decide
/-- HTTPS (no `X-Forwarded-Proto`): the redirect would point at the request itself, the fallback answers (D18) -/
example : answer cfg view T (q true) = none ∧ (Lookup cfg view T (q true)).map (·.2.2.service) = some "app".toList := by decide
/-- HTTPS and no fallback route: no route, not a loop (D18c) -/
example : Lookup cfg view (T.take 1) (q true) = none := by decide

/-- the documented pair `example.com:80/ → https redirect`, `example.com/ → app` next to a host-less route, host globs
disabled, `X-Forwarded-Proto: https`: both keys match, the redirect is skipped, `example.com` answers (seeded m11's input) -/
def T2 : Table :=
  [("example.com:80".toList, [{ host := "example.com:80".toList, path := "/".toList, targets := [redirectTg] }]),
   ("example.com".toList, [{ host := "example.com".toList, path := "/".toList, targets := [appTg] }]),
   ([], [{ host := [], path := "/".toList, targets := [{ appTg with service := "other".toList }] }])]

def qx : CReq := { q false with xfp := C13.lit "https" }

example : Props.C03.matched cfg T2 qx.r03 = ["example.com:80".toList, "example.com".toList] ∧
    skipFor view qx redirectTg = true ∧
    (Lookup cfg view T2 qx).map (fun x => (x.1, x.2.2.service)) = some ("example.com".toList, "app".toList) := by decide

end Ex

end Fabio.Props.C13Compose
