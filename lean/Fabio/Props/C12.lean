import Fabio.Model.C12Parse
import Fabio.Lemmas.C12
/-!
C12 — access rules and route authentication gate every request: property theorems.

All statements about rule texts and peers hold for **every** `Parsers` (whatever `ParseIP`, `ParseCIDR`,
`SplitHostPort` do); the concrete parsers appear only in the non-vacuity examples.
-/
namespace Fabio.Props.C12
open Fabio Fabio.Model.C12 Fabio.Lemmas.C12

/-! ### Containment is prefix equality -/

/-- An IPv4 block (`a.b.c.d/n`, stored with a 4-byte number and mask) contains exactly the addresses that are
IPv4 after Go's unmapping and share the leading `n` bits. -/
theorem contains_v4_iff (nn ones : Nat) (ip : IP) (hn : nn < 2^32) (ho : ones ≤ 32) (hip : ip.wf) :
    (IPNet.contains { ip := { v6 := false, val := nn }, bits := 32, ones := ones } ip = true) ↔
      ∃ v, ip.to4 = some v ∧ nn >>> (32 - ones) = v >>> (32 - ones) := by
  have hv : ∀ v, ip.to4 = some v → v < 2^32 := by
    intro v h
    unfold IP.to4 at h
    split at h
    · split at h
      · cases h; exact Nat.mod_lt _ (by decide)
      · cases h
    · cases h; simpa [IP.wf, *] using hip
  simp only [IPNet.contains, IPNet.numberAndMask, IP.to4]
  simp only [Bool.false_eq_true, ↓reduceIte]
  cases h4 : ip.to4 with
  | none => simp [IP.to4] at h4 ⊢; split <;> simp_all
  | some v =>
    have := masked_eq_iff_prefix_eq nn v ones 32 hn (hv v h4) ho
    simp only [IP.to4] at h4
    split <;> simp_all

/-- An IPv6 block (16-byte number outside `::ffff:0:0/96`) contains exactly the addresses that are *not*
IPv4 after unmapping and share the leading `n` bits; an IPv4 peer is never inside an IPv6 block. -/
theorem contains_v6_iff (nn ones : Nat) (ip : IP) (hn : nn < 2^128) (ho : ones ≤ 128) (hip : ip.wf)
    (h6 : (IP.to4 { v6 := true, val := nn }) = none) :
    (IPNet.contains { ip := { v6 := true, val := nn }, bits := 128, ones := ones } ip = true) ↔
      ip.to4 = none ∧ nn >>> (128 - ones) = ip.val >>> (128 - ones) := by
  simp only [IPNet.contains, IPNet.numberAndMask, h6]
  simp only [↓reduceIte]
  cases h4 : ip.to4 with
  | some v => simp
  | none =>
    have hv6 : ip.v6 = true := by
      unfold IP.to4 at h4; split at h4
      · assumption
      · cases h4
    have hlt : ip.val < 2^128 := by simpa [IP.wf, hv6] using hip
    have := masked_eq_iff_prefix_eq nn ip.val ones 128 hn hlt ho
    simp_all

/-- An IPv4-mapped block (`::ffff:a.b.c.d/n` with `n ≥ 96`, stored by `ParseCIDR` with a 16-byte number inside
`::ffff:0:0/96` and a 16-byte mask) is the IPv4 block `a.b.c.d/(n-96)`: it contains exactly the addresses that are
IPv4 after unmapping and share the leading `n - 96` bits of the 32 — Go cuts number and mask to their last four
bytes. (Up to round 3 this case was only compared case by case.) -/
theorem contains_mapped_iff (nn ones : Nat) (ip : IP) (hn : nn < 2^32) (h1 : 96 ≤ ones) (h2 : ones ≤ 128)
    (hip : ip.wf) :
    (IPNet.contains { ip := { v6 := true, val := 0xffff <<< 32 + nn }, bits := 128, ones := ones } ip = true) ↔
      ∃ v, ip.to4 = some v ∧ nn >>> (128 - ones) = v >>> (128 - ones) := by
  have hv : ∀ v, ip.to4 = some v → v < 2^32 := by
    intro v h
    unfold IP.to4 at h
    split at h
    · split at h
      · cases h; exact Nat.mod_lt _ (by decide)
      · cases h
    · cases h; simpa [IP.wf, *] using hip
  obtain ⟨m1, m2⟩ := mapped_val nn hn
  have hto4 : IP.to4 { v6 := true, val := 0xffff <<< 32 + nn } = some nn := by
    simp only [IP.to4, m1, m2, ↓reduceIte]
  have hsub : 32 - (ones - 96) = 128 - ones := by omega
  simp only [IPNet.contains, IPNet.numberAndMask, hto4, cidrMask_low32 ones h1 h2]
  simp only [Nat.reduceEqDiff, ↓reduceIte]
  cases h4 : ip.to4 with
  | none => simp
  | some v =>
    have := masked_eq_iff_prefix_eq nn v (ones - 96) 32 hn (hv v h4) (by omega)
    rw [hsub] at this
    simp [this]

/-! ### Allow and deny lists -/

/-- An allow list admits only addresses inside one of its blocks. -/
theorem allow_admits_only_inside (r : Rules) (bs : List IPNet) (ip : IP)
    (ha : r.allow = some bs) (h : denyByIP r (some ip) = false) : ∃ b ∈ bs, b.contains ip = true := by
  simp [denyByIP, Rules.isEmpty, ha] at h
  exact h

/-- … and it admits every address inside one of its blocks (the list is not stricter than written). -/
theorem allow_admits_inside (r : Rules) (bs : List IPNet) (ip : IP) (b : IPNet)
    (ha : r.allow = some bs) (hb : b ∈ bs) (hc : b.contains ip = true) : denyByIP r (some ip) = false := by
  simp [denyByIP, Rules.isEmpty, ha]
  exact ⟨b, hb, hc⟩

/-- A deny list rejects every address inside one of its blocks. -/
theorem deny_rejects_inside (r : Rules) (bs : List IPNet) (ip : IP) (b : IPNet)
    (ha : r.allow = none) (hd : r.deny = some bs) (hb : b ∈ bs) (hc : b.contains ip = true) :
    denyByIP r (some ip) = true := by
  simp [denyByIP, Rules.isEmpty, ha, hd]
  exact ⟨b, hb, hc⟩

/-- … and only those. -/
theorem deny_rejects_only_inside (r : Rules) (bs : List IPNet) (ip : IP)
    (ha : r.allow = none) (hd : r.deny = some bs) (h : denyByIP r (some ip) = true) :
    ∃ b ∈ bs, b.contains ip = true := by
  simp [denyByIP, Rules.isEmpty, ha, hd] at h
  exact h

/-- No rules: nobody is denied ("empty means unrestricted"). -/
theorem no_rules_admits (P : Parsers) (r : Rules) (he : r.isEmpty = true) (remote : List Char)
    (xff : List (List Char)) (p : TCPPeer) :
    accessDeniedHTTP P r remote xff = false ∧ accessDeniedTCP r p = false := by
  simp [accessDeniedHTTP, accessDeniedTCP, he]

/-! ### HTTP: the peer and every X-Forwarded-For element -/

/-- A request that is admitted while rules exist has a peer address that could be split, parsed and passed
the rules. -/
theorem http_admitted_peer_checked (P : Parsers) (r : Rules) (remote : List Char) (xff : List (List Char))
    (hr : r.isEmpty = false) (h : accessDeniedHTTP P r remote xff = false) :
    ∃ host ip, P.splitHostPort remote = some host ∧ P.parseIP (stripZone host) = some ip ∧
      denyByIP r (some ip) = false := by
  simp only [accessDeniedHTTP, hr] at h
  simp only [Bool.false_eq_true, ↓reduceIte] at h
  cases hs : P.splitHostPort remote with
  | none => simp [hs] at h
  | some host =>
    simp only [hs] at h
    cases hp : P.parseIP (stripZone host) with
    | none => simp [hp, denyByIP, hr] at h
    | some ip =>
      refine ⟨host, ip, rfl, hp, ?_⟩
      simp only [hp] at h
      split at h
      · cases h
      · simpa using ‹¬ denyByIP r (some ip) = true›

/-- Every element of every X-Forwarded-For header line that is an address and differs from the peer host is
subject to the same rules as the peer: if the request is admitted, each of them passed `denyByIP`. -/
theorem xff_every_element_checked (P : Parsers) (r : Rules) (remote host : List Char)
    (xff : List (List Char)) (hr : r.isEmpty = false) (hs : P.splitHostPort remote = some host)
    (h : accessDeniedHTTP P r remote xff = false) :
    ∀ line ∈ xff, ∀ x ∈ splitOn ',' line, trimSpace x ≠ host →
      ∀ ip, P.parseIP (stripZone (trimSpace x)) = some ip → denyByIP r (some ip) = false := by
  intro line hl x hx hne ip hp
  simp only [accessDeniedHTTP, hr, hs] at h
  simp only [Bool.false_eq_true, ↓reduceIte] at h
  have hx' : xffDenied P r host (xffElems xff) = false := by
    split at h
    · cases h
    · exact h
  refine xffDenied_false_all P r host _ hx' x ?_ hne ip hp
  simp only [xffElems, List.mem_flatMap]
  exact ⟨line, hl, hx⟩

/-- Combined with the allow list: on an admitted request every such element lies inside an allow block. -/
theorem xff_allow_inside (P : Parsers) (r : Rules) (bs : List IPNet) (remote host : List Char)
    (xff : List (List Char)) (ha : r.allow = some bs) (hs : P.splitHostPort remote = some host)
    (h : accessDeniedHTTP P r remote xff = false) :
    ∀ line ∈ xff, ∀ x ∈ splitOn ',' line, trimSpace x ≠ host →
      ∀ ip, P.parseIP (stripZone (trimSpace x)) = some ip → ∃ b ∈ bs, b.contains ip = true := by
  intro line hl x hx hne ip hp
  have hr : r.isEmpty = false := by simp [Rules.isEmpty, ha]
  exact allow_admits_only_inside r bs ip ha (xff_every_element_checked P r remote host xff hr hs h line hl x hx hne ip hp)

/-! ### Unparsable peers fail closed -/

/-- Rules exist and the peer address cannot be determined (RemoteAddr does not split, or the host is not an
address even after cutting an IPv6 zone): denied. (Before the repair of D16b both cases were admitted.) -/
theorem unparsable_peer_fails_closed (P : Parsers) (r : Rules) (remote : List Char) (xff : List (List Char))
    (hr : r.isEmpty = false)
    (hbad : P.splitHostPort remote = none ∨
            ∃ host, P.splitHostPort remote = some host ∧ P.parseIP (stripZone host) = none) :
    accessDeniedHTTP P r remote xff = true := by
  rcases hbad with h | ⟨host, h1, h2⟩
  · simp [accessDeniedHTTP, hr, h]
  · simp [accessDeniedHTTP, hr, h1, h2, denyByIP]

theorem unparsable_peer_fails_closed_tcp (r : Rules) (hr : r.isEmpty = false) :
    accessDeniedTCP r .notTCP = true ∧ accessDeniedTCP r (.addr none) = true := by
  simp [accessDeniedTCP, hr, denyByIP]

/-- A zone-scoped peer is judged by its address: the zone does not influence the decision. -/
theorem zone_is_ignored (s z : List Char) (hs : ∀ c ∈ s, c ≠ '%') :
    stripZone (s ++ '%' :: z) = s := by
  induction s with
  | nil => simp [stripZone]
  | cons c cs ih =>
    have hc : c ≠ '%' := hs c (by simp)
    have := ih (fun c' h' => hs c' (by simp [h']))
    simp [stripZone, hc] at this ⊢
    exact this

/-! ### A rule that cannot be parsed never widens access -/

/-- `parseAccessRule` appends: what was in the map before stays (this is the partial state an error leaves). -/
theorem parseItems_prefix (P : Parsers) (cs : List (List Char)) (acc : List IPNet) :
    ∃ more, (parseItems P cs acc).1 = acc ++ more := by
  induction cs generalizing acc with
  | nil => exact ⟨[], by simp [parseItems]⟩
  | cons c cs ih =>
    simp only [parseItems]
    split
    · exact ⟨[], by simp⟩
    · rename_i n _
      obtain ⟨m, hm⟩ := ih (acc ++ [n])
      exact ⟨n :: m, by simp [hm]⟩

/-- If processing the options fails — whatever the reason and wherever in the list — the target denies every
request and every connection: peer, header and zone do not matter. -/
theorem unparsable_rule_never_widens (P : Parsers) (allow deny : List Char) (e : RuleErr)
    (h : (processAccessRules P allow deny).2 = some e) :
    (∀ remote xff, accessDeniedHTTP P (processAccessRules P allow deny).1 remote xff = true) ∧
    (∀ p, accessDeniedTCP (processAccessRules P allow deny).1 p = true) := by
  have hr : (processAccessRules P allow deny).1 = Rules.denyAll := by
    unfold processAccessRules at h ⊢
    split
    · rfl
    · rename_i r heq; simp [heq] at h
  rw [hr]
  constructor
  · intro remote xff
    simp only [accessDeniedHTTP, Rules.denyAll, Rules.isEmpty]
    simp only [Option.isNone_some, Bool.false_and, Bool.false_eq_true, ↓reduceIte]
    cases P.splitHostPort remote with
    | none => rfl
    | some host =>
      simp only
      cases P.parseIP (stripZone host) <;> simp [denyByIP, Rules.isEmpty]
  · intro p
    cases p with
    | notTCP => simp [accessDeniedTCP, Rules.denyAll, Rules.isEmpty]
    | addr ip => cases ip <;> simp [accessDeniedTCP, Rules.denyAll, Rules.isEmpty, denyByIP]

/-- Allow and deny on the same route is such an error. -/
theorem allow_and_deny_together_denies (P : Parsers) (allow deny : List Char)
    (ha : allow ≠ []) (hd : deny ≠ []) :
    processAccessRules P allow deny = (Rules.denyAll, some .both) := by
  cases allow with
  | nil => exact absurd rfl ha
  | cons a as =>
    cases deny with
    | nil => exact absurd rfl hd
    | cons d ds => simp [processAccessRules, processRaw]

/-- Processing succeeds only if every item parsed, and then the map holds one block per item. -/
theorem parseItems_ok_length (P : Parsers) (cs : List (List Char)) (acc : List IPNet)
    (h : (parseItems P cs acc).2 = none) : (parseItems P cs acc).1.length = acc.length + cs.length := by
  induction cs generalizing acc with
  | nil => simp [parseItems]
  | cons c cs ih =>
    simp only [parseItems] at h ⊢
    split
    · rename_i e he; simp [he] at h
    · rename_i n hn
      simp only [hn] at h
      rw [ih _ h]; simp; omega

/-- The behaviour before the repair of D16 (`processRaw`: the error is only logged and the partial map is
used) does widen access: there are options whose processing fails and which then admit every request. -/
theorem unrepaired_widens :
    ∃ (P : Parsers) (allow : List Char) (e : RuleErr), (processRaw P allow []).2 = some e ∧
      ∀ remote xff, accessDeniedHTTP P (processRaw P allow []).1 remote xff = false := by
  refine ⟨Parse.goParsers, "ip:10.0.0.0/33".toList, .badCIDR, by decide, ?_⟩
  intro remote xff
  have : (processRaw Parse.goParsers "ip:10.0.0.0/33".toList []).1 = {} := by decide
  rw [this]; rfl

/-! ### Authentication -/

/-- A route that names a scheme which is not registered rejects every request. -/
theorem unknown_scheme_rejects {σ} (scheme : List Char) (schemes : List (List Char × σ)) (verdict : σ → Bool)
    (hne : scheme ≠ []) (hu : schemes.lookup scheme = none) : authorized scheme schemes verdict = false := by
  cases scheme with
  | nil => exact absurd rfl hne
  | cons c cs => simp [authorized, hu]

/-- A route without `auth=` needs no credentials. -/
theorem no_scheme_admits {σ} (schemes : List (List Char × σ)) (verdict : σ → Bool) :
    authorized [] schemes verdict = true := by
  simp [authorized]

/-- Otherwise the verdict is exactly the scheme's. -/
theorem known_scheme_decides {σ} (scheme : List Char) (schemes : List (List Char × σ)) (verdict : σ → Bool)
    (s : σ) (hne : scheme ≠ []) (hk : schemes.lookup scheme = some s) :
    authorized scheme schemes verdict = verdict s := by
  cases scheme with
  | nil => exact absurd rfl hne
  | cons c cs => simp [authorized, hk]

/-- Basic authentication without credentials, or with a password that is not the stored one, is refused. -/
theorem basic_requires_matching_secret (secrets : List (List Char × List Char))
    (cred : Option (List Char × List Char)) (h : basicVerdict secrets cred = true) :
    ∃ u p, cred = some (u, p) ∧ secrets.lookup u = some p := by
  cases cred with
  | none => simp [basicVerdict] at h
  | some up => exact ⟨up.1, up.2, rfl, by simpa [basicVerdict] using h⟩

/-- The decision on a request depends only on that request's credentials and the htpasswd file in force:
whatever happened on the scheme instance before (valid logins, failed attempts, repeated attempts, reloads),
two histories that leave the same file in force judge the next attempt alike, namely by `basicVerdict`. -/
theorem auth_decision_depends_only_on_attempt (s1 s2 : List (List Char × List Char)) (h1 h2 : List AuthOp)
    (c : Option (List Char × List Char)) (hf : fileAfter s1 h1 = fileAfter s2 h2) :
    (runAuth s1 (h1 ++ [.attempt c])).getLast? = (runAuth s2 (h2 ++ [.attempt c])).getLast? ∧
    (runAuth s1 (h1 ++ [.attempt c])).getLast? = some (basicVerdict (fileAfter s1 h1) c) := by
  rw [runAuth_append_attempt, runAuth_append_attempt, hf]
  simp

/-- In particular a pair that is not in the file is refused even directly after a valid login whose user and
password concatenate to the same text. -/
theorem colliding_pair_refused (secrets : List (List Char × List Char)) (h : List AuthOp)
    (u p : List Char) (hn : (fileAfter secrets h).lookup u ≠ some p) :
    (runAuth secrets (h ++ [.attempt (some (u, p))])).getLast? = some false := by
  rw [runAuth_append_attempt]
  simp [basicVerdict, hn]

/-! ### The gate comes before the upstream -/

/-- If lookup, access check and authentication all precede the first upstream contact in the statement order,
then an upstream is contacted only for a request that found a route, was not denied and was authorized. The
statement order of the four proxies is regenerated from the source and fed to this theorem in `C12Facts`. -/
theorem gate_before_upstream (env : Env) (ss : List Step)
    (ho : gateOrdered [.lookup, .access, .auth] ss = true) (h : (runGate env ss false).2 = true) :
    env.found = true ∧ env.denied = false ∧ env.authorized = true := by
  have hp := runGate_contact env ss h
  simp only [gateOrdered, List.all_cons, List.all_nil, Bool.and_true, Bool.and_eq_true,
    List.contains_iff_mem] at ho
  obtain ⟨h1, h2, h3⟩ := ho
  have a := hp _ h1; have b := hp _ h2; have c := hp _ h3
  simp [passes] at a b c
  exact ⟨a, b, c⟩

/-- A route with `redirect=` is answered by fabio itself. If lookup, access check and authentication precede
the redirect answer in the statement order, a request receives the redirect (status 3xx and the Location of
the protected destination) only if it found the route, was not denied and was authorized — a refused request
gets 403/401, never 3xx. -/
theorem gate_before_redirect (env : Env) (ss : List Step) (c : Bool)
    (ho : redirectOrdered [.lookup, .access, .auth] ss = true) (h : (runGate env ss c).1 = .redirected) :
    env.found = true ∧ env.denied = false ∧ env.authorized = true := by
  have hp := runGate_redirected env ss c h
  simp only [redirectOrdered, List.all_cons, List.all_nil, Bool.and_true, Bool.and_eq_true,
    List.contains_iff_mem] at ho
  obtain ⟨h1, h2, h3⟩ := ho
  have a := hp _ h1; have b := hp _ h2; have c' := hp _ h3
  simp [passesR] at a b c'
  exact ⟨a, b, c'⟩

/-- … and a redirect route never contacts an upstream. -/
theorem redirect_route_no_upstream (env : Env) (hr : env.redirect = true) :
    (runGate env [.lookup, .access, .auth, .redirect, .upstream] false).2 = false := by
  cases hf : env.found <;> cases hd : env.denied <;> cases ha : env.authorized <;> simp [runGate, hr, hf, hd, ha]

/-- The TCP proxies have no authentication step: lookup and access check precede the dial. -/
theorem gate_before_upstream_tcp (env : Env) (ss : List Step)
    (ho : gateOrdered [.lookup, .access] ss = true) (h : (runGate env ss false).2 = true) :
    env.found = true ∧ env.denied = false := by
  have hp := runGate_contact env ss h
  simp only [gateOrdered, List.all_cons, List.all_nil, Bool.and_true, Bool.and_eq_true,
    List.contains_iff_mem] at ho
  obtain ⟨h1, h2⟩ := ho
  have a := hp _ h1; have b := hp _ h2
  simp [passes] at a b
  exact ⟨a, b⟩

/-- A denied or unauthorized request gets 403 resp. 401 in the coded order (and, by the theorem above, no
upstream). -/
theorem denied_gets_403 (env : Env) (hf : env.found = true) (hd : env.denied = true) :
    runGate env [.lookup, .access, .auth, .redirect, .upstream] false = (.forbidden, false) := by
  simp [runGate, hf, hd]

theorem unauthorized_gets_401 (env : Env) (hf : env.found = true) (hd : env.denied = false)
    (ha : env.authorized = false) :
    runGate env [.lookup, .access, .auth, .redirect, .upstream] false = (.unauthorized, false) := by
  simp [runGate, hf, hd, ha]

/-! ### Non-vacuity -/
section examples
open Parse

private def rulesOf (a d : String) : Rules := (processAccessRules goParsers a.toList d.toList).1

-- allow list: inside admitted, outside denied, mapped peer judged as IPv4
example : accessDeniedHTTP goParsers (rulesOf "ip:10.0.0.0/8,ip:fe80::/10" "") "10.1.2.3:80".toList [] = false := by decide
example : accessDeniedHTTP goParsers (rulesOf "ip:10.0.0.0/8" "") "[::ffff:10.1.2.3]:80".toList [] = false := by decide
example : accessDeniedHTTP goParsers (rulesOf "ip:10.0.0.0/8" "") "9.9.9.9:80".toList [] = true := by decide
-- zone-scoped peers are judged by their address (D16b)
example : accessDeniedHTTP goParsers (rulesOf "ip:fe80::/10" "") "[2001::1%eth0]:1".toList [] = true := by decide
example : accessDeniedHTTP goParsers (rulesOf "ip:fe80::/10" "") "[fe80::1%eth0]:1".toList [] = false := by decide
-- X-Forwarded-For: a later element, and an element on a second header line, are checked
example : accessDeniedHTTP goParsers (rulesOf "ip:10.0.0.0/8" "") "10.1.2.3:80".toList ["10.2.2.2, 9.9.9.9".toList] = true := by decide
example : accessDeniedHTTP goParsers (rulesOf "ip:10.0.0.0/8" "") "10.1.2.3:80".toList ["10.2.2.2".toList, "9.9.9.9".toList] = true := by decide
example : accessDeniedHTTP goParsers (rulesOf "" "ip:9.9.9.0/24") "10.1.2.3:80".toList ["10.2.2.2 , 10.1.2.3,garbage".toList] = false := by decide
-- deny list
example : accessDeniedTCP (rulesOf "" "ip:1.2.3.4") (.addr (some ⟨false, 0x01020304⟩)) = true := by decide
example : accessDeniedTCP (rulesOf "" "ip:1.2.3.4") (.addr (some ⟨false, 0x01020305⟩)) = false := by decide
-- malformed options deny everybody (D16)
example : (processAccessRules goParsers "ip:10.0.0.0/33".toList []).2 = some .badCIDR := by decide
example : (processAccessRules goParsers "foo:1.2.3.4".toList []).2 = some .unknownType := by decide
example : (processAccessRules goParsers [] "ip:bad,ip:1.2.3.4".toList).2 = some .badIP := by decide
example : (processAccessRules goParsers "1.2.3.4".toList []).2 = some .noColon := by decide
example : accessDeniedHTTP goParsers (rulesOf "ip:10.0.0.0/33" "") "10.1.2.3:80".toList [] = true := by decide
-- the partial state `parseAccessRule` leaves: the first block is in the map when the second item fails
example : (parseItems goParsers (splitOn ',' "ip:1.2.3.4,ip:bad".toList) []).1.length = 1 := by decide
-- hypotheses of the containment theorems are satisfiable
example : IPNet.contains ⟨⟨false, 0x0a000000⟩, 32, 8⟩ ⟨true, 0xffff0a010203⟩ = true := by decide
example : IPNet.contains ⟨⟨true, 0xfe80 <<< 112⟩, 128, 10⟩ ⟨true, (0xfe80 <<< 112) + 1⟩ = true := by decide
example : IPNet.contains ⟨⟨true, 0⟩, 128, 0⟩ ⟨false, 0x01020304⟩ = false := by decide
-- the mapped block ::ffff:1.2.3.0/120 is 1.2.3.0/24, as the parser stores it and as the theorem states it
example : parseCIDR "::ffff:1.2.3.0/120".toList = some ⟨⟨true, 0xffff <<< 32 + 0x01020300⟩, 128, 120⟩ := by decide
example : IPNet.contains ⟨⟨true, 0xffff <<< 32 + 0x01020300⟩, 128, 120⟩ ⟨false, 0x01020304⟩ = true := by decide
example : IPNet.contains ⟨⟨true, 0xffff <<< 32 + 0x01020300⟩, 128, 120⟩ ⟨true, 0xffff01020399⟩ = true := by decide
example : IPNet.contains ⟨⟨true, 0xffff <<< 32 + 0x01020300⟩, 128, 120⟩ ⟨false, 0x01020404⟩ = false := by decide
-- authentication
example : authorized "nope".toList [("basic".toList, ())] (fun _ => true) = false := by decide
example : authorized "basic".toList [("basic".toList, ())] (fun _ => basicVerdict [("u".toList, "p".toList)] (some ("u".toList, "p".toList))) = true := by decide
-- gate order
example : gateOrdered [.lookup, .access, .auth] [.lookup, .access, .auth, .redirect, .upstream] = true := by decide
example : redirectOrdered [.lookup, .access, .auth] [.lookup, .access, .auth, .redirect, .upstream] = true := by decide
example : redirectOrdered [.lookup, .access, .auth] [.lookup, .redirect, .access, .auth, .upstream] = false := by decide
example : (runGate ⟨true, false, true, true⟩ [.lookup, .access, .auth, .redirect, .upstream] false) = (.redirected, false) := by decide
example : (runGate ⟨true, true, true, true⟩ [.lookup, .redirect, .access, .auth, .upstream] false) = (.redirected, false) := by decide
-- the sequence the colliding-key cache got wrong: a/bc logs in, then ab/c is refused
example : runAuth [("a".toList, "bc".toList)] [.attempt (some ("a".toList, "bc".toList)), .attempt (some ("ab".toList, "c".toList)),
    .attempt (some ([], "abc".toList)), .reload [("ab".toList, "c".toList)], .attempt (some ("ab".toList, "c".toList)),
    .attempt (some ("a".toList, "bc".toList))] = [true, false, false, true, false] := by decide
example : gateOrdered [.lookup, .access] [.lookup, .upstream, .access] = false := by decide
example : (runGate ⟨true, false, true, false⟩ [.lookup, .access, .auth, .redirect, .upstream] false) = (.served, true) := by decide
end examples

end Fabio.Props.C12
