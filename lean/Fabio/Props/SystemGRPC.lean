import Fabio.Props.System
import Fabio.Props.C16Compose
/-!
System-level composition for gRPC (round 4): the registry pipeline (C01 ∘ C14 ∘ C05) under the gRPC interceptor with the
real routing function (C16Compose: `intercept` over C03's `Lookup` on the synthetic request).

* `grpc_forwarded_only_to_eligible_instance` — on the service table of registry state R, every call the interceptor
  forwards goes to a backend that is the `route add` of a routing tag of an instance eligible (healthy) in R, stored under
  that tag's (host, path); the backend dialled (`w.call … = proxied k`) has that target's URL as its pool key;
* `grpc_unhealthy_backend_never_dialled`     — if no eligible instance advertises URL `u`, no call is proxied to pool key `u`.
-/
namespace Fabio.Props.SystemGRPC
open Fabio Fabio.Model Fabio.Model.C16 Fabio.Props.C16Compose
open Fabio.Model.Route (Env Table Target Route)
open Fabio.Model.C03 (Cfg)
open Fabio.Model.C05Spec (key newTarget)
open Fabio.Model.C01 Fabio.Model.C01Compose Fabio.Props.C01Compose
open Fabio.Model.C14 (intents wantDef)
open Fabio.Model.Parse (loadTable ParseFloat)
open Fabio.Lemmas.C14 (core)
open Fabio.Props.System (selected_target_in_abs inv_of_loadTable)

section
variable (env : Env) (pf : ParseFloat) (ccfg : Fabio.Model.C14.Cfg) (st : List (List Char)) (strict : Bool)
variable (checks : List Check) (catalog : List Char → List Instance)

theorem grpc_forwarded_only_to_eligible_instance (wf : WellFormed ccfg checks catalog) (t : Table)
    (hload : loadTable env pf (svcText env pf ccfg st strict checks catalog) = .ok t)
    (cfg : Cfg) (hpick : Props.C03.PickOK cfg.pick) (pp : List Char → Option (List Char)) (md : MD)
    (method p : List Char) (hp : pp method = some p) {h : List Char} {r : Route} {tg : Target}
    (hf : grpcIntercept cfg t pp md method = .forward (h, r, tg)) :
    ∃ i, Eligible st strict checks catalog i ∧
      ∃ it ∈ intents ccfg (regOf i), ∃ d u, wantDef pf it = some d ∧ env.normURL d.dst = some u ∧
        key d.src = (lowerL h, r.path) ∧ core tg = core (newTarget d u) := by
  obtain ⟨⟨_, hr, _⟩, htg⟩ := grpc_routed_to_matching_backend cfg t pp md method p hp hpick hf
  have hin := selected_target_in_abs (inv_of_loadTable hload) hr htg
  exact table_sound env pf ccfg st strict checks catalog wf t hload (lowerL h) r.path tg hin

theorem grpc_unhealthy_backend_never_dialled (wf : WellFormed ccfg checks catalog) (w : World)
    (hload : loadTable env pf (svcText env pf ccfg st strict checks catalog) = .ok w.table)
    (cfg : Cfg) (hpick : Props.C03.PickOK cfg.pick) (pp : List Char → Option (List Char)) (md : MD)
    (method p : List Char) (dialOK : Bool) (hp : pp method = some p) (u : List Char)
    (hnone : ∀ i, Eligible st strict checks catalog i → ∀ it ∈ intents ccfg (regOf i), ∀ d,
      wantDef pf it = some d → env.normURL d.dst ≠ some u)
    {w' : World} {k : List Char} {res : GetRes}
    (hc : w.call pp (lookupKey cfg) true md method dialOK = (w', .proxied k res)) : k ≠ u := by
  intro hk
  obtain ⟨h, r, tg, ⟨_, hr, _⟩, htg, hkey, _⟩ :=
    grpc_call_reaches_matching_backend cfg pp w md method p dialOK hp hpick hc
  have hin := selected_target_in_abs (inv_of_loadTable hload) hr htg
  obtain ⟨i, he, it, hit, d, u', hw, hu, _, hcore⟩ :=
    table_sound env pf ccfg st strict checks catalog wf w.table hload (lowerL h) r.path tg hin
  have hurl : tg.url = u' := by
    have := congrArg Target.url hcore
    simpa [core, newTarget] using this
  exact hnone i he it hit d hw (by rw [hu, ← hurl, ← hkey, hk])

end

/-! ### non-vacuity: the two-node registry of `C01Compose`; a call with `dsthost: foo.com` reaches n1's instance -/
namespace Demo
open Fabio.Props.C14 (envW pfW cfgW)
open Fabio.Props.C01Compose (checksW catalogW stW wellFormedW)
open Fabio.Props.System.Demo (tableW tableW_loads)

example : (match grpcIntercept Fabio.Props.C16Compose.Ex.cfg tableW some [("dsthost".toList, ["foo.com".toList])]
      "/svc.A/M".toList with
    | .forward a => decide (a.2.2.url = "http://10.0.0.1:8000/".toList) | _ => false) = true := by decide +kernel

end Demo

end Fabio.Props.SystemGRPC
