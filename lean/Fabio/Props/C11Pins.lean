import Fabio.Generated.C11
import Fabio.Model.C11Load
/-!
CHANGE DETECTORS for C11 (`"pins_module"` in checks/C11.json): the shape of sequential, deterministic code whose
input/output behaviour a correspondence stream compares with the model on every run. When one of these stops
building nothing is claimed broken — the streams run at the widened budget with a second seed and decide.
Each line names the stream that carries the tie.
-/
namespace Fabio.Props.C11Pins
open Fabio Fabio.Generated.C11

/-- one iteration of `watch` is `Model.C11.step true` (load; loader error → sleep, retry; unchanged → sleep, retry;
`loadCertificates`; its error → sleep, retry; send; `last = next`; return iff once) — `c11.watch`, `c11.source`
(calls / publications / return up to the first sleep, incl. "the most recent usable material is what was
published last"), `c11.watch_gap` (durations), `c11.e2e` -/
theorem watch_loop_is_the_step_machine :
    watchLoopEvents =
      ["load", "if load-error: sleep continue", "if unchanged: sleep continue", "make:loadCertificates",
       "if make-error: sleep continue", "send", "remember", "if once: return"] := by decide

/-- the one send of `watch` hands the certificates made from the material just loaded (also when the poll lives
in a helper) to the channel parameter — `c11.watch`, `c11.source` (published sets, in order) -/
theorem send_hands_on_the_made_certificates : watchSendsMadeCertsOnChannelParam = true := by decide

/-- `refresh` raised to `time.Second` before the loop, `once := refresh <= 0` evaluated before the floor —
`c11.watch_gap` (gaps ≥ max(refresh, 1 s) for refresh ∈ {0, −5, 1, 700, 1000, 1300} ms), `c11.watch` (return after
the first delivery iff refresh ≤ 0) -/
theorem sleeps_are_floored :
    refreshFloor = "time.Second" ∧ onceExpr = "refresh <= 0" ∧ onceBeforeFloor = true := by decide

/-- the requested `ServerName` and every index key pass through `strings.ToLower` — `c11.select` (mixed case on
both sides in 30 % of the names) -/
theorem names_lowered_on_both_sides :
    requestLowered = ["field:ServerName"] ∧ indexKeyWrites = 2 ∧ indexKeyWritesLowered = indexKeyWrites := by decide

/-- `loadCertificates` sorts the certificate file names once and builds its result from that slice; the suffix
tests in the modelled order — `c11.watch`, `c11.source` (published order = file-name order, shuffled materials) -/
theorem load_sorted_by_file_name :
    loadCertificatesSortCalls = 1 ∧ resultBuiltFromSortedFileNames = true ∧
    loadCertificatesSuffixes = ["-cert.pem", "-key.pem", ".pem"] := by decide

/-- the fetch of `loadURL` refuses everything but `200 OK` (`Model.C11.fetchBody true`) — `c11.loaders` (statuses
201 … 503 for the list and for every file), `c11.source`, `c11.e2e` -/
theorem fetch_accepts_only_200 : loadURLStatusTests = ["!= http.StatusOK"] := by decide

/-- the sources hand their own loader, URL / joined path and refresh interval to `watch`; `makePath` is
`filepath.Join` and nothing else (the path is looked up afresh by every load) — `c11.e2e` (real `HTTPSource` and
`PathSource` through the real `TLSConfig`, publication by re-pointing a link on the configured path) -/
theorem sources_hand_their_loader_to_watch :
    httpSourceWatchArgs = ["chan", "field:Refresh", "field:CertURL", "func:loadURL"] ∧
    pathSourceWatchArgs = ["chan", "field:Refresh", "call:makePath", "func:loadPath"] ∧
    makePathReturns = ["call:filepath.Join", "call:filepath.Join"] := by decide

/-- `main.makeTLSConfig` builds, for the one listener it is called for, one source from that listener's
`CertSource` and one `cert.TLSConfig` from that source and that listener's own `StrictMatch` / TLS options, and
touches no package-level state of package main (`Model.C11.Deployment`: one store per listener) — `c11.listeners`
(the real executable with several listeners on one source, different `strictmatch` settings, real handshakes) -/
theorem every_listener_builds_its_own_config :
    makeTLSConfigCalls =
      ["cert.NewSource(listener.CertSource)",
       "cert.TLSConfig(result:cert.NewSource, listener.StrictMatch, listener.TLSMinVersion, listener.TLSMaxVersion, listener.TLSCiphers)"] ∧
    makeTLSConfigPackageVars = [] := ⟨rfl, rfl⟩

end Fabio.Props.C11Pins
